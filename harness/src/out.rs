//! line protocol: one JSON object per line on stdout
use serde_json::{json, Value};
use std::io::Write;

pub struct Out {
    pub n: u64,
    w: std::io::BufWriter<Box<dyn Write>>,
}
impl Out {
    /// protocol lines go to the file named by TGH_OUT when set (the real code may print to stdout, e.g. in verbose
    /// mode), else to stdout
    pub fn new() -> Self {
        let sink: Box<dyn Write> = match std::env::var("TGH_OUT") {
            Ok(p) => Box::new(std::fs::File::create(p).expect("TGH_OUT")),
            Err(_) => Box::new(std::io::stdout()),
        };
        Out { n: 0, w: std::io::BufWriter::with_capacity(1 << 20, sink) }
    }
    /// run the real code on `input` (through `crate::exec`) and emit the request line
    pub fn case(&mut self, op: &str, input: Value, meta: Value) {
        // distinctness key: hash of the abstract input (before observations are added)
        let h = {
            use std::hash::{Hash, Hasher};
            let mut hs = std::collections::hash_map::DefaultHasher::new();
            op.hash(&mut hs);
            input.to_string().hash(&mut hs);
            format!("{:016x}", hs.finish())
        };
        // aborts (stack overflow, allocation failure) cannot be caught: leave a note of the case being run
        if let Ok(f) = std::env::var("TGH_CURRENT") {
            let _ = std::fs::write(&f, json!({"op": op, "in": input}).to_string());
        }
        let (input2, imp) = crate::exec(op, &input);
        let line = json!({"id": self.n, "op": op, "h": h, "in": input2, "impl": imp, "meta": meta});
        self.n += 1;
        serde_json::to_writer(&mut self.w, &line).unwrap();
        self.w.write_all(b"\n").unwrap();
    }
    pub fn finish(mut self) {
        self.w.flush().unwrap();
    }
}

/// run `f` catching panics; a panic becomes `{"panic": msg}`
pub fn guarded<F: FnOnce() -> Value>(f: F) -> Value {
    match std::panic::catch_unwind(std::panic::AssertUnwindSafe(f)) {
        Ok(v) => v,
        Err(e) => {
            let msg = if let Some(s) = e.downcast_ref::<&str>() {
                s.to_string()
            } else if let Some(s) = e.downcast_ref::<String>() {
                s.clone()
            } else {
                "panic".to_string()
            };
            json!({"panic": msg})
        }
    }
}

pub fn strs(v: &Value, k: &str) -> Vec<String> {
    v.get(k)
        .and_then(|a| a.as_array())
        .map(|a| a.iter().filter_map(|x| x.as_str().map(|s| s.to_string())).collect())
        .unwrap_or_default()
}
pub fn s(v: &Value, k: &str) -> String {
    v.get(k).and_then(|x| x.as_str()).unwrap_or("").to_string()
}
