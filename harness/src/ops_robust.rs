//! C15: no input makes analysis or generation panic; files that do not parse are isolated.
//! op `robustSrc`: a directory tree of raw texts through the real analyser and both generators.
use crate::out::{guarded, s, Out};
use crate::project::work_root;
use crate::rng::Rng;
use serde_json::{json, Value};
use std::collections::BTreeMap;
use std::path::{Path, PathBuf};
use tauri_typegen::analysis::CommandAnalyzer;
use tauri_typegen::generators::create_generator;
use tauri_typegen::GenerateConfig;

pub const GOOD: &str = r#"use serde::{Deserialize, Serialize};
#[derive(Serialize, Deserialize)]
pub struct GoodUser { pub id: u32, #[serde(rename = "fullName")] pub name: String, pub tags: Vec<String> }
#[derive(Serialize, Deserialize)]
pub enum GoodMode { Fast, Slow }
#[tauri::command]
pub fn good_get_user(id: u32, mode: GoodMode) -> Result<GoodUser, String> { todo!() }
#[tauri::command]
pub async fn good_notify(app: tauri::AppHandle, message: Option<String>) -> Result<(), String> {
    app.emit("good-event", GoodUser { id: 1, name: message.unwrap_or_default(), tags: vec![] }).ok();
    Ok(())
}
"#;

fn strip_ts(text: &str) -> String {
    text.lines().filter(|l| !l.starts_with(" * Generated at:")).collect::<Vec<_>>().join("\n")
}

/// deterministic text transformations of a corpus file
pub fn transform(text: &str, recipe: &Value) -> String {
    let mut t = text.to_string();
    if recipe.get("commandify").and_then(|x| x.as_bool()).unwrap_or(false) {
        let mut o = String::with_capacity(t.len() + 1024);
        for line in t.lines() {
            let l = line.trim_start();
            let top = !line.starts_with(' ') && !line.starts_with('\t');
            if top && (l.starts_with("pub fn ") || l.starts_with("fn ") || l.starts_with("pub async fn ") || l.starts_with("async fn ")) {
                o.push_str("#[tauri::command]\n");
            }
            if top && (l.starts_with("pub struct ") || l.starts_with("struct ") || l.starts_with("pub enum ") || l.starts_with("enum ")) {
                o.push_str("#[derive(Serialize, Deserialize)]\n");
            }
            o.push_str(line);
            o.push('\n');
        }
        t = o;
    }
    if let Some(n) = recipe.get("truncate").and_then(|x| x.as_u64()) {
        let mut k = (n as usize).min(t.len());
        while !t.is_char_boundary(k) {
            k -= 1;
        }
        t.truncate(k);
    }
    if let Some(ms) = recipe.get("mutate").and_then(|x| x.as_array()) {
        for m in ms {
            let pos = m["pos"].as_u64().unwrap_or(0) as usize;
            if t.is_empty() {
                break;
            }
            let mut k = pos % t.len();
            while !t.is_char_boundary(k) {
                k -= 1;
            }
            match m["kind"].as_str().unwrap_or("") {
                "del" => {
                    let ch = t[k..].chars().next();
                    if let Some(c) = ch {
                        t.replace_range(k..k + c.len_utf8(), "");
                    }
                }
                "ins" => t.insert_str(k, m["text"].as_str().unwrap_or("")),
                _ => {}
            }
        }
    }
    t
}

fn texts_of(input: &Value) -> Vec<(String, String)> {
    let mut v = Vec::new();
    for f in input["files"].as_array().cloned().unwrap_or_default() {
        let path = s(&f, "path");
        let base = match f.get("from").and_then(|x| x.as_str()) {
            Some(p) => std::fs::read(p).map(|b| String::from_utf8_lossy(&b).to_string()).unwrap_or_default(),
            None => s(&f, "text"),
        };
        let text = match f.get("recipe") {
            Some(r) => transform(&base, r),
            None => base,
        };
        v.push((path, text));
    }
    v
}

static CWD_LOCK: std::sync::Mutex<()> = std::sync::Mutex::new(());

/// analyse + generate (mode) on the given files; Ok(files by name) or Err(message)
fn run_once(root: &Path, files: &[(String, String)], mode: &str, style: u64) -> Result<(usize, BTreeMap<String, String>), String> {
    let src = root.join("src-tauri");
    let _ = std::fs::remove_dir_all(&src);
    for (p, t) in files {
        let fp = src.join(p);
        if let Some(d) = fp.parent() {
            let _ = std::fs::create_dir_all(d);
        }
        std::fs::write(&fp, t).map_err(|e| format!("harness write: {}", e))?;
    }
    let out_dir: PathBuf = root.join(format!("out_{}", mode));
    let _ = std::fs::remove_dir_all(&out_dir);
    let mut cfg = GenerateConfig::default();
    // the same directory under the spellings a user types: trailing separator, doubled separator, `/.`, `./` from the parent
    let plain = src.to_string_lossy().to_string();
    let _cwd_guard = CWD_LOCK.lock().unwrap_or_else(|e| e.into_inner());
    let old_cwd = std::env::current_dir().ok();
    cfg.project_path = match style {
        1 => format!("{}/", plain),
        2 => format!("{}//", plain),
        3 => format!("{}/.", plain),
        4 => { let _ = std::env::set_current_dir(root); "./src-tauri".to_string() }
        5 => { let _ = std::env::set_current_dir(root); "src-tauri/".to_string() }
        6 => plain.replacen("/src-tauri", "//src-tauri", 1),
        _ => plain,
    };
    struct Back(Option<PathBuf>);
    impl Drop for Back { fn drop(&mut self) { if let Some(d) = &self.0 { let _ = std::env::set_current_dir(d); } } }
    let _back = Back(old_cwd);
    cfg.output_path = if style == 1 || style == 5 { format!("{}/", out_dir.to_string_lossy()) } else { out_dir.to_string_lossy().to_string() };
    cfg.validation_library = mode.to_string();
    let mut analyzer = CommandAnalyzer::new();
    let commands = analyzer.analyze_project(&cfg.project_path).map_err(|e| e.to_string())?;
    let mut files_out = BTreeMap::new();
    if !commands.is_empty() {
        let mut generator = create_generator(Some(mode.to_string()));
        let list = generator
            .generate_models(&commands, analyzer.get_discovered_structs(), &cfg.output_path, &analyzer, &cfg)
            .map_err(|e| e.to_string())?;
        for n in list {
            if let Ok(t) = std::fs::read_to_string(out_dir.join(&n)) {
                files_out.insert(n, strip_ts(&t));
            }
        }
        // the dependency visualisation (`--visualize-deps`) walks the type graph on its own
        files_out.insert("dependency-graph.txt".into(), analyzer.visualize_dependencies(&commands));
        files_out.insert("dependency-graph.dot".into(), analyzer.generate_dot_graph(&commands));
    }
    Ok((commands.len(), files_out))
}

pub fn exec_robust(input: &Value) -> (Value, Value) {
    let files = texts_of(input);
    let root = work_root("rob");
    let with_good = input.get("good").and_then(|x| x.as_bool()).unwrap_or(true);
    let mut all: Vec<(String, String)> = files.clone();
    if with_good {
        all.push(("good_fixed.rs".to_string(), GOOD.to_string()));
    }
    let style = input.get("path_style").and_then(|x| x.as_u64()).unwrap_or(0);
    let unparsable: Vec<bool> = all.iter().map(|(p, t)| p.ends_with(".rs") && syn::parse_file(t).is_err()).collect();
    let n_bad = unparsable.iter().filter(|b| **b).count();
    let imp = guarded(|| {
        let mut o = serde_json::Map::new();
        o.insert("n_files".into(), json!(all.len()));
        o.insert("n_unparsable".into(), json!(n_bad));
        o.insert("bytes".into(), json!(all.iter().map(|x| x.1.len()).sum::<usize>()));
        let mut isolated = true;
        for mode in ["none", "zod"] {
            let full = run_once(&root, &all, mode, style);
            match &full {
                Ok((n, fs)) => {
                    o.insert(format!("{}_result", mode), json!("ok"));
                    o.insert(format!("{}_commands", mode), json!(n));
                    o.insert(format!("{}_files", mode), json!(fs.len()));
                }
                Err(e) => {
                    o.insert(format!("{}_result", mode), json!("err"));
                    o.insert(format!("{}_error", mode), json!(e.chars().take(200).collect::<String>()));
                }
            }
            if n_bad > 0 {
                let reduced: Vec<(String, String)> =
                    all.iter().zip(unparsable.iter()).filter(|(_, b)| !**b).map(|(f, _)| f.clone()).collect();
                let red = run_once(&root, &reduced, mode, style);
                let same = match (&full, &red) {
                    (Ok(a), Ok(b)) => a == b,
                    (Err(_), Err(_)) => true,
                    _ => false,
                };
                if !same {
                    isolated = false;
                }
            }
        }
        o.insert("isolated".into(), if n_bad > 0 { json!(isolated) } else { Value::Null });
        Value::Object(o)
    });
    let _ = std::fs::remove_dir_all(&root);
    // keep the request small: texts are not echoed, only the recipe
    (input.clone(), imp)
}

// ------------------------------------------------------------------------------------------ generators

const WS: &[&str] = &[" ", "  ", "\u{3000}", "\u{00a0}", "\u{2003}\u{2003}", "\t", "\u{3000}\u{3000}", "\u{85}"];
const WORDS: &[&str] = &[
    "rename", "rename_all", "_all", "skip", "message", "min", "max", "length", "range", "email", "url", "alias", "default",
    "skip_serializing_if", "camelCase", "snake_case", "=", ",", "(", ")", "\"", "\\\"", "'", "\\", "é", "日本", "🦀", "a\u{301}",
    "ß", "İ", "ǅ", "1", "-1.5", "1e3", "u64::MAX",
];

fn soup(rng: &mut Rng, n: usize) -> String {
    let mut o = String::new();
    for _ in 0..n {
        if rng.chance(1, 3) {
            o.push_str(WS[rng.below(WS.len())]);
        }
        o.push_str(WORDS[rng.below(WORDS.len())]);
    }
    o
}

/// a Rust string literal whose *value* is arbitrary soup
/// values aimed at the scanners' offset arithmetic: a keyword, a run of (multi-byte) white space, a continuation
fn trap(rng: &mut Rng) -> String {
    let kw = ["rename", "rename_all", "message", "min", "max", "length", "range", "skip", "email", "url"][rng.below(10)];
    let mut o = String::new();
    if rng.chance(1, 2) {
        o.push_str(WORDS[rng.below(WORDS.len())]);
    }
    o.push_str(kw);
    for _ in 0..rng.below(4) {
        o.push_str(WS[rng.below(WS.len())]);
    }
    o.push_str(["_all", "=", "(", "= \"", "_all = \"x\"", ")", ""][rng.below(7)]);
    for _ in 0..rng.below(3) {
        o.push_str(WORDS[rng.below(WORDS.len())]);
    }
    o
}

fn lit(rng: &mut Rng) -> String {
    let n = 1 + rng.below(5);
    let v = if rng.chance(1, 4) { trap(rng) } else { soup(rng, n) };
    if rng.chance(1, 4) && !v.contains("\"#") {
        format!("r#\"{}\"#", v.replace('\\', ""))
    } else {
        format!("{:?}", v)
    }
}

fn attr_payload(rng: &mut Rng) -> String {
    let mut parts: Vec<String> = Vec::new();
    for _ in 0..1 + rng.below(4) {
        let key = ["rename", "rename_all", "alias", "skip", "default", "message", "min", "max", "with", "skip_serializing_if", "email", "url", "length", "range", "custom", "regex"][rng.below(16)];
        parts.push(match rng.below(6) {
            0 => key.to_string(),
            1 => format!("{} = {}", key, lit(rng)),
            2 => format!("{}({} = {}, {} = {})", key, ["min", "max", "message", "code"][rng.below(4)], ["1", "-2.5", "0", "18446744073709551616", "1e400", "NaN", "nan", "inf", "-inf", "INFINITY", "f64::NAN", "1_000", "0x10"][rng.below(13)], ["message", "max"][rng.below(2)], lit(rng)),
            3 => format!("{}{}={}", key, WS[rng.below(2)], lit(rng)),
            4 => format!("{}({})", key, lit(rng)),
            _ => format!("{} = {}", key, ["1", "true", "path::to::f", "'x'", "b\"bytes\"", "1.5e3"][rng.below(6)]),
        });
    }
    parts.join(if rng.chance(1, 5) { " , " } else { ", " })
}

/// any attribute a Rust file may carry on an item, field, variant or parameter: well-known and unknown paths, with a
/// payload that need not be what the attribute's owner expects (syn accepts every balanced token tree)
fn odd_attr(rng: &mut Rng) -> String {
    let name = ["cfg_attr", "cfg", "derive", "doc", "allow", "repr", "serde", "validate", "tauri::command", "command", "specta::specta", "ts",
        "schemars", "non_exhaustive", "deprecated", "path", "must_use", "inline", "tokio::main", "cfg_attr", "cfg_attr",
        // attribute paths with a leading `::`, a single segment, many segments
        "::command", "::tauri::command", "::serde", "crate::macros::tauri::command", "::derive", "::validate"][rng.below(27)];
    let payload = match rng.below(12) {
        0 => "feature = \"serde\", derive(Serialize, Deserialize)".to_string(),
        1 => "feature = \"serde\" derive(Serialize)".to_string(),               // no top-level comma
        2 => "docsrs".to_string(),
        3 => "all(feature = \"a\", not(test)), serde(rename_all = \"camelCase\")".to_string(),
        4 => String::new(),
        5 => ",".to_string(),
        6 => "test, derive(Debug), derive(Serialize), serde(rename = \"x\")".to_string(),
        7 => format!("{}", lit(rng)),
        8 => attr_payload(rng),
        9 => "any(), ".to_string(),
        10 => "(((a)), [b, {c}])".to_string(),
        _ => format!("feature = {}, {}({})", lit(rng), ["derive", "serde", "validate", "doc"][rng.below(4)], attr_payload(rng)),
    };
    match rng.below(8) {
        0 => format!("#[{}]", name),
        1 => format!("#[{} = {}]", name, lit(rng)),
        2 => format!("#[{}[{}]]", name, payload),
        3 => format!("#[{}{{{}}}]", name, payload),
        _ => format!("#[{}({})]", name, payload),
    }
}

const EXOTIC_TYPES: &[&str] = &[
    "Vec<Option<HashMap<String, (u8, Vec<&'static str>)>>>", "&'a mut [u8]", "[u8; 32]", "[[f32; 4]; 4]", "fn(u8) -> u8", "Box<dyn Fn(&str) -> Result<(), E> + Send + 'static>",
    "impl Iterator<Item = u8>", "!", "*const u8", "<T as Trait>::Out", "std::collections::HashMap<String, Vec<u8>>", "Option<>", "Result<,>", "r#type", "Übergröße",
    "日本語", "Cow<'_, str>", "PhantomData<fn() -> T>", "(,)", "((), ((), ()))", "Option<Option<Option<Option<Option<Option<Option<Option<u8>>>>>>>>",
    "HashMap<(String, u8), Vec<(u8, u8)>>", "Result<Vec<(String, u8)>, Box<dyn std::error::Error>>", "tauri::State<'_, Mutex<HashMap<String, Vec<u8>>>>",
    "Channel<Result<(u8, String), String>>", "tauri::ipc::Channel<&'a [u8]>", "dyn Any", "Wrapper<{ N + 1 }>", "Array<T, 3>", "Self", "&Self", "_", "Option<impl Trait>",
    "Result<(String, Vec<Item>), ApiError<Code>>", "HashMap<(u8, Vec<u8>), Wrapper<Inner>>", "Result<HashMap<String, Vec<u8>>, Box<dyn Error<Code>>>", "Paginated<Vec<(u8, Item<T>)>>",
    "HashMap<Währung, f64>", "(Schlüssel, u8)", "Result<設定, Größe>", "BTreeMap<Ünit, Vec<Ünit>>",
    "Cow<str>", "Cow<'static, [u8]>", "Cow<>", "Box<>", "Arc<>", "Rc<str>", "Box<str>", "Arc<Mutex<>>", "Cow<'a>", "std::borrow::Cow<str>",
    "HashSet<>", "Vec<>>", "BTreeMap<String>", "Result<>", "HashMap<,>", "Option< String >", "Vec <u8>", "Result<String , >",
    // the framework's own generic types without / with odd arguments (`Channel` has a defaulted parameter)
    "Channel<>", "tauri::ipc::Channel<>", "Channel", "Channel<'a>", "Channel<u8, u8>", "State<>", "tauri::State<'_>", "Window<>", "AppHandle<>", "Channel<()>",
    "Option<'static>", "Option<'_>", "Result<Option<'a>, String>", "Vec<'a>", "Result<'a, 'b>", "HashMap<'a, 'b>", "Box<'static>",
    "Channel<(u64, u64)>", "Channel<[u8; 4]>", "Channel<&[u8]>", "std::option::Option<String>", "core::option::Option<u8>", "::std::option::Option<Vec<u8>>",
];

fn exotic_item(rng: &mut Rng, k: usize) -> String {
    let ty = |rng: &mut Rng| EXOTIC_TYPES[rng.below(EXOTIC_TYPES.len())].to_string();
    let idents = ["r#type", "r#fn", "übung", "名前", "_", "__", "a1", "self_", "Ünïcode", "x"];
    let id = |rng: &mut Rng| idents[rng.below(idents.len())].to_string();
    match [0, 1, 1, 1, 2, 2, 3, 4, 5, 6, 7, 8, 9, 9, 9, 10, 10, 11][rng.below(18)] {
        11 => {
            // type aliases, also such that the bare names form a cycle across two modules (each module's own `Batch` / `Key`
            // is a different type: valid Rust), reachable from a command
            format!("pub mod left_{k} {{\n    pub type Batch = Vec<super::right_{k}::Key>;\n    pub type Alone = Batch;\n}}\npub mod right_{k} {{\n    pub struct Batch;\n    pub type Key = Batch;\n}}\npub type Batch = Vec<Key>;\npub type Key = Batch;\npub type SelfRef = Option<Box<SelfRef>>;\n#[derive(Serialize, Deserialize)]\npub struct UsesAlias{k} {{ pub b: Batch, pub k: Key, pub s: SelfRef }}\n#[tauri::command]\npub fn alias_cmd_{k}(b: Batch, k: left_{k}::Batch) -> Key {{ todo!() }}\n", k = k)
        }
        10 => {
            // numeric validators with every spelling of a bound, on fields of number / string / list types, reachable from a command
            let nums = ["NaN", "nan", "inf", "-inf", "1e400", "-0.0", "5", "0", "-3.5", "18446744073709551616", "1E3", "f64::MAX", "u8::MAX as f64", "007", "+2"];
            let n = |rng: &mut Rng| nums[rng.below(nums.len())];
            format!("#[derive(Serialize, Deserialize, Validate)]\npub struct V{} {{\n    #[validate(range(min = {}, max = {}))]\n    pub a: f64,\n    #[validate(range(max = {}, min = {}))]\n    pub b: i32,\n    #[validate(length(min = {}, max = {}))]\n    pub c: String,\n    #[validate(length(max = {}))]\n    pub d: Vec<u8>,\n}}\n#[tauri::command]\npub fn use_v{}(v: V{}) {{}}\n",
                k, n(rng), n(rng), n(rng), n(rng), n(rng), n(rng), n(rng), k, k)
        }
        9 => format!("{}\n#[derive(Serialize, Deserialize)]\n{}\npub struct A{} {{ {} pub {}: {}, {} f: u8 }}\n{}\n#[derive(Serialize)]\npub enum AE{} {{ {} A, {} B(u8) }}\n{}\n#[tauri::command]\n{}\nfn attr_cmd_{}({} a: A{}, b: AE{}) {{}}\n",
            odd_attr(rng), odd_attr(rng), k, odd_attr(rng), id(rng), ty(rng), odd_attr(rng), odd_attr(rng), k, odd_attr(rng), odd_attr(rng), odd_attr(rng), odd_attr(rng), k, odd_attr(rng), k, k),
        0 => format!("#[tauri::command]\npub async fn cmd_{}<'a, T: Clone + 'a, const N: usize>({}: {}, {}: {}) -> {} where T: Send {{ todo!() }}\n", k, id(rng), ty(rng), id(rng), ty(rng), ty(rng)),
        1 => format!("#[derive(Serialize, Deserialize)]\n#[serde({})]\npub struct S{}<'a, T = ()> {{ #[serde({})] pub {}: {}, #[validate({})] pub f: {} }}\n", attr_payload(rng), k, attr_payload(rng), id(rng), ty(rng), attr_payload(rng), ty(rng)),
        2 => format!("#[derive(Serialize)]\n#[serde({})]\npub enum E{} {{ #[serde({})] A, B({}), C {{ x: {} }}, D = 7 }}\n", attr_payload(rng), k, attr_payload(rng), ty(rng), ty(rng)),
        3 => format!("macro_rules! m{} {{ ($($t:tt)*) => {{ $($t)* }}; }}\nm{}! {{ #[tauri::command] fn hidden_{}() {{}} }}\n", k, k, k),
        4 if rng.chance(1, 2) => {
            // the calls the event walker inspects, with every argument count and receiver form
            let recv = ["app", "window", "webview", "self.app", "self.window", "state.webview", "get_handle()", "app.clone()", "ctx.app_handle()", "w", "emitter"];
            let mut body = String::new();
            for _ in 0..1 + rng.below(4) {
                let m = ["emit", "emit_to", "emit_filter", "emit_str", "emit_all", "emit::<>", "emit::<Progress>", "emit::<_>", "emit_to::<_, Progress>", "emit_to::<_>", "emit_to::<>",
                    "emit::<Vec<(u8, String)>>", "emit::<'static, u8>"][rng.below(13)];
                let nargs = rng.below(5);
                let args: Vec<String> = (0..nargs).map(|q| match rng.below(5) {
                    0 => lit(rng),
                    1 => format!("\"ev-{}-{}\"", k, q),
                    2 => ["payload", "&payload", "()", "1u8", "S { x: 1 }", "vec![1, 2]", "None::<u8>", "|w| true"][rng.below(8)].to_string(),
                    3 => "EVENT_NAME".to_string(),
                    _ => format!("format!(\"ev-{{}}\", {})", q),
                }).collect();
                body.push_str(&format!("    {}.{}({}){};\n", recv[rng.below(recv.len())], m, args.join(", "), ["", ".ok()", ".unwrap()", "?"][rng.below(4)]));
            }
            // bindings of every pattern form in front of the emits (the symbol table is fed from them)
            let lets = ["let (first, .., last): (A, B) = pair;", "let (a, b): (u8,) = one;", "let [x, .., y] = arr;", "let Some(v) = maybe else { return Ok(()) };",
                "let S { x, .. }: S = s;", "let (a, (b, c)): (A, (B,)) = nested;", "let _: () = ();", "let ref mut r: Vec<u8> = v;", "let (.., z): () = ();",
                "let ((), payload): ((), Progress) = ((), p);", "let x: = 1;", "let &(a, b): &(u8, u8) = &t;", "let (a | a): u8 = 1;"];
            let mut pre = String::new();
            for _ in 0..rng.below(3) {
                let l = lets[rng.below(lets.len())];
                if l != "let x: = 1;" {
                    pre.push_str(&format!("    {}\n", l));
                }
            }
            format!("#[tauri::command]\nfn evx_{}(app: tauri::AppHandle, window: tauri::Window, webview: tauri::Webview, payload: u8) -> Result<(), String> {{\n{}{}    Ok(())\n}}\n", k, pre, body)
        }
        4 => format!("#[tauri::command]\nfn ev_{}(app: tauri::AppHandle, w: tauri::Window) {{ app.emit({}, {}).unwrap(); w.emit_to(\"main\", \"e{}\", ({}, 1)).ok(); let f = |x: u8| app.emit(\"closure-{}\", x); loop {{ break; }} }}\n",
            k, lit(rng), ["1u8", "\"s\"", "S{x:1}", "vec![1]", "&payload", "payload.clone()", "()", "None::<u8>", "m!(1)", "async { 1 }.await"][rng.below(10)], k, lit(rng), k),
        5 if rng.chance(1, 2) => format!("#[tauri::command({})]\npub fn argd_{}({}: {}) {{}}\n#[command({})]\nfn arge_{}() {{}}\n",
            ["rename_all = 1", "rename_all = C", "rename_all =", "rename_all = é", "rename_all", "rename_all = \"\"", "rename_all = \"x\"", "async, rename_all = 'c'", "root = crate, rename_all = snake_case",
             "rename_all = \"snake_case\", rename_all = 2", ",", "= 1", "rename_all(\"camelCase\")"][rng.below(13)], k, id(rng), ty(rng),
            ["rename_all = b\"x\"", "rename_all = 1.5", "async", "rename_all = -1"][rng.below(4)], k),
        5 => format!("#[cfg_attr(test, derive(Debug))]\n#[doc = {}]\n#[tauri::command(rename_all = \"snake_case\", async)]\npub(crate) unsafe extern \"C\" fn odd_{}({}: {}) {{}}\n", lit(rng), k, id(rng), ty(rng)),
        6 => format!("pub mod inner{} {{ #[tauri::command] pub fn nested_{}(a: {}) {{}} impl X {{ #[tauri::command] fn method(&self, a: {}) {{}} }} }}\n", k, k, ty(rng), ty(rng)),
        7 => format!("#[derive(Serialize, Deserialize)]\npub struct T{}(pub {}, {});\n#[derive(Serialize)] pub struct U{};\n#[derive(Deserialize)] pub union W{} {{ a: u8, b: u16 }}\n", k, ty(rng), ty(rng), k, k),
        _ => format!("#[tauri::command]\n#[serde({})]\nfn attr_{}(#[serde({})] {}: {}, #[allow(unused)] mut b: {}, (c, d): (u8, u8), S {{ x }}: S) -> impl Future<Output = {}> {{ async {{ todo!() }} }}\n", attr_payload(rng), k, attr_payload(rng), id(rng), ty(rng), ty(rng), ty(rng)),
    }
}

fn not_rust(rng: &mut Rng) -> String {
    let pool = [
        "# A markdown file\n\n```rust\nfn x() {}\n```\n", "{\"json\": true}", "fn (", "struct {", "#[tauri::command]\nfn broken(", "\u{feff}fn bom() {}", "",
        "\n\n\n", "fn a() { \"unterminated }", "/* unterminated", "#![feature(x)]\n#[tauri::command] fn ok_after_inner_attr() {}", "r#\"raw", "'", "日本語のテキスト",
        "fn x() { let s = 'ab'; }", "fn t() { let title = \"設定\" \"概要\"; }", "fn ü() { let größe = \"ö\" äö; }\n", "struct Ä { ß: \"é\" \"è\" }", "#[derive(Serialize)] struct A { x: }", "<?xml version=\"1.0\"?>", "#!/bin/sh\necho hi\n",
    ];
    let mut t = pool[rng.below(pool.len())].to_string();
    if rng.chance(1, 3) {
        t.push_str(&soup(rng, 5));
    }
    t
}

fn list_rs(dir: &Path, out: &mut Vec<String>) {
    let mut entries: Vec<_> = match std::fs::read_dir(dir) {
        Ok(r) => r.filter_map(|e| e.ok()).collect(),
        Err(_) => return,
    };
    entries.sort_by_key(|e| e.path());
    for e in entries {
        let p = e.path();
        if p.is_dir() {
            let n = p.file_name().map(|x| x.to_string_lossy().to_string()).unwrap_or_default();
            if n == "target" || n == ".git" {
                continue;
            }
            list_rs(&p, out);
        } else if p.extension().map(|x| x == "rs").unwrap_or(false) {
            out.push(p.to_string_lossy().to_string());
        }
    }
}

pub fn corpus_paths() -> Vec<String> {
    let mut v = Vec::new();
    list_rs(Path::new("/repo"), &mut v);
    let home = std::env::var("CARGO_HOME").unwrap_or_else(|_| format!("{}/.cargo", std::env::var("HOME").unwrap_or_else(|_| "/root".into())));
    list_rs(&Path::new(&home).join("registry").join("src"), &mut v);
    v
}

pub fn run(out: &mut Out, tier: &str, rng: &mut Rng) {
    let thorough = tier == "thorough";
    // 1. attribute payloads fuzzed at the char level inside otherwise valid items
    let n = if thorough { 20000 } else { 1500 };
    for i in 0..n {
        let k = 1 + rng.below(3);
        let mut t = String::from("use serde::{Serialize, Deserialize};\n");
        let mut names: Vec<String> = Vec::new();
        for j in 0..k {
            let it = exotic_item(rng, i * 4 + j);
            // the type names this item defines (discovery is lazy: they must be referenced to be analysed)
            for pre in ["pub struct ", "pub enum "] {
                for (pos, _) in it.match_indices(pre) {
                    let rest = &it[pos + pre.len()..];
                    let n: String = rest.chars().take_while(|c| c.is_alphanumeric() || *c == '_').collect();
                    if !n.is_empty() {
                        names.push(n);
                    }
                }
            }
            t.push_str(&it);
        }
        if names.len() >= 2 || (names.len() == 1 && rng.chance(1, 2)) {
            // a further struct whose fields mention the defined names in every container position, cycles included
            let pickn = |rng: &mut Rng| names[rng.below(names.len())].clone();
            let mut fields = String::new();
            for q in 0..2 + rng.below(4) {
                let a = pickn(rng);
                let b = pickn(rng);
                let t = match rng.below(10) {
                    0 => format!("Result<{}, {}>", a, b),
                    1 => format!("HashMap<{}, {}>", a, b),
                    2 => format!("Vec<{}>", a),
                    3 => format!("Option<Box<{}>>", a),
                    4 => format!("({}, {})", a, b),
                    5 => format!("BTreeMap<String, Vec<Link{}>>", i),          // self reference
                    6 => format!("Option<Result<Vec<{}>, {}>>", a, b),
                    7 => format!("({},)", a),
                    8 => format!("HashSet<{}>", a),
                    _ => a,
                };
                fields.push_str(&format!("    pub f{}: {},\n", q, t));
            }
            // a cycle of length two (Link <-> Back), and an error type that nothing else mentions
            fields.push_str(&format!("    pub back: Vec<Back{}>,\n    pub outcome: Result<{}, OnlyErr{}>,\n", i, pickn(rng), i));
            t.push_str(&format!("#[derive(Serialize, Deserialize)]\npub struct OnlyErr{} {{ pub code: i32 }}\n", i));
            t.push_str(&format!("#[derive(Serialize, Deserialize)]\npub struct Link{} {{\n{}}}\n", i, fields));
            // close a cycle of length two through the first defined struct when it is one of ours
            t.push_str(&format!("#[derive(Serialize, Deserialize)]\npub struct Back{} {{ pub up: Vec<Link{}>, pub peer: Option<Box<Back{}>> }}\n", i, i, i));
            t.push_str(&format!("#[derive(Serialize, Deserialize)]\npub struct Fwd{} {{ pub down: Vec<Back{}>, pub err: Result<Link{}, Back{}> }}\n", i, i, i, i));
            names.push(format!("Link{}", i));
            names.push(format!("Fwd{}", i));
        }
        if !names.is_empty() {
            let params: Vec<String> = names.iter().enumerate().map(|(q, n)| format!("p{}: {}", q, if q % 3 == 2 { format!("Vec<Option<{}>>", n) } else { n.clone() })).collect();
            t.push_str(&format!("#[tauri::command]\npub fn use_{}({}) -> Result<{}, String> {{ todo!() }}\n", i, params.join(", "), names[0]));
        }
        let fname = ["fuzz.rs", "fuzz.rs", "fuzz.rs", "übung.rs", "日本/モデル.rs", "a b/c d.rs", "legacy.rs/inner.rs", "ünit/mod.rs", "mod.rs", "🦀.rs"][rng.below(10)];
        let style = if rng.chance(1, 2) { 0 } else { rng.below(7) };
        out.case("robustSrc", json!({"files": [{"path": fname, "text": t}], "path_style": style}), json!({"gen": "grammar", "path_style": style}));
    }
    // 2. text that is not Rust next to good files, at several depths
    let n = if thorough { 2000 } else { 200 };
    for i in 0..n {
        let mut files = Vec::new();
        for j in 0..1 + rng.below(3) {
            let dir = ["", "a/", "a/b/", "deep/er/still/", "é/", "名前/x.rs/", "with space/"][rng.below(7)];
            files.push(json!({"path": format!("{}bad{}_{}.rs", dir, i, j), "text": not_rust(rng)}));
        }
        if rng.chance(1, 2) {
            files.push(json!({"path": "notes.txt", "text": not_rust(rng)}));
        }
        if rng.chance(1, 2) {
            files.push(json!({"path": format!("ok{}.rs", i), "text": exotic_item(rng, i)}));
        }
        let style = if rng.chance(1, 2) { 0 } else { rng.below(7) };
        out.case("robustSrc", json!({"files": files, "path_style": style}), json!({"gen": "notrust", "path_style": style}));
    }
    // 3. real-world corpus: the repository and the vendored dependency sources, as they are and transformed
    let paths = corpus_paths();
    let take: Vec<&String> = if thorough {
        paths.iter().collect()
    } else {
        // every repository file + a seed-rotated sample of the registry
        let step = 37usize;
        let off = rng.below(step);
        paths.iter().enumerate().filter(|(i, p)| p.starts_with("/repo") || i % step == off).map(|(_, p)| p).collect()
    };
    for (i, p) in take.iter().enumerate() {
        let len = std::fs::metadata(p).map(|m| m.len()).unwrap_or(0);
        if len > 400_000 {
            continue;
        }
        let name = format!("c{}.rs", i);
        out.case("robustSrc", json!({"files": [{"path": name, "from": p}]}), json!({"gen": "corpus"}));
        out.case("robustSrc", json!({"files": [{"path": name, "from": p, "recipe": {"commandify": true}}]}), json!({"gen": "corpus-commandify"}));
        if thorough || i % 3 == 0 {
            let cut = if len > 0 { rng.below(len as usize) } else { 0 };
            out.case("robustSrc", json!({"files": [{"path": name, "from": p, "recipe": {"commandify": true, "truncate": cut}}]}), json!({"gen": "corpus-truncate"}));
            let muts: Vec<Value> = (0..1 + rng.below(4)).map(|_| {
                if rng.chance(1, 2) {
                    json!({"kind": "del", "pos": rng.below(1 + len as usize)})
                } else {
                    json!({"kind": "ins", "pos": rng.below(1 + len as usize), "text": WORDS[rng.below(WORDS.len())]})
                }
            }).collect();
            out.case("robustSrc", json!({"files": [{"path": name, "from": p, "recipe": {"commandify": true, "mutate": muts}}]}), json!({"gen": "corpus-mutate"}));
        }
    }
}

/// group `attrfuzz`: the attribute scanners in isolation (ops `fieldAttrs`, `validator`, compared with the Lean
/// scanner models) on values aimed at their offset arithmetic
pub fn run_attrfuzz(out: &mut Out, tier: &str, rng: &mut Rng) {
    let n = if tier == "thorough" { 60000 } else { 6000 };
    let keys = ["alias", "rename", "rename_all", "default", "with", "skip_serializing_if", "deserialize_with", "bound"];
    for i in 0..n {
        if i % 2 == 0 {
            let mut items: Vec<Value> = Vec::new();
            for _ in 0..1 + rng.below(3) {
                let k = keys[rng.below(keys.len())];
                let v = if rng.chance(2, 3) { trap(rng) } else { let m = 1 + rng.below(4); soup(rng, m) };
                items.push(json!({"k": k, "v": v}));
            }
            let kind = if rng.chance(1, 4) { "variant" } else { "field" };
            let ident = if kind == "variant" { "FirstName" } else { "user_name" };
            let container: Vec<Value> = if rng.chance(1, 3) { vec![json!([{"k": "rename_all", "v": "camelCase"}])] } else { vec![] };
            out.case("fieldAttrs", json!({"kind": kind, "ident": ident, "container": container, "attrs": [items]}), json!({"gen": "trap"}));
        } else {
            let mut items: Vec<Value> = Vec::new();
            for _ in 0..1 + rng.below(2) {
                let k = ["length", "range", "email", "url", "custom", "regex"][rng.below(6)];
                let v = if rng.chance(2, 3) { trap(rng) } else { let m = 1 + rng.below(4); soup(rng, m) };
                let body = match rng.below(4) {
                    0 => format!("{}(min = 1, message = {:?})", k, v),
                    1 => format!("{}(message = {:?}, max = 5)", k, v),
                    2 => format!("{}(code = {:?}, min = 2, max = 3)", k, v),
                    _ => format!("{}(min = 1, max = 9, message = {:?}, code = {:?})", k, v, trap(rng)),
                };
                items.push(json!({"k": "other", "raw": body}));
            }
            let t = ["String", "i32", "VecString"][rng.below(3)];
            let rty = match t {
                "String" => json!({"k": "prim", "n": "String"}),
                "i32" => json!({"k": "prim", "n": "i32"}),
                _ => json!({"k": "vec", "t": {"k": "prim", "n": "String"}}),
            };
            out.case("validator", json!({"rty": rty, "attrs": [items]}), json!({"gen": "trap"}));
        }
    }
}
