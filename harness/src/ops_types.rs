//! C05 / C18 / C01 / C02 function-level ops on type expressions
use crate::out::{guarded, s, Out};
use crate::rng::Rng;
use crate::rty::{self, RTy};
use serde_json::{json, Value};
use std::collections::HashMap;
use std::path::Path;
use tauri_typegen::analysis::channel_parser::ChannelParser;
use tauri_typegen::analysis::command_parser::CommandParser;
use tauri_typegen::analysis::struct_parser::StructParser;
use tauri_typegen::analysis::type_resolver::TypeResolver;
use tauri_typegen::generators::base::template_context::{CommandContext, EventContext, FieldContext};
use tauri_typegen::generators::base::templates::TemplateRegistry;
use tauri_typegen::generators::base::type_visitor::TypeVisitor;
use tauri_typegen::generators::ts::templates::TypeScriptTemplate;
use tauri_typegen::generators::ts::type_visitor::TypeScriptVisitor;
use tauri_typegen::generators::zod::schema_builder::ZodSchemaBuilder;
use tauri_typegen::generators::zod::type_visitor::ZodVisitor;
use tauri_typegen::models::{CommandInfo, EventInfo, StructInfo};
use tauri_typegen::GenerateConfig;

thread_local! {
    static TERA: tera::Tera = TypeScriptTemplate::create_tera().expect("tera");
}

pub fn add_types_prefix(sx: &str) -> String {
    TERA.with(|t| {
        let f = t.get_filter("add_types_prefix").expect("filter");
        match f.filter(&tera::Value::String(sx.to_string()), &HashMap::new()) {
            Ok(tera::Value::String(o)) => o,
            other => format!("<filter error {:?}>", other),
        }
    })
}

pub fn parse_cmd(src: &str) -> Option<CommandInfo> {
    let ast = syn::parse_file(src).ok()?;
    let mut r = TypeResolver::new();
    let mut cmds = CommandParser::new().extract_commands_from_ast(&ast, Path::new("src/lib.rs"), &mut r).ok()?;
    if cmds.is_empty() {
        return None;
    }
    let mut c = cmds.remove(0);
    for item in &ast.items {
        if let syn::Item::Fn(f) = item {
            if f.sig.ident == c.name {
                c.channels = ChannelParser::new()
                    .extract_channels_from_command(f, &c.name, Path::new("src/lib.rs"), &mut r)
                    .ok()?;
            }
        }
    }
    Some(c)
}

pub fn parse_struct(src: &str) -> Option<StructInfo> {
    let ast = syn::parse_file(src).ok()?;
    let mut r = TypeResolver::new();
    for item in &ast.items {
        if let syn::Item::Struct(st) = item {
            return StructParser::new().parse_struct(st, Path::new("src/lib.rs"), &mut r);
        }
    }
    None
}

pub fn config_with(mappings: &Value) -> GenerateConfig {
    let mut cfg = GenerateConfig::default();
    if let Some(o) = mappings.as_object() {
        if !o.is_empty() {
            cfg.type_mappings =
                Some(o.iter().map(|(k, v)| (k.clone(), v.as_str().unwrap_or("").to_string())).collect());
        }
    }
    cfg
}

/// op `typeStr`: the three `type_to_string` variants on one type expression
pub fn exec_type_str(input: &Value) -> (Value, Value) {
    let imp = guarded(|| {
        let r = match RTy::from_json(&input["rty"]) {
            Some(r) => r,
            None => return json!({"error": "bad rty"}),
        };
        let t = r.render();
        let cmd = parse_cmd(&format!("#[tauri::command]\nfn f(x: {}) {{}}\n", t));
        let st = parse_struct(&format!("#[derive(Serialize)]\nstruct S {{ x: {} }}\n", t));
        let ch = parse_cmd(&format!("#[tauri::command]\nfn f(c: Channel<{}>) {{}}\n", t));
        json!({
            "cmd": cmd.and_then(|c| c.parameters.get(0).map(|p| p.rust_type.clone())),
            "strct": st.and_then(|s| s.fields.get(0).map(|f| f.rust_type.clone())),
            "chan": ch.and_then(|c| c.channels.get(0).map(|c| c.message_type.clone())),
        })
    });
    (input.clone(), imp)
}

/// op `parseTS`: TypeResolver::parse_type_structure on a string
pub fn exec_parse_ts(input: &Value) -> (Value, Value) {
    let imp = guarded(|| {
        let r = TypeResolver::new();
        json!({"ts": serde_json::to_value(r.parse_type_structure(&s(input, "s"))).unwrap()})
    });
    (input.clone(), imp)
}

/// op `prefix`: the `add_types_prefix` tera filter on a string
pub fn exec_prefix(input: &Value) -> (Value, Value) {
    let imp = guarded(|| json!({"out": add_types_prefix(&s(input, "s"))}));
    (input.clone(), imp)
}

/// op `site`: one type expression at one translation site, through the real parsers, resolver,
/// template-context builders, visitors / schema builder and filter
pub fn exec_site(input: &Value) -> (Value, Value) {
    let has_map = input["mappings"].as_object().map(|o| !o.is_empty()).unwrap_or(false);
    if has_map {
        // the same type at the same site without the mapping table (C18: "nothing else changes")
        let mut plain = input.clone();
        plain["mappings"] = json!({});
        let (_, base) = exec_site(&plain);
        let (in2, mut imp) = exec_site_inner(input);
        imp["rendered_nomap"] = base["rendered"].clone();
        return (in2, imp);
    }
    exec_site_inner(input)
}

fn exec_site_inner(input: &Value) -> (Value, Value) {
    let imp = guarded(|| {
        let r = match RTy::from_json(&input["rty"]) {
            Some(r) => r,
            None => return json!({"error": "bad rty"}),
        };
        let site = s(input, "site");
        let zod = s(input, "mode") == "zod";
        let cfg = config_with(&input["mappings"]);
        let t = r.render();
        let resolver = TypeResolver::new();
        let res = |x: &str| resolver.parse_type_structure(x);
        let tsv = TypeScriptVisitor::with_config(&cfg);
        let zv = ZodVisitor::with_config(&cfg);
        fn ctx_cmd<V: TypeVisitor>(
            cfg: &GenerateConfig,
            c: &CommandInfo,
            v: &V,
            res: &dyn Fn(&str) -> tauri_typegen::TypeStructure,
        ) -> CommandContext {
            CommandContext::new(cfg).from_command_info(c, v, res)
        }
        match site.as_str() {
            "param" => {
                let c = match parse_cmd(&format!("#[tauri::command]\nfn f(x: {}) {{}}\n", t)) {
                    Some(c) => c,
                    None => return json!({"error": "no command"}),
                };
                let ctx = if zod { ctx_cmd(&cfg, &c, &zv, &res) } else { ctx_cmd(&cfg, &c, &tsv, &res) };
                let p = match ctx.parameters.get(0) {
                    Some(p) => p,
                    None => return json!({"error": "no param"}),
                };
                let rendered = if zod {
                    ZodSchemaBuilder::new(&cfg).build_param_schema(&p.type_structure)
                } else {
                    p.typescript_type.clone()
                };
                json!({"str": p.rust_type, "ts": serde_json::to_value(&p.type_structure).unwrap(), "rendered": rendered})
            }
            "ret" => {
                let c = match parse_cmd(&format!("#[tauri::command]\nfn f() -> {} {{ todo!() }}\n", t)) {
                    Some(c) => c,
                    None => return json!({"error": "no command"}),
                };
                let ctx = if zod { ctx_cmd(&cfg, &c, &zv, &res) } else { ctx_cmd(&cfg, &c, &tsv, &res) };
                json!({"str": c.return_type, "ts": serde_json::to_value(&c.return_type_structure).unwrap(),
                       "rendered": add_types_prefix(&ctx.return_type_ts)})
            }
            "field" => {
                let st = match parse_struct(&format!("#[derive(Serialize)]\nstruct S {{ x: {} }}\n", t)) {
                    Some(c) => c,
                    None => return json!({"error": "no struct"}),
                };
                let f = match st.fields.get(0) {
                    Some(f) => f,
                    None => return json!({"error": "no field"}),
                };
                let rendered = if zod {
                    ZodSchemaBuilder::new(&cfg).build_schema(&f.type_structure, &None)
                } else {
                    FieldContext::new(&cfg).from_field_info(f, &None, &tsv).typescript_type
                };
                json!({"str": f.rust_type, "ts": serde_json::to_value(&f.type_structure).unwrap(), "rendered": rendered})
            }
            "chan" => {
                let c = match parse_cmd(&format!("#[tauri::command]\nfn f(c: Channel<{}>) {{}}\n", t)) {
                    Some(c) => c,
                    None => return json!({"error": "no command"}),
                };
                let ctx = if zod { ctx_cmd(&cfg, &c, &zv, &res) } else { ctx_cmd(&cfg, &c, &tsv, &res) };
                let ch = match c.channels.get(0) {
                    Some(x) => x,
                    None => return json!({"error": "no channel"}),
                };
                json!({"str": ch.message_type, "ts": serde_json::to_value(&ch.message_type_structure).unwrap(),
                       "rendered": ctx.channels[0].typescript_message_type})
            }
            _ => {
                // event payload: the payload type string is what the event parser recorded
                let c = match parse_cmd(&format!("#[tauri::command]\nfn f(x: {}) {{}}\n", t)) {
                    Some(c) => c,
                    None => return json!({"error": "no command"}),
                };
                let pstr = c.parameters.get(0).map(|p| p.rust_type.clone()).unwrap_or_default();
                let ev = EventInfo {
                    event_name: "e".into(),
                    payload_type: pstr.clone(),
                    payload_type_structure: resolver.parse_type_structure(&pstr),
                    file_path: "src/lib.rs".into(),
                    line_number: 1,
                };
                let ctx = if zod {
                    EventContext::new(&cfg).from_event_info(&ev, &zv, &res)
                } else {
                    EventContext::new(&cfg).from_event_info(&ev, &tsv, &res)
                };
                json!({"str": pstr, "ts": serde_json::to_value(&ev.payload_type_structure).unwrap(),
                       "rendered": add_types_prefix(&ctx.typescript_payload_type)})
            }
        }
    });
    (input.clone(), imp)
}

/// op `shape` (C10): the same type at the parameter and field sites in both output modes, plus the
/// interface-type rendering of the Zod visitor
pub fn exec_shape(input: &Value) -> (Value, Value) {
    let mut imp = serde_json::Map::new();
    for (site, mode) in [("param", "ts"), ("param", "zod"), ("field", "ts"), ("field", "zod")] {
        let mut i2 = input.clone();
        i2["site"] = json!(site);
        i2["mode"] = json!(mode);
        let (_, r) = exec_site_inner(&i2);
        if let Some(p) = r.get("panic") {
            return (input.clone(), json!({"panic": p}));
        }
        imp.insert(format!("{}_{}", mode, site), r.get("rendered").cloned().unwrap_or(Value::Null));
        if site == "field" && mode == "zod" {
            imp.insert("ts".into(), r.get("ts").cloned().unwrap_or(Value::Null));
        }
    }
    let iface = guarded(|| {
        let r = match RTy::from_json(&input["rty"]) {
            Some(r) => r,
            None => return json!(null),
        };
        let cfg = config_with(&input["mappings"]);
        let zv = ZodVisitor::with_config(&cfg);
        // the type string the resolver sees is the one `type_to_string` produces from the syn tree, not the source text
        let src = format!("#[derive(Serialize)]\nstruct S {{ x: {} }}\n", r.render());
        let st = match parse_struct(&src).and_then(|s| s.fields.get(0).map(|f| f.type_structure.clone())) {
            Some(t) => t,
            None => return json!(null),
        };
        json!(zv.visit_type_for_interface(&st))
    });
    imp.insert("zod_iface".into(), iface);
    (input.clone(), Value::Object(imp))
}

/// group `shapes` (C10)
pub fn run_shapes(out: &mut Out, tier: &str, rng: &mut Rng) {
    let (d, cap) = if tier == "thorough" { (3, 40) } else { (2, 12) };
    for r in rty::enumerate(d, &rty::leaves(false), cap) {
        out.case("shape", json!({"rty": r.to_json(), "mappings": {}}), json!({"gen": "enum", "depth": r.depth()}));
    }
    for r in rty::enumerate(1, &rty::leaves(true), 6) {
        out.case("shape", json!({"rty": r.to_json(), "mappings": {}}), json!({"gen": "prims"}));
    }
    let tables = [
        json!({"PathBuf": "string", "Timestamp": "number"}),
        json!({"Uuid": "string", "Timestamp": "Date", "Flag": "boolean"}),
    ];
    // deep chains (7 to 12 container levels around a named type / a primitive), every constructor mix
    for d in 7..=12usize {
        for (wi, inner) in [RTy::Named("User".into()), RTy::Prim("u8".into()), RTy::Tup(vec![RTy::Prim("i32".into()), RTy::Named("Mode".into())])].iter().enumerate() {
            let mut t = inner.clone();
            for k in 0..d {
                t = match (k + wi) % 4 {
                    0 => RTy::Vec(Box::new(t)),
                    1 => RTy::Opt(Box::new(t)),
                    2 => RTy::HMap(Box::new(RTy::Prim("String".into())), Box::new(t)),
                    _ => RTy::Vec(Box::new(t)),
                };
            }
            out.case("shape", json!({"rty": t.to_json(), "mappings": {}}), json!({"gen": "deep", "depth": d}));
        }
    }
    // mapping keys that are whole container expressions, on members declared with exactly that type (and nested in others)
    let container_table = json!({"Vec<u8>": "string", "Option<Uuid>": "string", "HashMap<String, u8>": "number", "(u8, u8)": "string"});
    let b = |t: &RTy| Box::new(t.clone());
    let u8t = RTy::Prim("u8".into());
    for t in [RTy::Vec(b(&u8t)), RTy::Opt(Box::new(RTy::Named("Uuid".into()))), RTy::HMap(Box::new(RTy::Prim("String".into())), b(&u8t)),
        RTy::Tup(vec![u8t.clone(), u8t.clone()]), RTy::Vec(Box::new(RTy::Vec(b(&u8t)))), RTy::Opt(Box::new(RTy::Vec(b(&u8t))))] {
        out.case("shape", json!({"rty": t.to_json(), "mappings": container_table}), json!({"gen": "container-keys"}));
    }
    let n = if tier == "thorough" { 30000 } else { 2500 };
    for i in 0..n {
        let depth = 1 + rng.below(6);
        if i % 3 == 0 {
            let r = rty::random_named(rng, depth.min(4), &["PathBuf", "Uuid", "User", "Mode", "Timestamp", "Flag"]);
            let t = &tables[rng.below(2)];
            out.case("shape", json!({"rty": r.to_json(), "mappings": t}), json!({"gen": "maprand", "depth": r.depth()}));
        } else {
            let r = rty::random(rng, depth);
            out.case("shape", json!({"rty": r.to_json(), "mappings": {}}), json!({"gen": "rand", "depth": r.depth()}));
        }
    }
}

const SITES: &[&str] = &["param", "ret", "field", "chan", "event"];

pub fn run(out: &mut Out, tier: &str, rng: &mut Rng) {
    // 1. exhaustive enumeration: depth <= 2 (quick) / <= 3 (thorough) over class-representative leaves
    let (d, cap) = if tier == "thorough" { (3, 40) } else { (2, 12) };
    let all = rty::enumerate(d, &rty::leaves(false), cap);
    for (i, r) in all.iter().enumerate() {
        let j = r.to_json();
        out.case("typeStr", json!({"rty": j}), json!({"gen": "enum", "depth": r.depth()}));
        for (k, site) in SITES.iter().enumerate() {
            // all five sites in ts mode; zod mode rotates over the sites to keep the quick tier small
            out.case("site", json!({"rty": j, "site": site, "mode": "ts", "mappings": {}}),
                     json!({"gen": "enum", "depth": r.depth()}));
            if tier == "thorough" || (i + k) % 5 == 0 {
                out.case("site", json!({"rty": j, "site": site, "mode": "zod", "mappings": {}}),
                         json!({"gen": "enum", "depth": r.depth()}));
            }
        }
    }
    // 2. all primitive names at depth <= 1
    for r in rty::enumerate(1, &rty::leaves(true), 6) {
        let j = r.to_json();
        out.case("site", json!({"rty": j, "site": "param", "mode": "ts", "mappings": {}}), json!({"gen": "prims"}));
        out.case("site", json!({"rty": j, "site": "ret", "mode": "ts", "mappings": {}}), json!({"gen": "prims"}));
    }
    // 2b. user-defined types named like well-known std / TypeScript types: they are ordinary named types
    for name in ["Path", "PathBuf", "Duration", "Value", "Date", "Error", "Record", "Array", "Map", "Set", "Promise", "Char", "Str", "Number", "Boolean", "Any", "Unknown", "Void", "Null"] {
        let n = RTy::Named(name.to_string());
        let b = |t: &RTy| Box::new(t.clone());
        for t in [n.clone(), RTy::Vec(b(&n)), RTy::Opt(b(&n)), RTy::HMap(Box::new(RTy::Prim("String".into())), b(&n)), RTy::Res2(b(&n), Box::new(RTy::Prim("String".into())))] {
            for site in SITES {
                out.case("site", json!({"rty": t.to_json(), "site": site, "mode": "ts", "mappings": {}}), json!({"gen": "stdnames"}));
                if *site == "param" || *site == "field" {
                    out.case("site", json!({"rty": t.to_json(), "site": site, "mode": "zod", "mappings": {}}), json!({"gen": "stdnames"}));
                }
            }
        }
    }
    // 2d. references inside constructors (`Vec<&Preset>`, `Option<&String>`, map values, tuple elements)
    {
        let b = |t: &RTy| Box::new(t.clone());
        let user = RTy::Named("User".into());
        let rs = |t: &RTy| RTy::Ref(Box::new(t.clone()));
        for t in [RTy::Vec(Box::new(rs(&user))), RTy::Opt(Box::new(rs(&RTy::Prim("String".into())))), RTy::HMap(Box::new(rs(&RTy::Prim("str".into()))), Box::new(rs(&user))),
            RTy::Tup(vec![rs(&RTy::Prim("str".into())), rs(&RTy::Prim("u32".into()))]), RTy::Vec(Box::new(RTy::Opt(Box::new(rs(&user))))), RTy::Res2(Box::new(RTy::Vec(Box::new(rs(&user)))), b(&RTy::Prim("String".into()))),
            RTy::Opt(Box::new(rs(&RTy::Vec(b(&user))))), rs(&rs(&user))] {
            for site in SITES {
                out.case("site", json!({"rty": t.to_json(), "site": site, "mode": "ts", "mappings": {}}), json!({"gen": "nested-refs"}));
                if *site == "param" || *site == "field" {
                    out.case("site", json!({"rty": t.to_json(), "site": site, "mode": "zod", "mappings": {}}), json!({"gen": "nested-refs"}));
                }
            }
        }
    }
    // 2c. user-defined (or foreign, mapped) types whose names look like number types without being one: ordinary names
    for name in ["u256", "i256", "f16", "u24", "f128", "U8", "i", "u", "f", "usize2", "i32x4"] {
        let n = RTy::Named(name.to_string());
        let b = |t: &RTy| Box::new(t.clone());
        for t in [n.clone(), RTy::Vec(b(&n)), RTy::Opt(b(&n)), RTy::HMap(Box::new(RTy::Prim("String".into())), b(&n))] {
            for site in SITES {
                for mode in ["ts", "zod"] {
                    if mode == "zod" && !(*site == "param" || *site == "field") {
                        continue;
                    }
                    let mut mp = serde_json::Map::new();
                    mp.insert(name.to_string(), json!("string"));
                    out.case("site", json!({"rty": t.to_json(), "site": site, "mode": mode, "mappings": mp}), json!({"gen": "numlike-mapped"}));
                    out.case("site", json!({"rty": t.to_json(), "site": site, "mode": mode, "mappings": {}}), json!({"gen": "numlike"}));
                }
            }
        }
    }
    // 2b. deep nesting (no bound on the depth of a type expression): 20, 33, 36 wrappers around a tuple / a named type
    for &d in &[20usize, 33, 36] {
        for (wi, inner) in [RTy::Tup(vec![RTy::Prim("u8".into()), RTy::Prim("String".into())]), RTy::Named("User".into())].iter().enumerate() {
            let mut t = inner.clone();
            for k in 0..d {
                t = if (k + wi) % 3 == 2 { RTy::HSet(Box::new(t)) } else { RTy::Vec(Box::new(t)) };
            }
            for site in SITES {
                for mode in ["ts", "zod"] {
                    out.case("site", json!({"rty": t.to_json(), "site": site, "mode": mode, "mappings": {}}), json!({"gen": "deep", "depth": d}));
                }
            }
        }
    }
    // 3. random deeper types, with and without mappings
    let n = if tier == "thorough" { 30000 } else { 2500 };
    for i in 0..n {
        let depth = 2 + rng.below(5);
        // every third type takes its named leaves from a pool with non-ASCII identifiers (byte offset != char offset)
        let r = if i % 3 == 1 { rty::random_named(rng, depth, &["User", "Mode", "Währung", "Schlüssel", "設定", "Ünit", "Größe"]) } else { rty::random(rng, depth) };
        let j = r.to_json();
        let site = SITES[rng.below(SITES.len())];
        let mode = if rng.chance(1, 3) { "zod" } else { "ts" };
        let mappings = if i % 4 == 0 { json!({"Mode": "string"}) } else { json!({}) };
        out.case("site", json!({"rty": j, "site": site, "mode": mode, "mappings": mappings}),
                 json!({"gen": "rand", "depth": r.depth()}));
        if i % 3 == 0 {
            out.case("typeStr", json!({"rty": j}), json!({"gen": "rand", "depth": r.depth()}));
        }
        // string-level: the resolver on the rendered type and on light mutations of it
        let mut st = r.render();
        out.case("parseTS", json!({"s": st}), json!({"gen": "rand"}));
        if i % 2 == 0 && !st.is_empty() {
            let pos = rng.below(st.len());
            if st.is_char_boundary(pos) {
                match rng.below(4) {
                    0 => st.insert(pos, ' '),
                    1 => st.insert(pos, ','),
                    2 => { st.remove(pos); }
                    _ => st.insert(pos, '>'),
                }
                out.case("parseTS", json!({"s": st}), json!({"gen": "mut"}));
            }
        }
    }
    // 4. add_types_prefix on rendered texts and near misses
    let pool = ["string", "User", "User[]", "string[]", "User | null", "User[] | null", "Record<string, User>",
        "[User, string]", "types.User", "User | undefined", "string[][]", "Record<string, number>[]", "void",
        "unknown", "User | null[]", "Map<string, User>", "", "[]", "null", "User[][]", " | null", "[User][]"];
    for p in pool {
        out.case("prefix", json!({"s": p}), json!({"gen": "pool"}));
    }
}

/// group `mappings` (C18)
pub fn run_mappings(out: &mut Out, tier: &str, rng: &mut Rng) {
    // 3b. C18: mapping tables over plain and generic names at every constructor position of every site
    let tables = [
        json!({"PathBuf": "string"}),
        json!({"Uuid": "string", "PathBuf": "string", "Timestamp": "number"}),
        json!({"DateTime<Utc>": "string", "Flag": "boolean"}),
        // keys headed by a smart pointer / a wrapper the tool otherwise looks through
        json!({"Box<RawValue>": "string", "Arc<Session>": "number", "Rc<Node>": "string", "Cow<'static, str>": "string"}),
        // generic keys whose head merely *ends* in the name of a wrapper the tool unwraps
        json!({"QueryResult<Row>": "number", "MyOption<Row>": "string", "SmallVec<Row>": "string", "IndexMap<Row>": "string"}),
        // generic keys with several arguments (a comma inside the mapped name)
        json!({"Versioned<DocId, u32>": "string", "Either<Left, Right>": "number"}),
        // keys spelled with a module path, outside or inside the generic arguments
        json!({"chrono::DateTime<Utc>": "string", "DateTime<chrono::Utc>": "string", "std::path::PathBuf": "string", "uuid::Uuid": "string"}),
    ];
    let mapped_names = ["PathBuf", "Uuid", "Timestamp", "DateTime<Utc>", "Flag", "User", "Box<RawValue>", "Arc<Session>", "Rc<Node>", "QueryResult<Row>", "MyOption<Row>", "SmallVec<Row>", "Versioned<DocId, u32>", "Either<Left, Right>", "chrono::DateTime<Utc>", "DateTime<chrono::Utc>", "std::path::PathBuf"];
    let mut kk = 0usize;
    for name in mapped_names {
        let n = RTy::Named(name.to_string());
        let other = RTy::Named("User".to_string());
        let b = |t: &RTy| Box::new(t.clone());
        let ctxs: Vec<RTy> = vec![
            n.clone(), RTy::Opt(b(&n)), RTy::Vec(b(&n)), RTy::HSet(b(&n)), RTy::Ref(b(&n)), RTy::Res2(b(&n), b(&other)),
            RTy::HMap(Box::new(RTy::Prim("String".into())), b(&n)), RTy::HMap(b(&n), b(&other)), RTy::BMap(b(&n), b(&n)),
            RTy::Tup(vec![n.clone(), other.clone()]), RTy::Tup(vec![other.clone(), n.clone(), RTy::Prim("i32".into())]),
            RTy::Vec(Box::new(RTy::Opt(b(&n)))), RTy::Opt(Box::new(RTy::Vec(b(&n)))), RTy::Vec(Box::new(RTy::Vec(b(&n)))),
            RTy::Opt(Box::new(RTy::HMap(Box::new(RTy::Prim("String".into())), Box::new(RTy::Vec(b(&n)))))),
            RTy::Res2(Box::new(RTy::Vec(b(&n))), Box::new(RTy::Prim("String".into()))),
            RTy::Vec(Box::new(RTy::Tup(vec![n.clone(), n.clone()]))),
        ];
        for c in &ctxs {
            for site in SITES {
                for mode in ["ts", "zod"] {
                    for t in &tables {
                        // a generic name is only a supported input when the table maps it
                        if (name.contains('<') || name.contains("::")) && t.get(name).is_none() {
                            continue;
                        }
                        kk += 1;
                        // quick tier: every second combination, chosen by a hash of the counter (a fixed stride would skip
                        // the same (mode, table) pairs for ever)
                        if tier != "thorough" && ((kk as u64).wrapping_mul(2654435761) >> 9) & 1 == 0 {
                            continue;
                        }
                        out.case("site", json!({"rty": c.to_json(), "site": site, "mode": mode, "mappings": t}),
                                 json!({"gen": "mapping"}));
                    }
                }
            }
        }
    }
    // mapped names that look like number types without being one (`u256` from a big-integer crate, `f16`)
    for name in ["u256", "i256", "f16", "u24", "f128", "U8"] {
        let n = RTy::Named(name.to_string());
        let b = |t: &RTy| Box::new(t.clone());
        for c in [n.clone(), RTy::Vec(b(&n)), RTy::Opt(b(&n)), RTy::HMap(Box::new(RTy::Prim("String".into())), b(&n)), RTy::Tup(vec![n.clone(), RTy::Prim("u8".into())])] {
            for site in SITES {
                for mode in ["ts", "zod"] {
                    for target in ["string", "boolean"] {
                        let mut mp = serde_json::Map::new();
                        mp.insert(name.to_string(), json!(target));
                        out.case("site", json!({"rty": c.to_json(), "site": site, "mode": mode, "mappings": mp}), json!({"gen": "mapping-numlike"}));
                    }
                }
            }
        }
    }
    // random types over mapped and unmapped names
    let n = if tier == "thorough" { 20000 } else { 1500 };
    for i in 0..n {
        let depth = 1 + rng.below(4);
        let r = rty::random_named(rng, depth, &["PathBuf", "Uuid", "User", "Mode", "Timestamp", "Zähler", "Größe", "設定"]);
        let site = SITES[rng.below(SITES.len())];
        let mode = if i % 2 == 0 { "zod" } else { "ts" };
        let t = &tables[rng.below(2)];
        out.case("site", json!({"rty": r.to_json(), "site": site, "mode": mode, "mappings": t}), json!({"gen": "maprand"}));
    }
}
