//! splitmix64: every random choice of the harness derives from one state (VERIF_SEED)
#[derive(Clone)]
pub struct Rng(pub u64);
impl Rng {
    pub fn new(seed: u64) -> Self {
        Rng(seed ^ 0x9E3779B97F4A7C15)
    }
    pub fn next(&mut self) -> u64 {
        self.0 = self.0.wrapping_add(0x9E3779B97F4A7C15);
        let mut z = self.0;
        z = (z ^ (z >> 30)).wrapping_mul(0xBF58476D1CE4E5B9);
        z = (z ^ (z >> 27)).wrapping_mul(0x94D049BB133111EB);
        z ^ (z >> 31)
    }
    pub fn below(&mut self, n: usize) -> usize {
        if n == 0 {
            0
        } else {
            (self.next() % n as u64) as usize
        }
    }
    pub fn chance(&mut self, num: usize, den: usize) -> bool {
        self.below(den) < num
    }
    pub fn pick<'a, T>(&mut self, xs: &'a [T]) -> &'a T {
        &xs[self.below(xs.len())]
    }
    pub fn fork(&mut self) -> Rng {
        Rng(self.next())
    }
}
