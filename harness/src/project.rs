//! Project-level IR: items, attributes, function bodies with emit calls, directory layout.
//! The IR is a JSON value; this module renders it to Rust source files, annotates attributes with the
//! token text proc_macro2 prints for them (the model's input boundary), runs the real analyser and
//! generators on the rendered tree and dumps what they produced.
use crate::out::{guarded, s};
use crate::rng::Rng;
use crate::rty::{self, RTy};
use quote::ToTokens;
use serde_json::{json, Value};
use std::collections::HashMap;
use std::path::{Path, PathBuf};
use tauri_typegen::analysis::CommandAnalyzer;
use tauri_typegen::generators::create_generator;
use tauri_typegen::GenerateConfig;

// ------------------------------------------------------------------------------------------------ rendering

fn arr(v: &Value, k: &str) -> Vec<Value> {
    v.get(k).and_then(|a| a.as_array()).cloned().unwrap_or_default()
}

fn render_ty(t: &Value) -> String {
    if let Some(raw) = t.get("raw").and_then(|x| x.as_str()) {
        return raw.to_string();
    }
    RTy::from_json(t).map(|r| r.render()).unwrap_or_else(|| "()".to_string())
}

fn render_attrs(v: &Value, indent: &str) -> String {
    let mut o = String::new();
    for a in arr(v, "attrs") {
        // the same attribute in the layouts a formatter or a macro leaves behind (chosen by the attribute's own text, so
        // that a project renders the same way every time): blanks inside the brackets, around `::`, a line per token
        let text = s(&a, "text");
        let h = text.bytes().fold(7u32, |acc, b| acc.wrapping_mul(31).wrapping_add(b as u32));
        let line = match h % 9 {
            0 => format!("{}#[ {} ]\n", indent, text),
            1 => format!("{}# [{}]\n", indent, text),
            2 if !text.contains('"') => format!("{}#[{}]\n", indent, text.replace("::", " :: ")),
            3 => format!("{}#[\n{}    {}\n{}]\n", indent, indent, text, indent),
            _ => format!("{}#[{}]\n", indent, text),
        };
        o.push_str(&line);
    }
    o
}

fn render_expr(e: &Value) -> String {
    let k = s(e, "k");
    match k.as_str() {
        "mcall" => {
            let args: Vec<String> = arr(e, "args").iter().map(render_expr).collect();
            // explicit generic arguments on the call (`emit_to::<&str, Progress>(..)`): no part of the method's name
            let tf = s(e, "turbofish");
            let tf = if tf.is_empty() { String::new() } else { format!("::<{}>", tf) };
            format!("{}.{}{}({})", render_expr(&e["recv"]), s(e, "method"), tf, args.join(", "))
        }
        "call" => {
            let args: Vec<String> = arr(e, "args").iter().map(render_expr).collect();
            format!("{}({})", render_expr(&e["func"]), args.join(", "))
        }
        "path" => arr(e, "segs").iter().map(|x| x.as_str().unwrap_or("").to_string()).collect::<Vec<_>>().join("::"),
        "field" => format!("{}.{}", render_expr(&e["base"]), s(e, "name")),
        "struct" => format!("{} {{ id: 1 }}", arr(e, "segs").iter().map(|x| x.as_str().unwrap_or("").to_string()).collect::<Vec<_>>().join("::")),
        "ref" => format!("&{}", render_expr(&e["e"])),
        "lit" => s(e, "text"),
        "tuple" => {
            let es: Vec<String> = arr(e, "es").iter().map(render_expr).collect();
            if es.len() == 1 { format!("({},)", es[0]) } else { format!("({})", es.join(", ")) }
        }
        "await" => format!("{}.await", render_expr(&e["e"])),
        "try" => format!("{}?", render_expr(&e["e"])),
        "block" => format!("{{\n{}}}", render_stmts(&arr(e, "body"), "        ")),
        "if" => {
            let mut o = format!("if {} {{\n{}    }}", s(e, "cond"), render_stmts(&arr(e, "then"), "        "));
            if let Some(el) = e.get("else") {
                if !el.is_null() {
                    o.push_str(&format!(" else {}", render_expr(el)));
                }
            }
            o
        }
        "match" => {
            let arms: Vec<String> = arr(e, "arms").iter().enumerate().map(|(i, a)| {
                let pat = if i + 1 == arr(e, "arms").len() { "_".to_string() } else { format!("{}", i) };
                format!("        {} => {},\n", pat, render_expr(a))
            }).collect();
            format!("match {} {{\n{}    }}", s(e, "scrut"), arms.join(""))
        }
        "loop" => format!("loop {{\n{}        break;\n    }}", render_stmts(&arr(e, "body"), "        ")),
        "while" => format!("while {} {{\n{}    }}", s(e, "cond"), render_stmts(&arr(e, "body"), "        ")),
        "for" => {
            let pat = e.get("pat").and_then(|x| x.as_str()).unwrap_or("_i");
            format!("for {} in 0..3 {{\n{}    }}", pat, render_stmts(&arr(e, "body"), "        "))
        }
        "closure" => format!("|| {}", render_expr(&e["e"])),
        "paren" => format!("({})", render_expr(&e["e"])),
        _ => s(e, "text"),
    }
}

fn render_stmts(stmts: &[Value], indent: &str) -> String {
    let mut o = String::new();
    for st in stmts {
        match s(st, "k").as_str() {
            "expr" => {
                let semi = st.get("semi").and_then(|x| x.as_bool()).unwrap_or(true);
                o.push_str(&format!("{}{}{}\n", indent, render_expr(&st["e"]), if semi { ";" } else { "" }));
            }
            "let" => {
                let pat = match s(st, "pat").as_str() {
                    "typed" => format!("{}: {}", s(st, "name"), s(st, "ty")),
                    "ident" => s(st, "name"),
                    _ => "_".to_string(),
                };
                match st.get("init") {
                    Some(i) if !i.is_null() => o.push_str(&format!("{}let {} = {};\n", indent, pat, render_expr(i))),
                    _ => o.push_str(&format!("{}let {};\n", indent, pat)),
                }
            }
            _ => o.push_str(&format!("{}{}\n", indent, s(st, "text"))),
        }
    }
    o
}

fn render_item(it: &Value) -> String {
    match s(it, "k").as_str() {
        "fn" => {
            let params: Vec<String> = arr(it, "params").iter().map(|p| {
                let attrs: String = arr(p, "attrs").iter().map(|a| format!("#[{}] ", s(a, "text"))).collect();
                format!("{}{}: {}", attrs, s(p, "pat"), s(p, "ty_text"))
            }).collect();
            let ret = match it.get("ret") {
                Some(r) if !r.is_null() => format!(" -> {}", render_ty(r)),
                _ => String::new(),
            };
            let vis = s(it, "vis");
            format!(
                "{}{}{}{}fn {}({}){} {{\n{}}}\n",
                render_attrs(it, ""),
                vis,
                if vis.is_empty() { "" } else { " " },
                if it["async"].as_bool().unwrap_or(false) { "async " } else { "" },
                s(it, "name"),
                params.join(", "),
                ret,
                render_stmts(&arr(it, "body"), "    ")
            )
        }
        "struct" => {
            // a serde struct may borrow: `pub struct LogLine<'a> { text: &'a str }` (a lifetime is its only generic parameter)
            let lt = if it.get("lifetime").and_then(|x| x.as_bool()).unwrap_or(false) { "<'a>" } else { "" };
            let head = format!("{}pub struct {}{}", render_attrs(it, ""), s(it, "name"), lt);
            match s(it, "shape").as_str() {
                "unit" => format!("{};\n", head),
                "tuple" => format!("{}(pub i32, pub String);\n", head),
                _ => {
                    let fields: String = arr(it, "fields").iter().map(|f| {
                        let vis = s(f, "vis");
                        format!("{}    {}{}{}: {},\n", render_attrs(f, "    "), vis, if vis.is_empty() { "" } else { " " }, s(f, "name"), render_ty(&f["ty"]))
                    }).collect();
                    format!("{} {{\n{}}}\n", head, fields)
                }
            }
        }
        "enum" => {
            let vs: String = arr(it, "variants").iter().map(|v| {
                let payload = s(v, "payload");
                let shape: String = match s(v, "shape").as_str() {
                    "tuple" => if payload.is_empty() { "(i32, String)".to_string() } else { format!("({})", payload) },
                    "struct" => if payload.is_empty() { " { code: i32 }".to_string() } else { format!(" {{ inner: {} }}", payload) },
                    _ => String::new(),
                };
                format!("{}    {}{},\n", render_attrs(v, "    "), s(v, "name"), shape)
            }).collect();
            format!("{}pub enum {} {{\n{}}}\n", render_attrs(it, ""), s(it, "name"), vs)
        }
        _ => format!("{}\n", s(it, "text")),
    }
}

pub fn render_file(f: &Value) -> String {
    if let Some(raw) = f.get("raw").and_then(|x| x.as_str()) {
        return raw.to_string();
    }
    let mut o = String::from("use serde::{Deserialize, Serialize};\n\n");
    for it in arr(f, "items") {
        o.push_str(&render_item(&it));
        o.push('\n');
    }
    if f.get("compact").and_then(|x| x.as_bool()).unwrap_or(false) {
        // the whole file on one line (line comments dropped first): layout must not matter
        o = o.lines().filter(|l| !l.trim_start().starts_with("//")).collect::<Vec<_>>().join(" ");
        o.push('\n');
    }
    if f.get("shebang").and_then(|x| x.as_bool()).unwrap_or(false) {
        o = format!("#!/usr/bin/env rust-script\n{}", o);
    }
    o
}

// ------------------------------------------------------------------------------------------------ annotation

/// generic tree of a `syn::Type` (what the analysers can distinguish)
pub fn gty_of(ty: &syn::Type) -> Value {
    match ty {
        syn::Type::Path(tp) => {
            let segs: Vec<Value> = tp.path.segments.iter().map(|sg| {
                let (kind, args): (&str, Vec<Value>) = match &sg.arguments {
                    syn::PathArguments::None => ("none", vec![]),
                    syn::PathArguments::Parenthesized(_) => ("paren", vec![]),
                    syn::PathArguments::AngleBracketed(ab) => ("angle", ab.args.iter().map(|a| match a {
                        syn::GenericArgument::Type(t) => json!({"ty": gty_of(t)}),
                        _ => json!({"other": true}),
                    }).collect()),
                };
                json!({"id": sg.ident.to_string(), "kind": kind, "args": args})
            }).collect();
            json!({"k": "path", "segs": segs})
        }
        syn::Type::Reference(r) => json!({"k": "ref", "t": gty_of(&r.elem)}),
        syn::Type::Tuple(t) => json!({"k": "tuple", "ts": t.elems.iter().map(gty_of).collect::<Vec<_>>()}),
        syn::Type::Array(a) => json!({"k": "array", "t": gty_of(&a.elem)}),
        syn::Type::Slice(a) => json!({"k": "slice", "t": gty_of(&a.elem)}),
        _ => json!({"k": "other"}),
    }
}

fn gty_text(text: &str) -> Value {
    match syn::parse_str::<syn::Type>(text) {
        Ok(t) => gty_of(&t),
        Err(_) => json!({"k": "other"}),
    }
}

fn annotate_stmts(v: &mut Value) {
    match v {
        Value::Array(a) => a.iter_mut().for_each(annotate_stmts),
        Value::Object(o) => {
            if o.get("k").and_then(|x| x.as_str()) == Some("let") && o.get("pat").and_then(|x| x.as_str()) == Some("typed") {
                let t = o.get("ty").and_then(|x| x.as_str()).unwrap_or("").to_string();
                o.insert("gty".into(), gty_text(&t));
            }
            for (_, x) in o.iter_mut() {
                annotate_stmts(x);
            }
        }
        _ => {}
    }
}

/// token text of one attribute `#[text]` as the analysers see it
fn annotate_attr(a: &mut Value) {
    let text = s(a, "text");
    match syn::parse_str::<syn::Meta>(&text) {
        Ok(meta) => {
            let path: Vec<String> = meta.path().segments.iter().map(|x| x.ident.to_string()).collect();
            a["path"] = json!(path);
            match &meta {
                syn::Meta::List(l) => {
                    a["list"] = json!(true);
                    a["tokens"] = json!(l.tokens.to_string());
                    a["meta_tokens"] = json!(l.to_token_stream().to_string());
                }
                _ => {
                    a["list"] = json!(false);
                }
            }
        }
        Err(_) => {
            a["path"] = json!([]);
            a["list"] = json!(false);
        }
    }
}

fn annotate_attrs(v: &mut Value) {
    if let Some(a) = v.get_mut("attrs").and_then(|x| x.as_array_mut()) {
        for x in a.iter_mut() {
            annotate_attr(x);
        }
    }
}

/// structured view of a parameter type text: path segments with "has angle-bracket arguments", the
/// first generic type argument of the last segment, the three type_to_string forms
fn annotate_param(p: &mut Value) {
    annotate_attrs(p);
    let text = s(p, "ty_text");
    let pat = s(p, "pat");
    // a plain identifier pattern (`name` / `mut name`) is the only form the analysers accept
    let plain = pat.trim_start_matches("mut ").trim();
    p["pat_ident"] = if !plain.is_empty() && plain.chars().all(|c| c.is_alphanumeric() || c == '_') && !plain.chars().next().unwrap().is_numeric() {
        json!(plain)
    } else {
        Value::Null
    };
    p["gty"] = gty_text(&text);
    if let Ok(ty) = syn::parse_str::<syn::Type>(&text) {
        match &ty {
            syn::Type::Path(tp) => {
                let segs: Vec<Value> = tp.path.segments.iter().map(|sg| {
                    json!([sg.ident.to_string(), matches!(sg.arguments, syn::PathArguments::AngleBracketed(_)), !sg.arguments.is_empty()])
                }).collect();
                p["segs"] = json!(segs);
                p["shape"] = json!("path");
                if let Some(last) = tp.path.segments.last() {
                    if let syn::PathArguments::AngleBracketed(ab) = &last.arguments {
                        if let Some(syn::GenericArgument::Type(t0)) = ab.args.first() {
                            p["first_arg_text"] = json!(t0.to_token_stream().to_string());
                        }
                    }
                }
            }
            syn::Type::Reference(r) => {
                p["shape"] = json!("ref");
                // event symbol table looks through references
                if let syn::Type::Path(tp) = &*r.elem {
                    if let Some(l) = tp.path.segments.last() {
                        p["ref_last"] = json!(l.ident.to_string());
                    }
                }
            }
            _ => {
                p["shape"] = json!("other");
            }
        }
    }
}

pub fn annotate(project: &mut Value) {
    if let Some(files) = project.get_mut("files").and_then(|x| x.as_array_mut()) {
        for f in files.iter_mut() {
            let text = render_file(f);
            f["parses"] = json!(syn::parse_file(&text).is_ok());
            if let Some(items) = f.get_mut("items").and_then(|x| x.as_array_mut()) {
                for it in items.iter_mut() {
                    annotate_attrs(it);
                    if let Some(r) = it.get("ret") {
                        if !r.is_null() {
                            let t = render_ty(r);
                            it["ret_gty"] = gty_text(&t);
                        }
                    }
                    if let Some(b) = it.get_mut("body") {
                        annotate_stmts(b);
                    }
                    if let Some(fs) = it.get_mut("fields").and_then(|x| x.as_array_mut()) {
                        for f in fs.iter_mut() {
                            let t = render_ty(&f["ty"]);
                            f["gty"] = gty_text(&t);
                        }
                    }
                    for key in ["params", "fields", "variants"] {
                        if let Some(xs) = it.get_mut(key).and_then(|x| x.as_array_mut()) {
                            for x in xs.iter_mut() {
                                if key == "params" {
                                    annotate_param(x);
                                } else {
                                    annotate_attrs(x);
                                }
                            }
                        }
                    }
                }
            }
        }
    }
}

// ------------------------------------------------------------------------------------------------ execution

pub fn work_root(tag: &str) -> PathBuf {
    let base = std::env::var("VERIF_WORK").unwrap_or_else(|_| "/verif/.work".to_string());
    static N: std::sync::atomic::AtomicU64 = std::sync::atomic::AtomicU64::new(0);
    let n = N.fetch_add(1, std::sync::atomic::Ordering::SeqCst);
    let d = Path::new(&base).join(format!("{}.{}.{}", tag, std::process::id(), n));
    let _ = std::fs::remove_dir_all(&d);
    let _ = std::fs::create_dir_all(&d);
    d
}

fn strip_ts(text: &str) -> String {
    text.lines().filter(|l| !l.starts_with(" * Generated at:")).collect::<Vec<_>>().join("\n")
}

/// op `project`: in = {project: IR, config: {mode, mappings, param_case, field_case}}
pub fn exec_project(input: &Value) -> (Value, Value) {
    let mut in2 = input.clone();
    annotate(&mut in2["project"]);
    let root = work_root("proj");
    let prefix = s(&input["project"], "root_prefix");
    let src = if prefix.is_empty() { root.join("src-tauri") } else { root.join(&prefix).join("src-tauri") };
    for f in arr(&input["project"], "files") {
        // U+FFFD in a path of the IR stands for one byte that is not UTF-8 (0xE9, Latin-1 `é`): the file on disk has a name
        // that only exists as bytes, the tool (and the model) see its lossy rendering
        let p = if s(&f, "path").contains('\u{fffd}') {
            use std::os::unix::ffi::OsStrExt;
            let mut bytes: Vec<u8> = Vec::new();
            for ch in s(&f, "path").chars() {
                if ch == '\u{fffd}' { bytes.push(0xE9) } else { let mut b = [0u8; 4]; bytes.extend_from_slice(ch.encode_utf8(&mut b).as_bytes()) }
            }
            src.join(std::ffi::OsStr::from_bytes(&bytes))
        } else {
            src.join(s(&f, "path"))
        };
        if let Some(d) = p.parent() {
            let _ = std::fs::create_dir_all(d);
        }
        if f.get("symlink").and_then(|x| x.as_bool()).unwrap_or(false) {
            // the source file is a symbolic link to a file kept outside the project directory (shared between crates)
            let shared = root.join("shared");
            let _ = std::fs::create_dir_all(&shared);
            let target = shared.join(s(&f, "path").replace('/', "_"));
            let _ = std::fs::write(&target, render_file(&f));
            let _ = std::os::unix::fs::symlink(&target, &p);
        } else {
            let _ = std::fs::write(&p, render_file(&f));
        }
    }
    let _ = std::fs::create_dir_all(&src);
    for f in arr(&input["project"], "outside") {
        // files beside the project directory (not part of the project)
        let p = src.join(s(&f, "path"));
        if let Some(d) = p.parent() {
            let _ = std::fs::create_dir_all(d);
        }
        let _ = std::fs::write(&p, s(&f, "raw"));
    }
    let relative = input["project"].get("relative").and_then(|x| x.as_bool()).unwrap_or(false);
    let old_cwd = std::env::current_dir().ok();
    let project_arg: String = if relative {
        let _ = std::env::set_current_dir(src.parent().unwrap());
        "src-tauri".to_string()
    } else if input["project"].get("trailing_slash").and_then(|x| x.as_bool()).unwrap_or(false) {
        format!("{}/", src.to_string_lossy())
    } else {
        src.to_string_lossy().to_string()
    };
    in2["project"]["abs_root"] = json!(project_arg);
    let out_dir = root.join("out");
    let cfgv = &input["config"];
    let imp = guarded(|| {
        let mut cfg = GenerateConfig::default();
        cfg.project_path = project_arg.clone();
        cfg.output_path = out_dir.to_string_lossy().to_string();
        cfg.validation_library = if s(cfgv, "mode") == "zod" { "zod".into() } else { "none".into() };
        if let Some(o) = cfgv.get("mappings").and_then(|m| m.as_object()) {
            if !o.is_empty() {
                cfg.type_mappings = Some(o.iter().map(|(k, v)| (k.clone(), v.as_str().unwrap_or("").to_string())).collect());
            }
        }
        if let Some(pc) = cfgv.get("param_case").and_then(|x| x.as_str()) {
            cfg.default_parameter_case = pc.to_string();
        }
        if let Some(fc) = cfgv.get("field_case").and_then(|x| x.as_str()) {
            cfg.default_field_case = fc.to_string();
        }
        let mut analyzer = CommandAnalyzer::new();
        if let Some(m) = &cfg.type_mappings {
            analyzer.add_type_mappings(m);
        }
        // the analyser is a reusable object (a watcher re-analyses with the one it has): with `reanalyse` the project is
        // analysed twice by the same object and the second analysis is the one that is generated from
        if input["project"].get("reanalyse").and_then(|x| x.as_bool()).unwrap_or(false) {
            // … and between the two analyses the sources change on disk: the first one sees an earlier version of every
            // file (one more command at its end), the second one the files as they are
            let mut touched: Vec<(std::path::PathBuf, Vec<u8>)> = Vec::new();
            for (k, f) in arr(&input["project"], "files").iter().enumerate() {
                let rp = s(f, "path");
                if !rp.ends_with(".rs") || rp.contains('\u{fffd}') || f.get("symlink").and_then(|x| x.as_bool()).unwrap_or(false) {
                    continue;
                }
                let p = src.join(&rp);
                if let Ok(orig) = std::fs::read(&p) {
                    let mut earlier = orig.clone();
                    earlier.extend_from_slice(format!("\n#[tauri::command]\npub fn stale_cmd_{}(stale_param: u8, on_stale: tauri::ipc::Channel<u8>) {{}}\n", k).as_bytes());
                    if std::fs::write(&p, &earlier).is_ok() {
                        touched.push((p, orig));
                    }
                }
            }
            let _ = analyzer.analyze_project(&cfg.project_path);
            for (p, orig) in touched {
                let _ = std::fs::write(&p, &orig);
            }
        }
        let commands = match analyzer.analyze_project(&cfg.project_path) {
            Ok(c) => c,
            Err(e) => return json!({"analysis_error": e.to_string()}),
        };
        let rel = |p: &str| -> String {
            Path::new(p).strip_prefix(&project_arg).map(|x| x.to_string_lossy().to_string()).unwrap_or_else(|_| p.to_string())
        };
        // the same analysis with verbose output switched on must find the same things
        let verbose_same = {
            let mut a2 = CommandAnalyzer::new();
            if let Some(m) = &cfg.type_mappings {
                a2.add_type_mappings(m);
            }
            match a2.analyze_project_with_verbose(&cfg.project_path, true) {
                Ok(c2) => {
                    let mut n1: Vec<&String> = analyzer.get_discovered_structs().keys().collect();
                    let mut n2: Vec<&String> = a2.get_discovered_structs().keys().collect();
                    n1.sort();
                    n2.sort();
                    c2.len() == commands.len() && n1 == n2 && a2.get_discovered_events().len() == analyzer.get_discovered_events().len()
                }
                Err(_) => false,
            }
        };
        let cmds: Vec<Value> = commands.iter().map(|c| json!({
            "name": c.name, "file": rel(&c.file_path), "is_async": c.is_async, "return_type": c.return_type,
            "rename_all": c.serde_rename_all.map(|r| r.to_rename_all_str()),
            "params": c.parameters.iter().map(|p| json!({"name": p.name, "rust_type": p.rust_type, "is_optional": p.is_optional, "serde_rename": p.serde_rename})).collect::<Vec<_>>(),
            "channels": c.channels.iter().map(|ch| json!({"param": ch.parameter_name, "message_type": ch.message_type})).collect::<Vec<_>>(),
        })).collect();
        let events: Vec<Value> = analyzer.get_discovered_events().iter().map(|e| json!({"name": e.event_name, "payload": e.payload_type, "file": rel(&e.file_path)})).collect();
        let structs_map = analyzer.get_discovered_structs();
        let mut names: Vec<&String> = structs_map.keys().collect();
        names.sort();
        let structs: Vec<Value> = names.iter().map(|n| {
            let st = &structs_map[*n];
            json!({"name": st.name, "is_enum": st.is_enum, "rename_all": st.serde_rename_all.map(|r| r.to_rename_all_str()),
                   "fields": st.fields.iter().map(|f| json!({"name": f.name, "rust_type": f.rust_type, "is_optional": f.is_optional,
                        "serde_rename": f.serde_rename, "has_validator": f.validator_attributes.is_some()})).collect::<Vec<_>>()})
        }).collect();
        let graph = analyzer.get_dependency_graph();
        let mut dn: Vec<&String> = graph.dependencies.keys().collect();
        dn.sort();
        let deps: Vec<Value> = dn.iter().map(|n| {
            let mut d: Vec<&String> = graph.dependencies[*n].iter().collect();
            d.sort();
            json!([n, d])
        }).collect();
        let mut files: HashMap<String, String> = HashMap::new();
        let mut gen_result = json!(null);
        if !commands.is_empty() {
            // the output directory already holds (longer) files of an earlier state: they must be replaced, not overlaid
            let _ = std::fs::create_dir_all(&out_dir);
            for n in ["types.ts", "commands.ts", "events.ts", "index.ts"] {
                let _ = std::fs::write(out_dir.join(n), "// stale line of an earlier generation\nexport const stale = {;\n".repeat(4000));
            }
            let mut generator = create_generator(Some(cfg.validation_library.clone()));
            if input["project"].get("reanalyse").and_then(|x| x.as_bool()).unwrap_or(false) {
                // the generator object is reusable too: an earlier generation with other settings (no mapping table, the
                // other naming cases) into another directory must leave no trace in this one
                let mut cfg0 = cfg.clone();
                cfg0.type_mappings = None;
                cfg0.default_parameter_case = "snake_case".into();
                cfg0.output_path = root.join("out_first").to_string_lossy().to_string();
                let _ = generator.generate_models(&commands, structs_map, &cfg0.output_path, &analyzer, &cfg0);
            }
            match generator.generate_models(&commands, structs_map, &cfg.output_path, &analyzer, &cfg) {
                Ok(list) => {
                    gen_result = json!({"ok": list});
                    for n in &list {
                        if let Ok(t) = std::fs::read_to_string(out_dir.join(n)) {
                            files.insert(n.clone(), strip_ts(&t));
                        }
                    }
                }
                Err(e) => gen_result = json!({"err": e.to_string()}),
            }
        }
        // C10: the same analysis through the generator of the other output mode
        let mut alt_types = json!(null);
        if !commands.is_empty() {
            let other = if cfg.validation_library == "zod" { "none" } else { "zod" };
            let mut cfg2 = cfg.clone();
            cfg2.validation_library = other.into();
            let out2 = root.join("out_alt");
            cfg2.output_path = out2.to_string_lossy().to_string();
            let mut g2 = create_generator(Some(other.to_string()));
            if g2.generate_models(&commands, structs_map, &cfg2.output_path, &analyzer, &cfg2).is_ok() {
                if let Ok(t) = std::fs::read_to_string(out2.join("types.ts")) {
                    alt_types = json!(strip_ts(&t));
                }
            }
        }
        json!({"commands": cmds, "events": events, "structs": structs, "deps": deps, "generated": gen_result, "files": files,
               "alt_types": alt_types, "verbose_same": verbose_same})
    });
    if let Some(c) = old_cwd {
        let _ = std::env::set_current_dir(c);
    }
    let _ = std::fs::remove_dir_all(&root);
    (in2, imp)
}

// ------------------------------------------------------------------------------------------------ generators

fn attr(text: &str) -> Value {
    json!({"text": text})
}

fn ty_json(r: &RTy) -> Value {
    r.to_json()
}

fn value_param(name: &str, r: &RTy, attrs: Vec<Value>) -> Value {
    json!({"pat": name, "ty_text": r.render(), "ty": ty_json(r), "kind": "value", "attrs": attrs})
}

fn raw_param(pat: &str, ty_text: &str, kind: &str) -> Value {
    json!({"pat": pat, "ty_text": ty_text, "kind": kind, "attrs": []})
}

pub const INJECTED: &[&str] = &[
    "AppHandle", "tauri::AppHandle", "State<'_, AppState>", "tauri::State<'_, Db>", "Window<R>", "tauri::Window",
    "WebviewWindow", "tauri::WebviewWindow", "tauri::ipc::Request<'_>", "tauri::State<'_, std::sync::Mutex<Db>>",
    "AppHandle<R>", "::tauri::AppHandle", "::tauri::State<'_, Db>", "State<'_, Mutex<Vec<Channel<LogLine>>>>", "tauri::State<'_, Registry<Channel<u8>>>",
];
pub const NOT_INJECTED: &[&str] = &["Window", "State", "my::AppState", "Request", "other::Window", "Channel", "tauri::Url", "tauri::PhysicalPosition<i32>", "tauri::utils::config::WindowConfig", "tauri::http::Method"];
pub const CHANNELS: &[&str] = &["Channel<{}>", "tauri::ipc::Channel<{}>", "tauri::Channel<{}>", "::tauri::ipc::Channel<{}>"];
pub const ODD_CHANNELS: &[&str] = &["ipc::Channel<{}>", "my::Channel<{}>"];

fn simple_ty(rng: &mut Rng, names: &[String], depth: usize) -> RTy {
    simple_ty2(rng, names, depth, false)
}

fn simple_ty2(rng: &mut Rng, names: &[String], depth: usize, nocomma: bool) -> RTy {
    // CommaSafe + PrecSafe + HarvestSafe by construction (keys are plain, no Option under Vec, no tuples under Result)
    if depth == 0 || rng.chance(1, 3) {
        if !names.is_empty() && rng.chance(1, 2) {
            return RTy::Named(rng.pick(names).clone());
        }
        return RTy::Prim(rng.pick(&["String", "i32", "u64", "bool", "f64", "u8"]).to_string());
    }
    let inner = simple_ty2(rng, names, depth - 1, nocomma);
    let is_opt = matches!(inner, RTy::Opt(_));
    match rng.below(7) {
        0 => RTy::Opt(Box::new(inner)),
        1 | 2 => if is_opt { inner } else { RTy::Vec(Box::new(inner)) },
        3 => if nocomma { inner } else if !names.is_empty() && rng.chance(1, 4) {
            // a tuple of project types as map value (`HashMap<String, (Marker, Region)>`)
            RTy::HMap(Box::new(RTy::Prim("String".into())), Box::new(RTy::Tup(vec![RTy::Named(rng.pick(names).clone()), RTy::Named(rng.pick(names).clone())])))
        } else { RTy::HMap(Box::new(RTy::Prim("String".into())), Box::new(inner)) },
        4 => if is_opt { inner } else { RTy::HSet(Box::new(inner)) },
        5 => RTy::Ref(Box::new(inner)),
        _ => inner,
    }
}

/// return types on which `add_types_prefix` is exact: a named / primitive type, an array of one, optional
fn safe_ret(rng: &mut Rng, names: &[String]) -> RTy {
    let leaf = if !names.is_empty() && rng.chance(2, 3) { RTy::Named(rng.pick(names).clone()) } else { RTy::Prim(rng.pick(&["String", "i32", "bool", "u64"]).to_string()) };
    match rng.below(5) {
        0 => leaf,
        1 => RTy::Vec(Box::new(leaf)),
        2 => RTy::Opt(Box::new(leaf)),
        3 => RTy::Opt(Box::new(RTy::Vec(Box::new(leaf)))),
        _ => RTy::HSet(Box::new(leaf)),
    }
}

fn any_ty(rng: &mut Rng, names: &[String], depth: usize, adversarial: bool) -> RTy {
    if !adversarial {
        return simple_ty(rng, names, depth);
    }
    // arbitrary README types with named leaves re-targeted to project names
    let pool: Vec<&str> = names.iter().map(|x| x.as_str()).collect();
    if pool.is_empty() { rty::random(rng, depth) } else { rty::random_named(rng, depth, &pool) }
}

fn emit_expr(rng: &mut Rng, ev_names: &[&str], type_names: &[String], locals_all: &[(String, String)], adversarial: bool) -> Value {
    // the symbol table keeps only the last path segment of a declared type: in the safe stream only
    // variables of a plain named / primitive type are used as payloads
    let plain: Vec<(String, String)> = locals_all.iter().filter(|(_, t)| t.chars().all(|c| c.is_alphanumeric() || c == '_')).cloned().collect();
    let locals: &[(String, String)] = if adversarial { locals_all } else { &plain };
    let recv = match rng.below(9) {
        0 | 1 | 2 => json!({"k": "path", "segs": ["app"]}),
        3 => json!({"k": "path", "segs": ["window"]}),
        4 => json!({"k": "path", "segs": ["webview"]}),
        5 => match rng.below(3) {
            0 => json!({"k": "field", "base": {"k": "path", "segs": ["self_like"]}, "name": "app"}),
            // the handle is a field reached through another field / a call
            1 => json!({"k": "field", "base": {"k": "field", "base": {"k": "path", "segs": ["ctx"]}, "name": "handles"}, "name": *rng.pick(&["app", "window", "webview"])}),
            _ => json!({"k": "field", "base": {"k": "mcall", "recv": {"k": "path", "segs": ["ctx"]}, "method": "ui", "args": []}, "name": "window"}),
        },
        6 => if rng.chance(1, 2) { json!({"k": "mcall", "recv": {"k": "path", "segs": ["ctx"]}, "method": "handle", "args": []}) } else {
            // … of a method call that takes arguments
            json!({"k": "mcall", "recv": {"k": "path", "segs": ["handles"]}, "method": "handle_for", "args": [{"k": "ref", "e": {"k": "path", "segs": ["label"]}}, {"k": "lit", "text": "2", "lit": "int"}]})
        },
        7 => json!({"k": "path", "segs": ["handle"]}),        // not recognised
        _ => json!({"k": "field", "base": {"k": "path", "segs": ["state"]}, "name": "emitter"}), // not recognised
    };
    let name = rng.pick(ev_names).to_string();
    let payload = match rng.below(13) {
        0 => json!({"k": "lit", "text": "\"text\"", "lit": "str"}),
        1 => json!({"k": "lit", "text": "42", "lit": "int"}),
        2 => json!({"k": "lit", "text": "1.5", "lit": "float"}),
        3 => json!({"k": "lit", "text": "true", "lit": "bool"}),
        4 if !type_names.is_empty() => {
            // a struct literal, bare or module-qualified (`models::Progress { .. }`, `crate::models::Progress { .. }`)
            let t = rng.pick(type_names).clone();
            match rng.below(4) {
                0 => json!({"k": "struct", "segs": ["models", t]}),
                1 => json!({"k": "struct", "segs": ["crate", "models", t]}),
                _ => json!({"k": "struct", "segs": [t]}),
            }
        }
        5 if !locals.is_empty() => json!({"k": "path", "segs": [rng.pick(locals).0]}),
        6 if !locals.is_empty() => json!({"k": "ref", "e": {"k": "path", "segs": [rng.pick(locals).0]}}),
        7 if !locals.is_empty() => json!({"k": "mcall", "recv": {"k": "path", "segs": [rng.pick(locals).0]}, "method": "clone", "args": []}),
        8 => json!({"k": "tuple", "es": []}),
        9 if adversarial => json!({"k": "call", "func": {"k": "path", "segs": ["compute"]}, "args": []}),
        10 if adversarial => json!({"k": "path", "segs": [*rng.pick(&["unknown_var", "data", "local_v", "msg_v", "payload0", "id0"])]}),
        11 if adversarial && !type_names.is_empty() => json!({"k": "path", "segs": ["models", rng.pick(type_names), "Active"]}),
        _ => json!({"k": "lit", "text": "\"x\"", "lit": "str"}),
    };
    let name_expr = if rng.chance(1, 12) {
        json!({"k": "path", "segs": ["EVENT_NAME"]})      // not a literal: no listener
    } else {
        json!({"k": "lit", "text": format!("{:?}", name), "lit": "str", "value": name})
    };
    let (method, args) = if rng.chance(1, 4) {
        ("emit_to", vec![json!({"k": "lit", "text": "\"main\"", "lit": "str"}), name_expr, payload])
    } else {
        ("emit", vec![name_expr, payload])
    };
    let mut call = json!({"k": "mcall", "recv": recv, "method": method, "args": args});
    if rng.chance(1, 6) {
        call["turbofish"] = json!(*rng.pick(if method == "emit_to" { &["&str, Progress", "_, Progress", "_, _", "String, Vec<u8>"][..] } else { &["Progress", "_", "Vec<(u8, String)>"][..] }));
    }
    call
}

/// initialiser of an annotated `let`: the annotation decides the type, whatever the initialiser looks like
fn typed_init(rng: &mut Rng, t: &str) -> Value {
    match rng.below(7) {
        0 => json!({"k": "call", "func": {"k": "path", "segs": ["Default", "default"]}, "args": []}),
        1 => json!({"k": "call", "func": {"k": "path", "segs": ["std", "default", "Default", "default"]}, "args": []}),
        2 => json!({"k": "call", "func": {"k": "path", "segs": [t, "default"]}, "args": []}),
        3 => json!({"k": "call", "func": {"k": "path", "segs": ["serde_json", "from_str"]}, "args": [{"k": "lit", "text": "\"{}\"", "lit": "str"}]}),
        4 => json!({"k": "mcall", "recv": {"k": "call", "func": {"k": "path", "segs": ["loader", "load"]}, "args": []}, "method": "unwrap", "args": []}),
        _ => json!({"k": "call", "func": {"k": "path", "segs": ["make"]}, "args": []}),
    }
}

fn wrap_emit(rng: &mut Rng, e: Value) -> Value {
    // documented placements: statement, let initialiser, under ? / .await, receiver of .unwrap()/.ok(), nested blocks
    match rng.below(15) {
        // initialiser of an annotated / named binding
        12 => json!({"k": "let", "pat": "typed", "name": "sent_v", "ty": "Result<(), tauri::Error>", "init": e}),
        13 => json!({"k": "let", "pat": "typed", "name": "_unit_v", "ty": "()", "init": {"k": "try", "e": e}}),
        14 => json!({"k": "let", "pat": "ident", "name": "sent_r", "init": e}),
        0 | 1 => json!({"k": "expr", "e": {"k": "mcall", "recv": e, "method": "ok", "args": []}}),
        2 => json!({"k": "expr", "e": {"k": "mcall", "recv": e, "method": "unwrap", "args": []}}),
        3 => json!({"k": "expr", "e": {"k": "try", "e": e}}),
        4 => json!({"k": "let", "pat": "wild", "init": e}),
        5 => json!({"k": "expr", "e": {"k": "if", "cond": "flag", "then": [{"k": "expr", "e": e}], "else": null}}),
        6 if rng.chance(1, 6) => {
            // a long flat `else if` ladder (a hand-written dispatcher): the emit sits in its last, 66th, branch
            let mut node = json!({"k": "block", "body": [{"k": "expr", "e": e}]});
            for i in (0..66).rev() {
                node = json!({"k": "if", "cond": format!("n == {}", i), "then": [], "else": node});
            }
            json!({"k": "expr", "semi": false, "e": node})
        }
        6 => if rng.chance(1, 2) { json!({"k": "expr", "semi": false, "e": {"k": "if", "cond": "flag", "then": [{"k": "expr", "e": {"k": "lit", "text": "()"}}],
                    "else": {"k": "block", "body": [{"k": "expr", "e": e}]}}}) } else {
            // `if … else if … else if … else`: the emit sits in the last of four branches
            json!({"k": "expr", "semi": false, "e": {"k": "if", "cond": "flag", "then": [],
                "else": {"k": "if", "cond": "n > 1", "then": [],
                    "else": {"k": "if", "cond": "n > 2", "then": [{"k": "expr", "e": {"k": "lit", "text": "()"}}],
                        "else": {"k": "block", "body": [{"k": "expr", "e": e}]}}}}})
        },
        7 => json!({"k": "expr", "semi": false, "e": {"k": "match", "scrut": "n", "arms": [{"k": "block", "body": [{"k": "expr", "e": e.clone()}]}, {"k": "block", "body": []}]}}),
        8 => json!({"k": "expr", "semi": false, "e": {"k": rng.pick(&["loop", "while", "for"]), "cond": "flag", "body": [{"k": "expr", "e": e}]}}),
        9 => json!({"k": "expr", "e": {"k": "try", "e": {"k": "await", "e": e}}}),
        10 => json!({"k": "expr", "semi": false, "e": {"k": "block", "body": [{"k": "expr", "semi": false, "e": {"k": "block", "body": [{"k": "expr", "e": e}]}}]}}),
        // placements the analyser does not document (closure body, call argument, parenthesised): no listener expected
        _ => json!({"k": "expr", "e": {"k": "call", "func": {"k": "path", "segs": ["spawn"]}, "args": [{"k": "closure", "e": e}]}}),
    }
}

/// one random project; `adversarial` lifts the SafeProject restrictions
pub fn random_project(rng: &mut Rng, nfiles: usize, adversarial: bool, externs: &[&str]) -> Value {
    let dirs = ["", "commands/", "models/", "a/b/c/", "target_x/", "x.target/", "legacy.rs/", "commands/", "src/", "src/commands/", "crates/shared/src/", "dist/", "node_modules/x/", "build/", ".hidden/", "out/", "vendor/", "tests/", "target2/"];
    let mut type_names: Vec<String> = Vec::new();
    let mut items_per_file: Vec<Vec<Value>> = vec![Vec::new(); nfiles];
    let ntypes = 1 + rng.below(3 + nfiles);
    let field_names = ["id", "user_name", "created_at", "count", "items", "meta_data", "is_active", "r_type"];
    let mut lifetime_names: Vec<String> = Vec::new();
    for t in 0..ntypes {
        // stems include names ending in `Schema` / `Params`-like words and names of well-known std types used as *user* types
        let name = if t == 0 && rng.chance(1, 2) {
            // the first type often carries the name of a well-known external type (a qualified mapping key may end in it)
            (*rng.pick(&["Duration", "Path", "Value", "State", "Window", "Request"])).to_string()
        } else if rng.chance(1, 6) {
            (*rng.pick(&["Duration", "Duration", "Duration", "Path", "Path", "Value", "Value", "TableSchema", "Path", "PathBuf", "Duration", "Value", "Params", "Channel0", "Result0", "OptionLike", "設定", "用户", "Ünit", "Ωmega", "MapRegion", "RecordingInfo", "Mapper", "Records", "PromiseLike", "ArrayBuf", "Rgb", "RGB", "Vector3", "VecStats", "HashSetLike", "BoxedValue", "ResultCode", "Sensor_Reading", "snake_type", "HTTPServer"])).to_string() + if t % 2 == 0 { "" } else { "X" }
        } else {
            format!("{}{}", rng.pick(&["User", "Order", "Item", "Config", "Event", "Status", "Mode", "DbConfig", "AppUser", "SubItem", "Sensor_Reading", "HTTPConn"]), t)
        };
        // names that contain another type's name as a proper prefix / suffix (`Config` / `DbConfig` / `ConfigItem`); the
        // shorter one, defined later, refers to the longer one (`Config { db: DbConfig }`)
        let mut forced_ref: Option<String> = None;
        let name = if !type_names.is_empty() && rng.chance(1, 4) {
            let longer = type_names.iter().find(|n| ["Db", "App", "Sub"].iter().any(|p| n.starts_with(p)) && !type_names.contains(&n[n.char_indices().nth(if n.starts_with("Db") { 2 } else { 3 }).unwrap().0..].to_string())).cloned();
            match longer {
                Some(l) => {
                    let cut = if l.starts_with("Db") { 2 } else { 3 };
                    forced_ref = Some(l.clone());
                    l[cut..].to_string()
                }
                None => format!("{}Item", rng.pick(&type_names)),
            }
        } else {
            name
        };
        if type_names.contains(&name) {
            continue;
        }
        let serde = rng.chance(7, 8) || !adversarial;
        let derive = if serde {
            rng.pick(&["derive(Debug, Clone, Serialize, Deserialize)", "derive(Serialize)", "derive(serde::Deserialize, Debug)"]).to_string()
        } else {
            rng.pick(&["derive(Debug, Clone)", "derive(Default)", "derive(MySerializeLike)"]).to_string()
        };
        let mut attrs = if serde && rng.chance(1, 5) {
            // serde derives in a second `#[derive]` attribute
            vec![attr("derive(Debug, Clone)"), attr("derive(Serialize, Deserialize)")]
        } else {
            vec![attr(&derive)]
        };
        if rng.chance(1, 3) {
            let rules: &[&str] = if adversarial { &["camelCase", "snake_case", "PascalCase", "UPPERCASE", "kebab-case", "SCREAMING-KEBAB-CASE", "lowercase"] } else { &["camelCase", "snake_case", "PascalCase", "UPPERCASE"] };
            attrs.push(attr(&format!("serde(rename_all = \"{}\")", rng.pick(rules))));
            if rng.chance(1, 4) {
                // … written before the derive it belongs to
                let last = attrs.pop().unwrap();
                attrs.insert(0, last);
            }
        }
        if rng.chance(1, 7) {
            // a container-level rename (the wire name of the type itself: no TypeScript name depends on it)
            attrs.push(attr(*rng.pick(&["serde(rename = \"RenamedDto\")", "serde(rename = \"renamed_record\", deny_unknown_fields)", "serde(rename(serialize = \"OutDto\", deserialize = \"InDto\"))"])));
        }
        if rng.chance(1, 6) {
            attrs.insert(0, attr(*rng.pick(&["cfg(not(test))", "cfg(any(test, feature = \"full\"))", "cfg(feature = \"test-utils\")", "cfg_attr(test, derive(PartialEq))", "allow(dead_code)", "non_exhaustive"])));
        }
        let f = rng.below(nfiles);
        if rng.chance(1, 4) {
            let variants: Vec<Value> = (0..1 + rng.below(4)).map(|k| {
                let mut va = Vec::new();
                if rng.chance(1, 5) {
                    if adversarial && rng.chance(1, 4) {
                        va.push(attr(*rng.pick(&["serde(rename = \"line\\nbreak\")", "serde(rename = \"C:\\\\dir\")", "serde(rename = \"tab\\there\")"])));
                    } else {
                        va.push(attr(&format!("serde(rename = \"v{}\")", k)));
                    }
                }
                let shape = if adversarial && rng.chance(1, 3) { *rng.pick(&["tuple", "struct"]) } else { "unit" };
                json!({"name": format!("{}{}", rng.pick(&["Active", "Pending", "Done", "InProgress", "Ok"]), k), "attrs": va, "shape": shape})
            }).collect();
            let mut variants = variants;
            if rng.chance(1, 5) {
                // `#[serde(skip)]` on a variant (the last one, the first one, all of them)
                let n = variants.len();
                for (vi, v) in variants.iter_mut().enumerate() {
                    let pick = match n % 3 { 0 => vi + 1 == n, 1 => vi == 0, _ => true };
                    if pick && s(v, "shape") == "unit" {
                        if let Some(a) = v.get_mut("attrs").and_then(|x| x.as_array_mut()) {
                            a.push(attr("serde(skip)"));
                        }
                    }
                }
            }
            if rng.chance(1, 4) {
                // wire names that differ in letter case only, by identifier or by rename; rename values with a comma
                match rng.below(3) {
                    0 => {
                        let (a, b) = *rng.pick(&[("Kb", "KB"), ("Mb", "MB"), ("Id", "ID")]);
                        variants.push(json!({"name": a, "attrs": [], "shape": "unit"}));
                        variants.push(json!({"name": b, "attrs": [], "shape": "unit"}));
                    }
                    1 => {
                        variants.push(json!({"name": "MegaLower", "attrs": [attr("serde(rename = \"mb\")")], "shape": "unit"}));
                        variants.push(json!({"name": "MegaUpper", "attrs": [attr("serde(rename = \"MB\")")], "shape": "unit"}));
                    }
                    _ => {
                        variants.push(json!({"name": "NameAscending", "attrs": [attr("serde(rename = \"name,asc\")")], "shape": "unit"}));
                        variants.push(json!({"name": "NameDescending", "attrs": [attr("serde(rename = \"name, desc\")")], "shape": "unit"}));
                    }
                }
            }
            items_per_file[f].push(json!({"k": "enum", "name": name, "attrs": attrs, "variants": variants}));
        } else {
            let shape = if rng.chance(1, 10) { "unit" } else if adversarial && rng.chance(1, 12) { "tuple" } else { "named" };
            let fields: Vec<Value> = (0..rng.below(5)).map(|k| {
                let mut fa = Vec::new();
                match rng.below(9) {
                    0 => {
                        if adversarial && rng.chance(1, 3) {
                            fa.push(attr(&format!("serde(rename = \"{}\")", rng.pick(&["a-b", "with space", "a\\\"b", "class"]))))
                        } else {
                            fa.push(attr(&format!("serde(rename = \"renamed{}\")", k)))
                        }
                    }
                    1 => {
                        fa.push(attr("serde(skip)"));
                        if rng.chance(1, 2) {
                            // a second serde attribute on the same field, after the skip
                            fa.push(attr(*rng.pick(&["serde(default = \"fresh\")", "serde(default)", "serde(rename = \"kept\")"])));
                        }
                    }
                    2 => fa.push(attr(*rng.pick(&["serde(default)", "serde(flatten)", "serde(flatten, default)", "serde(borrow)", "serde(with = \"serde_bytes\")"]))),
                    3 => fa.push(attr("serde(skip_serializing_if = \"Option::is_none\")")),
                    4 => fa.push(attr("validate(length(min = 1, max = 64))")),
                    5 => fa.push(attr(*rng.pick(&["validate(range(min = 0, max = 100), email)", "validate(range(min = 0, max = 100), email)",
                        // `email` / `url` with a message of their own, the message with a quote, a backslash, a line break in it
                        "validate(email(message = \"Enter a \\\"real\\\" address\"))", "validate(url(message = \"back\\\\slash and\\nline break\"), length(min = 3))",
                        "validate(email(message = \"plain text\"), length(max = 64, message = \"too long\"))"]))),
                    _ => {}
                }
                let skipped = fa.first().map_or(false, |a| s(a, "text") == "serde(skip)");
                let ty = if skipped && rng.chance(1, 2) {
                    // a skipped field typically holds something that is no serde type at all (a handle, a lock)
                    RTy::Named((*rng.pick(&["OsHandle", "Mutex<Connection>", "RawFd"])).to_string())
                } else {
                    any_ty(rng, &type_names, 2, adversarial)
                };
                // (adversarial stream: now and then a field spelled as a raw identifier)
                let fname = if adversarial && rng.chance(1, 10) { (*rng.pick(&["r#type", "r#ref", "r#match"])).to_string() } else { format!("{}{}", rng.pick(&field_names), k) };
                json!({"name": fname, "vis": rng.pick(&["pub", "", "pub(crate)"]), "ty": ty_json(&ty), "attrs": fa})
            }).collect();
            let mut fields = fields;
            if let Some(l) = &forced_ref {
                if shape == "named" {
                    fields.push(json!({"name": "linked", "vis": "pub", "ty": ty_json(&RTy::Named(l.to_string())), "attrs": []}));
                }
            }
            let lifetime = shape == "named" && rng.chance(1, 6);
            if lifetime && !lifetime_names.is_empty() && rng.chance(1, 2) {
                // `title: Label<'a>` inside `Page<'a>`
                fields.push(json!({"name": "borrowed_part", "vis": "pub", "ty": ty_json(&RTy::Named(format!("{}<'a>", rng.pick(&lifetime_names)))), "attrs": []}));
            }
            if lifetime {
                lifetime_names.push(name.clone());
                fields.push(json!({"name": "borrowed_text", "vis": "pub", "ty": ty_json(&RTy::RefL(Box::new(RTy::Prim("str".into())))), "attrs": []}));
            }
            items_per_file[f].push(json!({"k": "struct", "name": name, "attrs": attrs, "shape": shape, "fields": fields, "lifetime": lifetime}));
        }
        if serde {
            type_names.push(name);
        }
    }
    // data-carrying variants mention project types of any file, defined earlier or later (the tool renders an enum by its
    // variant names only: what a variant carries is no dependency of the enum)
    if !type_names.is_empty() {
        for items in items_per_file.iter_mut() {
            for it in items.iter_mut() {
                if s(it, "k") != "enum" {
                    continue;
                }
                if let Some(vs) = it.get_mut("variants").and_then(|v| v.as_array_mut()) {
                    for v in vs.iter_mut() {
                        if s(v, "shape") != "unit" && rng.chance(2, 3) {
                            let t = rng.pick(&type_names).clone();
                            v["payload"] = json!(*rng.pick(&[format!("Vec<{}>", t), t.clone(), format!("Option<Box<{}>>", t), format!("{}, u8", t)]));
                        }
                    }
                }
            }
        }
    }
    // names of types that are *not* defined in the project (they are only legal input when the configuration maps them)
    for e in externs {
        type_names.push(e.to_string());
        if *e == "DocId" {
            // … one of them is a type alias in the project: the mapping is keyed by the name as written
            let f = rng.below(nfiles);
            items_per_file[f].push(json!({"k": "other", "text": "pub type DocId = u64;\npub type Rows<T> = Vec<T>;"}));
        }
    }
    let ev_names: Vec<&str> = if adversarial {
        vec!["user-updated", "sync_done", "task:progress", "a/b", "x", "user-updated", "Mixed-Case_1"]
    } else {
        vec!["user-updated", "sync-done", "task-progress", "download_finished", "x", "DB-READY", "db-ready", "ready", "on-ready", "on_ready"]
    };
    let ncmds = 1 + rng.below(3 + nfiles);
    let mut cmd_names_so_far: Vec<String> = Vec::new();
    for c in 0..ncmds {
        let name = if adversarial && c > 0 && rng.chance(1, 10) {
            // the same command name again (two cfg-gated variants of one command in two modules)
            cmd_names_so_far[0].clone()
        } else if adversarial && c > 0 && rng.chance(1, 8) {
            // a second command whose name differs from the first only in a way the TypeScript name forgets
            format!("{}_", cmd_names_so_far[0])
        } else if adversarial && rng.chance(1, 10) {
            rng.pick(&["class", "delete", "new", "r#type", "_1st", "typeof"]).to_string()
        } else {
            format!("{}_{}{}", rng.pick(&["get", "set", "load", "save", "list"]), rng.pick(&["user", "item", "config", "report"]), c)
        };
        let mut params: Vec<Value> = Vec::new();
        let mut locals: Vec<(String, String)> = Vec::new();
        for k in 0..rng.below(4) {
            let pname = format!("{}{}", rng.pick(&["id", "user_name", "filter", "payload", "_opt", "max__count", "größe", "名前_x", "élan_vital"]), k);
            let mixed: Option<RTy> = if !externs.is_empty() && type_names.len() > externs.len() && rng.chance(1, 3) {
                // a mapped (external) name and a project type side by side in one tuple / map
                let e = RTy::Named(rng.pick(externs).to_string());
                let own = RTy::Named(type_names[rng.below(type_names.len() - externs.len())].clone());
                Some(if rng.chance(1, 2) { RTy::Tup(vec![e, own]) } else { RTy::HMap(Box::new(e), Box::new(own)) })
            } else { None };
            // names that are reserved words of JavaScript and plain identifiers of Rust
            let pname = if rng.chance(1, 10) { rng.pick(&["package", "public", "default", "new", "export", "import", "delete", "function", "class", "var"]).to_string() } else { pname };
            if params.iter().any(|q: &Value| s(q, "pat").trim_start_matches("mut ") == pname) {
                continue;
            }
            let ty = match mixed { Some(m) => m, None => any_ty(rng, &type_names, 2, adversarial) };
            let mut pa = Vec::new();
            if rng.chance(1, 10) {
                pa.push(attr(&format!("serde(rename = \"p{}\")", k)));
            }
            locals.push((pname.clone(), ty.render()));
            let mut vp = value_param(&pname, &ty, pa);
            if rng.chance(1, 6) {
                vp["pat"] = json!(format!("mut {}", pname));
            }
            params.push(vp);
        }
        if rng.chance(1, 2) {
            params.insert(0, raw_param("app", *rng.pick(INJECTED), "injected"));
        }
        if rng.chance(1, 5) {
            params.push(raw_param(&format!("inj{}", c), *rng.pick(INJECTED), "injected"));
        }
        if adversarial && rng.chance(1, 5) {
            params.push(raw_param(&format!("odd{}", c), *rng.pick(NOT_INJECTED), "value_raw"));
        }
        if adversarial && rng.chance(1, 6) {
            // an optional parameter whose `Option` is spelled with its path: omissible all the same, in both modes
            params.push(raw_param(&format!("maybe{}", c), *rng.pick(&["std::option::Option<String>", "core::option::Option<u32>", "::std::option::Option<Vec<u8>>"]), "value_raw"));
        }
        if adversarial && rng.chance(1, 4) {
            // value parameters of types outside the README table: still parameters the frontend has to supply
            params.push(raw_param(&format!("key_bytes{}", c), *rng.pick(&["[u8; 4]", "&[u8]", "[[f32; 2]; 2]", "Box<[u8]>", "fn(u8) -> u8", "*const u8", "impl Into<String>"]), "value_raw"));
        }
        if rng.chance(1, 4) {
            let msg = any_ty(rng, &type_names, 1, adversarial);
            let sp: &str = if adversarial && rng.chance(1, 4) { *rng.pick(ODD_CHANNELS) } else { *rng.pick(CHANNELS) };
            let chname = if rng.chance(1, 4) { format!("{}{}", rng.pick(&["größe_kanal", "通知", "on_événement"]), c) } else { format!("on_event{}", c) };
            let mut p = raw_param(&chname, &sp.replace("{}", &msg.render()), "channel");
            p["chan_ty"] = ty_json(&msg);
            params.push(p);
        }
        if rng.chance(1, 9) {
            // several channels on one command (stdout / stderr / progress), after at least one value parameter
            for q in 0..3 + rng.below(2) {
                let msg = any_ty(rng, &type_names, 1, false);
                let mut p = raw_param(&format!("on_stream{}_{}", c, q), &CHANNELS[q % CHANNELS.len()].replace("{}", &msg.render()), "channel");
                p["chan_ty"] = ty_json(&msg);
                params.push(p);
            }
        }
        if adversarial && rng.chance(1, 10) {
            params.push(raw_param("(a, b)", "(i32, i32)", "pattern"));
        }
        if adversarial && rng.chance(1, 8) {
            // a destructured parameter *before* the named ones (the symbol table must still see those that follow)
            params.insert(0, raw_param("(done, total)", "(u32, u32)", "pattern"));
        }
        if rng.chance(1, 8) {
            params.insert(0, raw_param("_", "tauri::Window", "injected"));
        }
        let ret = match rng.below(5) {
            0 => Value::Null,
            1 => ty_json(&if adversarial { any_ty(rng, &type_names, 2, true) } else { safe_ret(rng, &type_names) }),
            _ => {
                let ok = if adversarial { any_ty(rng, &type_names, 2, true) } else { safe_ret(rng, &type_names) };
                // the error arm never reaches the bindings, whatever it looks like (a tuple, a map, a named type)
                let err = match rng.below(6) {
                    0 => RTy::Tup(vec![RTy::Prim("u16".into()), RTy::Prim("String".into())]),
                    1 => RTy::HMap(Box::new(RTy::Prim("String".into())), Box::new(RTy::Prim("String".into()))),
                    2 => RTy::Vec(Box::new(RTy::Tup(vec![RTy::Prim("u8".into()), RTy::Prim("u8".into())]))),
                    _ => RTy::Prim("String".into()),
                };
                ty_json(&RTy::Res2(Box::new(ok), Box::new(err)))
            }
        };
        let mut body: Vec<Value> = Vec::new();
        if rng.chance(1, 3) {
            let tn = if type_names.is_empty() { "String".to_string() } else { rng.pick(&type_names).clone() };
            body.push(json!({"k": "let", "pat": "typed", "name": "local_v", "ty": tn, "init": typed_init(rng, &tn)}));
            locals.push(("local_v".into(), tn));
        }
        if !locals.is_empty() && rng.chance(1, 4) {
            // a loop whose variable re-uses the name of a parameter / binding: after the loop the outer one is back in force
            let (n, _) = rng.pick(&locals).clone();
            let pat = match rng.below(3) { 0 => format!("&{}", n), 1 => format!("(_k, {})", n), _ => n };
            body.push(json!({"k": "expr", "semi": false, "e": {"k": "for", "pat": pat, "body": []}}));
        }
        for _ in 0..rng.below(3) {
            let e = emit_expr(rng, &ev_names, &type_names, &locals, adversarial);
            body.push(wrap_emit(rng, e));
        }
        // a name bound more than once (shadowing / rebinding in the same body): the payload has the type of the
        // binding in force at the emit site
        if rng.chance(1, 3) && type_names.len() >= 2 {
            let a = rng.pick(&type_names).clone();
            let mut b = rng.pick(&type_names).clone();
            if b == a {
                b = type_names.iter().find(|t| **t != a).cloned().unwrap_or(b);
            }
            let bind = |rng: &mut Rng, t: &str| -> Value {
                if rng.chance(1, 2) {
                    if rng.chance(1, 3) {
                        json!({"k": "let", "pat": "ident", "name": "msg_v", "init": {"k": "struct", "segs": ["models", t]}})
                    } else {
                        json!({"k": "let", "pat": "ident", "name": "msg_v", "init": {"k": "struct", "segs": [t]}})
                    }
                } else {
                    json!({"k": "let", "pat": "typed", "name": "msg_v", "ty": t, "init": typed_init(rng, t)})
                }
            };
            let use_it = |rng: &mut Rng, ev_names: &[&str]| -> Value {
                let mut e = emit_expr(rng, ev_names, &[], &[], false);
                let payload = match rng.below(3) {
                    0 => json!({"k": "path", "segs": ["msg_v"]}),
                    1 => json!({"k": "ref", "e": {"k": "path", "segs": ["msg_v"]}}),
                    _ => json!({"k": "mcall", "recv": {"k": "path", "segs": ["msg_v"]}, "method": "clone", "args": []}),
                };
                if let Some(args) = e.get_mut("args").and_then(|x| x.as_array_mut()) {
                    if let Some(last) = args.last_mut() {
                        *last = payload;
                    }
                }
                json!({"k": "expr", "e": {"k": "mcall", "recv": e, "method": "ok", "args": []}})
            };
            body.push(bind(rng, &a));
            if rng.chance(1, 2) {
                body.push(use_it(rng, &ev_names));
            }
            body.push(bind(rng, &b));
            body.push(use_it(rng, &ev_names));
        }
        // a payload bound by `let` to an expression that carries no type name (literal, tuple, nested tuple, call result)
        if adversarial && rng.chance(1, 3) {
            let li = |t: &str, k: &str| json!({"k": "lit", "text": t, "lit": k});
            let init = match rng.below(5) {
                0 => li("7", "int"),
                1 => li("\"copying\"", "str"),
                2 => json!({"k": "tuple", "es": [li("3", "int"), li("true", "bool")]}),
                3 => json!({"k": "tuple", "es": [{"k": "tuple", "es": [li("3", "int"), li("10", "int")]}, li("\"copying\"", "str")]}),
                _ => json!({"k": "mcall", "recv": {"k": "path", "segs": ["progress"]}, "method": "snapshot", "args": []}),
            };
            body.push(json!({"k": "let", "pat": "ident", "name": "lit_v", "init": init}));
            let mut e = emit_expr(rng, &ev_names, &[], &[], false);
            if let Some(args) = e.get_mut("args").and_then(|x| x.as_array_mut()) {
                if let Some(last) = args.last_mut() {
                    *last = json!({"k": "path", "segs": ["lit_v"]});
                }
            }
            body.push(json!({"k": "expr", "e": {"k": "mcall", "recv": e, "method": "ok", "args": []}}));
        }
        body.push(json!({"k": "other", "text": "todo!()"}));
        let cmd_attr = *rng.pick(&["tauri::command", "tauri::command", "command", "tauri::command(rename_all = \"snake_case\")", "tauri::command(async)", "tauri::command(rename_all = \"camelCase\", async)", "tauri::command(root = \"crate\")",
            // the imported macro, with arguments
            "command(async)", "command(rename_all = \"snake_case\")", "command(root = \"crate\", async)"]);
        let mut attrs = Vec::new();
        if rng.chance(1, 3) {
            attrs.push(attr(*rng.pick(&["allow(dead_code)", "cfg(not(test))", "cfg(feature = \"testing\")", "inline", "cfg_attr(debug_assertions, allow(unused))", "must_use"])));
        }
        attrs.push(attr(cmd_attr));
        if rng.chance(1, 8) {
            attrs.push(attr(&format!("serde(rename_all = \"{}\")", rng.pick(&["snake_case", "camelCase", "PascalCase"]))));
        }
        if rng.chance(1, 4) {
            attrs.insert(0, attr("doc = \" documented command\""));
        }
        let f = rng.below(nfiles);
        cmd_names_so_far.push(name.clone());
        items_per_file[f].push(json!({"k": "fn", "name": name, "attrs": attrs, "vis": rng.pick(&["pub", "", "pub(crate)"]),
            "async": rng.chance(1, 2), "params": params, "ret": ret, "body": body}));
    }
    // types that only an event payload reaches, the dependent sorting *before* its dependency
    let mut extra_events: Vec<(String, Value)> = Vec::new();
    if rng.chance(1, 3) {
        let der = "derive(Debug, Clone, Serialize, Deserialize)";
        let fld = |n: &str, t: RTy| json!({"name": n, "vis": "pub", "ty": ty_json(&t), "attrs": []});
        let f1 = rng.below(nfiles);
        items_per_file[f1].push(json!({"k": "struct", "name": "EvAlert", "attrs": [attr(der)], "shape": "named",
            "fields": [fld("level", RTy::Named("EvLevel".into())), fld("history", RTy::Vec(Box::new(RTy::Named("EvLevel".into()))))]}));
        let f2 = rng.below(nfiles);
        items_per_file[f2].push(json!({"k": "struct", "name": "EvLevel", "attrs": [attr(der)], "shape": "named",
            "fields": [fld("rank", RTy::Prim("u8".into()))]}));
        extra_events.push(("alert-raised".to_string(), json!({"k": "struct", "segs": ["EvAlert"]})));
        // an event spelled exactly like one of the types
        extra_events.push(("EvLevel".to_string(), json!({"k": "struct", "segs": ["EvAlert"]})));
    }
    if !extra_events.is_empty() || rng.chance(1, 4) {
        let f = rng.below(nfiles);
        let mut body: Vec<Value> = Vec::new();
        for (n, payload) in &extra_events {
            body.push(json!({"k": "expr", "e": {"k": "mcall", "recv": {"k": "mcall", "recv": {"k": "path", "segs": ["app"]}, "method": "emit",
                "args": [{"k": "lit", "text": format!("{:?}", n), "lit": "str", "value": n}, payload]}, "method": "ok", "args": []}}));
        }
        // a name that other functions bind with a type is bound here without one (the payload type is not evident)
        let vname = *rng.pick(&["msg_v", "local_v", "r#type", "r#move"]);
        if rng.chance(1, 2) {
            body.push(json!({"k": "let", "pat": "ident", "name": vname, "init": {"k": "call", "func": {"k": "path", "segs": ["compute"]}, "args": []}}));
        } else if !type_names.is_empty() {
            let tnn = rng.pick(&type_names).clone();
            body.push(json!({"k": "let", "pat": "typed", "name": vname, "ty": tnn, "init": typed_init(rng, &tnn)}));
        }
        body.push(json!({"k": "expr", "e": {"k": "mcall", "recv": {"k": "mcall", "recv": {"k": "path", "segs": ["app"]}, "method": "emit",
            "args": [{"k": "lit", "text": "\"late-binding\"", "lit": "str", "value": "late-binding"}, {"k": "ref", "e": {"k": "path", "segs": [vname]}}]}, "method": "ok", "args": []}}));
        let fattr = *rng.pick(&["cfg(not(test))", "cfg(feature = \"testing\")", "cfg(test)", "inline", "allow(unused)", "doc = \" a test helper\"", "cfg(any(test, feature = \"latest\"))"]);
        items_per_file[f].push(json!({"k": "fn", "name": "notify_extra", "attrs": [attr(fattr)], "vis": "pub", "async": false,
            "params": [raw_param("app", "&tauri::AppHandle", "injected")], "ret": null, "body": body}));
    }
    // a dependency triangle with a transitive edge: TriA -> {TriB, TriC}, TriB -> TriC, reached through TriA first
    // (dependency-first emission must not emit TriB before TriC)
    if rng.chance(1, 3) {
        let named = |n: &str| RTy::Named(n.to_string());
        let der = "derive(Debug, Clone, Serialize, Deserialize)";
        let fld = |n: &str, t: RTy| json!({"name": n, "vis": "pub", "ty": ty_json(&t), "attrs": []});
        let fc = rng.below(nfiles);
        items_per_file[fc].push(json!({"k": "struct", "name": "TriC", "attrs": [attr(der)], "shape": "named", "fields": [fld("leaf", RTy::Prim("i32".into()))]}));
        let fb = rng.below(nfiles);
        items_per_file[fb].push(json!({"k": "struct", "name": "TriB", "attrs": [attr(der)], "shape": "named",
            "fields": [fld("inner", if rng.chance(1, 2) { named("TriC") } else { RTy::Vec(Box::new(named("TriC"))) })]}));
        let fa = rng.below(nfiles);
        items_per_file[fa].push(json!({"k": "struct", "name": "TriA", "attrs": [attr(der)], "shape": "named",
            "fields": [fld("first", named("TriB")), fld("second", RTy::Vec(Box::new(named("TriC"))))]}));
        let f = rng.below(nfiles);
        items_per_file[f].push(json!({"k": "fn", "name": "load_tri", "attrs": [attr("tauri::command")], "vis": "pub", "async": false,
            "params": [], "ret": ty_json(&named("TriA")), "body": [{"k": "other", "text": "todo!()"}]}));
    }
    if rng.chance(1, 10) {
        let der = "derive(Debug, Clone, Serialize, Deserialize)";
        let fa = rng.below(nfiles);
        let fb = rng.below(nfiles);
        items_per_file[fa].push(json!({"k": "struct", "name": "RingFolder", "attrs": [attr(der)], "shape": "named",
            "fields": [{"name": "entries", "vis": "pub", "ty": ty_json(&RTy::Vec(Box::new(RTy::Named("RingEntry".into())))), "attrs": []}]}));
        items_per_file[fb].push(json!({"k": "struct", "name": "RingEntry", "attrs": [attr(der)], "shape": "named",
            "fields": [{"name": "parents", "vis": "pub", "ty": ty_json(&RTy::Vec(Box::new(RTy::Named("RingFolder".into())))), "attrs": []},
                       {"name": "size", "vis": "pub", "ty": ty_json(&RTy::Prim("u64".into())), "attrs": []}]}));
        items_per_file[fa].push(json!({"k": "fn", "name": "store_tree", "attrs": [attr("tauri::command")], "vis": "pub", "async": false,
            "params": [value_param("root", &RTy::Named("RingFolder".into()), vec![]), value_param("first", &RTy::Named("RingEntry".into()), vec![])],
            "ret": null, "body": [{"k": "other", "text": "todo!()"}]}));
    }
    // a long acyclic chain of types (no bound on the depth of a dependency path): Link00 { next: Option<Link01> } … Link39
    if rng.chance(1, 12) {
        let len = 34 + rng.below(8);
        let der = "derive(Debug, Clone, Serialize, Deserialize)";
        for i in 0..len {
            let mut fields = vec![json!({"name": "value", "vis": "pub", "ty": ty_json(&RTy::Prim("u32".into())), "attrs": []})];
            if i + 1 < len {
                fields.push(json!({"name": "next", "vis": "pub", "ty": ty_json(&RTy::Opt(Box::new(RTy::Named(format!("Link{:02}", i + 1))))), "attrs": []}));
            }
            let f = rng.below(nfiles);
            items_per_file[f].push(json!({"k": "struct", "name": format!("Link{:02}", i), "attrs": [attr(der)], "shape": "named", "fields": fields}));
        }
        let f = rng.below(nfiles);
        items_per_file[f].push(json!({"k": "fn", "name": "load_chain", "attrs": [attr("tauri::command")], "vis": "pub", "async": false,
            "params": [], "ret": ty_json(&RTy::Named("Link00".into())), "body": [{"k": "other", "text": "todo!()"}]}));
    }
    // a function without parameters emitting on the result of a method chain rooted in a global
    if rng.chance(1, 3) {
        let f = rng.below(nfiles);
        let ev = rng.pick(&ev_names).to_string();
        let recv = json!({"k": "mcall", "recv": {"k": "mcall", "recv": {"k": "path", "segs": ["APP"]}, "method": "get", "args": []}, "method": "unwrap", "args": []});
        let call = json!({"k": "mcall", "recv": recv, "method": "emit", "args": [{"k": "lit", "text": format!("{:?}", ev), "lit": "str", "value": ev}, {"k": "lit", "text": "7", "lit": "int"}]});
        items_per_file[f].push(json!({"k": "fn", "name": format!("tick_{}", f), "attrs": [], "vis": "pub", "async": false, "params": [], "ret": null,
            "body": [{"k": "expr", "e": {"k": "mcall", "recv": call, "method": "ok", "args": []}}]}));
    }
    // the handler registration lists only some of the commands (others are registered by a plugin / behind a feature)
    if rng.chance(1, 3) && !cmd_names_so_far.is_empty() {
        let f = rng.below(nfiles);
        let listed: Vec<String> = cmd_names_so_far.iter().filter(|_| rng.chance(1, 2)).cloned().collect();
        items_per_file[f].push(json!({"k": "other", "text": format!("pub fn run_app() {{\n    tauri::Builder::default().invoke_handler(tauri::generate_handler![{}]);\n}}", listed.join(", "))}));
    }
    // a plain function with the name of a command, in another file (a thin command wrapper delegating to a backend helper)
    if nfiles >= 2 {
        let cmd_sites: Vec<(usize, String)> = items_per_file.iter().enumerate().flat_map(|(fi, items)| {
            items.iter().filter(|it| s(it, "k") == "fn" && arr(it, "attrs").iter().any(|a| s(a, "text").contains("command")))
                .map(|it| (fi, s(it, "name"))).collect::<Vec<_>>()
        }).collect();
        for (fi, cname) in cmd_sites {
            if rng.chance(1, 3) && !cname.starts_with("r#") {
                let other = (fi + 1 + rng.below(nfiles - 1)) % nfiles;
                items_per_file[other].push(json!({"k": "fn", "name": cname, "attrs": [], "vis": "pub(crate)", "async": false,
                    "params": [raw_param("conn", "&Connection", "value_raw"), value_param("limit", &RTy::Prim("u32".into()), vec![])],
                    "ret": null, "body": []}));
            }
        }
    }
    // decoys: helper fns (may emit events), impl blocks and inline modules with command-looking fns, misc items
    for f in 0..nfiles {
        if rng.chance(1, 2) {
            let mut body = Vec::new();
            let locals = vec![("data".to_string(), "User0".to_string())];
            if rng.chance(1, 2) {
                let e = emit_expr(rng, &ev_names, &type_names, &locals, adversarial);
                body.push(wrap_emit(rng, e));
            }
            let tn = if type_names.is_empty() { "String".to_string() } else { rng.pick(&type_names).clone() };
            items_per_file[f].push(json!({"k": "fn", "name": format!("helper_{}", f), "attrs": [], "vis": "pub", "async": false,
                "params": [raw_param("app", "&tauri::AppHandle", "injected"), raw_param("data", &format!("&{}", tn), "value_raw")],
                "ret": null, "body": body}));
        }
        if rng.chance(1, 3) {
            items_per_file[f].push(json!({"k": "other", "text": format!("pub struct Svc{};\nimpl Svc{} {{\n    #[tauri::command]\n    pub fn in_impl_{}(&self, x: i32) -> i32 {{ x }}\n}}", f, f, f)}));
        }
        if rng.chance(1, 3) {
            items_per_file[f].push(json!({"k": "other", "text": format!("pub mod inner_{} {{\n    #[tauri::command]\n    pub fn in_mod_{}(x: i32) -> i32 {{ x }}\n}}", f, f)}));
        }
        if rng.chance(1, 4) && !type_names.is_empty() {
            // an inline module defining an unrelated serde type with the name of a top-level one
            let tn = rng.pick(&type_names).clone();
            items_per_file[f].push(json!({"k": "other", "text": format!("pub mod legacy_{} {{\n    use serde::{{Deserialize, Serialize}};\n    #[derive(Serialize, Deserialize)]\n    pub struct {} {{\n        pub old_field: u8,\n    }}\n}}", f, tn)}));
        }
        if rng.chance(1, 3) {
            items_per_file[f].push(json!({"k": "other", "text": "const LIMIT: usize = 3;\n// a comment\nmacro_rules! m { () => {} }"}));
        }
        // item order inside the file is random
        let items = &mut items_per_file[f];
        for i in (1..items.len()).rev() {
            let j = rng.below(i + 1);
            items.swap(i, j);
        }
    }
    let mut files: Vec<Value> = Vec::new();
    for (i, items) in items_per_file.into_iter().enumerate() {
        let dir = if rng.chance(1, 2) { dirs[i % dirs.len()] } else { dirs[rng.below(dirs.len())] };
        // file names: plain, dot-prefixed (`#[path = ".platform.rs"] mod platform;`)
        let fname = if rng.chance(1, 8) { format!(".f{}.rs", i) } else if rng.chance(1, 10) { format!("caf{}{}.rs", '\u{fffd}', i) } else { format!("f{}.rs", i) };
        files.push(json!({"path": format!("{}{}", dir, fname), "items": items,
                          "compact": rng.chance(1, 5), "shebang": rng.chance(1, 6), "symlink": rng.chance(1, 7)}));
    }
    // layout decoys
    files.push(json!({"path": "target/debug/build/gen.rs", "items": [{"k": "fn", "name": "hidden_in_target", "attrs": [attr("tauri::command")], "vis": "pub", "async": false, "params": [], "ret": null, "body": []}]}));
    files.push(json!({"path": ".git/hooks/x.rs", "items": [{"k": "fn", "name": "hidden_in_git", "attrs": [attr("tauri::command")], "vis": "pub", "async": false, "params": [], "ret": null, "body": []}]}));
    files.push(json!({"path": "notes.txt", "raw": "#[tauri::command]\nfn not_rust() {}\n"}));
    if rng.chance(1, 3) {
        files.push(json!({"path": "Cargo.toml", "raw": format!("[package]\nname = \"{}\"\nversion = \"0.1.0\"\nedition = \"2021\"\n\n[dependencies]\ntauri = \"2\"\n", rng.pick(&["tauri-plugin-vault", "my-app", "tauri-plugin-fs-extra"]))}));
    }
    if rng.chance(1, 2) {
        // text that does not parse, also with multi-byte characters in front of the error on the same line
        let raw = *rng.pick(&["#[tauri::command]\npub fn broken( {\n", "#[tauri::command]\npub fn t() { let title = \"設定\" \"概要\"; }\n",
            "pub struct Ä { ß: \"é\" \"è\" }\n", "/* 未完"]);
        files.push(json!({"path": "broken.rs", "raw": raw}));
    }
    if rng.chance(1, 3) {
        files.push(json!({"path": "sub/empty.rs", "raw": ""}));
    }
    if rng.chance(1, 4) {
        // marker files of other tools in a directory that holds sources (cache tag, ignore files): not the walker's business
        let dirs: Vec<String> = files.iter().filter_map(|f| { let p = s(f, "path"); p.rfind('/').map(|i| p[..i].to_string()) })
            .filter(|d| !d.starts_with("target") && !d.starts_with(".git") && !d.contains('\u{fffd}')).collect();
        if !dirs.is_empty() {
            let d = rng.pick(&dirs).clone();
            let (name, text) = *rng.pick(&[("CACHEDIR.TAG", "Signature: 8a477f597d28d172789f06886806bc55\n# This file is a cache directory tag.\n"),
                (".gitignore", "*\n"), (".ignore", "*.rs\n"), (".nomedia", ""), (".cargo-ok", "{\"v\":1}")]);
            files.push(json!({"path": format!("{}/{}", d, name), "raw": text}));
        }
    }
    let mut outside: Vec<Value> = Vec::new();
    if rng.chance(1, 4) {
        // a module declared with `#[path]` that lives outside the project path (shared between crates): its commands are
        // not this project's
        files.push(json!({"path": "shared_link.rs", "items": [{"k": "other", "text": "#[path = \"../outside_shared/remote.rs\"]\npub mod remote;"}]}));
        outside.push(json!({"path": "../outside_shared/remote.rs", "raw": "use serde::{Deserialize, Serialize};\n\n#[derive(Serialize, Deserialize)]\npub struct RemoteInfo {\n    pub host: String,\n}\n\n#[tauri::command]\npub fn outside_ping(info: RemoteInfo) -> RemoteInfo {\n    info\n}\n"}));
    }
    if !adversarial && rng.chance(1, 6) {
        // the project is addressed by a *relative* path from a directory that has an ancestor called `target`:
        // nothing below the project path is excluded by that
        return json!({"files": files, "outside": outside, "root_prefix": "clients/target/pos-app", "relative": true});
    }
    json!({"files": files, "outside": outside, "root_prefix": if adversarial && rng.chance(1, 6) { "x/target/y" } else { "" }, "reanalyse": rng.chance(1, 6), "trailing_slash": rng.chance(1, 5)})
}

/// group `project`: whole-pipeline cases
pub fn run(out: &mut crate::out::Out, tier: &str, rng: &mut Rng) {
    let n = if tier == "thorough" { 1500 } else { 120 };
    for i in 0..n {
        let nfiles = 1 + rng.below(5);
        let adversarial = i % 3 == 2;
        let externs: &[&str] = if i % 5 == 4 { &["PathBuf", "Uuid", "DocId"] } else { &[] };
        let mut p = random_project(rng, nfiles, adversarial, externs);
        if i % 10 == 9 {
            // the project whose foreign `DocId` will be mapped onto one of its own types gets a command that takes that type
            // directly (so that it is certainly declared: the mapping must not be what makes the bindings dangle)
            let target: Option<String> = arr(&p, "files").iter().flat_map(|f| arr(f, "items"))
                .filter(|it| (s(it, "k") == "struct" && s(it, "shape") != "tuple" || s(it, "k") == "enum")
                    && arr(it, "attrs").iter().any(|a| { let t = s(a, "text"); t.starts_with("derive(") && (t.contains("Serialize") || t.contains("Deserialize")) })
                    && !it.get("lifetime").and_then(|x| x.as_bool()).unwrap_or(false))
                .map(|it| s(&it, "name")).filter(|n| n.is_ascii() && n.chars().next().map_or(false, |c| c.is_ascii_uppercase())).last();
            if let (Some(t), Some(f0)) = (target, p.get_mut("files").and_then(|x| x.as_array_mut()).and_then(|a| a.iter_mut().find(|f| f.get("items").is_some() && s(f, "path").ends_with(".rs") && !s(f, "path").starts_with("target") && !s(f, "path").starts_with(".git")))) {
                if let Some(items) = f0.get_mut("items").and_then(|x| x.as_array_mut()) {
                    items.push(json!({"k": "fn", "name": "uses_mapping_target", "attrs": [attr("tauri::command")], "vis": "pub", "async": false,
                        "params": [value_param("target_value", &RTy::Named(t), vec![])], "ret": null, "body": []}));
                }
            }
        }
        for mode in ["none", "zod"] {
            let cfg = match i % 5 {
                0 => json!({"mode": mode}),
                1 => json!({"mode": mode, "mappings": {"User0": "string", "chrono::Duration": "number", "std::path::Path": "string", "serde_json::Value": "unknown"}}),
                2 => json!({"mode": mode, "param_case": "snake_case"}),
                3 => json!({"mode": mode, "field_case": "camelCase"}),
                _ => {
                    // every other time the foreign `DocId` is mapped onto the name of a type the project itself defines
                    let own: Vec<String> = arr(&p, "files").iter().flat_map(|f| arr(f, "items")).filter(|it| s(it, "k") == "struct" || s(it, "k") == "enum")
                        .map(|it| s(&it, "name")).filter(|n| n.is_ascii() && n.chars().next().map_or(false, |c| c.is_ascii_uppercase())).collect();
                    // (only a type that some command takes directly as a parameter: it is certainly declared, so that the
                    // mapping does not make the bindings refer to a name nobody declares - that would be the configuration's
                    // doing, not the tool's)
                    let used: Vec<String> = arr(&p, "files").iter().flat_map(|f| arr(f, "items")).filter(|it| s(it, "k") == "fn"
                            && arr(it, "attrs").iter().any(|a| { let t = s(a, "text"); t == "tauri::command" || t == "command" }))
                        .flat_map(|it| arr(&it, "params")).filter(|q| s(q, "kind") == "value").map(|q| s(&q, "ty_text")).collect();
                    let own: Vec<String> = own.into_iter().filter(|n| used.contains(n)).collect();
                    let target = if i % 10 == 9 && !own.is_empty() { own[own.len() - 1].clone() } else { "string".to_string() };
                    json!({"mode": mode, "mappings": {"PathBuf": "string", "Item1": "number", "Uuid": "string", "DocId": target}})
                }
            };
            out.case("project", json!({"project": p, "config": cfg}), json!({"gen": if adversarial { "adv" } else { "safe" }, "nfiles": nfiles}));
        }
    }
}
