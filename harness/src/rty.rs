//! The Rust type language of the README table (IR `RTy`), its JSON encoding, renderer and generators.
use crate::rng::Rng;
use serde_json::{json, Value};

#[derive(Clone, Debug)]
pub enum RTy {
    Prim(String),
    Unit,
    Named(String),
    Opt(Box<RTy>),
    Vec(Box<RTy>),
    HSet(Box<RTy>),
    BSet(Box<RTy>),
    Res1(Box<RTy>),
    Ref(Box<RTy>),
    /// a reference with an explicit lifetime (`&'a T`): the same type, another spelling
    RefL(Box<RTy>),
    HMap(Box<RTy>, Box<RTy>),
    BMap(Box<RTy>, Box<RTy>),
    Res2(Box<RTy>, Box<RTy>),
    Tup(Vec<RTy>),
}

pub const PRIMS: &[&str] = &[
    "String", "str", "i8", "i16", "i32", "i64", "i128", "isize", "u8", "u16", "u32", "u64", "u128", "usize", "f32",
    "f64", "bool",
];

impl RTy {
    pub fn to_json(&self) -> Value {
        match self {
            RTy::Prim(n) => json!({"k": "prim", "n": n}),
            RTy::Unit => json!({"k": "unit"}),
            RTy::Named(n) => json!({"k": "named", "n": n}),
            RTy::Opt(t) => json!({"k": "opt", "t": t.to_json()}),
            RTy::Vec(t) => json!({"k": "vec", "t": t.to_json()}),
            RTy::HSet(t) => json!({"k": "hset", "t": t.to_json()}),
            RTy::BSet(t) => json!({"k": "bset", "t": t.to_json()}),
            RTy::Res1(t) => json!({"k": "res1", "t": t.to_json()}),
            RTy::Ref(t) => json!({"k": "ref", "t": t.to_json()}),
            RTy::RefL(t) => json!({"k": "ref", "t": t.to_json(), "lt": true}),
            RTy::HMap(a, b) => json!({"k": "hmap", "a": a.to_json(), "b": b.to_json()}),
            RTy::BMap(a, b) => json!({"k": "bmap", "a": a.to_json(), "b": b.to_json()}),
            RTy::Res2(a, b) => json!({"k": "res2", "a": a.to_json(), "b": b.to_json()}),
            RTy::Tup(ts) => json!({"k": "tup", "ts": ts.iter().map(|t| t.to_json()).collect::<Vec<_>>()}),
        }
    }
    pub fn from_json(v: &Value) -> Option<RTy> {
        let k = v.get("k")?.as_str()?;
        let sub = |key: &str| -> Option<Box<RTy>> { Some(Box::new(RTy::from_json(v.get(key)?)?)) };
        Some(match k {
            "prim" => RTy::Prim(v.get("n")?.as_str()?.to_string()),
            "unit" => RTy::Unit,
            "named" => RTy::Named(v.get("n")?.as_str()?.to_string()),
            "opt" => RTy::Opt(sub("t")?),
            "vec" => RTy::Vec(sub("t")?),
            "hset" => RTy::HSet(sub("t")?),
            "bset" => RTy::BSet(sub("t")?),
            "res1" => RTy::Res1(sub("t")?),
            "ref" => if v.get("lt").and_then(|x| x.as_bool()).unwrap_or(false) { RTy::RefL(sub("t")?) } else { RTy::Ref(sub("t")?) },
            "hmap" => RTy::HMap(sub("a")?, sub("b")?),
            "bmap" => RTy::BMap(sub("a")?, sub("b")?),
            "res2" => RTy::Res2(sub("a")?, sub("b")?),
            "tup" => {
                let ts: Option<Vec<RTy>> = v.get("ts")?.as_array()?.iter().map(RTy::from_json).collect();
                let ts = ts?;
                if ts.is_empty() {
                    RTy::Unit
                } else {
                    RTy::Tup(ts)
                }
            }
            _ => return None,
        })
    }
    /// Rust surface syntax (what is written into the generated source file)
    pub fn render(&self) -> String {
        match self {
            RTy::Prim(n) => n.clone(),
            RTy::Unit => "()".into(),
            RTy::Named(n) => n.clone(),
            RTy::Opt(t) => format!("Option<{}>", t.render()),
            RTy::Vec(t) => format!("Vec<{}>", t.render()),
            RTy::HSet(t) => format!("HashSet<{}>", t.render()),
            RTy::BSet(t) => format!("BTreeSet<{}>", t.render()),
            RTy::Res1(t) => format!("Result<{}>", t.render()),
            RTy::Ref(t) => format!("&{}", t.render()),
            RTy::RefL(t) => format!("&'a {}", t.render()),
            RTy::HMap(a, b) => format!("HashMap<{}, {}>", a.render(), b.render()),
            RTy::BMap(a, b) => format!("BTreeMap<{}, {}>", a.render(), b.render()),
            RTy::Res2(a, b) => format!("Result<{}, {}>", a.render(), b.render()),
            RTy::Tup(ts) => {
                if ts.len() == 1 {
                    format!("({},)", ts[0].render())
                } else {
                    // every third tuple of two or more elements is written with a trailing comma (what rustfmt produces
                    // when a tuple type spans several lines): the same type
                    let inner = ts.iter().map(|t| t.render()).collect::<Vec<_>>().join(", ");
                    if ts.len() >= 2 && inner.len() % 3 == 0 { format!("({},)", inner) } else { format!("({})", inner) }
                }
            }
        }
    }
    pub fn depth(&self) -> usize {
        match self {
            RTy::Prim(_) | RTy::Unit | RTy::Named(_) => 0,
            RTy::Opt(t) | RTy::Vec(t) | RTy::HSet(t) | RTy::BSet(t) | RTy::Res1(t) | RTy::Ref(t) | RTy::RefL(t) => 1 + t.depth(),
            RTy::HMap(a, b) | RTy::BMap(a, b) | RTy::Res2(a, b) => 1 + a.depth().max(b.depth()),
            RTy::Tup(ts) => 1 + ts.iter().map(|t| t.depth()).max().unwrap_or(0),
        }
    }
}

/// leaves used by the enumerators: one representative per primitive class + two named types
pub fn leaves(all_prims: bool) -> Vec<RTy> {
    let mut v: Vec<RTy> = Vec::new();
    if all_prims {
        for p in PRIMS {
            if *p != "str" {
                v.push(RTy::Prim(p.to_string()));
            }
        }
    } else {
        for p in ["String", "i32", "bool"] {
            v.push(RTy::Prim(p.to_string()));
        }
    }
    v.push(RTy::Ref(Box::new(RTy::Prim("str".into()))));
    v.push(RTy::Unit);
    v.push(RTy::Named("User".into()));
    v.push(RTy::Named("Mode".into()));
    v
}

/// all types of depth <= d over the given leaves (symmetry-reduced on primitive names by `leaves(false)`)
pub fn enumerate(d: usize, lv: &[RTy], pair_cap: usize) -> Vec<RTy> {
    if d == 0 {
        return lv.to_vec();
    }
    let sub = enumerate(d - 1, lv, pair_cap);
    let mut out: Vec<RTy> = lv.to_vec();
    for t in &sub {
        let b = || Box::new(t.clone());
        out.push(RTy::Opt(b()));
        out.push(RTy::Vec(b()));
        out.push(RTy::HSet(b()));
        out.push(RTy::BSet(b()));
        out.push(RTy::Res1(b()));
        out.push(RTy::Ref(b()));
        out.push(RTy::RefL(b()));
        out.push(RTy::Res2(b(), Box::new(RTy::Prim("String".into()))));
        out.push(RTy::Tup(vec![t.clone()]));      // the one-element tuple `(T,)`
    }
    // binary constructors: cap the argument lists to keep the product finite and stated
    let args: Vec<&RTy> = sub.iter().take(pair_cap).collect();
    for a in &args {
        for b in &args {
            out.push(RTy::HMap(Box::new((*a).clone()), Box::new((*b).clone())));
            out.push(RTy::Tup(vec![(*a).clone(), (*b).clone()]));
        }
        out.push(RTy::BMap(Box::new(RTy::Prim("String".into())), Box::new((*a).clone())));
        out.push(RTy::Res2(Box::new((*a).clone()), Box::new(RTy::Named("AppError".into()))));
        out.push(RTy::Tup(vec![(*a).clone(), RTy::Prim("i32".into()), RTy::Named("User".into())]));
        out.push(RTy::Tup(vec![RTy::Prim("bool".into()), (*a).clone(), RTy::Prim("String".into()), (*a).clone()]));
    }
    out
}

pub fn random(rng: &mut Rng, depth: usize) -> RTy {
    if depth == 0 || rng.chance(1, 5) {
        let lv = leaves(true);
        return rng.pick(&lv).clone();
    }
    let mut sub = |rng: &mut Rng| Box::new(random(rng, depth - 1));
    match rng.below(13) {
        0 | 1 => RTy::Opt(sub(rng)),
        2 | 3 => RTy::Vec(sub(rng)),
        4 => RTy::HSet(sub(rng)),
        5 => RTy::BSet(sub(rng)),
        6 => RTy::Res1(sub(rng)),
        7 => if rng.chance(1, 3) { RTy::RefL(sub(rng)) } else { RTy::Ref(sub(rng)) },
        8 => RTy::HMap(sub(rng), sub(rng)),
        9 => RTy::BMap(sub(rng), sub(rng)),
        10 => RTy::Res2(sub(rng), sub(rng)),
        _ => {
            let n = 1 + rng.below(4);
            RTy::Tup((0..n).map(|_| random(rng, depth - 1)).collect())
        }
    }
}

/// random type whose named leaves come from `names`
pub fn random_named(rng: &mut Rng, depth: usize, names: &[&str]) -> RTy {
    let t = random(rng, depth);
    fn walk(t: RTy, rng: &mut Rng, names: &[&str]) -> RTy {
        let mut b = |x: Box<RTy>, rng: &mut Rng| Box::new(walk(*x, rng, names));
        match t {
            RTy::Named(_) => RTy::Named(rng.pick(names).to_string()),
            RTy::Prim(p) => {
                if rng.chance(1, 3) {
                    RTy::Named(rng.pick(names).to_string())
                } else {
                    RTy::Prim(p)
                }
            }
            RTy::Unit => RTy::Unit,
            RTy::Opt(x) => RTy::Opt(b(x, rng)),
            RTy::Vec(x) => RTy::Vec(b(x, rng)),
            RTy::HSet(x) => RTy::HSet(b(x, rng)),
            RTy::BSet(x) => RTy::BSet(b(x, rng)),
            RTy::Res1(x) => RTy::Res1(b(x, rng)),
            RTy::Ref(x) => RTy::Ref(b(x, rng)),
            RTy::RefL(x) => RTy::RefL(b(x, rng)),
            RTy::HMap(x, y) => { let x2 = b(x, rng); RTy::HMap(x2, b(y, rng)) }
            RTy::BMap(x, y) => { let x2 = b(x, rng); RTy::BMap(x2, b(y, rng)) }
            RTy::Res2(x, y) => { let x2 = b(x, rng); RTy::Res2(x2, b(y, rng)) }
            RTy::Tup(ts) => RTy::Tup(ts.into_iter().map(|x| walk(x, rng, names)).collect()),
        }
    }
    walk(t, rng, names)
}
