//! C19: GenerateConfig::save_to_tauri_config / from_tauri_config on generated JSON documents
use crate::out::{guarded, s, Out};
use crate::rng::Rng;
use serde_json::{json, Map, Value};
use tauri_typegen::GenerateConfig;

fn work_dir() -> std::path::PathBuf {
    let base = std::env::var("VERIF_WORK").unwrap_or_else(|_| "/verif/.work".to_string());
    let d = std::path::Path::new(&base).join(format!("cfg.{}", std::process::id()));
    let _ = std::fs::create_dir_all(&d);
    d
}

fn cfg_from(v: &Value, project: &str) -> GenerateConfig {
    let mut c = GenerateConfig::default();
    c.project_path = project.to_string();
    c.output_path = s(v, "outputPath");
    c.validation_library = s(v, "validationLibrary");
    c.verbose = Some(v["verbose"].as_bool().unwrap_or(false));
    c.visualize_deps = Some(v["visualizeDeps"].as_bool().unwrap_or(false));
    c.include_private = Some(v["includePrivate"].as_bool().unwrap_or(false));
    c.force = Some(v["force"].as_bool().unwrap_or(false));
    c.type_mappings = v["typeMappings"].as_object().map(|o| {
        o.iter().map(|(k, x)| (k.clone(), x.as_str().unwrap_or("").to_string())).collect()
    });
    c.exclude_patterns = v["excludePatterns"].as_array().map(|a| a.iter().filter_map(|x| x.as_str().map(String::from)).collect());
    c.include_patterns = v["includePatterns"].as_array().map(|a| a.iter().filter_map(|x| x.as_str().map(String::from)).collect());
    c
}

fn cfg_to(c: &GenerateConfig) -> Value {
    json!({
        "projectPath": c.project_path, "outputPath": c.output_path, "validationLibrary": c.validation_library,
        "verbose": c.verbose.unwrap_or(false), "visualizeDeps": c.visualize_deps.unwrap_or(false),
        "includePrivate": c.include_private.unwrap_or(false),
        "typeMappings": c.type_mappings.as_ref().map(|m| {
            let mut o = Map::new();
            let mut ks: Vec<_> = m.keys().collect();
            ks.sort();
            for k in ks { o.insert(k.clone(), json!(m[k])); }
            Value::Object(o)
        }),
        "excludePatterns": c.exclude_patterns, "includePatterns": c.include_patterns,
        "force": c.force.unwrap_or(false),
    })
}

/// op `configSave`: in = {doc: JSON value (or doc_text for non-JSON), settings, project_exists}
pub fn exec_config_save(input: &Value) -> (Value, Value) {
    let dir = work_dir();
    let path = dir.join("tauri.conf.json");
    let exists = input["project_exists"].as_bool().unwrap_or(true);
    let project = if exists { dir.to_string_lossy().to_string() } else { dir.join("no/such/dir").to_string_lossy().to_string() };
    let mut in2 = input.clone();
    in2["settings"]["projectPath"] = json!(project);
    // `prior`: settings saved first by the real code; the case then starts from the document that save produced
    if let Some(prior) = input.get("prior") {
        if !prior.is_null() {
            let doc1 = guarded(|| {
                std::fs::write(&path, serde_json::to_string_pretty(&input["doc"]).unwrap()).unwrap();
                let _ = cfg_from(prior, &project).save_to_tauri_config(&path);
                std::fs::read_to_string(&path).ok().and_then(|t| serde_json::from_str(&t).ok()).unwrap_or(Value::Null)
            });
            if doc1.get("panic").is_none() && !doc1.is_null() {
                in2["doc"] = doc1;
            }
        }
    }
    let doc_now = in2["doc"].clone();
    let imp = guarded(|| {
        std::fs::write(&path, serde_json::to_string_pretty(&doc_now).unwrap()).unwrap();
        let cfg = cfg_from(&in2["settings"], &project);
        let save = match cfg.save_to_tauri_config(&path) {
            Ok(()) => "ok".to_string(),
            Err(_) => "err".to_string(),
        };
        let saved: Value = std::fs::read_to_string(&path).ok().and_then(|t| serde_json::from_str(&t).ok()).unwrap_or(Value::Null);
        let load = match GenerateConfig::from_tauri_config(&path) {
            Ok(Some(c)) => json!({"some": cfg_to(&c)}),
            Ok(None) => json!("none"),
            Err(e) => {
                let m = e.to_string();
                json!({"err": if m.contains("validation library") { "library" } else if m.contains("Project path") { "path" } else { "other" }})
            }
        };
        json!({"save": save, "saved": saved, "load": load})
    });
    let _ = std::fs::remove_dir_all(&dir);
    (in2, imp)
}

fn rand_string(rng: &mut Rng) -> String {
    let pool = ["", "a", "plain text", "üñí ©ödé", "with \"quotes\"", "back\\slash", "line\nbreak", "tab\t", "日本語", "emoji 🎉", "../rel/path", "C:\\dir"];
    rng.pick(&pool).to_string()
}

fn rand_number(rng: &mut Rng) -> Value {
    match rng.below(8) {
        0 => json!(0),
        1 => json!(-1),
        2 => json!(i64::MAX),
        3 => json!(i64::MIN),
        4 => json!(u64::MAX),
        5 => json!(1.5),
        6 => json!(-0.25),
        _ => json!(rng.below(100000) as u64),
    }
}

fn rand_value(rng: &mut Rng, depth: usize) -> Value {
    match rng.below(if depth == 0 { 4 } else { 6 }) {
        0 => Value::Null,
        1 => json!(rng.chance(1, 2)),
        2 => rand_number(rng),
        3 => json!(rand_string(rng)),
        4 => Value::Array((0..rng.below(4)).map(|_| rand_value(rng, depth - 1)).collect()),
        _ => {
            let mut o = Map::new();
            for i in 0..rng.below(4) {
                let k = format!("{}{}", rng.pick(&["key", "Name", "the key", "ü", "plugins", "typegen", "a.b"]), i);
                o.insert(k, rand_value(rng, depth - 1));
            }
            Value::Object(o)
        }
    }
}

pub fn run(out: &mut Out, tier: &str, rng: &mut Rng) {
    let settings_pool = [
        json!({"outputPath": "./src/generated", "validationLibrary": "none"}),
        json!({"outputPath": "../ui/bindings", "validationLibrary": "zod", "verbose": true, "visualizeDeps": true, "force": true}),
        json!({"outputPath": "out", "validationLibrary": "zod", "typeMappings": {"PathBuf": "string", "Uuid": "string"}, "includePrivate": true}),
        json!({"outputPath": "o", "validationLibrary": "none", "excludePatterns": ["target/**"], "includePatterns": ["src/**", "üñí"]}),
        json!({"outputPath": "x", "validationLibrary": "yup"}),
        json!({"outputPath": "pfad/ö", "validationLibrary": "none", "typeMappings": {}}),
        json!({"outputPath": "g", "validationLibrary": "zod", "typeMappings": {"Versioned<Uuid, Rev>": "string", "HashMap<String, u8>": "number", " padded ": "string"}}),
        // mapping keys in every naming style (they are Rust type names, not settings keys)
        json!({"outputPath": "m", "validationLibrary": "zod", "typeMappings": {"time_t": "number", "c_char": "string", "my_type": "string", "kebab-name": "string", "camelName": "number", "SCREAMING_NAME": "string", "output_path": "string"}}),
        // path values that some layer might want to "normalise": they are stored and read back as written
        json!({"outputPath": "gen\\out", "validationLibrary": "none"}),
        json!({"outputPath": "~/generated", "validationLibrary": "zod"}),
        json!({"outputPath": "~", "validationLibrary": "none"}),
        json!({"outputPath": "$HOME/out/${USER}", "validationLibrary": "none"}),
        json!({"outputPath": "%APPDATA%\\bindings\\", "validationLibrary": "zod"}),
        json!({"outputPath": "./a/../b/./c//d/", "validationLibrary": "none"}),
        json!({"outputPath": " spaced out ", "validationLibrary": "none"}),
        json!({"outputPath": "file:///tmp/out", "validationLibrary": "zod"}),
        json!({"outputPath": "C:\\Users\\me\\ui", "validationLibrary": "none", "includePatterns": ["src\\**", "~/x"], "excludePatterns": ["~"]}),
    ];
    let n = if tier == "thorough" { 6000 } else { 500 };
    for i in 0..n {
        // document shapes: object with / without plugins, with / without typegen, odd plugins values, non-object documents
        let mut doc = match rng.below(10) {
            0 => rand_value(rng, 2),
            _ => {
                let mut o = Map::new();
                o.insert("productName".into(), json!(rand_string(rng)));
                o.insert("version".into(), rand_number(rng));
                for k in 0..rng.below(4) {
                    o.insert(format!("extra{}", k), rand_value(rng, 3));
                }
                Value::Object(o)
            }
        };
        if let Some(o) = doc.as_object_mut() {
            match rng.below(10) {
                0 => {}
                // sibling entries whose names resemble the tool's own (the README's spelling of the block, other generators)
                8 => { o.insert("plugins".into(), json!({"tauri-typegen": {"project_path": ".", "output_path": "readme_out", "validation_library": "zod", "verbose": true},
                    "typegen2": {"outputPath": "x"}, "Typegen": {"outputPath": "y"}})); }
                9 => { o.insert("plugins".into(), json!({"tauri-typegen": {"project_path": ".", "output_path": "readme_out", "validation_library": "none"},
                    "typegen": {"outputPath": "old", "validationLibrary": "zod"}, "tauri_typegen": {"outputPath": "z"}})); }
                1 => { o.insert("plugins".into(), json!({})); }
                2 => { o.insert("plugins".into(), json!({"shell": {"open": true}, "fs": rand_value(rng, 2)})); }
                3 => { o.insert("plugins".into(), json!({"typegen": {"outputPath": "old", "validationLibrary": "zod", "unknownKey": [1, 2]}, "other": 1})); }
                4 => { o.insert("plugins".into(), json!({"typegen": "not an object", "z": null})); }
                5 => { o.insert("plugins".into(), rng.pick(&[json!("oops"), json!(null), json!([1, 2]), json!(7)]).clone()); }
                6 => { o.insert("plugins".into(), json!({"typegen": {"projectPath": 5, "verbose": "yes", "typeMappings": {"A": 1}}})); }
                _ => { o.insert("plugins".into(), rand_value(rng, 2)); }
            }
        }
        let st = settings_pool[rng.below(settings_pool.len())].clone();
        let exists = i % 7 != 0;
        if i % 4 == 3 {
            // a block is already stored that differs from the new settings in exactly one member
            let mut prior = st.clone();
            let key = *rng.pick(&["force", "verbose", "visualizeDeps", "includePrivate", "outputPath", "validationLibrary", "typeMappings", "excludePatterns", "includePatterns"]);
            let cur = prior.get(key).cloned().unwrap_or(Value::Null);
            let other = match key {
                "force" | "verbose" | "visualizeDeps" | "includePrivate" => json!(!cur.as_bool().unwrap_or(false)),
                "outputPath" => json!("elsewhere"),
                "validationLibrary" => json!(if cur == json!("zod") { "none" } else { "zod" }),
                "typeMappings" => json!({"Other": "number"}),
                _ => json!(["changed/**"]),
            };
            prior[key] = other;
            out.case("configSave", json!({"doc": doc, "settings": st, "prior": prior, "project_exists": true}), json!({"gen": "prior", "key": key}));
            continue;
        }
        out.case("configSave", json!({"doc": doc, "settings": st, "project_exists": exists}), json!({"gen": "rand"}));
    }
}
