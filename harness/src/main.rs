mod extract;
mod ops_config;
mod ops_graph;
mod ops_names;
mod ops_robust;
mod ops_types;
mod ops_valid;
mod project;
mod rty;
mod out;
mod rng;

use serde_json::{json, Value};
use std::io::BufRead;

/// run the real code for one request; returns (input enriched with observations, implementation result)
pub fn exec(op: &str, input: &Value) -> (Value, Value) {
    match op {
        "topo" => ops_graph::exec_topo(input),
        "kahn" => ops_graph::exec_kahn(input),
        "typeStr" => ops_types::exec_type_str(input),
        "parseTS" => ops_types::exec_parse_ts(input),
        "site" => ops_types::exec_site(input),
        "shape" => ops_types::exec_shape(input),
        "prefix" => ops_types::exec_prefix(input),
        "name" => ops_names::exec_name(input),
        "fieldAttrs" => ops_names::exec_field_attrs(input),
        "validator" => ops_valid::exec_validator(input),
        "configSave" => ops_config::exec_config_save(input),
        "project" => project::exec_project(input),
        "robustSrc" => ops_robust::exec_robust(input),
        _ => (input.clone(), json!({"error": format!("unknown op {}", op)})),
    }
}

fn main() {
    let args: Vec<String> = std::env::args().collect();
    let group = args.get(1).map(|s| s.as_str()).unwrap_or("");
    let mut tier = "quick".to_string();
    let mut seed: u64 = 1;
    let mut i = 2;
    while i < args.len() {
        match args[i].as_str() {
            "--tier" => {
                tier = args[i + 1].clone();
                i += 2;
            }
            "--seed" => {
                seed = args[i + 1].parse().unwrap_or(1);
                i += 2;
            }
            _ => i += 1,
        }
    }
    // silence the default panic printer: panics are caught per case and reported in the protocol
    std::panic::set_hook(Box::new(|_| {}));
    let mut rng = rng::Rng::new(seed);
    let mut out = out::Out::new();
    match group {
        // re-run stored requests (corpus entries, replays, known-finding witnesses): lines {"op","in",...} on stdin
        "replay" => {
            for line in std::io::stdin().lock().lines() {
                let line = line.unwrap_or_default();
                if line.trim().is_empty() {
                    continue;
                }
                if let Ok(v) = serde_json::from_str::<Value>(&line) {
                    let op = v["op"].as_str().unwrap_or("").to_string();
                    let meta = v.get("meta").cloned().unwrap_or(json!({}));
                    out.case(&op, v["in"].clone(), meta);
                }
            }
        }
        "extract" => {
            let repo = std::env::var("VERIF_REPO").unwrap_or_else(|_| "/repo".to_string());
            match extract::run(&repo) {
                Ok(v) => {
                    println!("{}", serde_json::to_string_pretty(&v).unwrap());
                    std::process::exit(0)
                }
                Err(e) => {
                    eprintln!("extract failed: {}", e);
                    std::process::exit(3)
                }
            }
        }
        // the build-script path: BuildSystem::generate_at_build_time() reads the process's current directory
        "buildpath" => {
            let _ = std::panic::take_hook();
            match tauri_typegen::BuildSystem::generate_at_build_time() {
                Ok(()) => std::process::exit(0),
                Err(e) => {
                    eprintln!("Error: {}", e);
                    std::process::exit(1);
                }
            }
        }
        "graph" => ops_graph::run(&mut out, &tier, &mut rng),
        "types" => ops_types::run(&mut out, &tier, &mut rng),
        "mappings" => ops_types::run_mappings(&mut out, &tier, &mut rng),
        "shapes" => ops_types::run_shapes(&mut out, &tier, &mut rng),
        "robust" => ops_robust::run(&mut out, &tier, &mut rng),
        "attrfuzz" => ops_robust::run_attrfuzz(&mut out, &tier, &mut rng),
        "fields" => ops_names::run_fields(&mut out, &tier, &mut rng),
        "params" => ops_names::run_params(&mut out, &tier, &mut rng),
        "valid" => ops_valid::run(&mut out, &tier, &mut rng),
        "config" => ops_config::run(&mut out, &tier, &mut rng),
        "project" => project::run(&mut out, &tier, &mut rng),
        _ => {
            eprintln!("unknown group {}", group);
            std::process::exit(2);
        }
    }
    out.finish();
}
