//! `tgh extract`: syn-based extraction of tables from /repo/src (re-run on every check):
//! field lists of the *HashData structs (C08), the reserved-name table of is_generated_file and the file
//! names the generators write (C16), the primitive table of map_to_target_primitive (C05).
use serde_json::{json, Value};
use syn::visit::Visit;

struct Structs {
    found: Vec<(String, Vec<String>)>,
}
impl<'ast> Visit<'ast> for Structs {
    fn visit_item_struct(&mut self, s: &'ast syn::ItemStruct) {
        let name = s.ident.to_string();
        if name.ends_with("HashData") {
            let fields = s.fields.iter().filter_map(|f| f.ident.as_ref().map(|i| i.to_string())).collect();
            self.found.push((name, fields));
        }
        syn::visit::visit_item_struct(self, s);
    }
}

struct StrLits {
    in_fn: Option<String>,
    target: String,
    lits: Vec<String>,
    methods: Vec<String>,
    array_lits: Vec<String>,
    method_lits: Vec<(String, String)>,
}
impl<'ast> Visit<'ast> for StrLits {
    fn visit_impl_item_fn(&mut self, f: &'ast syn::ImplItemFn) {
        let prev = self.in_fn.take();
        self.in_fn = Some(f.sig.ident.to_string());
        syn::visit::visit_impl_item_fn(self, f);
        self.in_fn = prev;
    }
    fn visit_item_fn(&mut self, f: &'ast syn::ItemFn) {
        let prev = self.in_fn.take();
        self.in_fn = Some(f.sig.ident.to_string());
        syn::visit::visit_item_fn(self, f);
        self.in_fn = prev;
    }
    fn visit_attribute(&mut self, _a: &'ast syn::Attribute) {
        // doc comments are `#[doc = "..."]` attributes: not part of the tables
    }
    fn visit_lit_str(&mut self, l: &'ast syn::LitStr) {
        if self.in_fn.as_deref() == Some(self.target.as_str()) {
            self.lits.push(l.value());
        }
    }
    fn visit_expr_array(&mut self, a: &'ast syn::ExprArray) {
        if self.in_fn.as_deref() == Some(self.target.as_str()) {
            for e in &a.elems {
                if let syn::Expr::Lit(l) = e {
                    if let syn::Lit::Str(sl) = &l.lit {
                        self.array_lits.push(sl.value());
                    }
                }
            }
        }
        syn::visit::visit_expr_array(self, a);
    }
    fn visit_expr_method_call(&mut self, m: &'ast syn::ExprMethodCall) {
        if self.in_fn.as_deref() == Some(self.target.as_str()) {
            self.methods.push(m.method.to_string());
            if let Some(syn::Expr::Lit(l)) = m.args.first() {
                if let syn::Lit::Str(sl) = &l.lit {
                    self.method_lits.push((m.method.to_string(), sl.value()));
                }
            }
        }
        syn::visit::visit_expr_method_call(self, m);
    }
}

fn parse(path: &str) -> Result<syn::File, String> {
    let src = std::fs::read_to_string(path).map_err(|e| format!("{}: {}", path, e))?;
    syn::parse_file(&src).map_err(|e| format!("{}: {}", path, e))
}

fn scan(file: &syn::File, func: &str) -> StrLits {
    let mut v = StrLits {
        in_fn: None,
        target: func.to_string(),
        lits: vec![],
        methods: vec![],
        array_lits: vec![],
        method_lits: vec![],
    };
    v.visit_file(file);
    v
}
fn lits_in(file: &syn::File, func: &str) -> (Vec<String>, Vec<String>) {
    let v = scan(file, func);
    (v.lits, v.methods)
}

pub fn run(repo: &str) -> Result<Value, String> {
    let cache = parse(&format!("{}/src/build/generation_cache.rs", repo))?;
    let mut st = Structs { found: vec![] };
    st.visit_file(&cache);
    if st.found.is_empty() {
        return Err("no *HashData structs found in generation_cache.rs (refactored?)".into());
    }
    let om = parse(&format!("{}/src/build/output_manager.rs", repo))?;
    let gsc = scan(&om, "is_generated_file");
    let (patterns, methods) = (gsc.lits.clone(), gsc.methods.clone());
    let pat_prefix: Vec<String> = gsc.method_lits.iter().filter(|(m, _)| m == "starts_with").map(|(_, l)| l.clone()).collect();
    let pat_suffix: Vec<String> = gsc.method_lits.iter().filter(|(m, _)| m == "ends_with").map(|(_, l)| l.clone()).collect();
    let pat_infix: Vec<String> = gsc.method_lits.iter().filter(|(m, _)| m == "contains").map(|(_, l)| l.clone()).collect();
    let accounted = gsc.array_lits.len() + pat_prefix.len() + pat_suffix.len() + pat_infix.len();
    if accounted != patterns.len() {
        return Err(format!("is_generated_file: {} string literals but only {} understood (refactored?)", patterns.len(), accounted));
    }
    if patterns.is_empty() {
        return Err("is_generated_file not found in output_manager.rs (refactored?)".into());
    }
    let (probe, _) = lits_in(&om, "prepare_output_directory");
    let fw = parse(&format!("{}/src/generators/base/file_writer.rs", repo))?;
    let mut written: Vec<String> = Vec::new();
    for f in ["write_types_file", "write_commands_file", "write_index_file", "write_schemas_file", "write_events_file"] {
        written.extend(lits_in(&fw, f).0);
    }
    let (cache_name, _) = {
        // const CACHE_FILE_NAME
        let mut name = Vec::new();
        for item in &cache.items {
            if let syn::Item::Const(c) = item {
                if c.ident == "CACHE_FILE_NAME" {
                    if let syn::Expr::Lit(l) = &*c.expr {
                        if let syn::Lit::Str(s) = &l.lit {
                            name.push(s.value());
                        }
                    }
                }
            }
        }
        (name, ())
    };
    let bin = parse(&format!("{}/src/bin/cargo-tauri-typegen.rs", repo))?;
    let (gen_lits, _) = lits_in(&bin, "run_generate");
    let viz: Vec<String> = gen_lits.into_iter().filter(|l| l.starts_with("dependency-graph")).collect();
    let tr = parse(&format!("{}/src/analysis/type_resolver.rs", repo))?;
    let (prim_lits, _) = lits_in(&tr, "map_to_target_primitive");
    // decision tables: the string literals of the functions that decide what is a command, an injected parameter,
    // a serde type, a selected file, an emit call (in source order; literals inside macros are not expressions)
    let mut fn_lits: Vec<Value> = Vec::new();
    for (file, func) in [
        ("src/analysis/command_parser.rs", "is_tauri_parameter_type"),
        ("src/analysis/command_parser.rs", "is_tauri_command"),
        ("src/analysis/struct_parser.rs", "should_include"),
        ("src/analysis/ast_cache.rs", "parse_and_cache_all_files"),
        ("src/analysis/event_parser.rs", "handle_method_call"),
        ("src/analysis/event_parser.rs", "extract_emit_event"),
    ] {
        let f = parse(&format!("{}/{}", repo, file))?;
        let (l, _) = lits_in(&f, func);
        fn_lits.push(json!({"fn": func, "lits": l}));
    }
    // Unicode classes as the toolchain's std decides them (the model's `is_alphabetic` / `is_lowercase` on non-ASCII)
    let ranges = |f: &dyn Fn(char) -> bool| -> Vec<Value> {
        let mut out: Vec<Value> = Vec::new();
        let mut start: Option<u32> = None;
        for cp in 0x80u32..=0x10FFFF {
            let ok = char::from_u32(cp).map(|c| f(c)).unwrap_or(false);
            match (ok, start) {
                (true, None) => start = Some(cp),
                (false, Some(st)) => {
                    out.push(json!([st, cp - 1]));
                    start = None;
                }
                _ => {}
            }
        }
        if let Some(st) = start {
            out.push(json!([st, 0x10FFFF]));
        }
        out
    };
    let alpha_ranges = ranges(&|c| c.is_alphabetic());
    let lower_ranges = ranges(&|c| c.is_lowercase());
    Ok(json!({
        "unicode_alphabetic": alpha_ranges,
        "unicode_lowercase": lower_ranges,
        "fn_literals": fn_lits,
        "hash_structs": st.found.iter().map(|(n, f)| json!({"name": n, "fields": f})).collect::<Vec<_>>(),
        "generated_patterns": patterns,
        "generated_literals": gsc.array_lits,
        "generated_prefixes": pat_prefix,
        "generated_suffixes": pat_suffix,
        "generated_infixes": pat_infix,
        "generated_pattern_methods": methods,
        "write_probe": probe.into_iter().filter(|l| l.starts_with('.')).collect::<Vec<_>>(),
        "written_files": written,
        "cache_file": cache_name,
        "viz_files": viz,
        "primitive_table": prim_lits,
    }))
}
