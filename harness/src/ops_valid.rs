//! C11: validator attributes -> Zod constraints (ValidatorParser + ZodSchemaBuilder)
use crate::out::{guarded, s, Out};
use crate::rng::Rng;
use crate::rty::RTy;
use serde_json::{json, Value};
use std::path::Path;
use tauri_typegen::analysis::struct_parser::StructParser;
use tauri_typegen::analysis::type_resolver::TypeResolver;
use tauri_typegen::generators::zod::schema_builder::ZodSchemaBuilder;
use tauri_typegen::GenerateConfig;

fn render_bound(it: &Value) -> String {
    let mut parts: Vec<String> = Vec::new();
    let order: Vec<String> = it
        .get("order")
        .and_then(|o| o.as_array())
        .map(|a| a.iter().filter_map(|x| x.as_str().map(String::from)).collect())
        .unwrap_or_else(|| vec!["min".into(), "max".into(), "message".into()]);
    for k in order {
        match k.as_str() {
            "min" | "max" => {
                if let Some(v) = it.get(&k).and_then(|x| x.as_str()) {
                    parts.push(format!("{} = {}", k, v));
                }
            }
            _ => {
                if let Some(m) = it.get("message") {
                    if let Some(l) = m.get("lit").and_then(|x| x.as_str()) {
                        parts.push(format!("message = {}", l));
                    }
                }
            }
        }
    }
    parts.join(", ")
}

fn render_item(it: &Value) -> String {
    let k = s(it, "k");
    match k.as_str() {
        "email" | "url" => {
            if it.get("args").and_then(|x| x.as_bool()).unwrap_or(false) {
                format!("{}(message = \"not valid\")", k)
            } else {
                k
            }
        }
        "length" | "range" => format!("{}({})", k, render_bound(it)),
        _ => s(it, "raw"),
    }
}

pub fn exec_validator(input: &Value) -> (Value, Value) {
    let r = match RTy::from_json(&input["rty"]) {
        Some(r) => r,
        None => return (input.clone(), json!({"error": "bad rty"})),
    };
    let mut attr_src = String::new();
    // attributes of other owners on the same field, before and after the validators
    for o in input["other_before"].as_array().cloned().unwrap_or_default() {
        attr_src.push_str(&format!("    #[{}]\n", o.as_str().unwrap_or("")));
    }
    for a in input["attrs"].as_array().cloned().unwrap_or_default() {
        let items: Vec<String> = a.as_array().cloned().unwrap_or_default().iter().map(render_item).collect();
        attr_src.push_str(&format!("    #[validate({})]\n", items.join(", ")));
    }
    for o in input["other_after"].as_array().cloned().unwrap_or_default() {
        attr_src.push_str(&format!("    #[{}]\n", o.as_str().unwrap_or("")));
    }
    // `twin`: an earlier field of the same struct and type with validators of its own, rendered by the same builder object
    // first (what is declared for one field is nobody else's)
    let mut twin_src = String::new();
    let has_twin = input.get("twin").map_or(false, |t| t.is_array());
    if has_twin {
        for a in input["twin"].as_array().cloned().unwrap_or_default() {
            let items: Vec<String> = a.as_array().cloned().unwrap_or_default().iter().map(render_item).collect();
            twin_src.push_str(&format!("    #[validate({})]\n", items.join(", ")));
        }
        twin_src.push_str(&format!("    pub w: {},\n", r.render()));
    }
    let src = format!("#[derive(Serialize, Validate)]\npub struct S {{\n{}{}    pub x: {},\n}}\n", twin_src, attr_src, r.render());
    let mut in2 = input.clone();
    in2["source"] = json!(src);
    let ast = match syn::parse_file(&src) {
        Ok(a) => a,
        Err(e) => return (in2, json!({"error": format!("harness rendered unparsable source: {}", e)})),
    };
    let mut toks: Vec<Value> = Vec::new();
    if let Some(syn::Item::Struct(st)) = ast.items.first() {
        if let syn::Fields::Named(n) = &st.fields {
            if let Some(f) = n.named.iter().nth(if has_twin { 1 } else { 0 }) {
                for a in &f.attrs {
                    if a.path().is_ident("validate") {
                        toks.push(match a.meta.require_list() {
                            Ok(l) => json!(l.tokens.to_string()),
                            Err(_) => Value::Null,
                        });
                    }
                }
            }
        }
    }
    in2["tokens"] = json!(toks);
    let imp = guarded(|| {
        let cfg = GenerateConfig::default();
        let mut res = TypeResolver::new();
        let info = match ast.items.first() {
            Some(syn::Item::Struct(st)) => StructParser::new().parse_struct(st, Path::new("src/lib.rs"), &mut res),
            _ => None,
        };
        let info = match info {
            Some(i) => i,
            None => return json!({"error": "no struct"}),
        };
        let builder = ZodSchemaBuilder::new(&cfg);
        if has_twin {
            if let Some(w) = info.fields.first() {
                let _ = builder.build_schema(&w.type_structure, &w.validator_attributes);
            }
        }
        let f = match info.fields.iter().nth(if has_twin { 1 } else { 0 }) {
            Some(f) => f,
            None => return json!({"error": "no field"}),
        };
        let parsed = match &f.validator_attributes {
            None => Value::Null,
            Some(v) => json!({
                "length": v.length.as_ref().map(|l| json!({"min": l.min.map(|x| x.to_string()), "max": l.max.map(|x| x.to_string()), "message": l.message})),
                "range": v.range.as_ref().map(|l| json!({"min": l.min.map(|x| format!("{}", x)), "max": l.max.map(|x| format!("{}", x)), "message": l.message})),
                "email": v.email, "url": v.url,
            }),
        };
        let schema = builder.build_schema(&f.type_structure, &f.validator_attributes);
        json!({"parsed": parsed, "schema": schema})
    });
    (in2, imp)
}

/// a message value with the literal text that denotes it in Rust source
fn msg(value: &str, style: usize) -> Value {
    let mut lit = String::from("\"");
    for c in value.chars() {
        match c {
            '"' => lit.push_str("\\\""),
            '\\' => lit.push_str("\\\\"),
            '\n' => lit.push_str("\\n"),
            '\t' => lit.push_str("\\t"),
            '\r' => lit.push_str("\\r"),
            '\'' if style == 1 => lit.push_str("\\'"),
            c if style == 2 && !c.is_ascii() => {
                let h = format!("{:X}", c as u32);
                let h = if h.len() > 2 { format!("{}_{}", &h[..2], &h[2..]) } else { h };
                lit.push_str(&format!("\\u{{{}}}", h));
            }
            _ => lit.push(c),
        }
    }
    lit.push('"');
    json!({"value": value, "lit": lit})
}

fn ty(name: &str) -> Value {
    let p = |n: &str| RTy::Prim(n.to_string());
    match name {
        "String" => p("String"),
        "i32" => p("i32"),
        "f64" => p("f64"),
        "u8" => p("u8"),
        "VecString" => RTy::Vec(Box::new(p("String"))),
        "OptString" => RTy::Opt(Box::new(p("String"))),
        "OptI32" => RTy::Opt(Box::new(p("i32"))),
        "VecI32" => RTy::Vec(Box::new(p("i32"))),
        "OptVecString" => RTy::Opt(Box::new(RTy::Vec(Box::new(p("String"))))),
        "VecUser" => RTy::Vec(Box::new(RTy::Named("User".into()))),
        "OptVecUser" => RTy::Opt(Box::new(RTy::Vec(Box::new(RTy::Named("User".into()))))),
        "VecBool" => RTy::Vec(Box::new(p("bool"))),
        "OptOptString" => RTy::Opt(Box::new(RTy::Opt(Box::new(p("String"))))),
        "OptOptI32" => RTy::Opt(Box::new(RTy::Opt(Box::new(p("i32"))))),
        "OptOptVecString" => RTy::Opt(Box::new(RTy::Opt(Box::new(RTy::Vec(Box::new(p("String"))))))),
        "VecOptString" => RTy::Vec(Box::new(RTy::Opt(Box::new(p("String"))))),
        "OptVecI32" => RTy::Opt(Box::new(RTy::Vec(Box::new(p("i32"))))),
        _ => p("bool"),
    }
    .to_json()
}

pub fn run(out: &mut Out, tier: &str, rng: &mut Rng) {
    let types = ["String", "i32", "f64", "u8", "VecString", "OptString", "OptI32", "VecI32", "OptVecString", "bool", "VecUser", "OptVecUser", "VecBool", "OptOptString", "OptOptI32", "OptOptVecString", "VecOptString", "OptVecI32"];
    let safe_msgs = ["Must be valid", "too short!", "Zwischen 1 und 10", "say \"hi\"", "it's fine", "line\nbreak", "tab\there", "a, b and c", "100% [ok] {x}", "between {min} and {max}", "{message}: at least {min}", "{0} {} {{}} $1 %s {value}"];
    let adv_msgs = ["é", "naïve café", "日本語のメッセージ", "a)b", "(paren)", "invalid email address", "minimum is 3", "at most max", "see url", "range error", "back\\slash", "dir\\new", "cr\rlf", "emoji 🎉 done", "x\\\\y", "\"", "ß", "message here", "length!", "too short :(", "(at most three tags", "use the 3.5\" form", "a \" b \" c \" d", "((", "[{(", "1) first (2", "ring\u{7}!", "a\u{8}c", "x\u{1f}y\u{1}", "del\u{7f}ete", "it's 'quoted'", "nbsp\u{a0}here", "line\u{2028}sep", "Allowed: letters , digits , dashes", "Too young (18+", "a ( b ) c", "x ,y", "( lead", "trail )", "sp  aces   kept"];
    let nums_u = ["0", "1", "3", "10", "255", "18446744073709551615", "18446744073709551616", "007"];
    let nums_f = ["0", "1", "10", "0.5", "1.5", "100.25", "1e3", "2.5e-3", "-5", "-0.5", "+3", "1_000", "1e20", "0.1", "3.14159", "9007199254740993", "5.", "1E3", "2.5E5", "2.5E-1", "1E+2", "1e+2",
        "18446744073709551615", "18446744073709551616", "2.5e22", "1e30", "340282366920938463463374607431768211455", "-1e20", "-9223372036854775809", "4294967296"];
    // no validator at all / empty validate
    for t in types {
        // no validator, but other attributes whose text contains the validators' words
        out.case("validator", json!({"rty": ty(t), "attrs": [], "other_before": ["serde(rename = \"emailUrl\")", "doc = \"length(min = 1) range(max = 2)\""]}), json!({"gen": "none"}));
        out.case("validator", json!({"rty": ty(t), "attrs": []}), json!({"gen": "none"}));
        out.case("validator", json!({"rty": ty(t), "attrs": [[{"k": "email"}]]}), json!({"gen": "single"}));
        out.case("validator", json!({"rty": ty(t), "attrs": [[{"k": "url"}]]}), json!({"gen": "single"}));
    }
    // length / range: all subsets of (min, max, message) x key orders x types
    let orders: [[&str; 3]; 3] = [["min", "max", "message"], ["message", "max", "min"], ["max", "message", "min"]];
    let mut k = 0usize;
    for kind in ["length", "range"] {
        for mask in 0..8u32 {
            for t in types {
                for ord in orders {
                    k += 1;
                    if tier != "thorough" && k % 3 != 0 {
                        continue;
                    }
                    let nums: &[&str] = if kind == "length" { &nums_u } else { &nums_f[..8] };
                    let mut it = json!({"k": kind, "order": ord});
                    if mask & 1 != 0 {
                        it["min"] = json!(nums[k % nums.len()]);
                    }
                    if mask & 2 != 0 {
                        it["max"] = json!(nums[(k / 2 + 3) % nums.len()]);
                    }
                    if mask & 4 != 0 {
                        it["message"] = msg(safe_msgs[k % safe_msgs.len()], k % 2);
                    }
                    let others = ["serde(rename = \"emailAddress\")", "serde(deserialize_with = \"trim_length\")", "doc = \"must be a url within range\"",
                        "schemars(length(min = 7, max = 8), email)", "serde(default, alias = \"url\")", "cfg_attr(feature = \"x\", validate(email))",
                        "garde(range(min = 100, max = 200))", "serde(skip_serializing_if = \"is_email\")"];
                    match k % 4 {
                        0 => out.case("validator", json!({"rty": ty(t), "attrs": [[it]], "other_before": [others[k / 4 % others.len()]]}), json!({"gen": "bounds"})),
                        1 => out.case("validator", json!({"rty": ty(t), "attrs": [[it]], "other_after": [others[k / 4 % others.len()]]}), json!({"gen": "bounds"})),
                        _ => out.case("validator", json!({"rty": ty(t), "attrs": [[it]]}), json!({"gen": "bounds"})),
                    }
                }
            }
        }
    }
    // numeric literal shapes
    for n in nums_f {
        out.case("validator", json!({"rty": ty("f64"), "attrs": [[{"k": "range", "min": n}]]}), json!({"gen": "nums"}));
        out.case("validator", json!({"rty": ty("i32"), "attrs": [[{"k": "range", "min": "1", "max": n}]]}), json!({"gen": "nums"}));
    }
    for n in nums_u {
        out.case("validator", json!({"rty": ty("String"), "attrs": [[{"k": "length", "max": n}]]}), json!({"gen": "nums"}));
    }
    // adversarial messages, combined validators, several attributes, email/url with arguments
    for (i, m) in adv_msgs.iter().chain(safe_msgs.iter()).enumerate() {
        for kind in ["length", "range"] {
            let t = if kind == "length" { "String" } else { "i32" };
            out.case("validator", json!({"rty": ty(t), "attrs": [[{"k": kind, "min": "1", "max": "10", "message": msg(m, i % 2)}]]}), json!({"gen": "msgs"}));
            if !m.is_ascii() {
                // the same text written with `\u{..}` escapes (digits grouped by `_`, which only Rust allows)
                out.case("validator", json!({"rty": ty(t), "attrs": [[{"k": kind, "min": "1", "message": msg(m, 2)}]]}), json!({"gen": "msgs"}));
            }
            out.case("validator", json!({"rty": ty(t), "attrs": [[{"k": "email"}, {"k": kind, "min": "2", "message": msg(m, 0), "order": ["message", "min", "max"]}]]}), json!({"gen": "msgs"}));
            // … and the flag validators *after* the one with the message
            out.case("validator", json!({"rty": ty(t), "attrs": [[{"k": kind, "max": "30", "message": msg(m, 0)}, {"k": if i % 2 == 0 { "url" } else { "email" }}]]}), json!({"gen": "msgs"}));
        }
    }
    // exact sizes: both bounds given and equal, with and without a message
    for t in ["String", "VecString", "OptString", "i32", "f64"] {
        for n in ["6", "0", "1"] {
            let kind = if t == "i32" || t == "f64" { "range" } else { "length" };
            out.case("validator", json!({"rty": ty(t), "attrs": [[{"k": kind, "min": n, "max": n, "message": msg("exactly that many", 0)}]]}), json!({"gen": "exact"}));
            out.case("validator", json!({"rty": ty(t), "attrs": [[{"k": kind, "min": n, "max": n}]]}), json!({"gen": "exact"}));
        }
    }
    // two fields of one struct, same type and bounds, differing in the message only (or one without a message)
    for t in ["String", "VecString", "OptString", "i32", "f64", "OptI32"] {
        let kind = if t == "i32" || t == "f64" || t == "OptI32" { "range" } else { "length" };
        let with = |m: Option<&str>| -> Value {
            let mut it = json!({"k": kind, "min": "1", "max": "64"});
            if let Some(m) = m { it["message"] = msg(m, 0); }
            json!([[it]])
        };
        out.case("validator", json!({"rty": ty(t), "attrs": with(Some("second message")), "twin": with(Some("first message"))}), json!({"gen": "twins"}));
        out.case("validator", json!({"rty": ty(t), "attrs": with(None), "twin": with(Some("only the first has one"))}), json!({"gen": "twins"}));
        out.case("validator", json!({"rty": ty(t), "attrs": with(Some("only the second has one")), "twin": with(None)}), json!({"gen": "twins"}));
        out.case("validator", json!({"rty": ty(t), "attrs": [], "twin": with(Some("the first is validated"))}), json!({"gen": "twins"}));
    }
    // one attribute, two validators, the message on the one that does not apply to the field / on the later one
    for t in ["String", "VecString", "i32", "OptI32"] {
        let m = msg("belongs to the other one", 0);
        out.case("validator", json!({"rty": ty(t), "attrs": [[{"k": "length", "min": "3", "max": "64"}, {"k": "range", "max": "9", "message": m}]]}), json!({"gen": "neighbours"}));
        out.case("validator", json!({"rty": ty(t), "attrs": [[{"k": "range", "min": "1", "max": "9"}, {"k": "length", "max": "4", "message": m}]]}), json!({"gen": "neighbours"}));
        out.case("validator", json!({"rty": ty(t), "attrs": [[{"k": "length", "min": "3", "message": m}, {"k": "range", "max": "9"}]]}), json!({"gen": "neighbours"}));
    }
    // every validator in a first attribute, every other one in a second (what the first declared must survive the second)
    let singles = [json!({"k": "length", "min": "2", "max": "9"}), json!({"k": "range", "min": "1", "max": "10"}), json!({"k": "email"}), json!({"k": "url"}),
        json!({"k": "other", "raw": "custom(function = \"is_even\")"}), json!({"k": "other", "raw": "required"}), json!({"k": "length", "max": "4", "message": msg("too long", 0)})];
    for (i, a) in singles.iter().enumerate() {
        for (j, b) in singles.iter().enumerate() {
            if i != j {
                for t in ["String", "i32", "OptI32", "VecString"] {
                    out.case("validator", json!({"rty": ty(t), "attrs": [[a], [b]]}), json!({"gen": "attrpairs"}));
                }
            }
        }
    }
    out.case("validator", json!({"rty": ty("String"), "attrs": [[{"k": "email"}, {"k": "url"}, {"k": "length", "min": "5", "max": "50"}]]}), json!({"gen": "combo"}));
    out.case("validator", json!({"rty": ty("String"), "attrs": [[{"k": "email"}], [{"k": "length", "min": "5"}]]}), json!({"gen": "combo"}));
    out.case("validator", json!({"rty": ty("String"), "attrs": [[{"k": "length", "min": "5"}], [{"k": "length", "max": "9"}]]}), json!({"gen": "combo"}));
    out.case("validator", json!({"rty": ty("String"), "attrs": [[{"k": "length", "min": "1"}, {"k": "range", "max": "9"}]]}), json!({"gen": "combo"}));
    out.case("validator", json!({"rty": ty("i32"), "attrs": [[{"k": "range", "min": "1"}], [{"k": "range", "max": "9", "message": msg("top", 0)}]]}), json!({"gen": "combo"}));
    out.case("validator", json!({"rty": ty("String"), "attrs": [[{"k": "email", "args": true}]]}), json!({"gen": "combo"}));
    out.case("validator", json!({"rty": ty("String"), "attrs": [[{"k": "url", "args": true}, {"k": "length", "min": "1"}]]}), json!({"gen": "combo"}));
    out.case("validator", json!({"rty": ty("String"), "attrs": [[{"k": "other", "raw": "required"}]]}), json!({"gen": "combo"}));
    out.case("validator", json!({"rty": ty("String"), "attrs": [[{"k": "other", "raw": "custom(function = \"check_len\")"}]]}), json!({"gen": "combo"}));
    // random messages over a Unicode alphabet with multi-byte characters at every offset
    let alphabet: Vec<char> = "ab zéñ日🎉\"'\\\n\t(),.=x".chars().collect();
    let n = if tier == "thorough" { 20000 } else { 1200 };
    for i in 0..n {
        let len = rng.below(9);
        let m: String = (0..len).map(|_| *rng.pick(&alphabet)).collect();
        let kind = if i % 2 == 0 { "length" } else { "range" };
        let t = if kind == "length" { ["String", "VecString", "OptString"][i % 3] } else { ["i32", "f64", "OptI32"][i % 3] };
        let mut it = json!({"k": kind, "message": msg(&m, i % 2)});
        if rng.chance(2, 3) {
            it["min"] = json!(["1", "0", "12"][rng.below(3)]);
        }
        if rng.chance(1, 2) {
            it["max"] = json!(["100", "7", "64"][rng.below(3)]);
        }
        out.case("validator", json!({"rty": ty(t), "attrs": [[it]]}), json!({"gen": "randmsg"}));
    }
}
