//! C04 / C06 / C12 naming and serde attribute ops
use crate::out::{guarded, s, Out};
use crate::rng::Rng;
use heck::ToLowerCamelCase;
use serde_json::{json, Value};
use serde_rename_rule::RenameRule;
use std::path::Path;
use tauri_typegen::analysis::struct_parser::StructParser;
use tauri_typegen::analysis::type_resolver::TypeResolver;
use tauri_typegen::generators::base::template_context::{CommandContext, FieldContext, NamingContext, StructContext};
use tauri_typegen::generators::ts::type_visitor::TypeScriptVisitor;
use tauri_typegen::GenerateConfig;

fn opt_str(v: &Value, k: &str) -> Option<String> {
    v.get(k).and_then(|x| x.as_str()).map(|x| x.to_string())
}

/// op `name`: NamingContext on one identifier
pub fn exec_name(input: &Value) -> (Value, Value) {
    let imp = guarded(|| {
        let what = s(input, "what");
        let name = s(input, "name");
        let rename = opt_str(input, "rename");
        let rule = opt_str(input, "rule").and_then(|r| RenameRule::from_rename_all_str(&r).ok());
        let mut cfg = GenerateConfig::default();
        if let Some(d) = opt_str(input, "default_case") {
            cfg.default_field_case = d.clone();
            cfg.default_parameter_case = d;
        }
        let out = match what.as_str() {
            "function" => CommandContext::new(&cfg).compute_function_name(&name, &rule),
            "type" => CommandContext::new(&cfg).compute_type_name(&name, &rule),
            "event" => CommandContext::new(&cfg).event_name_to_function(&name),
            "param" => CommandContext::new(&cfg).compute_parameter_name(&name, &rename, &rule),
            _ => FieldContext::new(&cfg).compute_field_name(&name, &rename, &rule),
        };
        json!({"out": out, "heck": name.to_lower_camel_case()})
    });
    (input.clone(), imp)
}

fn rust_str_lit(v: &str) -> String {
    let mut o = String::from("\"");
    for c in v.chars() {
        match c {
            '\\' => o.push_str("\\\\"),
            '"' => o.push_str("\\\""),
            '\n' => o.push_str("\\n"),
            _ => o.push(c),
        }
    }
    o.push('"');
    o
}

fn render_items(items: &Value) -> String {
    let mut parts = Vec::new();
    for it in items.as_array().cloned().unwrap_or_default() {
        let k = s(&it, "k");
        let raw = it.get("raw").and_then(|x| x.as_u64()).unwrap_or(0);
        if k == "rename_all_long" {
            // serde's long form: separate rules for the two directions (here the same rule for both)
            let v = it.get("v").and_then(|x| x.as_str()).unwrap_or("");
            parts.push(format!("rename_all(serialize = {}, deserialize = {})", rust_str_lit(v), rust_str_lit(v)));
            continue;
        }
        match it.get("v").and_then(|x| x.as_str()) {
            // raw string literals: r"..." (raw = 1) / r#"..."# (raw = 2)
            Some(v) if raw == 1 => parts.push(format!("{} = r\"{}\"", k, v)),
            Some(v) if raw == 2 => parts.push(format!("{} = r#\"{}\"#", k, v)),
            Some(v) => parts.push(format!("{} = {}", k, rust_str_lit(v))),
            None => parts.push(k),
        }
    }
    parts.join(", ")
}

fn attr_lines(attrs: &Value, indent: &str) -> String {
    attr_lines_delim(attrs, indent, "paren")
}

/// an attribute's argument list may be delimited by parentheses, braces or brackets (`#[serde{rename = "x"}]` is legal)
fn attr_lines_delim(attrs: &Value, indent: &str, delim: &str) -> String {
    let mut o = String::new();
    let (l, r) = match delim { "brace" => ("{", "}"), "bracket" => ("[", "]"), _ => ("(", ")") };
    for a in attrs.as_array().cloned().unwrap_or_default() {
        o.push_str(&format!("{}#[serde{}{}{}]\n", indent, l, render_items(&a), r));
    }
    o
}

fn serde_tokens(attrs: &[syn::Attribute]) -> Vec<String> {
    attrs
        .iter()
        .filter(|a| a.path().is_ident("serde"))
        .filter_map(|a| a.meta.require_list().ok().map(|l| l.tokens.to_string()))
        .collect()
}

/// op `fieldAttrs`: one field / variant with serde attributes through StructParser + StructContext
pub fn exec_field_attrs(input: &Value) -> (Value, Value) {
    let kind = s(input, "kind");
    let ident = s(input, "ident");
    let delim = s(input, "delim");
    // attributes of other derive macros on the same item (`#[sqlx(rename_all = "camelCase")]`): not serde's business
    let foreign: String = input["foreign_container"].as_array().cloned().unwrap_or_default().iter().map(|a| format!("#[{}]\n", a.as_str().unwrap_or(""))).collect();
    // helper attributes may precede the derive they belong to (rustc warns, serde honours them)
    let first = input.get("attrs_first").and_then(|x| x.as_bool()).unwrap_or(false);
    let src = if first && kind != "variant" {
        format!(
            "{}{}#[derive(Serialize, Deserialize)]\npub struct S {{\n{}    pub {}: {},\n}}\n",
            foreign,
            attr_lines_delim(&input["container"], "", &delim),
            attr_lines_delim(&input["attrs"], "    ", &delim),
            ident,
            input.get("ty").and_then(|x| x.as_str()).unwrap_or("i32")
        )
    } else if first {
        format!(
            "{}{}#[derive(Serialize, Deserialize)]\npub enum S {{\n{}    {},\n}}\n",
            foreign,
            attr_lines_delim(&input["container"], "", &delim),
            attr_lines_delim(&input["attrs"], "    ", &delim),
            ident
        )
    } else if kind == "variant" {
        format!(
            "#[derive(Serialize, Deserialize)]\n{}{}pub enum S {{\n{}    {},\n}}\n",
            foreign,
            attr_lines_delim(&input["container"], "", &delim),
            attr_lines_delim(&input["attrs"], "    ", &delim),
            ident
        )
    } else {
        format!(
            "#[derive(Serialize, Deserialize)]\n{}{}pub struct S {{\n{}    pub {}: {},\n}}\n",
            foreign,
            attr_lines_delim(&input["container"], "", &delim),
            attr_lines_delim(&input["attrs"], "    ", &delim),
            ident,
            input.get("ty").and_then(|x| x.as_str()).unwrap_or("i32")
        )
    };
    let mut in2 = input.clone();
    in2["source"] = json!(src);
    let ast = match syn::parse_file(&src) {
        Ok(a) => a,
        Err(e) => return (in2, json!({"error": format!("harness rendered unparsable source: {}", e)})),
    };
    let (mut ctoks, mut toks) = (Vec::new(), Vec::new());
    for item in &ast.items {
        match item {
            syn::Item::Struct(st) => {
                ctoks = serde_tokens(&st.attrs);
                if let syn::Fields::Named(n) = &st.fields {
                    if let Some(f) = n.named.first() {
                        toks = serde_tokens(&f.attrs);
                    }
                }
            }
            syn::Item::Enum(en) => {
                ctoks = serde_tokens(&en.attrs);
                if let Some(v) = en.variants.first() {
                    toks = serde_tokens(&v.attrs);
                }
            }
            _ => {}
        }
    }
    in2["tokens"] = json!(toks);
    in2["ctokens"] = json!(ctoks);
    let imp = guarded(|| {
        let cfg = GenerateConfig::default();
        let mut r = TypeResolver::new();
        let sp = StructParser::new();
        let info = ast.items.iter().find_map(|item| match item {
            syn::Item::Struct(st) => sp.parse_struct(st, Path::new("src/lib.rs"), &mut r),
            syn::Item::Enum(en) => sp.parse_enum(en, Path::new("src/lib.rs")),
            _ => None,
        });
        let info = match info {
            Some(i) => i,
            None => return json!({"error": "no struct info"}),
        };
        let vis = TypeScriptVisitor::with_config(&cfg);
        let ctx = StructContext::new(&cfg).from_struct_info("S", &info, &vis);
        match ctx.fields.first() {
            Some(f) => json!({"present": true, "name": f.serialized_name}),
            None => json!({"present": false}),
        }
    });
    (in2, imp)
}

pub const FIELD_TYPES: &[&str] = &[
    "i32", "String", "Option<String>", "Vec<u8>", "PhantomData<T>", "()", "std::marker::PhantomData<()>", "Box<dyn Any>", "&'static str", "[u8; 4]",
    "HashMap<String, i32>", "Option<PhantomData<u8>>", "serde_json::Value", "Cow<'static, str>", "Result<(), String>", "fn() -> u8", "Infallible",
];

pub const SNAKE_IDENTS: &[&str] = &[
    "id", "user_id", "user2fa", "_foo", "foo__bar", "type_", "a", "x1", "a_b_c", "very_long_field_name", "_1",
    "foo_", "a1_b2", "http_2_server", "x_y", "is_ok", "k8s_cluster", "__private", "snake_case_name", "b",
    "utf8_text", "i_o", "q_", "n0", "last_", "tcp_ip_v4", "f", "_x_", "a__b__c", "z9",
];
pub const ODD_IDENTS: &[&str] = &["__", "_", "über", "Émile", "camelCase", "PascalCase", "SCREAMING", "mixed_Case", "ñ_x"];
pub const VARIANTS: &[&str] = &[
    "Outcome", "VeryTasty", "A", "Z42", "HTTPServer", "HelloWorld", "Hello_World", "X", "Ab", "InProgress", "Ok2Go",
    "IOError", "Done", "NotFound404", "AB", "aLower",
];
pub const RULES: &[&str] = &[
    "lowercase", "UPPERCASE", "PascalCase", "camelCase", "snake_case", "SCREAMING_SNAKE_CASE", "kebab-case",
    "SCREAMING-KEBAB-CASE",
];

/// group `fields` (C06): serde wire names of struct fields / enum variants + the attribute scanner
pub fn run_fields(out: &mut Out, tier: &str, rng: &mut Rng) {
    let renames: [Option<&str>; 5] = [None, Some("custom"), Some("a-b"), Some(""), Some("Ünï")];
    // 1. naming rules: exhaustive over identifier table x rule x rename x kind
    for (kind, table) in [("field", SNAKE_IDENTS), ("variant", VARIANTS), ("field", ODD_IDENTS)] {
        for name in table {
            for rule in std::iter::once(None).chain(RULES.iter().map(|r| Some(*r))).chain(std::iter::once(Some("Camel"))) {
                for rn in renames {
                    out.case(
                        "name",
                        json!({"what": "field", "kind": kind, "name": name, "rule": rule, "rename": rn, "default_case": "snake_case"}),
                        json!({"gen": "table"}),
                    );
                }
            }
        }
    }
    let n = if tier == "thorough" { 20000 } else { 1500 };
    let alpha: Vec<char> = "abcdefghijklmnopqrstuvwxyz0123456789___".chars().collect();
    for _ in 0..n {
        let len = 1 + rng.below(12);
        let mut id: String = (0..len).map(|_| *rng.pick(&alpha)).collect();
        if id.chars().next().map(|c| c.is_ascii_digit()).unwrap_or(false) {
            id.insert(0, 'v');
        }
        let rule = RULES[rng.below(RULES.len())];
        out.case("name", json!({"what": "field", "kind": "field", "name": id, "rule": rule, "rename": null, "default_case": "snake_case"}),
                 json!({"gen": "rand"}));
    }
    run_attrs(out, tier);
}

/// group `params` (C04): parameter keys, function / type / event-listener names
pub fn run_params(out: &mut Out, tier: &str, rng: &mut Rng) {
    // 2. parameter keys: names x default_parameter_case x command-level rule
    for name in SNAKE_IDENTS.iter().chain(ODD_IDENTS.iter()) {
        for dc in RULES.iter().chain(["bogus"].iter()) {
            for rule in [None, Some("snake_case"), Some("PascalCase")] {
                for rn in [None, Some("explicitKey")] {
                    out.case(
                        "name",
                        json!({"what": "param", "name": name, "rule": rule, "rename": rn, "default_case": dc}),
                        json!({"gen": "table"}),
                    );
                }
            }
        }
        out.case("name", json!({"what": "function", "name": name}), json!({"gen": "table"}));
        out.case("name", json!({"what": "type", "name": name}), json!({"gen": "table"}));
    }
    for ev in ["user-login", "user_login", "a", "ev-a", "ev_a", "user:login/now", "x-1", "-", "--a", "a--b", "é-x", "UPPER-case", ""] {
        out.case("name", json!({"what": "event", "name": ev}), json!({"gen": "table"}));
    }
    // 3. random snake identifiers (incl. digits, leading and consecutive underscores)
    let n = if tier == "thorough" { 20000 } else { 1500 };
    let alpha: Vec<char> = "abcdefghijklmnopqrstuvwxyz0123456789___".chars().collect();
    for _ in 0..n {
        let len = 1 + rng.below(12);
        let mut id: String = (0..len).map(|_| *rng.pick(&alpha)).collect();
        if id.chars().next().map(|c| c.is_ascii_digit()).unwrap_or(false) {
            id.insert(0, 'v');
        }
        out.case("name", json!({"what": "param", "name": id, "rule": null, "rename": null, "default_case": "camelCase"}),
                 json!({"gen": "rand"}));
    }
}

fn run_attrs(out: &mut Out, tier: &str) {
    // 4. attribute scanner: item combinations in one or several attributes, either order
    let field_items: Vec<Value> = vec![
        json!({"k": "rename", "v": "renamedKey"}),
        json!({"k": "rename", "v": "skip"}),
        json!({"k": "rename", "v": "skipped"}),
        json!({"k": "rename", "v": "skip-ahead"}),
        json!({"k": "rename", "v": "a\"b"}),
        json!({"k": "rename", "v": "kebab-key"}),
        json!({"k": "rename", "v": "display-name", "raw": 1}),
        json!({"k": "rename", "v": "e_mail", "raw": 2}),
        json!({"k": "rename", "v": "user_id"}),           // the field's own identifier (a no-op only without rename_all)
        json!({"k": "rename", "v": "created_at_utc"}),
        json!({"k": "rename", "v": "HelloWorld"}),
        json!({"k": "rename", "v": "name,asc"}),
        json!({"k": "rename", "v": "lat, lon"}),
        json!({"k": "rename", "v": "a = \"b\", c"}),
        json!({"k": "skip"}),
        json!({"k": "skip_serializing_if", "v": "Option::is_none"}),
        json!({"k": "default"}),
        json!({"k": "default", "v": "skip_me"}),
        json!({"k": "default", "v": "rename_default"}),
        json!({"k": "alias", "v": "old_name"}),
        json!({"k": "alias", "v": "rename"}),
        json!({"k": "skip_deserializing"}),
        json!({"k": "skip_serializing"}),
        json!({"k": "with", "v": "my_mod"}),
    ];
    let containers: Vec<Value> = std::iter::once(json!([]))
        .chain(RULES.iter().map(|r| json!([[{"k": "rename_all", "v": r}]])))
        .chain(std::iter::once(json!([[{"k": "deny_unknown_fields"}], [{"k": "rename_all", "v": "camelCase"}]])))
        .chain(std::iter::once(json!([[{"k": "rename", "v": "Outer"}, {"k": "rename_all", "v": "kebab-case"}]])))
        .chain(std::iter::once(json!([[{"k": "rename_all_long", "v": "camelCase"}]])))
        .chain(std::iter::once(json!([[{"k": "deny_unknown_fields"}, {"k": "rename_all_long", "v": "SCREAMING_SNAKE_CASE"}]])))
        .collect();
    let idents_f = ["user_id", "name", "created_at_utc"];
    let idents_v = ["HelloWorld", "Done", "HTTPServer"];
    let mut k = 0usize;
    for c in &containers {
        // no attribute, single items, ordered pairs in one attribute, pairs in two attributes
        let mut attr_sets: Vec<Value> = vec![json!([])];
        for a in &field_items {
            attr_sets.push(json!([[a]]));
        }
        for a in &field_items {
            for b in &field_items {
                // serde rejects duplicate items (except alias): not part of the input domain
                let same_key = a["k"] == b["k"] && a["k"] != "alias";
                if a != b && !same_key {
                    attr_sets.push(json!([[a, b]]));
                    attr_sets.push(json!([[a], [b]]));
                }
            }
        }
        for attrs in &attr_sets {
            k += 1;
            // quick tier: every container x single items, pairs sampled 1 in 6
            let pairs = attrs.as_array().map(|a| a.iter().map(|x| x.as_array().map(|y| y.len()).unwrap_or(0)).sum::<usize>()).unwrap_or(0) >= 2;
            if tier != "thorough" && pairs && k % 6 != 0 {
                continue;
            }
            let (kind, ident) = if k % 3 == 0 { ("variant", idents_v[k % 3 + (k / 3) % 3 % 3 % 3]) } else { ("field", idents_f[k % 3]) };
            let ident = if kind == "variant" { idents_v[(k / 3) % 3] } else { ident };
            // the key does not depend on the field's type: rotate through types of every kind (marker, unit, unsized, …)
            let ty = FIELD_TYPES[k % FIELD_TYPES.len()];
            let delim = ["paren", "brace", "paren", "bracket", "paren"][k % 5];
            let foreign_pool = ["sqlx(rename_all = \"camelCase\")", "strum(serialize_all = \"snake_case\")", "schemars(rename_all = \"UPPERCASE\")", "sqlx(rename_all = \"SCREAMING_SNAKE_CASE\", type_name = \"x\")"];
            let foreign_c: Value = if k % 3 == 1 { json!([foreign_pool[k % 4]]) } else { json!([]) };
            out.case("fieldAttrs", json!({"kind": kind, "ident": ident, "container": c, "attrs": attrs, "ty": ty, "delim": delim, "attrs_first": k % 4 == 2,
                "foreign_container": foreign_c}), json!({"gen": "attrs"}));
        }
    }
}
