//! C20: TypeDependencyGraph::topological_sort_types and DependencyResolver::resolve_build_order
use crate::out::{guarded, strs, Out};
use crate::rng::Rng;
use serde_json::{json, Value};
use std::collections::HashSet;
use tauri_typegen::analysis::dependency_graph::TypeDependencyGraph;
use tauri_typegen::build::dependency_resolver::{
    Dependency, DependencyNode, DependencyNodeType, DependencyResolver, DependencyType,
};

fn name(i: usize) -> String {
    format!("T{}", i)
}

/// op `topo`: in = {graph: [[name, [deps]]...] (abstract), request: [names]};
/// exec adds the observed hash iteration orders `types` and `deps`.
pub fn exec_topo(input: &Value) -> (Value, Value) {
    // the object is built with `new()` or through its `Default` implementation (both are public ways to get one)
    let mut g = if input.get("ctor").and_then(|x| x.as_str()) == Some("default") { TypeDependencyGraph::default() } else { TypeDependencyGraph::new() };
    // an earlier life of the same graph object: other dependency sets were recorded and the same request was sorted
    // before the sets were replaced by the ones below (the analyser re-records sets as discovery proceeds)
    if let Some(pre) = input.get("pre_graph").and_then(|x| x.as_array()) {
        let mut pre_keys: Vec<String> = Vec::new();
        for e in pre {
            let k = e[0].as_str().unwrap_or("").to_string();
            let deps: HashSet<String> =
                e[1].as_array().map(|a| a.iter().filter_map(|x| x.as_str().map(String::from)).collect()).unwrap_or_default();
            pre_keys.push(k.clone());
            g.add_dependencies(k, deps);
        }
        let types: HashSet<String> = strs(input, "request").into_iter().collect();
        let _ = guarded(|| json!({"sorted": g.topological_sort_types(&types)}));
        for k in pre_keys {
            g.add_dependencies(k, HashSet::new());
        }
    }
    for e in input["graph"].as_array().cloned().unwrap_or_default() {
        let k = e[0].as_str().unwrap_or("").to_string();
        let deps: HashSet<String> =
            e[1].as_array().map(|a| a.iter().filter_map(|x| x.as_str().map(String::from)).collect()).unwrap_or_default();
        g.add_dependencies(k, deps);
    }
    // which names have a recorded definition is irrelevant to the ordering
    for d in strs(input, "defs") {
        g.add_type_definition(d.clone(), std::path::PathBuf::from(format!("src/{}.rs", d)));
    }
    // … and so is what has been recorded as resolved about them (a struct, an enum, with or without fields)
    for (i, d) in strs(input, "resolved").into_iter().enumerate() {
        g.add_resolved_type(d.clone(), tauri_typegen::models::StructInfo {
            name: d.clone(), fields: Vec::new(), file_path: format!("src/{}.rs", d), is_enum: i % 2 == 0, serde_rename_all: None });
    }
    let types: HashSet<String> = strs(input, "request").into_iter().collect();
    let types_order: Vec<String> = types.iter().cloned().collect();
    let deps_order: Vec<Value> =
        g.dependencies.iter().map(|(k, v)| json!([k, v.iter().cloned().collect::<Vec<_>>()])).collect();
    // what the object has recorded must be what it was told last: every entry of `graph` as given, every other key of the
    // earlier life with the empty set
    let mut intended: std::collections::HashMap<String, HashSet<String>> = std::collections::HashMap::new();
    if let Some(pre) = input.get("pre_graph").and_then(|x| x.as_array()) {
        for e in pre {
            intended.insert(e[0].as_str().unwrap_or("").to_string(), HashSet::new());
        }
    }
    for e in input["graph"].as_array().cloned().unwrap_or_default() {
        intended.insert(e[0].as_str().unwrap_or("").to_string(),
            e[1].as_array().map(|a| a.iter().filter_map(|x| x.as_str().map(String::from)).collect()).unwrap_or_default());
    }
    let same_edges = |a: &std::collections::HashMap<String, HashSet<String>>, b: &std::collections::HashMap<String, HashSet<String>>| {
        a.iter().all(|(k, v)| v.is_empty() && !b.contains_key(k) || b.get(k) == Some(v))
    };
    let recorded_ok = same_edges(&intended, &g.dependencies) && same_edges(&g.dependencies, &intended);
    let imp = guarded(|| {
        if recorded_ok {
            json!({"sorted": g.topological_sort_types(&types)})
        } else {
            json!({"sorted": g.topological_sort_types(&types), "table_mismatch": true})
        }
    });
    let mut in2 = input.clone();
    in2["types"] = json!(types_order);
    in2["deps"] = json!(deps_order);
    (in2, imp)
}

/// op `kahn`: in = {nodes: [names], edges: [[from, to]...]}
pub fn exec_kahn(input: &Value) -> (Value, Value) {
    // node kinds and edge kinds do not influence the order: every edge constrains it
    let kind_of = |n: &str| -> DependencyNodeType {
        match input["kinds"].get(n).and_then(|x| x.as_u64()).unwrap_or(1) % 5 {
            0 => DependencyNodeType::Command,
            1 => DependencyNodeType::Struct,
            2 => DependencyNodeType::Enum,
            3 => DependencyNodeType::Type,
            _ => DependencyNodeType::Module,
        }
    };
    // two distinct nodes may carry the same name (`Config` of src/db.rs and of src/app.rs, a command `user` in module
    // `user`): a node is its (name, path, kind); `alias` maps a label to the name it shows
    let backslash = input.get("path_style").and_then(|x| x.as_str()) == Some("backslash");
    let mk = |n: &str| DependencyNode {
        name: input["alias"].get(n).and_then(|x| x.as_str()).unwrap_or(n).to_string(),
        // a path as recorded on another platform (`src\\models\\T1.rs`): a node is its (name, path, kind) as given
        path: if backslash { format!("src\\models\\{}.rs", n) } else { format!("src/{}.rs", n) },
        node_type: kind_of(n),
    };
    let mut r = DependencyResolver::new();
    // the order in which nodes and edges are registered is the caller's business: nodes first (default), edges first, or
    // every node again after the edges
    let order = input.get("order").and_then(|x| x.as_str()).unwrap_or("nodes_first").to_string();
    if order != "edges_first" {
        for n in strs(input, "nodes") {
            r.add_node(mk(&n));
        }
    }
    for e in input["edges"].as_array().cloned().unwrap_or_default() {
        r.add_dependency(Dependency {
            from: mk(e[0].as_str().unwrap_or("")),
            to: mk(e[1].as_str().unwrap_or("")),
            dependency_type: match e.get(2).and_then(|x| x.as_u64()).unwrap_or(1) % 5 {
                0 => DependencyType::Direct,
                1 => DependencyType::Field,
                2 => DependencyType::Variant,
                3 => DependencyType::Import,
                _ => DependencyType::Generic,
            },
        });
    }
    if order == "edges_first" || order == "nodes_twice" {
        for n in strs(input, "nodes") {
            r.add_node(mk(&n));
        }
    }
    let imp = guarded(|| match r.resolve_build_order() {
        Ok(v) => json!({"ok": v.iter().map(|n| n.path.trim_start_matches("src/").trim_start_matches("src\\models\\").trim_end_matches(".rs").to_string()).collect::<Vec<_>>()}),
        Err(e) => json!({"err": e.to_string()}),
    });
    (input.clone(), imp)
}

fn topo_case(out: &mut Out, n: usize, adj: &[u32], subset: u32, extra_missing: bool, tag: &str) {
    let mut graph: Vec<Value> = Vec::new();
    for i in 0..n {
        let mut deps: Vec<String> = (0..n).filter(|j| adj[i] >> j & 1 == 1).map(name).collect();
        if extra_missing && i == 0 {
            deps.push("Missing".to_string());
        }
        // nodes without outgoing edges alternate between "no entry" and "empty entry"
        if !deps.is_empty() || i % 2 == 0 {
            graph.push(json!([name(i), deps]));
        }
    }
    let request: Vec<String> = (0..n).filter(|i| subset >> i & 1 == 1).map(name).collect();
    if (adj.iter().fold(subset, |a, b| a.wrapping_mul(31).wrapping_add(*b))) % 4 == 1 {
        out.case("topo", json!({"graph": graph, "request": request, "ctor": "default"}), json!({"n": n, "tag": tag}));
    } else {
        out.case("topo", json!({"graph": graph, "request": request}), json!({"n": n, "tag": tag}));
    }
}

fn kahn_case(out: &mut Out, n: usize, edges: &[(usize, usize)], tag: &str) {
    kahn_case_kinds(out, n, edges, tag, None);
}

/// `salt`: node kinds (Command/Struct/Enum/Type/Module) and edge kinds (Direct/Field/Variant/Import/Generic) derived
/// from it; `u64::MAX` = every node a Module, every edge an Import
fn kahn_case_kinds(out: &mut Out, n: usize, edges: &[(usize, usize)], tag: &str, salt: Option<u64>) {
    let nodes: Vec<String> = (0..n).map(name).collect();
    match salt {
        None => {
            let es: Vec<Value> = edges.iter().map(|&(f, t)| json!([name(f), name(t)])).collect();
            out.case("kahn", json!({"nodes": nodes, "edges": es}), json!({"n": n, "tag": tag}));
        }
        Some(sv) => {
            let all_mod = sv == u64::MAX;
            let mut kinds = serde_json::Map::new();
            for i in 0..n {
                kinds.insert(name(i), json!(if all_mod { 4 } else { (sv / 5u64.pow(i as u32 % 12)) % 5 }));
            }
            let es: Vec<Value> = edges.iter().map(|&(f, t)| json!([name(f), name(t), if all_mod { 3 } else { (sv + 3 * f as u64 + t as u64) % 5 }])).collect();
            out.case("kahn", json!({"nodes": nodes, "edges": es, "kinds": kinds}), json!({"n": n, "tag": tag}));
        }
    }
}

fn topo_case_defs(out: &mut Out, n: usize, adj: &[u32], subset: u32, defs: u32, tag: &str) {
    let mut graph: Vec<Value> = Vec::new();
    for i in 0..n {
        let deps: Vec<String> = (0..n).filter(|j| adj[i] >> j & 1 == 1).map(name).collect();
        if !deps.is_empty() || i % 2 == 0 {
            graph.push(json!([name(i), deps]));
        }
    }
    let request: Vec<String> = (0..n).filter(|i| subset >> i & 1 == 1).map(name).collect();
    let d: Vec<String> = (0..n).filter(|i| defs >> i & 1 == 1).map(name).collect();
    // the names with a recorded definition also get a resolved record (alternately an enum and a struct)
    out.case("topo", json!({"graph": graph, "request": request, "defs": d, "resolved": d}), json!({"n": n, "tag": tag}));
}

pub fn run(out: &mut Out, tier: &str, rng: &mut Rng) {
    let nmax = if tier == "thorough" { 4 } else { 3 };
    let repeats = if tier == "thorough" { 2 } else { 3 };
    // exhaustive: all digraphs on n labelled nodes incl. self-loops x all non-empty subsets
    for n in 1..=nmax {
        let bits = n * n;
        for code in 0u64..(1u64 << bits) {
            let adj: Vec<u32> = (0..n).map(|i| ((code >> (i * n)) & ((1 << n) - 1)) as u32).collect();
            for subset in 1u32..(1 << n) {
                // the full 4-node space is large: one in-process repeat there, several below
                let reps = if n == 4 { 1 } else { repeats };
                for _ in 0..reps {
                    topo_case(out, n, &adj, subset, false, "exh");
                }
            }
            let edges: Vec<(usize, usize)> = (0..n)
                .flat_map(|i| (0..n).filter(move |j| (code >> (i * n + j)) & 1 == 1).map(move |j| (i, j)))
                .collect();
            kahn_case(out, n, &edges, "exh");
            if n == 2 || n == 3 {
                // every pair of distinct nodes showing one name
                for i in 0..n {
                    for j in 0..n {
                        if i != j {
                            let nodes: Vec<String> = (0..n).map(name).collect();
                            let es: Vec<Value> = edges.iter().map(|&(f, t)| json!([name(f), name(t)])).collect();
                            let mut alias = serde_json::Map::new();
                            alias.insert(name(j), json!(name(i)));
                            out.case("kahn", json!({"nodes": nodes, "edges": es, "alias": alias}), json!({"n": n, "tag": "exh-alias"}));
                        }
                    }
                }
            }
            if n <= 3 {
                // the same graphs with every kind of node and edge, and with recorded definitions for every subset of
                // the nodes (neither influences the order)
                kahn_case_kinds(out, n, &edges, "exh-kinds", Some(u64::MAX));
                kahn_case_kinds(out, n, &edges, "exh-kinds", Some(code.wrapping_mul(2654435761) % 100_000));
                for subset in 1u32..(1 << n) {
                    for defs in 1u32..(1 << n) {
                        topo_case_defs(out, n, &adj, subset, defs, "exh-defs");
                    }
                }
            }
        }
    }
    // long chains and deep trees (no bound on the depth of a dependency path): 30, 70, 100 types
    for &len in &[30usize, 70, 100] {
        let graph: Vec<Value> = (0..len - 1).map(|i| json!([format!("L{:03}", i), [format!("L{:03}", i + 1)]])).collect();
        out.case("topo", json!({"graph": graph, "request": ["L000"]}), json!({"n": len, "tag": "chain"}));
        let rev: Vec<Value> = (1..len).map(|i| json!([format!("L{:03}", i), [format!("L{:03}", i - 1)]])).collect();
        out.case("topo", json!({"graph": rev, "request": [format!("L{:03}", len - 1), "L000"]}), json!({"n": len, "tag": "chain"}));
        let nodes: Vec<String> = (0..len).map(|i| format!("L{:03}", i)).collect();
        let es: Vec<Value> = (0..len - 1).map(|i| json!([format!("L{:03}", i), format!("L{:03}", i + 1)])).collect();
        out.case("kahn", json!({"nodes": nodes, "edges": es, "order": "edges_first"}), json!({"n": len, "tag": "chain"}));
        out.case("kahn", json!({"nodes": nodes, "edges": es}), json!({"n": len, "tag": "chain"}));
    }
    // dense cyclic graphs: every type depends on every type (also on itself): n(n+1)/2 back edges in one sort
    for n in [6usize, 14, 15, 16, 24] {
        let names: Vec<String> = (0..n).map(|i| format!("Q{:02}", i)).collect();
        let graph: Vec<Value> = names.iter().map(|a| json!([a, names])).collect();
        out.case("topo", json!({"graph": graph, "request": names}), json!({"n": n, "tag": "clique"}));
        out.case("topo", json!({"graph": graph, "request": [names[n / 2]]}), json!({"n": n, "tag": "clique"}));
        let es: Vec<Value> = names.iter().flat_map(|a| names.iter().filter(move |b| *b != a).map(move |b| json!([a, b]))).collect();
        out.case("kahn", json!({"nodes": names, "edges": es}), json!({"n": n, "tag": "clique"}));
    }
    // combs: a chain in which every link also depends on a leaf of its own (more than 32 types, leaves interleaved with the
    // chain in every visiting order), and rings of nodes with long non-ASCII names (whatever is reported about a cycle)
    for &len in &[20usize, 40] {
        let mut graph: Vec<Value> = Vec::new();
        for i in 0..len {
            let mut deps = vec![format!("Options{:02}", i)];
            if i > 0 { deps.push(format!("Model{:02}", i - 1)); }
            graph.push(json!([format!("Model{:02}", i), deps]));
        }
        out.case("topo", json!({"graph": graph, "request": [format!("Model{:02}", len - 1)]}), json!({"n": 2 * len, "tag": "comb"}));
        let all: Vec<String> = (0..len).flat_map(|i| vec![format!("Model{:02}", i), format!("Options{:02}", i)]).collect();
        out.case("topo", json!({"graph": graph, "request": all}), json!({"n": 2 * len, "tag": "comb"}));
    }
    for (pad, &len) in [3usize, 12, 24, 13, 25, 14, 26, 27].iter().enumerate() {
        let names: Vec<String> = (0..len).map(|i| format!("{}ÄÖÜäöüßéèêñçåøæÄÖÜäöüß設定{:02}ßäöü", "y".repeat(if i == 0 { pad % 4 } else { 0 }), i)).collect();
        let es: Vec<Value> = (0..len).map(|i| json!([names[i], names[(i + 1) % len]])).collect();
        out.case("kahn", json!({"nodes": names, "edges": es}), json!({"n": len, "tag": "ring"}));
        let es2: Vec<Value> = (0..len - 1).map(|i| json!([names[i], names[i + 1]])).collect();
        out.case("kahn", json!({"nodes": names, "edges": es2}), json!({"n": len, "tag": "ring-open"}));
    }
    // exhaustive on 2 and 3 nodes under the other registration orders
    for n in 2..=3usize {
        for code in 0u64..(1u64 << (n * n)) {
            let edges: Vec<(usize, usize)> = (0..n).flat_map(|i| (0..n).filter(move |j| (code >> (i * n + j)) & 1 == 1).map(move |j| (i, j))).collect();
            let nodes: Vec<String> = (0..n).map(name).collect();
            let es: Vec<Value> = edges.iter().map(|&(f, t)| json!([name(f), name(t)])).collect();
            for order in ["edges_first", "nodes_twice"] {
                out.case("kahn", json!({"nodes": nodes, "edges": es, "order": order}), json!({"n": n, "tag": "exh-order"}));
            }
        }
    }
    // random graphs up to 12 nodes, dependencies on undefined names, multi-edges for Kahn
    let nrand = if tier == "thorough" { 40000 } else { 4000 };
    for k in 0..nrand {
        let n = 2 + rng.below(11);
        let density = 1 + rng.below(4);
        let mut adj = vec![0u32; n];
        let acyclic = rng.chance(1, 2);
        for i in 0..n {
            for j in 0..n {
                if acyclic && j >= i {
                    continue;
                }
                if rng.below(2 * n) < density * 2 {
                    adj[i] |= 1 << j;
                }
            }
        }
        let subset = 1 + rng.below((1usize << n) - 1) as u32;
        topo_case(out, n, &adj, subset, k % 7 == 0, "rand");
        let mut edges: Vec<(usize, usize)> = Vec::new();
        for i in 0..n {
            for j in 0..n {
                if adj[i] >> j & 1 == 1 {
                    edges.push((i, j));
                    if rng.chance(1, 6) {
                        edges.push((i, j)); // duplicate edge
                    }
                }
            }
        }
        for i in (1..edges.len()).rev() {
            let j = rng.below(i + 1);
            edges.swap(i, j);
        }
        kahn_case(out, n, &edges, "rand");
        if k % 5 == 2 {
            let nodes: Vec<String> = (0..n).map(name).collect();
            let es: Vec<Value> = edges.iter().map(|&(f, t)| json!([name(f), name(t)])).collect();
            out.case("kahn", json!({"nodes": nodes, "edges": es, "path_style": "backslash"}), json!({"n": n, "tag": "rand-backslash"}));
        }
        if k % 5 == 3 {
            // labels that look special to a type walker (`Self`, a primitive's name, a wrapper's name) are labels like any other
            let special = ["Self", "self", "String", "Option", "Vec", "T", "Result", "Box", "u8", "()"];
            let ren = |i: usize| -> String { if i < 3 { special[(k / 5 + i * 3) % special.len()].to_string() } else { name(i) } };
            let mut graph: Vec<Value> = Vec::new();
            for i in 0..n {
                let deps: Vec<String> = (0..n).filter(|j| adj[i] >> j & 1 == 1).map(ren).collect();
                graph.push(json!([ren(i), deps]));
            }
            let request: Vec<String> = (0..n).filter(|i| subset >> i & 1 == 1).map(ren).collect();
            out.case("topo", json!({"graph": graph, "request": request}), json!({"n": n, "tag": "rand-special-labels"}));
        }
        if k % 5 == 4 || k % 5 == 0 {
            // names as projects have them: equal up to letter case, numbered (digit runs of any length), prefixes of one another
            let pool = [
                "Url", "URL", "url", "Page2", "Page10", "Page02", "Snapshot20240928120000", "Snapshot20240928120001", "V9Payload",
                "V10Payload", "Id", "ID", "apiKey", "ApiKey", "T4294967296", "T4294967295", "T99999999999999999999999", "Page", "Pag",
                // pairs of names that collide under a well-known 32-bit string hash (FNV-1a, FNV-1, djb2, sdbm, CRC-32, Adler-32)
                "CouponConfigList", "ThemeHistoryResponse", "PriceEdgeBatchList", "TraceItemNodeLabel", "IndexStockTraceList", "TokenEventLabelStatus",
                "RuleResponseStockUser", "TraceFrameStockIndex", "StockSlotThemeGrid", "ItemResultTraceUser", "TraceZoneTheme", "StockBatchRule",
            ];
            let ren = |i: usize| -> String { if i < pool.len() { pool[(k / 5 * 2 + i) % pool.len()].to_string() } else { name(i) } };
            let mut graph: Vec<Value> = Vec::new();
            for i in 0..n {
                let deps: Vec<String> = (0..n).filter(|j| adj[i] >> j & 1 == 1).map(ren).collect();
                graph.push(json!([ren(i), deps]));
            }
            let request: Vec<String> = (0..n).filter(|i| subset >> i & 1 == 1).map(ren).collect();
            out.case("topo", json!({"graph": graph, "request": request}), json!({"n": n, "tag": "rand-project-names"}));
        }
        if k % 4 == 1 {
            let nodes: Vec<String> = (0..n).map(name).collect();
            let es: Vec<Value> = edges.iter().map(|&(f, t)| json!([name(f), name(t)])).collect();
            out.case("kahn", json!({"nodes": nodes, "edges": es, "order": if k % 8 == 1 { "edges_first" } else { "nodes_twice" }}), json!({"n": n, "tag": "rand-order"}));
        }
        if k % 3 == 0 {
            // two (or three) distinct nodes showing the same name
            let nodes: Vec<String> = (0..n).map(name).collect();
            let es: Vec<Value> = edges.iter().map(|&(f, t)| json!([name(f), name(t)])).collect();
            let i = rng.below(n);
            let j = (i + 1 + rng.below(n - 1)) % n;
            let mut alias = serde_json::Map::new();
            alias.insert(name(j), json!(name(i)));
            if n >= 3 && rng.chance(1, 3) {
                let l = (0..n).find(|x| *x != i && *x != j).unwrap();
                alias.insert(name(l), json!(name(i)));
            }
            out.case("kahn", json!({"nodes": nodes, "edges": es, "alias": alias}), json!({"n": n, "tag": "rand-alias"}));
        }
        if k % 3 == 1 {
            // the same request sorted twice on one graph object, the dependency sets re-recorded in between
            let mut graph: Vec<Value> = Vec::new();
            let mut pre: Vec<Value> = Vec::new();
            for i in 0..n {
                let deps: Vec<String> = (0..n).filter(|j| adj[i] >> j & 1 == 1).map(name).collect();
                graph.push(json!([name(i), deps]));
                // before: the transposed relation on a random part of the nodes, nothing on the others
                let before: Vec<String> = (0..n).filter(|j| adj[*j] >> i & 1 == 1 && rng.chance(2, 3)).map(name).collect();
                if rng.chance(3, 4) {
                    pre.push(json!([name(i), before]));
                }
            }
            let request: Vec<String> = (0..n).filter(|i| subset >> i & 1 == 1).map(name).collect();
            out.case("topo", json!({"graph": graph, "request": request, "pre_graph": pre}), json!({"n": n, "tag": "rand-resort"}));
        }
        if k % 2 == 0 {
            let salt = if k % 8 == 0 { u64::MAX } else { rng.below(1_000_000) as u64 };
            kahn_case_kinds(out, n, &edges, "rand-kinds", Some(salt));
            topo_case_defs(out, n, &adj, subset, rng.below(1usize << n) as u32, "rand-defs");
        }
    }
}
