//! C20: TypeDependencyGraph::topological_sort_types and DependencyResolver::resolve_build_order
use crate::out::{guarded, strs, Out};
use crate::rng::Rng;
use serde_json::{json, Value};
use std::collections::HashSet;
use tauri_typegen::analysis::dependency_graph::TypeDependencyGraph;
use tauri_typegen::build::dependency_resolver::{
    Dependency, DependencyNode, DependencyNodeType, DependencyResolver, DependencyType,
};

fn name(i: usize) -> String {
    format!("T{}", i)
}

/// op `topo`: in = {graph: [[name, [deps]]...] (abstract), request: [names]};
/// exec adds the observed hash iteration orders `types` and `deps`.
pub fn exec_topo(input: &Value) -> (Value, Value) {
    let mut g = TypeDependencyGraph::new();
    for e in input["graph"].as_array().cloned().unwrap_or_default() {
        let k = e[0].as_str().unwrap_or("").to_string();
        let deps: HashSet<String> =
            e[1].as_array().map(|a| a.iter().filter_map(|x| x.as_str().map(String::from)).collect()).unwrap_or_default();
        g.add_dependencies(k, deps);
    }
    let types: HashSet<String> = strs(input, "request").into_iter().collect();
    let types_order: Vec<String> = types.iter().cloned().collect();
    let deps_order: Vec<Value> =
        g.dependencies.iter().map(|(k, v)| json!([k, v.iter().cloned().collect::<Vec<_>>()])).collect();
    let imp = guarded(|| json!({"sorted": g.topological_sort_types(&types)}));
    let mut in2 = input.clone();
    in2["types"] = json!(types_order);
    in2["deps"] = json!(deps_order);
    (in2, imp)
}

/// op `kahn`: in = {nodes: [names], edges: [[from, to]...]}
pub fn exec_kahn(input: &Value) -> (Value, Value) {
    let mk = |n: &str| DependencyNode {
        name: n.to_string(),
        path: format!("src/{}.rs", n),
        node_type: DependencyNodeType::Struct,
    };
    let mut r = DependencyResolver::new();
    for n in strs(input, "nodes") {
        r.add_node(mk(&n));
    }
    for e in input["edges"].as_array().cloned().unwrap_or_default() {
        r.add_dependency(Dependency {
            from: mk(e[0].as_str().unwrap_or("")),
            to: mk(e[1].as_str().unwrap_or("")),
            dependency_type: DependencyType::Field,
        });
    }
    let imp = guarded(|| match r.resolve_build_order() {
        Ok(v) => json!({"ok": v.iter().map(|n| n.name.clone()).collect::<Vec<_>>()}),
        Err(e) => json!({"err": e.to_string()}),
    });
    (input.clone(), imp)
}

fn topo_case(out: &mut Out, n: usize, adj: &[u32], subset: u32, extra_missing: bool, tag: &str) {
    let mut graph: Vec<Value> = Vec::new();
    for i in 0..n {
        let mut deps: Vec<String> = (0..n).filter(|j| adj[i] >> j & 1 == 1).map(name).collect();
        if extra_missing && i == 0 {
            deps.push("Missing".to_string());
        }
        // nodes without outgoing edges alternate between "no entry" and "empty entry"
        if !deps.is_empty() || i % 2 == 0 {
            graph.push(json!([name(i), deps]));
        }
    }
    let request: Vec<String> = (0..n).filter(|i| subset >> i & 1 == 1).map(name).collect();
    out.case("topo", json!({"graph": graph, "request": request}), json!({"n": n, "tag": tag}));
}

fn kahn_case(out: &mut Out, n: usize, edges: &[(usize, usize)], tag: &str) {
    let nodes: Vec<String> = (0..n).map(name).collect();
    let es: Vec<Value> = edges.iter().map(|&(f, t)| json!([name(f), name(t)])).collect();
    out.case("kahn", json!({"nodes": nodes, "edges": es}), json!({"n": n, "tag": tag}));
}

pub fn run(out: &mut Out, tier: &str, rng: &mut Rng) {
    let nmax = if tier == "thorough" { 4 } else { 3 };
    let repeats = if tier == "thorough" { 2 } else { 3 };
    // exhaustive: all digraphs on n labelled nodes incl. self-loops x all non-empty subsets
    for n in 1..=nmax {
        let bits = n * n;
        for code in 0u64..(1u64 << bits) {
            let adj: Vec<u32> = (0..n).map(|i| ((code >> (i * n)) & ((1 << n) - 1)) as u32).collect();
            for subset in 1u32..(1 << n) {
                // the full 4-node space is large: one in-process repeat there, several below
                let reps = if n == 4 { 1 } else { repeats };
                for _ in 0..reps {
                    topo_case(out, n, &adj, subset, false, "exh");
                }
            }
            let edges: Vec<(usize, usize)> = (0..n)
                .flat_map(|i| (0..n).filter(move |j| (code >> (i * n + j)) & 1 == 1).map(move |j| (i, j)))
                .collect();
            kahn_case(out, n, &edges, "exh");
        }
    }
    // random graphs up to 12 nodes, dependencies on undefined names, multi-edges for Kahn
    let nrand = if tier == "thorough" { 40000 } else { 4000 };
    for k in 0..nrand {
        let n = 2 + rng.below(11);
        let density = 1 + rng.below(4);
        let mut adj = vec![0u32; n];
        let acyclic = rng.chance(1, 2);
        for i in 0..n {
            for j in 0..n {
                if acyclic && j >= i {
                    continue;
                }
                if rng.below(2 * n) < density * 2 {
                    adj[i] |= 1 << j;
                }
            }
        }
        let subset = 1 + rng.below((1usize << n) - 1) as u32;
        topo_case(out, n, &adj, subset, k % 7 == 0, "rand");
        let mut edges: Vec<(usize, usize)> = Vec::new();
        for i in 0..n {
            for j in 0..n {
                if adj[i] >> j & 1 == 1 {
                    edges.push((i, j));
                    if rng.chance(1, 6) {
                        edges.push((i, j)); // duplicate edge
                    }
                }
            }
        }
        for i in (1..edges.len()).rev() {
            let j = rng.below(i + 1);
            edges.swap(i, j);
        }
        kahn_case(out, n, &edges, "rand");
    }
}
