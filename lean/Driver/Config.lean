import Driver.Util
import Typegen.Config
/-! op `configSave` (C19): save_to_tauri_config / from_tauri_config on a JSON document -/
open Lean
namespace Drv
open Cf

partial def jOfJson : Json → J
  | .null => .null
  | .bool b => .bool b
  | .num n => .num (toString n)
  | .str s => .str s
  | .arr a => .arr (a.toList.map jOfJson)
  | .obj kvs => .obj (kvs.toList.map fun (k, v) => (k, jOfJson v))

partial def jToJson : J → Json
  | .null => .null
  | .bool b => .bool b
  | .num t => match Json.parse t with | .ok j => j | .error _ => .str t
  | .str s => .str s
  | .arr xs => .arr (xs.map jToJson).toArray
  | .obj kvs => Json.mkObj (kvs.map fun p => (p.1, jToJson p.2))

def settingsOf (j : Json) : Except String Settings := do
  let tm : Option (List (String × String)) := match getOpt j "typeMappings" with
    | some (Json.obj kvs) => some (kvs.toList.filterMap fun (k, v) => match v.getStr? with | .ok s => some (k, s) | .error _ => none)
    | _ => none
  let sl (k : String) : Option (List String) := match getOpt j k with
    | some v => (asStrList v).toOption
    | none => none
  pure { projectPath := ← getS j "projectPath", outputPath := ← getS j "outputPath",
         validationLibrary := ← getS j "validationLibrary", verbose := getBoolD j "verbose" false,
         visualizeDeps := getBoolD j "visualizeDeps" false, includePrivate := getBoolD j "includePrivate" false,
         typeMappings := tm, excludePatterns := sl "excludePatterns", includePatterns := sl "includePatterns",
         force := getBoolD j "force" false }

def settingsJson (s : Settings) : Json :=
  obj [("projectPath", jS s.projectPath), ("outputPath", jS s.outputPath), ("validationLibrary", jS s.validationLibrary),
       ("verbose", jb s.verbose), ("visualizeDeps", jb s.visualizeDeps), ("includePrivate", jb s.includePrivate),
       ("typeMappings", match s.typeMappings with | some m => Json.mkObj (m.map fun p => (p.1, jS p.2)) | none => Json.null),
       ("excludePatterns", match s.excludePatterns with | some l => jSs l | none => Json.null),
       ("includePatterns", match s.includePatterns with | some l => jSs l | none => Json.null),
       ("force", jb s.force)]

def opConfigSave (inp imp : Json) : Except String Json := do
  let docJ ← inp.getObjVal? "doc"
  let doc := jOfJson docJ
  let s ← settingsOf (← inp.getObjVal? "settings")
  let ex := getBoolD inp "project_exists" true
  let saved := saveToTauri doc s
  let (saveStr, savedJson) : String × Json := match saved with
    | .ok j => ("ok", jToJson j)
    | .error _ => ("err", docJ)
  let load : Json := match saved with
    | .ok j => match fromTauri (fun _ => ex) j with
      | .ok (some r) => obj [("some", settingsJson r)]
      | .ok none => jS "none"
      | .error .invalidLibrary => obj [("err", jS "library")]
      | .error .missingProjectPath => obj [("err", jS "path")]
    | .error _ => Json.null
  let implSave := (getS imp "save").toOption.getD ""
  let implSaved := (imp.getObjVal? "saved").toOption.getD Json.null
  let implLoad := (imp.getObjVal? "load").toOption.getD Json.null
  let agree := implSave == saveStr && (saveStr != "ok" || (implSaved == savedJson && implLoad == load))
  -- specification oracles on the implementation's result
  let topKeys : List (String × Json) := match docJ with | .obj kvs => kvs.toList | _ => []
  let preservedTop := topKeys.all fun (k, v) => k == "plugins" || (implSaved.getObjVal? k).toOption == some v
  let plugins : List (String × Json) := match docJ.getObjVal? "plugins" with | .ok (.obj kvs) => kvs.toList | _ => []
  let implPlugins := (implSaved.getObjVal? "plugins").toOption.getD Json.null
  let preservedPlugins := plugins.all fun (k, v) => k == "typegen" || (implPlugins.getObjVal? k).toOption == some v
  let valid := (s.validationLibrary == "zod" || s.validationLibrary == "none") && ex
  let pluginsNonObj := match docJ.getObjVal? "plugins" with | .ok (.obj _) => false | .ok _ => true | .error _ => false
  let roundTrip := if implSave != "ok" then true
    else if valid then implLoad == obj [("some", settingsJson s)]
    else (implLoad.getObjVal? "err").toOption.isSome
  let orc := [("saved_or_error", implSave == "ok" || implSave == "err"),
              ("preserves_other_keys", implSave != "ok" || (preservedTop && preservedPlugins)),
              ("reads_back_what_was_written", roundTrip),
              ("typegen_present_after_ok", implSave != "ok" || (implPlugins.getObjVal? "typegen").toOption.isSome)]
  let classes : List String :=
    (if pluginsNonObj then ["K19c_pluginsNotObject"] else []) ++
    (if !(match docJ with | .obj _ => true | _ => false) then ["nonObjectDocument"] else [])
  pure <| obj [("model", obj [("save", jS saveStr), ("saved", savedJson), ("load", load)]), ("agree", jb agree),
    ("oracle_impl", obj (orc.map fun p => (p.1, jb p.2))), ("oracle_model", obj []),
    ("nontrivial", jb (topKeys.length ≥ 1)), ("class", jSs classes)]

/-- op `configResolve` (C19): flag > file > default, validation before anything is written -/
def opConfigResolve (inp imp : Json) : Except String Json := do
  let fl ← inp.getObjVal? "flags"
  let flags : Flags := { projectPath := (getS fl "p").toOption, outputPath := (getS fl "o").toOption,
                         validationLibrary := (getS fl "v").toOption, verbose := getBoolD fl "verbose" false,
                         visualizeDeps := getBoolD fl "visualize" false, force := getBoolD fl "force" false }
  let doc : Option J := (getOpt inp "doc").map jOfJson
  let existing ← getStrList inp "existing"
  -- `places`: what the three places the tool looks in hold, in its order (null: absent, "unreadable", or a document);
  -- without it the single `doc` is the discovered document
  let places : Option (List Place) := match inp.getObjVal? "places" with
    | .ok (Json.arr a) => some (a.toList.map fun x => match x with
        | Json.null => Place.absent
        | Json.str _ => Place.unreadable
        | d => Place.doc (jOfJson d))
    | _ => none
  let r := match places with
    | some ps => resolveDiscovered (fun p => existing.contains p) flags ps
    | none => resolve (fun p => existing.contains p) flags doc
  let model : Json := match r with
    | .ok s => obj [("ok", obj [("projectPath", jS s.projectPath), ("outputPath", jS s.outputPath),
        ("validationLibrary", jS s.validationLibrary), ("verbose", jb s.verbose), ("force", jb s.force)])]
    | .error .invalidLibrary => obj [("err", jS "library")]
    | .error .missingProjectPath => obj [("err", jS "path")]
  let implObs := (imp.getObjVal? "observed").toOption.getD Json.null
  let wrote := getBoolD imp "wrote_anything" false
  let isErr := (model.getObjVal? "err").toOption.isSome
  pure <| obj [("model", model), ("agree", jb (implObs == model)),
    ("oracle_impl", obj [("rejected_before_any_write", jb (!( (implObs.getObjVal? "err").toOption.isSome && wrote)))]),
    ("oracle_model", obj []), ("nontrivial", jb true),
    ("class", jSs (if isErr then ["invalidEffectiveSettings"] else []))]

end Drv
