import Driver.Util
import Typegen.BuildPath
import Typegen.Run
/-! op `history` (C08, C14, C17): the run model instantiated on *aspect vectors*.

Sources and configuration are vectors `aspect ↦ version number`; an edit of class `a` bumps aspect `a`.
`key` projects onto the aspects whose fields are hashed (list extracted from the source on every run and
handed in as `hashed`), `gen` onto the aspects that influence the output in the current mode. -/
open Lean
namespace Drv
open R

abbrev Vec := List (String × Nat)

def vget (v : Vec) (a : String) : Nat := ((v.find? (·.1 == a)).map (·.2)).getD 0
def vbump (v : Vec) (a : String) (delta : Int := 1) : Vec :=
  if v.any (·.1 == a) then v.map (fun p => if p.1 == a then (p.1, (Int.ofNat p.2 + delta).toNat) else p)
  else v ++ [(a, delta.toNat)]

structure HSrc where
  vec : Vec
  empty : Bool       -- no commands
  events : Bool      -- at least one event
structure HCfg where
  vec : Vec
  zod : Bool
  viz : Bool

/-- aspects that do not influence the output in plain mode -/
def zodOnly : List String := ["validator"]

def hsys (hashed : List String) : Sys HSrc HCfg (List Nat × Bool × Bool) (List Nat) where
  key := fun s c => (hashed.map (fun a => vget (s.vec ++ c.vec) a), c.zod, if "visualize_deps" ∈ hashed then c.viz else false)
  gen := fun s c =>
    let aspects := (s.vec ++ c.vec).filter (fun p => c.zod || !(p.1 ∈ zodOnly))
    let content : List Nat := (aspects.map (·.2)) ++ [if c.zod then 1 else 0]
    [("types.ts", content), ("commands.ts", content)] ++
    (if s.events then [("events.ts", content)] else []) ++ [("index.ts", content)] ++
    (if c.viz then [("dependency-graph.txt", content), ("dependency-graph.dot", content)] else [])
  empty := fun s => s.empty

structure HW where
  src : HSrc
  cfg : HCfg
  out : Out (List Nat × Bool × Bool) (List Nat)

def resStr : Res → String | .ok => "ok" | .err => "err"
def actStr : Action → String
  | .noCommands => "noCommands" | .upToDate => "upToDate" | .generated => "generated" | .failed => "failed"

def fileNames : List String := ["types.ts", "commands.ts", "events.ts", "index.ts", "dependency-graph.txt", "dependency-graph.dot"]

def opHistory (inp imp : Json) : Except String Json := do
  let hashed ← getStrList inp "hashed"
  let steps ← getArr inp "steps"
  let S := hsys hashed
  let init : HW := { src := { vec := [], empty := getBoolD inp "empty" false, events := getBoolD inp "events" false },
                     cfg := { vec := [], zod := getBoolD inp "zod" false, viz := getBoolD inp "viz" false },
                     out := { files := fun _ => none, cache := none } }
  let build := getBoolD inp "build" false
  let reservedHere : List String := ((getStrList inp "reserved").toOption.getD []).filter (· ∈ fileNames)
  let mut w := init
  let mut obs : Array Json := #[]
  for st in steps do
    let k ← getS st "k"
    match k with
    | "edit" =>
      let a ← getS st "aspect"
      let delta : Int := match st.getObjVal? "delta" with
        | .ok v => (v.getInt?).toOption.getD 1
        | .error _ => 1
      if a == "output_mode" then w := { w with cfg := { w.cfg with zod := !w.cfg.zod } }
      else if a == "visualize_deps" then w := { w with cfg := { w.cfg with viz := !w.cfg.viz } }
      else if a == "remove_commands" then w := { w with src := { w.src with empty := !w.src.empty } }
      else if a == "toggle_events" then w := { w with src := { w.src with events := !w.src.events, vec := vbump w.src.vec "event_name" } }
      else if getBoolD st "config" false then w := { w with cfg := { w.cfg with vec := vbump w.cfg.vec a delta } }
      else w := { w with src := { w.src with vec := vbump w.src.vec a delta } }
    | "delete" =>
      let n ← getS st "file"
      w := { w with out := if n == ".typecache" then applyOp w.out .removeCache else applyOp w.out (.remove n) }
    | "run" =>
      let forced := getBoolD st "forced" false
      let fault := (getNat st "fault").toOption
      -- CLI path: the run proper.  Build-script path (Typegen/BuildPath.lean): run, then on success the clean-up
      -- (`finalize_generation` removes reserved-named files not in the list the run returned; the directory listing is
      -- `fileNames`); a stale reserved-named file that cannot be removed makes the clean-up fail: the run is reported as
      -- failed and its record is dropped again (fix 2a70fe0)
      -- a step may name its own entry point (histories mixing the command line and the build script over one directory)
      let build := match (getS st "path").toOption with
        | some "build" => true
        | some "cli" => false
        | _ => build
      let r : Res × Action × Out (List Nat × Bool × Bool) (List Nat) :=
        if build then R.runBuildF S (fun n => reservedHere.contains n) fileNames (getS st "leftover").toOption.isSome w.src w.cfg forced fault w.out
        else run S w.src w.cfg forced fault w.out
      w := { w with out := r.2.2 }
      let gen := S.gen w.src w.cfg
      let current := gen.all fun p => w.out.files p.1 == some p.2
      obs := obs.push (obj [("res", jS (resStr r.1)), ("action", jS (actStr r.2.1)),
        ("cache", jb w.out.cache.isSome),
        ("present", jSs (fileNames.filter fun n => (w.out.files n).isSome)),
        ("current", jb (w.src.empty || current))])
    | _ => throw s!"bad step {k}"
  let implObs := (imp.getObjVal? "obs").toOption.getD Json.null
  -- compare res/action/cache/present; `current` is the model's own C08 verdict
  let strip (j : Json) : Json := match j with
    | Json.arr a => Json.arr (a.map fun o => obj [("res", (o.getObjVal? "res").toOption.getD Json.null),
        ("action", (o.getObjVal? "action").toOption.getD Json.null),
        ("cache", (o.getObjVal? "cache").toOption.getD Json.null),
        ("present", (o.getObjVal? "present").toOption.getD Json.null)])
    | x => x
  let modelObs := Json.arr obs
  let implCurrent : Bool := match implObs with
    | Json.arr a => a.all fun o => (o.getObjVal? "res").toOption != some (jS "ok") || getBoolD o "current" true
    | _ => false
  let modelCurrent : Bool := obs.all fun o => (o.getObjVal? "res").toOption != some (jS "ok") || getBoolD o "current" true
  pure <| obj [("model", obj [("obs", modelObs)]), ("agree", jb (strip implObs == strip modelObs)),
    ("oracle_impl", obj [("ok_means_current", jb implCurrent)]),
    ("oracle_model", obj [("ok_means_current", jb modelCurrent)]),
    ("nontrivial", jb (steps.length ≥ 2)),
    ("class", Json.arr #[])]

end Drv
