import Driver.Util
import Typegen.SerdeAttrs
/-! ops `name`, `fieldAttrs` (C04, C06, C12 names, C15 camel panic) -/
open Lean
namespace Drv
open N SA

def optStr (j : Json) (k : String) : Option (List Char) :=
  match getOpt j k with
  | some v => match v.getStr? with | .ok s => some s.toList | .error _ => none
  | none => none

def isSnakeIdent (s : List Char) : Bool :=
  !s.isEmpty && s.all H.isSnakeCh && s.any (· != '_') && !(s.head?.any VPisDigit)
where VPisDigit (c : Char) : Bool := '0' ≤ c ∧ c ≤ '9'

def variantDiffRules : List Rule := [.lower, .snake, .screamingSnake, .kebab, .screamingKebab]
/-- K06a: the tool applies the *field* rule to enum variants.  The class is stated on the input: a variant
    without explicit rename under a container `rename_all`, except the combinations where the two rules
    provably coincide: an UpperCamel identifier (`[A-Z][A-Za-z0-9]*`) under PascalCase / camelCase / UPPERCASE. -/
def k06a (kind : String) (rename : Option (List Char)) (rule : Option Rule) (ident : List Char) : Bool :=
  kind == "variant" && rename.isNone && rule.isSome &&
  !(isUpperCamel ident && rule.any (fun r => r == .pascal || r == .camel || r == .upper))

def outJson (o : List Char) : Json := obj [("out", jstr o)]

def opName (inp imp : Json) : Except String Json := do
  let what ← getS inp "what"
  let name ← getL inp "name"
  let rename := optStr inp "rename"
  let ruleS := optStr inp "rule"
  let rule := ruleS.bind ruleOfStr
  let dflt := (optStr inp "default_case").getD "camelCase".toList
  let kind := (getS inp "kind").toOption.getD "field"
  let model : List Char := match what with
    | "function" => computeFunctionName name
    | "type" => computeTypeName name
    | "event" => eventFunctionName name
    | _ => computeName name rename rule dflt
  let implOut := optStr imp "out"
  let implPanic := (imp.getObjVal? "panic").toOption.isSome
  let agree := implOut == some model
  -- oracles
  let serdeOr : List (String × Bool) :=
    if what == "field" then
      let k := if kind == "variant" then Kind.variant else Kind.field
      -- "unattributed items keep their Rust name" is read under the default field case (snake_case = identity)
      match serdeName k rule rename name with
      | some expect => [("serde_name", implOut == some expect)]
      | none => []
    else []
  let heckOr : List (String × Bool) :=
    if what == "param" && rename.isNone && rule.isNone && dflt == "camelCase".toList && isSnakeIdent name then
      [("tauri_key", implOut == some (H.heckLowerCamel name) && optStr imp "heck" == some (H.heckLowerCamel name))]
    else []
  let nopanic := [("nopanic", !implPanic)]
  let classes : List String :=
    (if what == "field" && k06a kind rename rule name then ["K06a_variantRule"] else [])
  pure <| obj [("model", outJson model), ("agree", jb agree),
    ("oracle_impl", obj ((serdeOr ++ heckOr ++ nopanic).map fun p => (p.1, jb p.2))),
    ("oracle_model", obj []),
    ("nontrivial", jb (name.length ≥ 2)),
    ("class", jSs classes)]

/-! ### `fieldAttrs`: attribute items (spec) vs token-string scanners (model) vs real code -/
structure Item where
  k : String
  v : Option (List Char)   -- the *value* of the string (what serde sees after unescaping)

def itemsOf (j : Json) : Except String (List (List Item)) := do
  let attrs ← j.getArr?
  attrs.toList.mapM fun a => do
    let its ← a.getArr?
    its.toList.mapM fun it => do
      let k ← getS it "k"
      pure { k := k, v := optStr it "v" }

/-- serde's reading of the items of all `#[serde(..)]` attributes on one field/variant -/
def specRename (attrs : List (List Item)) : Option (List Char) :=
  (attrs.flatten.filter (·.k == "rename")).getLast?.bind (·.v)
def specSkip (attrs : List (List Item)) : Bool := attrs.flatten.any (·.k == "skip")
def specRenameAll (attrs : List (List Item)) : Option (List Char) :=
  (attrs.flatten.filter (fun i => i.k == "rename_all" || i.k == "rename_all_long")).getLast?.bind (·.v)

def hasSub (pat : String) (s : List Char) : Bool := A.containsSub pat.toList s

def opFieldAttrs (inp imp : Json) : Except String Json := do
  let kind ← getS inp "kind"
  let ident ← getL inp "ident"
  let attrs ← itemsOf (← inp.getObjVal? "attrs")
  let cattrs ← itemsOf (← inp.getObjVal? "container")
  let tokens := ((getStrList inp "tokens").toOption.getD []).map String.toList
  let ctokens := ((getStrList inp "ctokens").toOption.getD []).map String.toList
  let fa := parseFieldAttrs tokens
  let rule := parseStructAttrs ctokens
  let present := kind == "variant" || !fa.skip
  let name := computeName ident fa.rename rule "snake_case".toList
  let implPresent := (getBool imp "present").toOption
  let implName := optStr imp "name"
  let implPanic := (imp.getObjVal? "panic").toOption.isSome
  let agree := !implPanic && implPresent == some present &&
    (if present then implName == some name else true)
  -- specification
  let k := if kind == "variant" then Kind.variant else Kind.field
  let sRule := (specRenameAll cattrs).bind ruleOfStr
  let sPresent := kind == "variant" || !specSkip attrs
  let sName := serdeName k sRule (specRename attrs) ident
  let orc := [("nopanic", !implPanic), ("present", implPresent == some sPresent)] ++
    (if sPresent && implPresent == some true then
      match sName with
      | some n => [("serde_name", implName == some n)]
      | none => []
     else [])
  let vals := (attrs ++ cattrs).flatten.filterMap (·.v)
  let keys := (attrs ++ cattrs).flatten.map (·.k)
  let classes : List String :=
    (if k06a kind (specRename attrs) sRule ident then ["K06a_variantRule"] else []) ++
    (if vals.any (fun v => hasSub "skip" v || hasSub "rename" v) then ["K06b_substringInValue"] else []) ++
    (if keys.any (fun x => x == "skip_deserializing" || x == "skip_serializing") ||
        (attrs.any fun a => a.any (·.k == "skip") && a.any (fun i => i.k == "skip_serializing_if")) then ["K06c_skipVariants"] else []) ++
    (if vals.any (fun v => v.contains '\\' || v.contains '"') then ["K06d_escapedQuote"] else [])
  pure <| obj [("model", obj [("present", jb present), ("name", jstr name)]),
    ("agree", jb agree),
    ("oracle_impl", obj (orc.map fun p => (p.1, jb p.2))),
    ("oracle_model", obj []),
    ("nontrivial", jb (!attrs.flatten.isEmpty || !cattrs.flatten.isEmpty)),
    ("class", jSs classes)]

end Drv
