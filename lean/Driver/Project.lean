import Driver.Util
import Driver.Names
import Typegen.Generate
import Driver.Types
/-! decoding the project IR; op `project` (analysis part) -/
open Lean
namespace Drv
open Pj An

partial def gtyOf (j : Json) : Except String GTy := do
  let k ← getS j "k"
  match k with
  | "path" =>
    let segs ← getArr j "segs"
    let rec mkArgs : List Json → Except String GArgs
      | [] => pure .nil
      | a :: rest => do
        let r ← mkArgs rest
        match a.getObjVal? "ty" with
        | .ok t => pure (.ty (← gtyOf t) r)
        | .error _ => pure (.other r)
    let rec mkSegs : List Json → Except String GSegs
      | [] => pure .nil
      | sg :: rest => do
        let id ← getL sg "id"
        let kindS ← getS sg "kind"
        let kind := if kindS == "angle" then ArgKind.angle else if kindS == "paren" then ArgKind.paren else ArgKind.none
        let args ← mkArgs (← getArr sg "args")
        pure (.cons id kind args (← mkSegs rest))
    pure (.path (← mkSegs segs))
  | "ref" => pure (.ref (← gtyOf (← j.getObjVal? "t")))
  | "tuple" =>
    let ts ← (← getArr j "ts").mapM gtyOf
    pure (.tuple (ts.foldr (fun t acc => .cons t acc) .nil))
  | "array" => pure (.array (← gtyOf (← j.getObjVal? "t")))
  | "slice" => pure (.slice (← gtyOf (← j.getObjVal? "t")))
  | _ => pure .other

def attrOf (j : Json) : Except String Attr := do
  let path := ((getStrList j "path").toOption.getD []).map String.toList
  pure { path := path, isList := getBoolD j "list" false,
         tokens := ((getS j "tokens").toOption.getD "").toList,
         metaTokens := ((getS j "meta_tokens").toOption.getD "").toList }

def attrsOf (j : Json) : Except String (List Attr) := do
  match j.getObjVal? "attrs" with
  | .ok (.arr a) => a.toList.mapM attrOf
  | _ => pure []

def strListOf (j : Json) (k : String) : List Str := ((getStrList j k).toOption.getD []).map String.toList

mutual
partial def exprOf (j : Json) : Except String Expr := do
  let k ← getS j "k"
  let sub (key : String) : Except String Expr := do exprOf (← j.getObjVal? key)
  let subs (key : String) : Except String Exprs := do
    match j.getObjVal? key with
    | .ok (.arr a) => do
      let es ← a.toList.mapM exprOf
      pure (es.foldr (fun e acc => .cons e acc) .nil)
    | _ => pure .nil
  match k with
  | "mcall" => pure (.mcall (← sub "recv") (← getL j "method") (← subs "args"))
  | "call" => pure (.call (← sub "func") (← subs "args"))
  | "path" => pure (.path (strListOf j "segs"))
  | "field" => pure (.field (← sub "base") (← getL j "name"))
  | "struct" => pure (.struct (strListOf j "segs"))
  | "ref" => pure (.ref (← sub "e"))
  | "lit" => pure (.lit ((getS j "lit").toOption.getD "other").toList ((getS j "value").toOption.getD "").toList)
  | "tuple" => pure (.tuple (← subs "es"))
  | "await" => pure (.await (← sub "e"))
  | "try" => pure (.try (← sub "e"))
  | "block" => pure (.block (← stmtsOf (← j.getObjVal? "body")))
  | "if" =>
    let el : Exprs ← match j.getObjVal? "else" with
      | .ok Json.null => pure Exprs.nil
      | .ok e => do pure (Exprs.cons (← exprOf e) .nil)
      | .error _ => pure Exprs.nil
    pure (.ifE (← stmtsOf (← j.getObjVal? "then")) el)
  | "match" => pure (.matchE (← subs "arms"))
  | "loop" | "while" | "for" => pure (.loopE (← stmtsOf (← j.getObjVal? "body")))
  | _ => pure (.other .nil)
partial def stmtsOf (j : Json) : Except String Stmts := do
  match j with
  | .arr a => do
    let ss ← a.toList.mapM stmtOf
    pure (ss.foldr (fun s acc => .cons s acc) .nil)
  | _ => pure .nil
partial def stmtOf (j : Json) : Except String Stmt := do
  let k ← getS j "k"
  match k with
  | "expr" => pure (.expr (← exprOf (← j.getObjVal? "e")))
  | "let" =>
    let pat := (getS j "pat").toOption.getD "wild"
    let init : Option Expr ← match j.getObjVal? "init" with
      | .ok Json.null => pure none
      | .ok e => do pure (some (← exprOf e))
      | .error _ => pure none
    if pat == "typed" then
      pure (.letS none (some ((← getL j "name"), (← gtyOf (← j.getObjVal? "gty")))) init)
    else if pat == "ident" then pure (.letS (some (← getL j "name")) none init)
    else pure (.letS none none init)
  | _ => pure .other
end

def paramOf (j : Json) : Except String Param := do
  pure { patIdent := optStr j "pat_ident", ty := ← gtyOf (← j.getObjVal? "gty"), attrs := ← attrsOf j }

def itemOf (j : Json) : Except String Pj.Item := do
  let k ← getS j "k"
  match k with
  | "fn" =>
    let params ← (← getArr j "params").mapM paramOf
    let ret : Option GTy ← match j.getObjVal? "ret_gty" with
      | .ok g => do pure (some (← gtyOf g))
      | .error _ => pure none
    let body ← stmtsOf ((j.getObjVal? "body").toOption.getD (Json.arr #[]))
    let nm ← getL j "name"
    let ats ← attrsOf j
    let fi : FnItem := { name := nm, attrs := ats, isAsync := getBoolD j "async" false, params := params, ret := ret, body := body }
    pure (Pj.Item.fn fi)
  | "struct" =>
    let shapeS := (getS j "shape").toOption.getD "named"
    let fields ← (match j.getObjVal? "fields" with | .ok (.arr a) => a.toList | _ => []).mapM fun f => do
      pure ({ name := ← getL f "name", isPub := (getS f "vis").toOption == some "pub",
              ty := ← gtyOf (← f.getObjVal? "gty"), attrs := ← attrsOf f } : Field)
    let nm ← getL j "name"
    let ats ← attrsOf j
    let si : StructItem := { name := nm, attrs := ats,
                             shape := if shapeS == "unit" then .unit else if shapeS == "tuple" then .tuple else .named,
                             fields := fields }
    pure (Pj.Item.struct si)
  | "enum" =>
    let vs ← (← getArr j "variants").mapM fun v => do
      let sh := (getS v "shape").toOption.getD "unit"
      pure ({ name := ← getL v "name", attrs := ← attrsOf v,
              shape := if sh == "tuple" then .tuple else if sh == "struct" then .struct else .unit } : Variant)
    let nm ← getL j "name"
    let ats ← attrsOf j
    let ei : EnumItem := { name := nm, attrs := ats, variants := vs }
    pure (Pj.Item.enum ei)
  | _ => pure Pj.Item.other

def projectOf (j : Json) : Except String Project := do
  let files ← (← getArr j "files").mapM fun f => do
    let items ← (match f.getObjVal? "items" with | .ok (.arr a) => a.toList | _ => []).mapM itemOf
    pure ({ relPath := ← getL f "path", parses := getBoolD f "parses" true, items := items } : File)
  pure { absRoot := ← getL j "abs_root", files := files }

def optJ (o : Option Str) : Json := match o with | some s => jstr s | none => Json.null
def ruleJ (r : Option N.Rule) : Json := match r with | some x => jstr (N.ruleName x) | none => Json.null

def analysisJson (a : Analysis) : Json :=
  obj [
    ("commands", Json.arr (a.commands.map fun c => obj [
      ("name", jstr c.name), ("file", jstr c.file), ("is_async", jb c.isAsync), ("return_type", jstr c.ret),
      ("rename_all", ruleJ c.renameAll),
      ("params", Json.arr (c.params.map fun p => obj [("name", jstr p.name), ("rust_type", jstr p.rustType),
          ("is_optional", jb p.isOptional), ("serde_rename", optJ p.serdeRename)]).toArray),
      ("channels", Json.arr (c.channels.map fun ch => obj [("param", jstr ch.param), ("message_type", jstr ch.msgType)]).toArray)]).toArray),
    ("events", Json.arr (a.events.map fun e => obj [("name", jstr e.name), ("payload", jstr e.payload), ("file", jstr e.file)]).toArray),
    ("structs", Json.arr (a.structs.map fun s => obj [
      ("name", jstr s.name), ("is_enum", jb s.isEnum), ("rename_all", ruleJ s.renameAll),
      ("fields", Json.arr (s.fields.map fun f => obj [("name", jstr f.name), ("rust_type", jstr f.rustType),
          ("is_optional", jb f.isOptional), ("serde_rename", optJ f.serdeRename), ("has_validator", jb f.validator.isSome)]).toArray)]).toArray),
    ("deps", Json.arr (a.deps.map fun d => Json.arr #[jstr d.1, jstrs d.2]).toArray)]

end Drv

namespace Drv
open Pj An

/-- whitespace-free form of a generated file with its leading header comment removed -/
def squash (s : Str) : Str := s.filter fun c => !(c == ' ' || c == '\n' || c == '\t' || c == '\r')

def dropHeader (s : Str) : Str :=
  -- the file starts with `/** … */` (common/header.tera); drop through the first `*/`
  match A.findSub cl!"*/" s with
  | some i => if A.startsWith s cl!"/**" then s.drop (i + 2) else s
  | none => s

def cfgOf (j : Json) : Gn.Config :=
  { zod := (getS j "mode").toOption == some "zod", mappings := mappingsOf j,
    paramCase := ((getS j "param_case").toOption.getD "camelCase").toList,
    fieldCase := ((getS j "field_case").toOption.getD "snake_case").toList }

end Drv
