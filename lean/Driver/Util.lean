import Typegen.Basic
import Lean.Data.Json
/-! JSON helpers for the line-protocol driver (no Mathlib anywhere below the driver). -/
open Lean

namespace Drv


def jstr (s : Str) : Json := Json.str (String.ofList s)
def jstrs (l : List Str) : Json := Json.arr (l.map jstr).toArray
def jS (s : String) : Json := Json.str s
def jSs (l : List String) : Json := Json.arr (l.map Json.str).toArray
def jb (b : Bool) : Json := Json.bool b
def obj (l : List (String × Json)) : Json := Json.mkObj l

def getS (j : Json) (k : String) : Except String String := do
  let v ← j.getObjVal? k
  v.getStr?
def getL (j : Json) (k : String) : Except String Str := do
  let s ← getS j k
  pure s.toList
def getArr (j : Json) (k : String) : Except String (List Json) := do
  let v ← j.getObjVal? k
  let a ← v.getArr?
  pure a.toList
def getStrList (j : Json) (k : String) : Except String (List String) := do
  let a ← getArr j k
  a.mapM (·.getStr?)
def asStrList (v : Json) : Except String (List String) := do
  let a ← v.getArr?
  a.toList.mapM (·.getStr?)
def getOpt (j : Json) (k : String) : Option Json :=
  match j.getObjVal? k with
  | .ok Json.null => none
  | .ok v => some v
  | .error _ => none
def getBool (j : Json) (k : String) : Except String Bool := do
  let v ← j.getObjVal? k
  v.getBool?
def getBoolD (j : Json) (k : String) (d : Bool) : Bool :=
  match getBool j k with
  | .ok b => b
  | .error _ => d
def getNat (j : Json) (k : String) : Except String Nat := do
  let v ← j.getObjVal? k
  v.getNat?

end Drv
