import Driver.Types
import Driver.Names
import Typegen.Validator
import Typegen.Esc
/-! op `validator` (C11, C01 string literals, C15 message scanner) -/
open Lean
namespace Drv
open VP

structure DeclBound where
  min : Option (List Char)       -- source text of the literal
  max : Option (List Char)
  message : Option (List Char)   -- the declared message *value*
  msgLit : Option (List Char)    -- its literal source text (with quotes)

inductive DeclItem where
  | email (hasArgs : Bool) | url (hasArgs : Bool)   -- with args: `(message = "not valid")`
  | length (b : DeclBound) | range (b : DeclBound)
  | other

def declBound (it : Json) : DeclBound :=
  let msg := getOpt it "message"
  { min := optStr it "min", max := optStr it "max",
    message := msg.bind (fun m => optStr m "value"),
    msgLit := msg.bind (fun m => optStr m "lit") }

def declItems (j : Json) : Except String (List (List DeclItem)) := do
  let attrs ← j.getArr?
  attrs.toList.mapM fun a => do
    let its ← a.getArr?
    its.toList.mapM fun it => do
      let k ← getS it "k"
      let args := getBoolD it "args" false
      pure <| match k with
        | "email" => DeclItem.email args
        | "url" => .url args
        | "length" => .length (declBound it)
        | "range" => .range (declBound it)
        | _ => .other

def boundJson (mn mx : Option (List Char)) (msg : Option (List Char)) : Json :=
  obj [("min", match mn with | some x => jstr x | none => Json.null),
       ("max", match mx with | some x => jstr x | none => Json.null),
       ("message", match msg with | some x => jstr x | none => Json.null)]

/-- numeric reading of a range bound text: canonical decimal, or `none` when `f64::from_str` rejects it -/
def rangeNum (t : List Char) : Option (List Char) := canonDec t

def exoticNum (t : List Char) : Bool :=
  let l := (t.filter (fun c => c != '+' && c != '-')).map Char.toLower
  l == "inf".toList || l == "infinity".toList || l == "nan".toList || sigDigits t > 15 ||
  (match canonDec t with | some c => c.length > 40 | none => false)

/-- all JS string literals of a rendered schema, lexed back to their values -/
partial def lexLiterals (s : List Char) : List (Option (List Char)) :=
  match s with
  | [] => []
  | '"' :: _ =>
    match P.lexJsString s with
    | some (v, rest) => some v :: lexLiterals rest
    | none => [none]
  | _ :: r => lexLiterals r

/-- the method calls of a rendered schema outside its string literals, each with its leading numeric argument
    (canonical decimal when it has one): what the schema enforces, apart from the message texts -/
partial def schemaCalls (s : List Char) : List (List Char) :=
  match s with
  | [] => []
  | '"' :: _ =>
    match P.lexJsString s with
    | some (_, rest) => schemaCalls rest
    | none => ["<unterminated literal>".toList]
  | '.' :: r =>
    let nm := r.takeWhile fun c => c.isAlphanum || c == '_'
    match r.drop nm.length with
    | '(' :: r2 =>
      if nm.isEmpty then schemaCalls r2 else
      let num := r2.takeWhile fun c => c.isDigit || c == '.' || c == '-' || c == '+' || c == 'e' || c == 'E'
      let num' := if num.isEmpty then [] else (canonDec num).getD num
      (nm ++ '(' :: num') :: schemaCalls (r2.drop num.length)
    | r2 => schemaCalls r2
  | _ :: r => schemaCalls r

def opValidator (inp imp : Json) : Except String Json := do
  let r ← rtyOfJson (← inp.getObjVal? "rty")
  let decl ← declItems (← inp.getObjVal? "attrs")
  let toksJ ← getArr inp "tokens"
  let toks : List (Option (List Char)) := toksJ.map fun t => match t.getStr? with | .ok s => some s.toList | .error _ => none
  let parsed := parseValidator toks
  -- model validator in printed form
  let mval : Option V.Validator := parsed.map VP.toValidator
  let s := L.str r
  let t := L.parseTS (parseFuel s) s
  let schema := V.buildSchema [] t mval
  let modelParsed : Json := match mval with
    | none => Json.null
    | some v => obj [
        ("length", match v.length with | some b => boundJson b.min b.max b.message | none => Json.null),
        ("range", match v.range with | some b => boundJson b.min b.max b.message | none => Json.null),
        ("email", jb v.email), ("url", jb v.url)]
  let implPanic := (imp.getObjVal? "panic").toOption.isSome
  let implParsed := (imp.getObjVal? "parsed").toOption.getD Json.null
  let implSchema := (getS imp "schema").toOption
  let exotic := (parsed.bind (·.range)).any fun b => (b.min.any exoticNum) || (b.max.any exoticNum)
  let agree := exotic || (!implPanic && implParsed == modelParsed && implSchema == some (String.ofList schema))
  -- specification: exactly the declared constraints
  let flat := decl.flatten
  let dEmail := flat.any fun i => match i with | .email _ => true | _ => false
  let dUrl := flat.any fun i => match i with | .url _ => true | _ => false
  let dLen := flat.filterMap fun i => match i with | .length b => some b | _ => none
  let dRange := flat.filterMap fun i => match i with | .range b => some b | _ => none
  -- several attributes each declaring the validator: every declared bound holds (later items win per key)
  let merge (bs : List DeclBound) : Option DeclBound :=
    if bs.isEmpty then none else
    some (bs.foldl (fun acc b => { min := b.min.orElse (fun _ => acc.min), max := b.max.orElse (fun _ => acc.max),
                                   message := b.message.orElse (fun _ => acc.message), msgLit := b.msgLit.orElse (fun _ => acc.msgLit) })
      { min := none, max := none, message := none, msgLit := none })
  let specLen : Json := match merge dLen with
    | some b => boundJson (b.min.bind fun x => (parseU64 x).map natToStr) (b.max.bind fun x => (parseU64 x).map natToStr) b.message
    | none => Json.null
  let specRange : Json := match merge dRange with
    | some b => boundJson (b.min.bind canonDec) (b.max.bind canonDec) b.message
    | none => Json.null
  let specParsed : Json := if decl.isEmpty then Json.null else
    obj [("length", specLen), ("range", specRange), ("email", jb dEmail), ("url", jb dUrl)]
  -- every JS literal in the schema must lex back to a declared message
  let argMsgs : List (List Char) := flat.filterMap fun i => match i with
    | .email true => some "not valid".toList | .url true => some "not valid".toList | _ => none
  let declMsgs := (dLen ++ dRange).filterMap (·.message) ++ argMsgs
  -- literals: every emitted literal is a declared message, and every declared message is emitted
  let litsOk (sch : Option String) : Bool := match sch with
    | none => false
    | some x =>
      let ls := lexLiterals x.toList
      (ls.all fun l => match l with | some v => v ∈ declMsgs | none => false) &&
      -- (a bound-less or inapplicable length/range has no call to carry its message; email/url always have one)
      (if t == L.TS.prim "string".toList || t == L.TS.optional (L.TS.prim "string".toList) then argMsgs.all fun mtxt => some mtxt ∈ ls else true)
  let orc : List (String × Bool) :=
    [("nopanic", !implPanic), ("constraints", exotic || implParsed == specParsed), ("literals", implPanic || litsOk implSchema),
     -- the rendered schema makes the calls the proved rendering makes (the constraints reach the schema, on this field)
     ("schema_calls", implPanic || exotic || (implSchema.map fun x => schemaCalls x.toList) == some (schemaCalls schema))]
  -- classes (stated on the declared input)
  let lits := (dLen ++ dRange).filterMap (·.msgLit)
  let kws := ["min", "max", "email", "url", "length", "range", "message"]
  let nums := (dLen ++ dRange).flatMap fun b => b.min.toList ++ b.max.toList
  let classes : List String :=
    (if lits.any (·.contains ')') then ["K11b_parenInMessage"] else []) ++
    (if nums.any (fun n => n.head? == some '-' || n.head? == some '+') then ["K11c_signedBound"] else []) ++
    (if lits.any (fun l => kws.any (fun k => hasSub k l)) then ["K11d_keywordInMessage"] else []) ++
    (if lits.any (fun l => hasSub "\\\\" l || hasSub "\\r" l || hasSub "\\0" l || hasSub "\\x" l || hasSub "\\u" l) then ["K11e_unescape"] else []) ++
    (if flat.any (fun i => match i with | .email true => true | .url true => true | _ => false) then ["K11f_emailUrlArgs"] else []) ++
    (if dLen.length > 1 || dRange.length > 1 then ["K11g_repeatedValidator"] else []) ++
    (if lits.any (·.contains ',') then ["K11h_commaInMessage"] else []) ++
    (if exotic then ["exoticNumber"] else []) ++
    (if flat.any (fun i => match i with | .other => true | _ => false) then ["otherValidator"] else [])
  pure <| obj [("model", obj [("parsed", modelParsed), ("schema", jstr schema)]), ("agree", jb agree),
    ("oracle_impl", obj (orc.map fun p => (p.1, jb p.2))),
    ("oracle_model", obj [("constraints", jb (modelParsed == specParsed)), ("literals", jb (litsOk (some (String.ofList schema))))]),
    ("spec", specParsed),
    ("nontrivial", jb (!flat.isEmpty)),
    ("class", jSs classes)]

end Drv
