import Driver.Project
import Typegen.ProjectSpec
import Typegen.Classes
import Typegen.TsSyntax
import Driver.Types
import Typegen.ShapeFile
/-! run-time oracles of the project-level properties, evaluated on the *real* generated files -/
open Lean
namespace Drv
open Pj An Sc Sp

def fileToks (files : Json) (n : String) : Option (List Tok) :=
  match files.getObjVal? n with
  | .ok (.str t) => some (tokens t.toList)
  | _ => none

def sortStrs (l : List Str) : List Str := O.sortNames l
def sameSet (a b : List Str) : Bool := sortStrs a.eraseDups == sortStrs b.eraseDups
def sameMulti (a b : List Str) : Bool := sortStrs a == sortStrs b
def nodupS (l : List Str) : Bool := l.eraseDups.length == l.length

def tsBuiltins : List Str :=
  ["string", "number", "boolean", "void", "null", "unknown", "undefined", "any", "never", "Record", "Channel", "Promise", "z", "typeof", "infer"].map String.toList

/-- identifiers in type position of the members of an `interface` statement (keys excluded) -/
def memberTypeIdents (stmt : List Tok) : List Str :=
  -- body = tokens between the first `{` and the last `}`
  let body := (stmt.dropWhile (· != .p '{')).drop 1
  let members := splitTop body 0 []
  members.flatMap fun m =>
    match m with
    | .p '[' :: _ => []                                   -- index signature
    | _ => idents ((m.dropWhile (· != .p ':')).drop 1)

def endsWithS (s suf : Str) : Bool := A.startsWith s.reverse suf.reverse

structure ProjOracles where
  results : List (String × Bool)
  classes : List String

def projectOracles (p : Project) (cfg : Gn.Config) (a : Analysis) (implFiles : Json) (generated : Json) (altTypes : Option Str := none) (verboseSame : Bool := true) : ProjOracles :=
  let specCmds := specCommands p
  let anyCommands := !(imp_commands_empty a)
  let types := fileToks implFiles "types.ts"
  let cmds := fileToks implFiles "commands.ts"
  let events := fileToks implFiles "events.ts"
  let index := fileToks implFiles "index.ts"
  let paramNames := a.commands.map fun c => Gn.typeName c ++ cl!"Params"
  -- C03: exactly one wrapper per command, invoking its Rust name
  let c03 : List (String × Bool) :=
    match cmds with
    | none => [("c03_wrappers", specCmds.isEmpty)]
    | some ts =>
      let fns := ((exportedNames ts).filter fun e => e.1 = cl!"function").map (·.2)
      let lits := callLiterals cl!"invoke" ts
      [("c03_wrappers", sameMulti fns (specCmds.map fun c => N.computeFunctionName c.2.name) &&
                         sameMulti lits (specCmds.map fun c => c.2.name) && functionHeadsOk ts && fns.all T.isTsIdentName)]
  -- C12: one listener per distinct event name
  let specEv := specEventNames p
  let writtenList : List String := match generated.getObjVal? "ok" with | .ok v => (asStrList v).toOption.getD [] | .error _ => []
  let c12 : List (String × Bool) :=
    if !anyCommands then [] else
    match events with
    | none => [("c12_listeners", specEv.isEmpty && !writtenList.contains "events.ts")]
    | some ts =>
      let fns := ((exportedNames ts).filter fun e => e.1 = cl!"function").map (·.2)
      let lits := callLiterals cl!"listen" ts
      -- payload type of every listener = translation of the payload's Rust type at the first emit site
      let expectedTy : List (Str × List Tok) := a.events.map fun e =>
        (e.name, tokens (V.addPrefix (V.visitTs cfg.mappings (Gn.tsOfStr e.payload))))
      let realTy := listenTypes ts
      let payloadOk := expectedTy.all fun (n, ty) => (realTy.find? (·.1 = n)).map (·.2) == some ty
      [("c12_listeners", !specEv.isEmpty && nodupS fns && sameMulti lits specEv && fns.all T.isTsIdentName && functionHeadsOk ts && !hasBad ts),
       ("c12_payload_types", payloadOk)]
  -- C07: declared = reachable ∩ serde-defined
  let expected := specReachable p
  let c07 : List (String × Bool) :=
    match types with
    | none => []
    | some ts =>
      let ex := exportedNames ts
      let declared := (ex.filter fun e => (e.1 = cl!"interface" || e.1 = cl!"type") && !paramNames.contains e.2 && e.2 ≠ cl!"CommandHooks").map (·.2)
      let enumConsts := if cfg.zod then (ex.filter fun e => e.1 = cl!"const" && endsWithS e.2 cl!"Schema" &&
          !(paramNames.contains (e.2.take (e.2.length - 6)))).map fun e => e.2.take (e.2.length - 6) else []
      [("c07_declared_exactly_reachable", sameSet (declared ++ enumConsts) expected && nodupS declared)]
  -- C09: in zod mode no schema constant is read before its definition (acyclic graphs)
  let c09 : List (String × Bool) :=
    if !cfg.zod then [] else
    match types with
    | none => []
    | some ts =>
      let stmts := statements ts
      let consts : List (Str × List Str) := stmts.filterMap fun st =>
        match st with
        | .id e :: .id k :: .id n :: rest =>
          if e = cl!"export" && k = cl!"const" then
            some (n, ((idents rest).filter fun i => endsWithS i cl!"Schema" && i ≠ n).eraseDups)
          else none
        | _ => none
      let names := consts.map (·.1)
      -- a schema may be read before its definition only by a schema it (transitively) reads itself: the two are then on a
      -- common cycle, where no order exists (the statement asks for the order "whenever the type dependency graph is
      -- acyclic"; on cyclic graphs the pairs off every cycle are still checked)
      let refsOf (n : Str) : List Str := ((consts.find? fun c => c.1 = n).map (·.2)).getD []
      let rec reach (fuel : Nat) (acc : List Str) : List Str :=
        match fuel with
        | 0 => acc
        | f + 1 =>
          let next := acc.foldl (fun a x => (refsOf x).foldl (fun a y => if a.contains y then a else a ++ [y]) a) acc
          if next.length = acc.length then acc else reach f next
      let ok := (consts.zipIdx).all fun (c, i) => c.2.all fun r =>
        (names.take i).contains r || (reach (consts.length + 1) [r]).contains c.1
      [("c09_defined_before_use", ok)]
  -- C02: closed modules, no duplicate exports, index re-exports exactly the written files
  let c02 : List (String × Bool) :=
    match types with
    | none => []
    | some ts =>
      let ex := exportedNames ts
      let exNames := ex.map (·.2)
      let refsOutside := ((cmds.map typesRefs).getD [] ++ (events.map typesRefs).getD []).eraseDups
      let outsideOk := refsOutside.all fun r => exNames.contains r
      let insideOk : Bool :=
        if cfg.zod then
          -- every `XSchema` mentioned is a defined constant
          -- every `XSchema` mentioned is a defined constant (or a declared type whose own name ends in `Schema`)
          let consts := (ex.filter fun e => e.1 = cl!"const").map (·.2)
          let tnames := (ex.filter fun e => e.1 = cl!"interface" || e.1 = cl!"type").map (·.2)
          ((idents ts).filter fun i => endsWithS i cl!"Schema").all fun i => consts.contains i || tnames.contains i
        else
          let typeNames := (ex.filter fun e => e.1 = cl!"interface" || e.1 = cl!"type").map (·.2)
          (statements ts).all fun st =>
            match st with
            | .id e :: .id k :: _ =>
              if e = cl!"export" && k = cl!"interface" then
                (memberTypeIdents st).all fun i => tsBuiltins.contains i || typeNames.contains i || cfg.mappings.any (fun m => m.2 = i)
              else true
            | _ => true
      let nodup := nodupS exNames &&
        (cmds.map fun t => nodupS ((exportedNames t).map (·.2))).getD true &&
        (events.map fun t => nodupS ((exportedNames t).map (·.2))).getD true
      let idx := match index with
        | some t => sameMulti (reexports t) ((writtenList.filter (· != "index.ts")).map fun f => (cl!"./" ++ (f.toList.take (f.length - 3))))
        | none => false
      [("c02_types_refs_resolve", outsideOk), ("c02_types_closed", insideOk), ("c02_no_duplicate_exports", nodup),
       ("c02_index_reexports_written", idx)]
  -- C04: the keys of every Params declaration / invoke object = the parameters Tauri fills
  let c04 : List (String × Bool) :=
    match types with
    | none => []
    | some _ =>
      let ok := specCmds.all fun (_, fn) =>
        let spec := specKeys fn
        match a.commands.find? (fun c => c.name = fn.name) with
        | none => false
        | some c => sameMulti (c.params.map (·.name) ++ c.channels.map (·.param)) (spec.map (·.1)) &&
            c.params.all fun prm => (spec.find? fun s => s.1 = prm.name).map (·.2) == some prm.isOptional
      [("c04_key_set", ok)]
  -- classes (stated on the input project)
  let selected := p.files.filter specSelected
  let fnsAll := selected.flatMap fun f => fnItems f.items
  let cmdFns := fnsAll.filter isTauriCommand
  let valueTys : List GTy := cmdFns.flatMap fun fn =>
    (fn.params.filterMap fun prm => if prm.patIdent.isSome && !specInjected prm.ty then some prm.ty else none)
  let chanTys : List GTy := valueTys.filterMap fun t => match t with
    | .path segs => (match (segList segs).getLast? with
        | some (id, _, .ty a _) => if id = cl!"Channel" then some a else none
        | _ => none)
    | _ => none
  let plainValueTys := valueTys.filter fun t => !specChannel t
  let retTys : List GTy := cmdFns.filterMap (·.ret)
  let fieldTys : List GTy := selected.flatMap fun f => f.items.flatMap fun it => match it with
    | .struct st => st.fields.map (·.ty) | _ => []
  let allTys := plainValueTys ++ chanTys ++ retTys ++ fieldTys
  let rtys := allTys.map toRTy
  let unsupported := rtys.any (·.isNone) || (plainValueTys ++ chanTys ++ retTys ++ fieldTys).any fun t =>
    match toRTy t with | some r => !T.wfB r | none => true
  let known := rtys.filterMap id
  let commaUnsafe := known.any fun r => !T.commaSafeB r || !T.harvestSafeB r
  let precUnsafe := known.any fun r => !T.precSafe (L.structOf r)
  let res1Named := known.any T.hasRes1Named
  let prefixUnsafe := (retTys.filterMap toRTy).any fun r => !prefixSafe cfg.mappings (L.structOf r)
  let evNames := a.events.map (·.name)
  let evPayloadOdd := a.events.any fun e => e.payload = cl!"unknown" || e.payload = cl!"tuple" ||
    !(e.payload ∈ L.primNames || (a.structs.any fun st => st.name = e.payload) || e.payload = cl!"()" )
  -- names: identifiers that are legal in Rust but not as TS bindings, clashes between generated names
  let fnNames := cmdFns.map fun fn => N.computeFunctionName fn.name
  let tyNames := a.structs.map (·.name)
  let genNames := (a.commands.map fun c => Gn.typeName c ++ cl!"Params") ++
    (if cfg.zod then (a.commands.map fun c => Gn.typeName c ++ cl!"ParamsSchema") ++ tyNames.map (· ++ cl!"Schema") else [])
  let serdeByToken := (specSerdeTypes p).map (·.1)
  let serdeBySubstring := selected.flatMap fun f => fileDefs f.items
  let tupleOrOddShapes := selected.any fun f => f.items.any fun it => match it with
    | .struct st => st.shape = .tuple && shouldInclude st.attrs
    | .enum e => e.variants.any (fun v => v.shape ≠ .unit) && shouldInclude e.attrs
    | _ => false
  let classes : List String :=
    (if rootUnclean p.absRoot then ["K03a_rootUnderTarget"] else []) ++
    (if !nodupS evNames then ["K12a_repeatedEvent"] else []) ++
    (if evNames.any (fun n => !(n.all fun c => c.isAlphanum || c = '-' || c = '_') || n.isEmpty || !(n.head?.any Char.isAlpha)) then ["K12b_eventNameChars"] else []) ++
    (if !nodupS (evNames.eraseDups.map N.eventFunctionName) then ["K12c_listenerNameClash"] else []) ++
    (if evPayloadOdd then ["K12def_payloadInference"] else []) ++
    (if unsupported then ["unsupportedType"] else []) ++
    (if commaUnsafe then ["K05_commaUnsafe"] else []) ++
    (if precUnsafe then ["K05a_precUnsafe"] else []) ++
    (if prefixUnsafe then ["K02a_prefixUnsafe"] else []) ++
    (if serdeByToken.any (fun n => !(L.isCustomName n)) then ["K07e_lowercaseTypeName"] else []) ++
    (if res1Named then ["K07d_resultAlias"] else []) ++
    (if !sameSet serdeByToken (serdeBySubstring.filter fun n => !tupleOrOddShapes || true) then ["K07c_deriveSubstring"] else []) ++
    (if tupleOrOddShapes then ["undocumentedItemShape"] else []) ++
    (if !nodupS (a.commands.map (·.name)) || !nodupS fnNames then ["duplicateCommandNames"] else []) ++
    (if !nodupS (tyNames ++ genNames) then ["K02e_nameClash"] else []) ++
    (if !nodupS ((selected.flatMap fun f => fileDefs f.items)) then ["duplicateTypeNames"] else []) ++
    (if fnNames.any (fun n => !T.isTsIdentName n) then ["K01a_reservedOrIllegalFnName"] else []) ++
    (if cfg.mappings.any (fun m => a.structs.any fun st => st.name = m.1) then ["K18a_mappedAndDefined"] else []) ++
    (if (known.flatMap T.hSpecFull).any (fun n => !(serdeByToken.contains n) && (V.lookup cfg.mappings n).isNone) then ["undefinedNamedType"] else []) ++
    (if cmdFns.any (fun fn => fn.params.any fun prm => match prm.ty with
        | .path segs => (match (segList segs), (segList segs).getLast? with
            | (f, _, _) :: _ :: _, some (id, k, _) => id = cl!"Channel" && k = .angle && f ≠ cl!"tauri"
            | _, _ => false)
        | _ => false) then ["K04d_foreignChannelPath"] else [])
  -- C01: every written file parses as a TypeScript module (recogniser `Sx.parsesAsModule`)
  let fileText (n : String) : Option Str := match implFiles.getObjVal? n with | .ok (.str t) => some t.toList | _ => none
  let c01 : List (String × Bool) :=
    ["types.ts", "commands.ts", "events.ts", "index.ts"].filterMap fun n =>
      (fileText n).map fun t => ("c01_parses_" ++ (n.dropEnd 3).toString, Sx.parsesAsModule t)
  -- C04 on the text: the parameter object declared for a command (`interface XParams` / `XParamsSchema` + its channel
  -- interface) has exactly one key per analysed parameter and channel, in the configured case
  let c04b : List (String × Bool) :=
    match fileText "types.ts" with
    | none => []
    | some t =>
      let d := ZF.declsOf t
      let ok := a.commands.all fun c =>
        let want := c.params.map (fun prm => Gn.paramKey cfg c prm.name prm.serdeRename) ++ c.channels.map (fun ch => Gn.paramKey cfg c ch.param none)
        if want.isEmpty then true else
        match d.objs.find? (·.1 = Gn.typeName c ++ cl!"Params") with
        | some (_, ms) => sameMulti (ms.map (·.1)) want
        | none => false
      [("c04_declared_keys", ok)]
  -- C06 at file level: every emitted declaration of a project type carries exactly the wire names of its fields / variants
  -- (one each, none merged or dropped on the way through the templates)
  let c06 : List (String × Bool) :=
    match fileText "types.ts" with
    | none => []
    | some t =>
      let d := ZF.declsOf t
      let ok := a.structs.all fun st =>
        let want := st.fields.map (Gn.fieldKey cfg st)
        if st.isEnum then
          match d.enums.find? (·.1 = st.name) with
          | some (_, lits) => sameMulti lits want
          | none => true
        else
          match d.objs.find? (·.1 = st.name) with
          | some (_, ms) => sameMulti (ms.map (·.1)) want
          | none => true
      [("c06_wire_names", ok)]
  -- keys: every emitted property key / parameter key must be an identifier (they are never quoted)
  let keys : List Str := (a.structs.flatMap fun st => if st.isEnum then [] else st.fields.map (Gn.fieldKey cfg st)) ++
    (a.commands.flatMap fun c => c.params.map (fun prm => Gn.paramKey cfg c prm.name prm.serdeRename) ++ c.channels.map (fun ch => Gn.paramKey cfg c ch.param none))
  let enumLits : List Str := a.structs.flatMap fun st => if st.isEnum then st.fields.map (Gn.fieldKey cfg st) else []
  let classes := classes ++
    (if keys.any (fun k => !T.isTsIdentName k && !(T.jsReserved.contains k && k.all T.isIdChar)) then ["K01c_nonIdentifierKey"] else []) ++
    (if enumLits.any (fun k => k.contains '"' || k.contains '\\') then ["K01e_quoteInLiteral"] else []) ++
    (if a.structs.any (fun st => st.isEnum && st.fields.isEmpty) then ["emptyEnum"] else [])
  -- C10: the plain-mode and the Zod-mode `types.ts` of the same analysis, item by item
  let c10 : List (String × Bool) :=
    match fileText "types.ts", altTypes with
    | some here, some alt =>
      let (tsT, zodT) := if cfg.zod then (alt, here) else (here, alt)
      let c := ZF.compare tsT zodT
      [("c10_names", c.names), ("c10_keys", c.keys), ("c10_shapes", c.shapes), ("c10_shapes_mod_known", c.shapesModKnown), ("c10_enum_literals", c.enums)]
    | _, _ => []
  let structTs : List L.TS := (a.structs.flatMap fun st => st.fields.map fun f => Gn.tsOfStr f.rustType) ++
    (a.commands.flatMap fun c => c.params.map fun prm => Gn.tsOfStr prm.rustType)
  let classes := classes ++
    (if structTs.any hasSet then ["K10a_set"] else []) ++
    (if structTs.any hasResult then ["K10b_resultUnion"] else [])
  -- C18 at file level: a mapped Rust name is neither referenced nor declared anywhere (nor its schema constant)
  let c18 : List (String × Bool) :=
    if cfg.mappings.isEmpty then [] else
    let allIds : List Str := (["types.ts", "commands.ts", "events.ts"].flatMap fun n =>
      match fileToks implFiles n with | some ts => idents ts | none => [])
    let mapped := cfg.mappings.filter fun m => m.1 ≠ m.2 && T.isTsIdentName m.1 && !(cfg.mappings.any fun m2 => m2.2 = m.1)
    [("c18_mapped_name_absent", mapped.all fun m => !allIds.contains m.1 && !allIds.contains (m.1 ++ cl!"Schema"))]
  -- the analysis with verbose output switched on finds the same commands, types and events
  let c07v : List (String × Bool) := [("c07_verbose_same_analysis", verboseSame)]
  { results := c03 ++ c12 ++ c07 ++ c07v ++ c09 ++ c02 ++ c04 ++ c04b ++ c06 ++ c01 ++ c10 ++ c18, classes := classes }
where
  imp_commands_empty (a : Analysis) : Bool := a.commands.isEmpty

def opProject (inp imp : Json) : Except String Json := do
  let p ← projectOf (← inp.getObjVal? "project")
  let cfg := cfgOf ((inp.getObjVal? "config").toOption.getD Json.null)
  let a := analyze p
  let mj := analysisJson a
  let diffA := ["commands", "events", "structs", "deps"].filter fun k =>
    (imp.getObjVal? k).toOption != (mj.getObjVal? k).toOption
  -- generation
  let out := Gn.generate cfg a
  let noCommands := a.commands.isEmpty
  let modelFiles : List (String × Str) :=
    if noCommands then [] else
    [("types.ts", Gn.fileText out.types), ("commands.ts", Gn.fileText out.commands)] ++
    (match out.events with | some e => [("events.ts", Gn.fileText e)] | none => []) ++
    [("index.ts", Gn.fileText out.index)]
  let implFiles := (imp.getObjVal? "files").toOption.getD (Json.mkObj [])
  let implNames : List String := match implFiles with | .obj kvs => kvs.toList.map (·.1) | _ => []
  let diffF := (modelFiles.filter fun (n, t) =>
      match implFiles.getObjVal? n with
      | .ok (.str it) => squash (dropHeader it.toList) != squash t
      | _ => true).map (·.1) ++
    (implNames.filter fun n => !(modelFiles.any fun m => m.1 == n))
  let agree := diffA.isEmpty && diffF.isEmpty
  let generated := (imp.getObjVal? "generated").toOption.getD Json.null
  let implAlt : Option Str := match imp.getObjVal? "alt_types" with | .ok (.str t) => some t.toList | _ => none
  let verboseSame := getBoolD imp "verbose_same" true
  let orc := projectOracles p cfg a implFiles generated implAlt verboseSame
  let modelFilesJ := Json.mkObj (modelFiles.map fun (n, t) => (n, jstr t))
  let outAlt := Gn.generate { cfg with zod := !cfg.zod } a
  let modelAlt : Option Str := if noCommands then none else some (Gn.fileText outAlt.types)
  let altAgree := match implAlt, modelAlt with
    | some x, some y => squash (dropHeader x) == squash y
    | none, none => true
    | _, _ => false
  let agree := agree && altAgree
  let diffF := diffF ++ (if altAgree then [] else ["alt_types"])
  let orcM := projectOracles p cfg a modelFilesJ (obj [("ok", jSs (modelFiles.map (·.1)))]) modelAlt
  pure <| obj [("model", obj [("analysis", mj), ("files", Json.mkObj (modelFiles.map fun (n, t) => (n, jstr t)))]),
    ("agree", jb agree), ("diff", jSs (diffA ++ diffF)),
    ("oracle_impl", obj (orc.results.map fun r => (r.1, jb r.2))),
    ("oracle_model", obj (orcM.results.map fun r => (r.1, jb r.2))),
    ("nontrivial", jb (!noCommands)), ("class", jSs orc.classes)]


end Drv
