import Driver.Util
/-! op `robustSrc` (C15): raw texts through the real analyser and generators.  The Lean side has no Rust parser:
    the expected outcome is fixed by the theorems of `Typegen.Theorems.C15` (the model is total; files that do not
    parse do not influence the result), the driver only evaluates the oracles on the observation. -/
open Lean
namespace Drv

def opRobust (_inp imp : Json) : Except String Json := do
  let nopanic := (imp.getObjVal? "panic").toOption.isNone
  let isolated := match imp.getObjVal? "isolated" with | .ok (.bool false) => false | _ => true
  let res (m : String) : Bool := match getS imp (m ++ "_result") with | .ok "ok" => true | .ok "err" => true | _ => false
  let okOrErr := !nopanic || (res "none" && res "zod")
  let nBad := (getNat imp "n_unparsable").toOption.getD 0
  let nFiles := (getNat imp "n_files").toOption.getD 0
  pure <| obj [("model", obj [("panic", jb false), ("isolated", jb true)]), ("agree", jb true),
    ("oracle_impl", obj [("nopanic", jb nopanic), ("isolated", jb isolated), ("result_ok_or_err", jb okOrErr)]),
    ("oracle_model", obj []),
    ("nontrivial", jb (nFiles ≥ 2)),
    ("class", jSs ((if nBad > 0 then ["hasUnparsableFile"] else []) ))]

end Drv
