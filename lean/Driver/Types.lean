import Driver.Util
import Typegen.Classes
import Typegen.Attr
import Typegen.Zod
/-! ops on type expressions: `typeStr`, `parseTS`, `site`, `prefix` (C05, C18, C01, C02) -/
open Lean
namespace Drv
open L V T

partial def rtyOfJson (j : Json) : Except String RTy := do
  let k ← getS j "k"
  let sub (key : String) : Except String RTy := do rtyOfJson (← j.getObjVal? key)
  match k with
  | "prim" => pure (.prim (← getL j "n"))
  | "unit" => pure .unit
  | "named" => pure (.named (← getL j "n"))
  | "opt" => pure (.opt (← sub "t"))
  | "vec" => pure (.vec (← sub "t"))
  | "hset" => pure (.hset (← sub "t"))
  | "bset" => pure (.bset (← sub "t"))
  | "res1" => pure (.res1 (← sub "t"))
  | "ref" => pure (.ref (← sub "t"))
  | "hmap" => pure (.hmap (← sub "a") (← sub "b"))
  | "bmap" => pure (.bmap (← sub "a") (← sub "b"))
  | "res2" => pure (.res2 (← sub "a") (← sub "b"))
  | "tup" =>
    let ts ← (← getArr j "ts").mapM rtyOfJson
    match ts with
    | [] => pure .unit
    | t :: rest => pure (.tup t (rest.foldr (fun x acc => .cons x acc) .nil))
  | _ => throw s!"bad rty kind {k}"

def TSList.toL : TSList → List TS
  | .nil => []
  | .cons t ts => t :: TSList.toL ts

/-- serde's externally tagged, camelCase encoding of `TypeStructure` -/
partial def tsToJson : TS → Json
  | .prim p => obj [("primitive", jstr p)]
  | .array t => obj [("array", tsToJson t)]
  | .map k v => obj [("map", obj [("key", tsToJson k), ("value", tsToJson v)])]
  | .set t => obj [("set", tsToJson t)]
  | .tuple ts => obj [("tuple", Json.arr ((TSList.toL ts).map tsToJson).toArray)]
  | .optional t => obj [("optional", tsToJson t)]
  | .result t => obj [("result", tsToJson t)]
  | .custom n => obj [("custom", jstr n)]

partial def tsOfJson (j : Json) : Except String TS := do
  match j.getObjVal? "primitive" with
  | .ok v => return .prim (← v.getStr?).toList
  | .error _ => pure ()
  match j.getObjVal? "custom" with
  | .ok v => return .custom (← v.getStr?).toList
  | .error _ => pure ()
  match j.getObjVal? "array" with
  | .ok v => return .array (← tsOfJson v)
  | .error _ => pure ()
  match j.getObjVal? "set" with
  | .ok v => return .set (← tsOfJson v)
  | .error _ => pure ()
  match j.getObjVal? "optional" with
  | .ok v => return .optional (← tsOfJson v)
  | .error _ => pure ()
  match j.getObjVal? "result" with
  | .ok v => return .result (← tsOfJson v)
  | .error _ => pure ()
  match j.getObjVal? "map" with
  | .ok v => return .map (← tsOfJson (← v.getObjVal? "key")) (← tsOfJson (← v.getObjVal? "value"))
  | .error _ => pure ()
  match j.getObjVal? "tuple" with
  | .ok v =>
    let l ← (← v.getArr?).toList.mapM tsOfJson
    return .tuple (TSList.ofList l)
  | .error _ => throw "bad TypeStructure json"

def mappingsOf (inp : Json) : Mappings :=
  match inp.getObjVal? "mappings" with
  | .ok (Json.obj kvs) => kvs.toList.filterMap fun (k, v) =>
      match v.getStr? with | .ok s => some (k.toList, s.toList) | .error _ => none
  | _ => []

partial def tsTyToJson : TsTy → Json
  | .name n => jstr n
  | .arr t => obj [("arr", tsTyToJson t)]
  | .union ts => obj [("union", Json.arr (ts.toList.map tsTyToJson).toArray)]
  | .tuple ts => obj [("tuple", Json.arr (ts.toList.map tsTyToJson).toArray)]
  | .app f a => obj [("app", jstr f), ("args", Json.arr (a.toList.map tsTyToJson).toArray)]

def parseFuel (s : Str) : Nat := s.length + 2

def opTypeStr (inp imp : Json) : Except String Json := do
  let r ← rtyOfJson (← inp.getObjVal? "rty")
  let m := String.ofList (str r)
  let ok := (getS imp "cmd").toOption == some m && (getS imp "strct").toOption == some m
    && (getS imp "chan").toOption == some m
  pure <| obj [("model", obj [("cmd", jS m), ("strct", jS m), ("chan", jS m)]), ("agree", jb ok),
    ("oracle_impl", obj []), ("oracle_model", obj []), ("nontrivial", jb (size r ≥ 2)),
    ("class", Json.arr #[])]

def opParseTS (inp imp : Json) : Except String Json := do
  let s ← getL inp "s"
  let t := parseTS (parseFuel s) s
  let mj := tsToJson t
  let ij := (imp.getObjVal? "ts").toOption.getD Json.null
  pure <| obj [("model", obj [("ts", mj)]), ("agree", jb (ij == mj)),
    ("oracle_impl", obj []), ("oracle_model", obj []), ("nontrivial", jb (s.contains '<' || s.contains '(')),
    ("class", Json.arr #[])]

/-- `PrefixSafe`: the shapes on which `add_types_prefix ∘ visitTs` equals qualification (DESIGN §6a) -/
def arrChainToCustom (m : Mappings) : TS → Bool
  | .custom n => (lookup m n).isNone
  | .array t | .set t => arrChainToCustom m t
  | _ => false
mutual
def noUnmappedCustom (m : Mappings) : TS → Bool
  | .prim _ => true
  | .custom n => (lookup m n).isSome
  | .array t | .set t | .optional t | .result t => noUnmappedCustom m t
  | .map k v => noUnmappedCustom m k && noUnmappedCustom m v
  | .tuple ts => noUnmappedCustomL m ts
def noUnmappedCustomL (m : Mappings) : TSList → Bool
  | .nil => true
  | .cons t ts => noUnmappedCustom m t && noUnmappedCustomL m ts
end
def prefixSafe (m : Mappings) : TS → Bool
  | .prim _ | .custom _ => true
  | .optional t | .result t => prefixSafe m t
  | .map k v => noUnmappedCustom m k && noUnmappedCustom m v
  | .tuple ts => noUnmappedCustomL m ts
  | .array t | .set t =>
    match t with
    | .prim _ | .custom _ => true
    | _ => arrChainToCustom m t

/-- the rendering of the model at one translation site -/
def renderAt (site mode : String) (m : Mappings) (t : TS) : Str :=
  match site, mode with
  | "param", "zod" => buildParamSchema m t
  | "field", "zod" => buildSchema m t none
  | "param", _ => visitTs m t
  | "field", _ => visitTs m t
  | "chan", _ => visitTs m t
  | _, _ => addPrefix (visitTs m t)          -- ret, event

mutual
/-- mapped custom names replaced by the primitive they are mapped to -/
def substPrim (m : Mappings) : TS → TS
  | .prim p => .prim p
  | .array t => .array (substPrim m t)
  | .map k v => .map (substPrim m k) (substPrim m v)
  | .set t => .set (substPrim m t)
  | .tuple ts => .tuple (substPrimL m ts)
  | .optional t => .optional (substPrim m t)
  | .result t => .result (substPrim m t)
  | .custom n => match lookup m n with | some tgt => .prim tgt | none => .custom n
def substPrimL (m : Mappings) : TSList → TSList
  | .nil => .nil
  | .cons t ts => .cons (substPrim m t) (substPrimL m ts)
end
mutual
def mentionsMapped (m : Mappings) : TS → Bool
  | .prim _ => false
  | .array t | .set t | .optional t | .result t => mentionsMapped m t
  | .map k v => mentionsMapped m k || mentionsMapped m v
  | .tuple ts => mentionsMappedL m ts
  | .custom n => (lookup m n).isSome
def mentionsMappedL (m : Mappings) : TSList → Bool
  | .nil => false
  | .cons t ts => mentionsMapped m t || mentionsMappedL m ts
end

/-- remove every `.coerce` (a mapped `number` is `z.number()`, a Rust number `z.coerce.number()`) -/
def decoerce (s : Str) : Str :=
  match s with
  | [] => []
  | c :: cs =>
    if L.startsWith (c :: cs) ".coerce".toList then decoerce (cs.drop 6) else c :: decoerce cs
termination_by s.length
decreasing_by all_goals simp_wf <;> omega

def opSite (inp imp : Json) : Except String Json := do
  let r ← rtyOfJson (← inp.getObjVal? "rty")
  let site ← getS inp "site"
  let mode ← getS inp "mode"
  let m := mappingsOf inp
  let s := str r
  let t := parseTS (parseFuel s) s
  let rendered := renderAt site mode m t
  let implStr := (getS imp "str").toOption
  let implTs := (imp.getObjVal? "ts").toOption.getD Json.null
  let implR := (getS imp "rendered").toOption
  let agree := implStr == some (String.ofList s) && implTs == tsToJson t && implR == some (String.ofList rendered)
  -- the oracle: the emitted text parses to the denotation of the Rust type (modulo union normal form)
  let qual := site == "ret" || site == "event"
  let expected := let d := denote m r; norm (if qual then qualify d else d)
  let isTsText := !(mode == "zod" && (site == "param" || site == "field"))
  let orc (txt : Option String) : List (String × Bool) :=
    if !isTsText then [] else
    match txt with
    | none => [("nopanic", false)]
    | some x => [("denotes", (parseTsTy x.toList).map norm == some expected)]
  -- C18: the mapped rendering is the unmapped rendering of the substituted type, the mapped name never
  -- appears, and a type that mentions no mapped name renders exactly as without the table
  let mapOr : List (String × Bool) :=
    if m.isEmpty then [] else
    let tS := structOf r
    let substituted := renderAt site mode [] (substPrim m tS)
    let implNomap := (getS imp "rendered_nomap").toOption
    let mappedNames := m.map (·.1)
    (match implR with
     | some x =>
       [("mapping_is_substitution", decoerce x.toList == decoerce substituted || !commaSafeB r || !precSafe tS ||
            (qual && !prefixSafe m tS)),
        ("mapped_name_absent", mappedNames.all fun n => !(A.containsSub n x.toList) || (lookup m n == some n))]
     | none => []) ++
    (if !mentionsMapped m t then [("unmapped_identical", implR == implNomap)] else [])
  let classes : List String :=
    (if !wfB r then ["unsupported"] else []) ++
    (if !commaSafeB r then ["K05_commaUnsafe"] else []) ++
    (if !precSafe (structOf r) then ["K05a_precUnsafe"] else []) ++
    (if qual && !prefixSafe m (structOf r) then ["K02a_prefixUnsafe"] else [])
  pure <| obj [("model", obj [("str", jstr s), ("ts", tsToJson t), ("rendered", jstr rendered)]),
    ("agree", jb agree),
    ("oracle_impl", obj ((orc implR ++ mapOr).map fun p => (p.1, jb p.2))),
    ("oracle_model", obj ((orc (some (String.ofList rendered))).map fun p => (p.1, jb p.2))),
    ("expected", tsTyToJson expected),
    ("nontrivial", jb (size r ≥ 2)),
    ("class", jSs classes)]

def opPrefix (inp imp : Json) : Except String Json := do
  let s ← getL inp "s"
  let mo := addPrefix s
  pure <| obj [("model", obj [("out", jstr mo)]), ("agree", jb ((getS imp "out").toOption == some (String.ofList mo))),
    ("oracle_impl", obj []), ("oracle_model", obj []), ("nontrivial", jb (s.length ≥ 3)), ("class", Json.arr #[])]

mutual
def hasSet : TS → Bool
  | .set _ => true
  | .prim _ | .custom _ => false
  | .array t | .optional t | .result t => hasSet t
  | .map k v => hasSet k || hasSet v
  | .tuple ts => hasSetL ts
def hasSetL : TSList → Bool
  | .nil => false
  | .cons t ts => hasSet t || hasSetL ts
end
mutual
def hasResult : TS → Bool
  | .result _ => true
  | .prim _ | .custom _ => false
  | .array t | .optional t | .set t => hasResult t
  | .map k v => hasResult k || hasResult v
  | .tuple ts => hasResultL ts
def hasResultL : TSList → Bool
  | .nil => false
  | .cons t ts => hasResult t || hasResultL ts
end

def shapeTsText (s : Str) : Option Z.Shape := (parseTsTy s).map Z.shapeOfTs
def shapeZodText (s : Str) : Option Z.Shape := (Z.parseZod s).map Z.shapeOfZ

/-- op `shape` (C10): the two renderings of one type at the parameter and field sites -/
def opShape (inp imp : Json) : Except String Json := do
  let r ← rtyOfJson (← inp.getObjVal? "rty")
  let m := mappingsOf inp
  let s := str r
  let t := parseTS (parseFuel s) s
  let model : List (String × Str) :=
    [("ts_param", visitTs m t), ("zod_param", buildParamSchema m t), ("ts_field", visitTs m t),
     ("zod_field", buildSchema m t none), ("zod_iface", visitTs m t)]
  let get (k : String) : Option Str := (getS imp k).toOption.map String.toList
  let agree := (model.all fun (k, v) => get k == some v) && (imp.getObjVal? "ts").toOption == some (tsToJson t)
  let orc (g : String → Option Str) : List (String × Bool) :=
    let sh (k : String) (f : Str → Option Z.Shape) : Option Z.Shape := (g k).bind f
    let tsP := sh "ts_param" shapeTsText
    let tsF := sh "ts_field" shapeTsText
    let zP := sh "zod_param" shapeZodText
    let zF := sh "zod_field" shapeZodText
    let zI := sh "zod_iface" shapeTsText
    [("c10_param_shape", tsP.isSome && tsP == zP), ("c10_field_shape", tsF.isSome && tsF == zF),
     ("c10_iface_shape", tsF.isSome && tsF == zI),
     ("c10_shape_mod_known", tsF.isSome && tsF == zF.map Z.normKnown && tsP == zP.map Z.normKnown)] ++
    -- the link between the texts and the shapes the theorems speak about (no mapping table)
    (if m.isEmpty then
      [("text_is_tsShape", tsF == some (Z.tsShape t)), ("text_is_zodShape", zF == some (Z.zodShape t) && zP == some (Z.zodShape t))]
     else [])
  let tS := structOf r
  let classes : List String :=
    (if !wfB r then ["unsupported"] else []) ++
    (if !commaSafeB r then ["K05_commaUnsafe"] else []) ++
    (if !precSafe t then ["K05a_precUnsafe"] else []) ++
    (if hasSet t then ["K10a_set"] else []) ++
    (if hasResult t then ["K10b_resultUnion"] else []) ++
    (if !Z.namesOk tS && m.isEmpty then ["namesNotOk"] else [])
  pure <| obj [("model", obj (model.map fun (k, v) => (k, jstr v))), ("agree", jb agree),
    ("oracle_impl", obj ((orc get).map fun p => (p.1, jb p.2))),
    ("oracle_model", obj ((orc fun k => (model.find? (·.1 == k)).map (·.2)).map fun p => (p.1, jb p.2))),
    ("nontrivial", jb (size r ≥ 2)),
    ("class", jSs classes)]

end Drv
