import Driver.Util
import Typegen.Topo
import Typegen.Kahn
import Typegen.Order
/-! ops `topo`, `kahn` (C20, C09) -/
open Lean
namespace Drv

def lookupDeps (tbl : List (String × List String)) (n : String) : List String :=
  match tbl.find? (·.1 == n) with
  | some p => p.2
  | none => []

/-- executable reachability (bounded BFS closure) used only by the run-time oracle -/
def closure (deps : String → List String) : Nat → List String → List String
  | 0, acc => acc
  | f+1, acc =>
    let next := acc.foldl (fun a x => (deps x).foldl (fun a y => if y ∈ a then a else a ++ [y]) a) acc
    if next.length = acc.length then acc else closure deps f next

def reachesB (deps : String → List String) (bound : Nat) (a b : String) : Bool :=
  b ∈ closure deps bound [a]

/-- the C20 oracle on an output list: nodup, exactly the reachable set, edge order up to common cycles -/
def topoOracle (deps : String → List String) (types out : List String) (bound : Nat) : List (String × Bool) :=
  let reach := closure deps bound types
  let nodup := out.eraseDups.length == out.length
  let setOk := out.all (· ∈ reach) && reach.all (· ∈ out)
  let orderOk := out.all fun u => (deps u).all fun v =>
    reachesB deps bound v u || (decide (out.idxOf v < out.idxOf u))
  [("nodup", nodup), ("set", setOk), ("order", orderOk)]

def opTopo (inp imp : Json) : Except String Json := do
  let types ← getStrList inp "types"
  let depsJ ← getArr inp "deps"
  let tbl ← depsJ.mapM fun e => do
    let a ← e.getArr?
    let k ← (a[0]!).getStr?
    let v ← asStrList (a[1]!)
    pure (k, v)
  -- since fix dcbafc3 the routine visits the requested names and every dependency set in *sorted* order;
  -- the observed hash orders (`types`, `deps` as sent) no longer matter, which is exactly what is checked here
  let sortS (l : List String) : List String := (O.sortNames (l.map String.toList)).map String.ofList
  let deps := fun n => sortS (lookupDeps tbl n)
  let types := sortS types
  let univ := (tbl.map (·.1) ++ tbl.flatMap (·.2) ++ types).eraseDups
  let fuel := univ.length + 1
  let st := D.topoSort deps fuel types
  let model := st.sorted
  let implSorted := match getStrList imp "sorted" with
    | .ok l => some l
    | .error _ => none
  let bound := univ.length + 1
  -- the harness compares the dependency table the object holds with the one it was told to hold
  let recorded := !(imp.getObjVal? "table_mismatch").toOption.isSome
  let orM := topoOracle deps types model bound
  let orI := match implSorted with
    | some l => topoOracle deps types l bound
    | none => [("nopanic", false)]
  pure <| obj [
    ("model", obj [("sorted", jSs model)]),
    ("agree", jb (implSorted == some model && !st.exhausted && recorded)),
    ("oracle_impl", obj ((orI ++ [("recorded", recorded)]).map fun p => (p.1, jb p.2))),
    ("oracle_model", obj (orM.map fun p => (p.1, jb p.2))),
    ("nontrivial", jb (tbl.any (fun p => p.2.length ≥ 1) && univ.length ≥ 2))]

def acyclicB (nodes : List String) (edges : List (String × String)) : Bool :=
  let deps := fun n => (edges.filter (·.1 == n)).map (·.2)
  nodes.all fun a => (deps a).all fun b => !(reachesB deps (nodes.length + 1) b a)

def kahnOracle (nodes : List String) (edges : List (String × String)) (l : List String) : Bool :=
  l.eraseDups.length == l.length && l.all (· ∈ nodes) && nodes.all (· ∈ l) &&
  edges.all fun e => decide (l.idxOf e.2 < l.idxOf e.1)

def opKahn (inp imp : Json) : Except String Json := do
  let nodes ← getStrList inp "nodes"
  let edgesJ ← getArr inp "edges"
  let edges ← edgesJ.mapM fun e => do
    -- [from, to] or [from, to, edge kind]: the kind does not influence the order
    let arr ← e.getArr?
    let f ← (arr[0]!).getStr?
    let t ← (arr[1]!).getStr?
    pure (f, t)
  let m := K.kahn nodes edges
  let implOk := match getStrList imp "ok" with
    | .ok l => some l
    | .error _ => none
  let implErr := (imp.getObjVal? "err").toOption.isSome
  let acyc := acyclicB nodes edges
  -- agreement is on the observation the theorem speaks about: ok/err (internal hash order is not observable)
  let agree := (m.isSome == implOk.isSome) && (implOk.isSome || implErr)
  let orI := match implOk with
    | some l => acyc && kahnOracle nodes edges l
    | none => implErr && !acyc
  let orM := match m with
    | some l => acyc && kahnOracle nodes edges l
    | none => !acyc
  pure <| obj [
    ("model", match m with | some l => obj [("ok", jSs l)] | none => obj [("err", jS "cycle")]),
    ("agree", jb agree),
    ("oracle_impl", obj [("kahn", jb orI)]),
    ("oracle_model", obj [("kahn", jb orM)]),
    ("nontrivial", jb (edges.length ≥ 1))]

end Drv
