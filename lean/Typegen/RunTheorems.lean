import Typegen.RunLemmas
/-! The run-level theorems shared by C08, C14 and C17. -/
namespace R

variable {Src Cfg Key Content : Type} [DecidableEq Key]

theorem executed_eq_take (ops : List (Op Key Content)) (fault : Option Nat) :
    ∃ k, executed ops fault = ops.take k := by
  cases fault with
  | none => exact ⟨ops.length, by simp [executed]⟩
  | some i => exact ⟨i, rfl⟩

/-- every run — forced or not, faulty or not — preserves `Inv` (given key soundness) -/
theorem run_inv (S : Sys Src Cfg Key Content) (src : Src) (cfg : Cfg) (o : Out Key Content)
    (forced : Bool) (fault : Option Nat)
    (keySound : ∀ s c s' c', S.key s c = S.key s' c' → S.gen s c = S.gen s' c')
    (hd : NamesDistinct (S.gen src cfg)) (hI : Inv S o) :
    Inv S (run S src cfg forced fault o).2.2 := by
  unfold run
  split
  · exact hI
  · split
    · exact hI
    · obtain ⟨k, hk⟩ := executed_eq_take (plan S src cfg) fault
      have := inv_prefix S src cfg o keySound hd hI k
      unfold crashed at this
      cases fault with
      | none => simp only; rw [hk]; exact this
      | some i => simp only; split <;> (rw [hk]; exact this)

/-- **C08**: whenever a run reports success on non-empty sources, every file a forced generation would
    write is present with exactly that content -/
theorem run_ok_current (S : Sys Src Cfg Key Content) (src : Src) (cfg : Cfg) (o : Out Key Content)
    (forced : Bool) (fault : Option Nat)
    (hI : Inv S o) (hd : NamesDistinct (S.gen src cfg)) (hne : S.empty src = false)
    (hok : (run S src cfg forced fault o).1 = .ok) :
    Current (run S src cfg forced fault o).2.2 (S.gen src cfg) := by
  unfold run at hok ⊢
  simp only [hne, Bool.false_eq_true, if_false] at hok ⊢
  split
  · next hup =>
    simp only [upToDate, Bool.and_eq_true, beq_iff_eq] at hup
    intro p hp
    rcases hI src cfg hup.1.2 p hp with h | h
    · exact h
    · have := List.all_eq_true.mp hup.2 p hp
      rw [h] at this; simp at this
  · next hup =>
    rw [if_neg hup] at hok
    cases fault with
    | none => exact (plan_full S src cfg o hd).1
    | some i =>
      simp only at hok ⊢
      split
      · next hlt => rw [if_pos hlt] at hok; cases hok
      · next hge =>
        -- only the cache record (or nothing) failed: all binding files were written
        have hlen := plan_length S src cfg
        simp only [executed]
        have hi : (S.gen src cfg).length + 1 ≤ i := by omega
        intro p hp
        rw [plan_eq]
        obtain ⟨j, rfl⟩ : ∃ j, i = j + 1 := ⟨i - 1, by omega⟩
        rw [List.take_succ_cons, applyOps_cons]
        have hj : (writes (S.gen src cfg) : List (Op Key Content)).length ≤ j := by simp [writes]; omega
        by_cases hjj : j ≤ (writes (S.gen src cfg) : List (Op Key Content)).length
        · have : j = (writes (S.gen src cfg) : List (Op Key Content)).length := by omega
          rw [List.take_append_of_le_length hjj, this, List.take_length]
          have := writes_all (applyOp o Op.removeCache) (S.gen src cfg) hd p hp
          exact this
        · rw [List.take_of_length_le (by simp [writes] at hj hjj ⊢; omega), applyOps_append]
          have := writes_all (applyOp o Op.removeCache) (S.gen src cfg) hd p hp
          simpa [applyOps, applyOp] using this

/-- **C14 (idempotence)**: after a complete successful run, a second non-forced run with unchanged sources
    and configuration performs no operation at all -/
theorem run_idem (S : Sys Src Cfg Key Content) (src : Src) (cfg : Cfg) (o : Out Key Content) (forced : Bool)
    (hd : NamesDistinct (S.gen src cfg)) :
    let o1 := (run S src cfg forced none o).2.2
    (run S src cfg false none o1).2.1 ≠ .generated ∧ (run S src cfg false none o1).2.2 = o1 := by
  intro o1
  by_cases he : S.empty src = true
  · simp [o1, run, he]
  · have he' : S.empty src = false := by simpa using he
    have hcur : Current o1 (S.gen src cfg) ∧ o1.cache = some (S.key src cfg) ∨ o1 = o ∧ upToDate S src cfg forced o = true := by
      by_cases hup : upToDate S src cfg forced o = true
      · right; simp [o1, run, he', hup]
      · left
        have : o1 = applyOps o (plan S src cfg) := by simp [o1, run, he', hup, executed]
        rw [this]; exact plan_full S src cfg o hd
    have hup1 : upToDate S src cfg false o1 = true := by
      rcases hcur with ⟨hc, hk⟩ | ⟨ho, hup⟩
      · simp only [upToDate, hk, Bool.not_false, Bool.true_and, beq_self_eq_true, allExist, List.all_eq_true]
        intro p hp; rw [hc p hp]; rfl
      · rw [ho]
        simp only [upToDate, Bool.and_eq_true] at hup ⊢
        exact ⟨⟨rfl, hup.1.2⟩, hup.2⟩
    simp [run, he', hup1]

/-- **C14 (force)**: a forced run on non-empty sources never takes the cache shortcut: it executes the plan -/
theorem run_forced (S : Sys Src Cfg Key Content) (src : Src) (cfg : Cfg) (o : Out Key Content)
    (hne : S.empty src = false) :
    (run S src cfg true none o).2.1 = .generated ∧
    (run S src cfg true none o).2.2 = applyOps o (plan S src cfg) := by
  simp [run, hne, upToDate, executed]

/-- **C17 (failure is reported, nothing is remembered)**: a fault at the invalidation or at any binding
    file yields `err`, and if anything was executed there is no cache record -/
theorem run_fault (S : Sys Src Cfg Key Content) (src : Src) (cfg : Cfg) (o : Out Key Content) (forced : Bool)
    (i : Nat) (hne : S.empty src = false) (hup : upToDate S src cfg forced o = false)
    (hi : i ≤ (S.gen src cfg).length) :
    (run S src cfg forced (some i) o).1 = .err ∧
    (1 ≤ i → (run S src cfg forced (some i) o).2.2.cache = none) ∧
    (i = 0 → (run S src cfg forced (some i) o).2.2 = o) := by
  have hlen := plan_length S src cfg
  have hlt : i < (plan S src cfg).length - 1 := by omega
  simp only [run, hne, hup, Bool.false_eq_true, if_false, hlt, if_true, executed]
  refine ⟨trivial, ?_, ?_⟩
  · intro h1; exact plan_prefix_cache S src cfg o i h1 (by omega)
  · intro h0; subst h0; simp [applyOps]

/-! ### histories -/

inductive Step (Src Cfg : Type) where
  | setSrc (s : Src)                       -- any edit of the sources
  | setCfg (c : Cfg)                       -- any edit of the configuration
  | delete (n : Name)                      -- an external actor deletes a file of the output directory
  | dropCache                              -- .typecache removed / corrupted / from another version
  | run (forced : Bool) (fault : Option Nat)
  | crash (k : Nat)                        -- a regenerating run killed after k operations

structure World (Src Cfg Key Content : Type) where
  src : Src
  cfg : Cfg
  out : Out Key Content

def step (S : Sys Src Cfg Key Content) (w : World Src Cfg Key Content) : Step Src Cfg → World Src Cfg Key Content
  | .setSrc s => { w with src := s }
  | .setCfg c => { w with cfg := c }
  | .delete n => { w with out := applyOp w.out (.remove n) }
  | .dropCache => { w with out := applyOp w.out .removeCache }
  | .run forced fault => { w with out := (run S w.src w.cfg forced fault w.out).2.2 }
  | .crash k =>
    if S.empty w.src || upToDate S w.src w.cfg false w.out then w
    else { w with out := crashed S w.src w.cfg k w.out }

def exec (S : Sys Src Cfg Key Content) (w : World Src Cfg Key Content) (h : List (Step Src Cfg)) :
    World Src Cfg Key Content := h.foldl (step S) w

theorem delete_inv (S : Sys Src Cfg Key Content) (o : Out Key Content) (x : Name) (hI : Inv S o) :
    Inv S (applyOp o (.remove x)) := by
  intro s c h p hp
  by_cases hx : p.1 = x
  · right; simp [applyOp, hx]
  · simp only [applyOp, hx, if_false]; exact hI s c h p hp

theorem step_inv (S : Sys Src Cfg Key Content)
    (keySound : ∀ s c s' c', S.key s c = S.key s' c' → S.gen s c = S.gen s' c')
    (hd : ∀ s c, NamesDistinct (S.gen s c))
    (w : World Src Cfg Key Content) (st : Step Src Cfg) (hI : Inv S w.out) : Inv S (step S w st).out := by
  cases st with
  | setSrc s => exact hI
  | setCfg c => exact hI
  | delete n => exact delete_inv S w.out n hI
  | dropCache => intro s c h; simp [step, applyOp] at h
  | run forced fault => exact run_inv S w.src w.cfg w.out forced fault keySound (hd _ _) hI
  | crash k =>
    simp only [step]
    split
    · exact hI
    · exact inv_prefix S w.src w.cfg w.out keySound (hd _ _) hI k

/-- **C08 / C17 over histories**: starting from any state satisfying `Inv` (e.g. an empty output
    directory), after *any* history of edits, deletions, cache losses, runs (forced or not, with any single
    fault) and crashes, `Inv` holds — so the next successful run leaves the output current. -/
theorem exec_inv (S : Sys Src Cfg Key Content)
    (keySound : ∀ s c s' c', S.key s c = S.key s' c' → S.gen s c = S.gen s' c')
    (hd : ∀ s c, NamesDistinct (S.gen s c))
    (w : World Src Cfg Key Content) (h : List (Step Src Cfg)) (hI : Inv S w.out) : Inv S (exec S w h).out := by
  induction h generalizing w with
  | nil => exact hI
  | cons st rest ih => exact ih (step S w st) (step_inv S keySound hd w st hI)

theorem inv_empty (S : Sys Src Cfg Key Content) : Inv S ({ files := fun _ => none, cache := none } : Out Key Content) := by
  intro s c h; cases h

end R
