import Typegen.Basic
/-! Model of the configuration layer (src/interface/config.rs, configuration discovery and flag
    override in src/bin/cargo-tauri-typegen.rs): JSON documents as trees with association-list objects,
    `save_to_tauri_config`, `from_tauri_config`, `validate`, and the precedence flag > file > default. -/
namespace Cf

/-- JSON values; numbers are kept as their canonical text (serde_json prints what it parsed) -/
inductive J where
  | null
  | bool (b : Bool)
  | num (text : String)
  | str (s : String)
  | arr (xs : List J)
  | obj (kvs : List (String × J))

instance : Inhabited J := ⟨.null⟩

/-- lookup in an association list (first entry with the key) -/
def lookup : List (String × J) → String → Option J
  | [], _ => none
  | p :: rest, k => if p.1 = k then some p.2 else lookup rest k

/-- object lookup (`Value::get(key)`; `None` on non-objects) -/
def J.get (j : J) (k : String) : Option J :=
  match j with
  | .obj kvs => lookup kvs k
  | _ => none

/-- `Map::insert`: replace the value of an existing key, otherwise add the entry -/
def insertKV : List (String × J) → String → J → List (String × J)
  | [], k, v => [(k, v)]
  | p :: rest, k, v => if p.1 = k then (k, v) :: rest else p :: insertKV rest k v

def J.isObj : J → Bool
  | .obj _ => true
  | _ => false

structure Settings where
  projectPath : String
  outputPath : String
  validationLibrary : String
  verbose : Bool
  visualizeDeps : Bool
  includePrivate : Bool
  typeMappings : Option (List (String × String))
  excludePatterns : Option (List String)
  includePatterns : Option (List String)
  force : Bool
  deriving DecidableEq, Repr

def defaults : Settings :=
  { projectPath := "./src-tauri", outputPath := "./src/generated", validationLibrary := "none",
    verbose := false, visualizeDeps := false, includePrivate := false, typeMappings := none,
    excludePatterns := none, includePatterns := none, force := false }

def optJ {α : Type} (f : α → J) : Option α → J
  | none => .null
  | some a => f a

/-- the `plugins.typegen` block written by `save_to_tauri_config` (`serde_json::json!`) -/
def typegenBlock (s : Settings) : J :=
  .obj [("projectPath", .str s.projectPath), ("outputPath", .str s.outputPath),
        ("validationLibrary", .str s.validationLibrary), ("verbose", .bool s.verbose),
        ("visualizeDeps", .bool s.visualizeDeps), ("includePrivate", .bool s.includePrivate),
        ("typeMappings", optJ (fun m => .obj (m.map fun p => (p.1, .str p.2))) s.typeMappings),
        ("excludePatterns", optJ (fun l => .arr (l.map .str)) s.excludePatterns),
        ("includePatterns", optJ (fun l => .arr (l.map .str)) s.includePatterns),
        ("force", .bool s.force)]

inductive SaveErr | pluginsNotObject deriving DecidableEq, Repr

/-- `save_to_tauri_config` on the parsed document: a non-object document is replaced by `{}`, a missing
    `plugins` section is created, the `typegen` entry is inserted/replaced; a `plugins` value that is not an
    object is an error (after fix; before, the document was written back unchanged and success reported) -/
def saveToTauri (doc : J) (s : Settings) : Except SaveErr J :=
  let top : List (String × J) := match doc with | .obj kvs => kvs | _ => []
  match (lookup top "plugins").getD (.obj []) with
  | .obj pl => .ok (.obj (insertKV top "plugins" (.obj (insertKV pl "typegen" (typegenBlock s)))))
  | _ => .error .pluginsNotObject

def J.asStr : J → Option String | .str s => some s | _ => none
def J.asBool : J → Option Bool | .bool b => some b | _ => none
def J.asStrList : J → Option (List String)
  | .arr xs => xs.mapM J.asStr
  | _ => none
def J.asStrMap : J → Option (List (String × String))
  | .obj kvs => kvs.mapM fun p => (J.asStr p.2).map fun v => (p.1, v)
  | _ => none

/-- the parsing half of `from_tauri_config`: defaults overridden by every present field of the right type -/
def readTypegen (doc : J) : Option Settings :=
  match (doc.get "plugins").bind (·.get "typegen") with
  | none => none
  | some t =>
    let str (k : String) (d : String) := ((t.get k).bind J.asStr).getD d
    let bool (k : String) (d : Bool) := ((t.get k).bind J.asBool).getD d
    some { projectPath := str "projectPath" defaults.projectPath,
           outputPath := str "outputPath" defaults.outputPath,
           validationLibrary := str "validationLibrary" defaults.validationLibrary,
           verbose := bool "verbose" false, visualizeDeps := bool "visualizeDeps" false,
           includePrivate := bool "includePrivate" false,
           typeMappings := (t.get "typeMappings").bind J.asStrMap,
           excludePatterns := (t.get "excludePatterns").bind J.asStrList,
           includePatterns := (t.get "includePatterns").bind J.asStrList,
           force := bool "force" false }

inductive CfgErr | invalidLibrary | missingProjectPath deriving DecidableEq, Repr

/-- `GenerateConfig::validate` (`exists` = the filesystem predicate on the project path) -/
def validate (exists_ : String → Bool) (s : Settings) : Except CfgErr Unit :=
  if s.validationLibrary != "zod" && s.validationLibrary != "none" then .error .invalidLibrary
  else if !exists_ s.projectPath then .error .missingProjectPath
  else .ok ()

/-- `from_tauri_config` -/
def fromTauri (exists_ : String → Bool) (doc : J) : Except CfgErr (Option Settings) :=
  match readTypegen doc with
  | none => .ok none
  | some s => match validate exists_ s with
    | .ok () => .ok (some s)
    | .error e => .error e

/-- command-line flags of `generate` -/
structure Flags where
  projectPath : Option String
  outputPath : Option String
  validationLibrary : Option String
  verbose : Bool
  visualizeDeps : Bool
  force : Bool
  deriving DecidableEq, Repr

/-- flag > file > default (`run_generate` after the configuration was read): `-p -o -v` replace when given,
    the boolean flags can only switch on -/
def effective (fl : Flags) (file : Option Settings) : Settings :=
  let base := file.getD defaults
  { base with
    projectPath := fl.projectPath.getD base.projectPath,
    outputPath := fl.outputPath.getD base.outputPath,
    validationLibrary := fl.validationLibrary.getD base.validationLibrary,
    verbose := fl.verbose || base.verbose,
    visualizeDeps := fl.visualizeDeps || base.visualizeDeps,
    force := fl.force || base.force }

/-- the whole front half of `generate` without `-c`: the discovered document (if any) is read, flags are
    applied, then the result is validated — before anything is written -/
def resolve (exists_ : String → Bool) (fl : Flags) (doc : Option J) : Except CfgErr Settings :=
  let s := effective fl (doc.bind readTypegen)
  match validate exists_ s with
  | .ok () => .ok s
  | .error e => .error e

/-! ### discovery of the configuration document (`generate` without `-c`) -/

/-- what one of the three places (`./tauri.conf.json`, `./src-tauri/tauri.conf.json`, `../tauri.conf.json`) holds -/
inductive Place where
  | absent                 -- no file
  | unreadable             -- a file that is not a JSON document (`from_tauri_config_unvalidated` fails)
  | doc (j : J)

/-- the places are tried in order: an absent or unreadable one is passed over, the first readable document decides —
    it is used when it carries a typegen block, and it *ends the search with the defaults* when it does not -/
def discover : List Place → Option J
  | [] => none
  | .absent :: r => discover r
  | .unreadable :: r => discover r
  | .doc j :: _ => match readTypegen j with
    | some _ => some j
    | none => none

def resolveDiscovered (exists_ : String → Bool) (fl : Flags) (places : List Place) : Except CfgErr Settings :=
  resolve exists_ fl (discover places)

end Cf
