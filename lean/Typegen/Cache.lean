/-! Probe: the cache / fault state machine behind C08, C14, C17 (with the invalidate-first fix and the
    existence check), abstract in sources, configuration, key and generator. -/
namespace C

variable {Src Cfg Key Name Content : Type} [DecidableEq Key] [DecidableEq Name] [DecidableEq Content]

/-- what is on disk in the output directory: binding files and the cache record -/
structure Out (Key Name Content : Type) where
  files : Name → Option Content
  cache : Option Key

structure Sys (Src Cfg Key Name Content : Type) where
  key : Src → Cfg → Key
  gen : Src → Cfg → List (Name × Content)      -- in write order
  empty : Src → Bool                            -- no commands found

/-- every file `gen` would write is present with that content -/
def Current (out : Out Key Name Content) (fs : List (Name × Content)) : Prop :=
  ∀ p ∈ fs, out.files p.1 = some p.2

/-- every file is present-and-right or missing (an external actor may delete generated files) -/
def CurrentOrMissing (out : Out Key Name Content) (fs : List (Name × Content)) : Prop :=
  ∀ p ∈ fs, out.files p.1 = some p.2 ∨ out.files p.1 = none

def allExist (out : Out Key Name Content) (fs : List (Name × Content)) : Bool :=
  fs.all (fun p => (out.files p.1).isSome)

/-- write the first `n` files of `fs` -/
def writeN (files : Name → Option Content) : Nat → List (Name × Content) → Name → Option Content
  | 0, _ => files
  | _, [] => files
  | n+1, p :: ps => writeN (fun x => if x = p.1 then some p.2 else files x) n ps

inductive Res | ok | err deriving DecidableEq

/-- one run.  `fault = some i`: the write of file number `i` fails (i < |gen|), `fault = some |gen|`: the cache
    write fails (warning only), `none`: no fault.  Invalidate-first, existence check included. -/
def run (S : Sys Src Cfg Key Name Content) (src : Src) (cfg : Cfg) (forced : Bool) (fault : Option Nat)
    (out : Out Key Name Content) : Res × Out Key Name Content :=
  if S.empty src then (.ok, out)
  else
    let fs := S.gen src cfg
    if !forced && out.cache == some (S.key src cfg) && allExist out fs then (.ok, out)
    else
      match fault with
      | some i =>
        if i < fs.length then (.err, { files := writeN out.files i fs, cache := none })
        else (.ok, { files := writeN out.files fs.length fs, cache := none })
      | none => (.ok, { files := writeN out.files fs.length fs, cache := some (S.key src cfg) })

/-- the invariant: it does not mention the sources at all, so every edit preserves it trivially -/
def Inv (S : Sys Src Cfg Key Name Content) (out : Out Key Name Content) : Prop :=
  ∀ s c, out.cache = some (S.key s c) → CurrentOrMissing out (S.gen s c)

/-- distinct file names in one generation -/
def NamesDistinct (fs : List (Name × Content)) : Prop := (fs.map (·.1)).Nodup

theorem writeN_other (files : Name → Option Content) (n : Nat) (fs : List (Name × Content)) (x : Name)
    (hx : ∀ p ∈ fs, p.1 ≠ x) : writeN files n fs x = files x := by
  induction fs generalizing files n with
  | nil => cases n <;> rfl
  | cons p ps ih =>
    cases n with
    | zero => rfl
    | succ n =>
      simp only [writeN]
      rw [ih _ n (fun q hq => hx q (List.mem_cons_of_mem _ hq))]
      have : x ≠ p.1 := fun e => hx p (by simp) e.symm
      simp [this]

theorem writeN_all (files : Name → Option Content) (fs : List (Name × Content)) (hd : NamesDistinct fs) :
    ∀ p ∈ fs, writeN files fs.length fs p.1 = some p.2 := by
  induction fs generalizing files with
  | nil => intro p hp; simp at hp
  | cons q qs ih =>
    intro p hp
    have hd' : q.1 ∉ qs.map (·.1) ∧ (qs.map (·.1)).Nodup := by
      unfold NamesDistinct at hd
      rw [List.map_cons] at hd
      exact List.nodup_cons.mp hd
    simp only [List.length_cons, writeN]
    simp only [List.mem_cons] at hp
    rcases hp with rfl | hp
    · rw [writeN_other _ _ _ _ (by
        intro r hr e
        exact hd'.1 (List.mem_map.mpr ⟨r, hr, e⟩))]
      simp
    · exact ih _ hd'.2 p hp

/-- C08 (model level): a successful non-forced run leaves every file of a forced generation in place -/
theorem run_ok_current (S : Sys Src Cfg Key Name Content) (src : Src) (cfg : Cfg) (out : Out Key Name Content)
    (fault : Option Nat) (forced : Bool)
    (hI : Inv S out) (hd : NamesDistinct (S.gen src cfg)) (hne : S.empty src = false)
    (hok : (run S src cfg forced fault out).1 = .ok) :
    Current (run S src cfg forced fault out).2 (S.gen src cfg) := by
  unfold run at hok ⊢
  simp only [hne, Bool.false_eq_true, if_false] at hok ⊢
  split
  · next hup =>
    -- up to date: cache matches and all files exist; the invariant says present ⇒ right
    simp only [Bool.and_eq_true, beq_iff_eq] at hup
    intro p hp
    rcases hI src cfg hup.1.2 p hp with h | h
    · exact h
    · have := List.all_eq_true.mp hup.2 p hp
      rw [h] at this; simp at this
  · next hup =>
    rw [if_neg hup] at hok
    cases fault with
    | none => intro p hp; exact writeN_all _ _ hd p hp
    | some i =>
      simp only at hok ⊢
      split
      · next hlt => rw [if_pos hlt] at hok; cases hok
      · intro p hp; exact writeN_all _ _ hd p hp

/-- C17 + C08: the invariant survives every run — faulty or not, forced or not — given key soundness -/
theorem run_inv (S : Sys Src Cfg Key Name Content) (src : Src) (cfg : Cfg) (out : Out Key Name Content)
    (fault : Option Nat) (forced : Bool)
    (keySound : ∀ s c s' c', S.key s c = S.key s' c' → S.gen s c = S.gen s' c')
    (hI : Inv S out) (hd : NamesDistinct (S.gen src cfg)) :
    Inv S (run S src cfg forced fault out).2 := by
  unfold run
  by_cases he : S.empty src = true
  · simp only [he, if_true]; exact hI
  · simp only [he, Bool.false_eq_true, if_false]
    by_cases hup : (!forced && out.cache == some (S.key src cfg) && allExist out (S.gen src cfg)) = true
    · simp only [hup, if_true]; exact hI
    · simp only [hup, Bool.false_eq_true, if_false]
      cases fault with
      | some i =>
        simp only
        by_cases hlt : i < (S.gen src cfg).length
        · simp only [hlt, if_true]; intro s c h; simp at h
        · simp only [hlt, if_false]; intro s c h; simp at h
      | none =>
        intro s c h
        simp only [Option.some.injEq] at h
        rw [keySound s c src cfg h.symm]
        intro p hp
        exact .inl (writeN_all _ _ hd p hp)

/-- external deletion of generated files preserves the invariant (that is why it says "or missing") -/
theorem delete_inv (S : Sys Src Cfg Key Name Content) (out : Out Key Name Content) (x : Name) (hI : Inv S out) :
    Inv S { out with files := fun y => if y = x then none else out.files y } := by
  intro s c h p hp
  by_cases hx : p.1 = x
  · right; simp [hx]
  · simp only [hx, if_false]; exact hI s c h p hp

/-- C17: a binding-file fault reports failure and leaves no cache record -/
theorem run_fault (S : Sys Src Cfg Key Name Content) (src : Src) (cfg : Cfg) (out : Out Key Name Content)
    (i : Nat) (hne : S.empty src = false) (hi : i < (S.gen src cfg).length) :
    (run S src cfg true (some i) out).1 = .err ∧ (run S src cfg true (some i) out).2.cache = none := by
  simp [run, hne, hi]

end C
