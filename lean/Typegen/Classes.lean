import Typegen.TsTy
/-! Decidable (Bool) versions of the exclusion predicates, used by the driver to classify cases and
    proved equivalent to the `Prop` versions the theorems are stated with. -/
namespace T
open L V

def nameOkB (n : Str) : Bool := !n.isEmpty && n.all identCh && (primOf n).isNone

mutual
def wfB : RTy → Bool
  | .prim n => n ∈ primNames
  | .unit => true
  | .named n => nameOkB n
  | .opt t | .vec t | .hset t | .bset t | .res1 t | .ref t => wfB t
  | .hmap k v | .bmap k v => wfB k && wfB v
  | .res2 t e => wfB t && wfB e
  | .tup t ts => wfB t && wfsB ts
def wfsB : RTyList → Bool
  | .nil => true
  | .cons t ts => wfB t && wfsB ts
end

mutual
def commaSafeB : RTy → Bool
  | .prim _ | .unit | .named _ => true
  | .opt t | .vec t | .hset t | .bset t | .ref t => commaSafeB t
  | .hmap k v | .bmap k v => (topComma 0 (str k)).isNone && commaSafeB k && commaSafeB v
  | .res1 t => !(str t).contains ',' && commaSafeB t
  | .res2 t _ => !(str t).contains ',' && commaSafeB t
  | .tup t ts => !(str t).contains ',' && commaSafeB t && commaSafesB ts
def commaSafesB : RTyList → Bool
  | .nil => true
  | .cons t ts => !(str t).contains ',' && commaSafeB t && commaSafesB ts
end

theorem nameOkB_iff (n : Str) : nameOkB n = true ↔ NameOk n := by
  unfold nameOkB NameOk
  simp only [Bool.and_eq_true, Bool.not_eq_true', List.isEmpty_eq_false_iff, List.all_eq_true,
    Option.isNone_iff_eq_none, ne_eq, and_assoc]

mutual
theorem wfB_iff : ∀ (r : RTy), wfB r = true ↔ WF r
  | .prim n => by simp [wfB, WF]
  | .unit => by simp [wfB, WF]
  | .named n => by simp only [wfB, WF]; exact nameOkB_iff n
  | .opt t => by simp only [wfB, WF]; exact wfB_iff t
  | .vec t => by simp only [wfB, WF]; exact wfB_iff t
  | .hset t => by simp only [wfB, WF]; exact wfB_iff t
  | .bset t => by simp only [wfB, WF]; exact wfB_iff t
  | .res1 t => by simp only [wfB, WF]; exact wfB_iff t
  | .ref t => by simp only [wfB, WF]; exact wfB_iff t
  | .hmap k v => by simp only [wfB, WF, Bool.and_eq_true, wfB_iff k, wfB_iff v]
  | .bmap k v => by simp only [wfB, WF, Bool.and_eq_true, wfB_iff k, wfB_iff v]
  | .res2 t e => by simp only [wfB, WF, Bool.and_eq_true, wfB_iff t, wfB_iff e]
  | .tup t ts => by simp only [wfB, WF, Bool.and_eq_true, wfB_iff t, wfsB_iff ts]
theorem wfsB_iff : ∀ (ts : RTyList), wfsB ts = true ↔ WFs ts
  | .nil => by simp [wfsB, WFs]
  | .cons t ts => by simp only [wfsB, WFs, Bool.and_eq_true, wfB_iff t, wfsB_iff ts]
end

mutual
theorem commaSafeB_iff : ∀ (r : RTy), commaSafeB r = true ↔ CommaSafe r
  | .prim n => by simp [commaSafeB, CommaSafe]
  | .unit => by simp [commaSafeB, CommaSafe]
  | .named n => by simp [commaSafeB, CommaSafe]
  | .opt t => by simp only [commaSafeB, CommaSafe]; exact commaSafeB_iff t
  | .vec t => by simp only [commaSafeB, CommaSafe]; exact commaSafeB_iff t
  | .hset t => by simp only [commaSafeB, CommaSafe]; exact commaSafeB_iff t
  | .bset t => by simp only [commaSafeB, CommaSafe]; exact commaSafeB_iff t
  | .ref t => by simp only [commaSafeB, CommaSafe]; exact commaSafeB_iff t
  | .hmap k v => by
    simp only [commaSafeB, CommaSafe, Bool.and_eq_true, commaSafeB_iff k, commaSafeB_iff v,
      Option.isNone_iff_eq_none, and_assoc]
  | .bmap k v => by
    simp only [commaSafeB, CommaSafe, Bool.and_eq_true, commaSafeB_iff k, commaSafeB_iff v,
      Option.isNone_iff_eq_none, and_assoc]
  | .res1 t => by
    simp only [commaSafeB, CommaSafe, Bool.and_eq_true, commaSafeB_iff t, Bool.not_eq_true',
      List.contains_eq_mem, decide_eq_false_iff_not]
  | .res2 t e => by
    simp only [commaSafeB, CommaSafe, Bool.and_eq_true, commaSafeB_iff t, Bool.not_eq_true',
      List.contains_eq_mem, decide_eq_false_iff_not]
  | .tup t ts => by
    simp only [commaSafeB, CommaSafe, Bool.and_eq_true, commaSafeB_iff t, commaSafesB_iff ts, Bool.not_eq_true',
      List.contains_eq_mem, decide_eq_false_iff_not, and_assoc]
theorem commaSafesB_iff : ∀ (ts : RTyList), commaSafesB ts = true ↔ CommaSafes ts
  | .nil => by simp [commaSafesB, CommaSafes]
  | .cons t ts => by
    simp only [commaSafesB, CommaSafes, Bool.and_eq_true, commaSafeB_iff t, commaSafesB_iff ts, Bool.not_eq_true',
      List.contains_eq_mem, decide_eq_false_iff_not, and_assoc]
end

end T

namespace T
open L

mutual
/-- Bool version of `L.HarvestSafe` (the fragment on which the name harvester is exact, theorem `L.H1`) -/
def harvestSafeB : RTy → Bool
  | .prim _ | .unit => true
  | .named n => isCustomName n
  | .opt t | .vec t | .hset t | .bset t => harvestSafeB t
  | .ref t => harvestSafeB t && (str t).head? != some '&'
  | .hmap k v | .bmap k v => !(str k).contains ',' && harvestSafeB k && harvestSafeB v
  | .res1 t => !(str t).contains ',' && harvestSafeB t
  | .res2 t e => !(str t).contains ',' && harvestSafeB t && harvestSafeB e
  | .tup t ts => !(str t).contains ',' && harvestSafeB t && harvestSafesB ts
def harvestSafesB : RTyList → Bool
  | .nil => true
  | .cons t ts => !(str t).contains ',' && harvestSafeB t && harvestSafesB ts
end

mutual
theorem harvestSafeB_iff : ∀ (r : RTy), harvestSafeB r = true ↔ HarvestSafe r
  | .prim n => by simp [harvestSafeB, HarvestSafe]
  | .unit => by simp [harvestSafeB, HarvestSafe]
  | .named n => by simp [harvestSafeB, HarvestSafe, UpperName]
  | .opt t => by simp only [harvestSafeB, HarvestSafe]; exact harvestSafeB_iff t
  | .vec t => by simp only [harvestSafeB, HarvestSafe]; exact harvestSafeB_iff t
  | .hset t => by simp only [harvestSafeB, HarvestSafe]; exact harvestSafeB_iff t
  | .bset t => by simp only [harvestSafeB, HarvestSafe]; exact harvestSafeB_iff t
  | .ref t => by
    simp only [harvestSafeB, HarvestSafe, Bool.and_eq_true, harvestSafeB_iff t, bne_iff_ne, ne_eq]
  | .hmap k v => by
    simp only [harvestSafeB, HarvestSafe, Bool.and_eq_true, harvestSafeB_iff k, harvestSafeB_iff v, Bool.not_eq_true',
      List.contains_eq_mem, decide_eq_false_iff_not, and_assoc]
  | .bmap k v => by
    simp only [harvestSafeB, HarvestSafe, Bool.and_eq_true, harvestSafeB_iff k, harvestSafeB_iff v, Bool.not_eq_true',
      List.contains_eq_mem, decide_eq_false_iff_not, and_assoc]
  | .res1 t => by
    simp only [harvestSafeB, HarvestSafe, Bool.and_eq_true, harvestSafeB_iff t, Bool.not_eq_true', List.contains_eq_mem,
      decide_eq_false_iff_not]
  | .res2 t e => by
    simp only [harvestSafeB, HarvestSafe, Bool.and_eq_true, harvestSafeB_iff t, harvestSafeB_iff e, Bool.not_eq_true',
      List.contains_eq_mem, decide_eq_false_iff_not, and_assoc]
  | .tup t ts => by
    simp only [harvestSafeB, HarvestSafe, Bool.and_eq_true, harvestSafeB_iff t, harvestSafesB_iff ts, Bool.not_eq_true',
      List.contains_eq_mem, decide_eq_false_iff_not, and_assoc]
theorem harvestSafesB_iff : ∀ (ts : RTyList), harvestSafesB ts = true ↔ HarvestSafes ts
  | .nil => by simp [harvestSafesB, HarvestSafes]
  | .cons t ts => by
    simp only [harvestSafesB, HarvestSafes, Bool.and_eq_true, harvestSafeB_iff t, harvestSafesB_iff ts, Bool.not_eq_true',
      List.contains_eq_mem, decide_eq_false_iff_not, and_assoc]
end

mutual
/-- a one-argument `Result<T>` (type alias) with a project type inside: never harvested (finding K07d) -/
def hasRes1Named : RTy → Bool
  | .prim _ | .unit | .named _ => false
  | .opt t | .vec t | .hset t | .bset t | .ref t => hasRes1Named t
  | .hmap k v | .bmap k v | .res2 k v => hasRes1Named k || hasRes1Named v
  | .res1 t => !(hSpecFull t).isEmpty
  | .tup t ts => hasRes1Named t || hasRes1NamedL ts
def hasRes1NamedL : RTyList → Bool
  | .nil => false
  | .cons t ts => hasRes1Named t || hasRes1NamedL ts
/-- all named leaves -/
def hSpecFull : RTy → List Str
  | .prim _ | .unit => []
  | .named n => [n]
  | .opt t | .vec t | .hset t | .bset t | .ref t | .res1 t => hSpecFull t
  | .hmap k v | .bmap k v | .res2 k v => hSpecFull k ++ hSpecFull v
  | .tup t ts => hSpecFull t ++ hSpecFullL ts
def hSpecFullL : RTyList → List Str
  | .nil => []
  | .cons t ts => hSpecFull t ++ hSpecFullL ts
end

end T
