import Typegen.Analyze
/-! The analysis reads a file through four functions of its item list only — the commands, the emissions, the indexed
    definitions and the first serde item of a name — so an item that contributes to none of them (a comment or other
    item, a type without the serde derive, a function that is no command, emits nothing and shares no function's name)
    can be inserted anywhere without changing the analysis (C13, second sentence). -/
namespace An
open Pj

/-- two files are the same to the analysis -/
structure SameToAnalysis (f g : File) : Prop where
  path : g.relPath = f.relPath
  parses : g.parses = f.parses
  commands : fileCommands f.relPath g.items = fileCommands f.relPath f.items
  events : fileEvents f.relPath g.items = fileEvents f.relPath f.items
  defsContains : ∀ n, (fileDefs g.items).contains n = (fileDefs f.items).contains n
  defsLength : (fileDefs g.items).length = (fileDefs f.items).length
  extract : ∀ n, extractType g.items n = extractType f.items n

variable (g : File → File)

theorem filter_map_of {α : Type} (k : α → α) (q : α → Bool) : ∀ (l : List α), (∀ x ∈ l, q (k x) = q x) →
    (l.map k).filter q = (l.filter q).map k
  | [], _ => rfl
  | x :: xs, h => by
    have ih := filter_map_of k q xs (fun y hy => h y (List.mem_cons_of_mem _ hy))
    have hx := h x List.mem_cons_self
    cases hq : q x with
    | true =>
      rw [List.map_cons, List.filter_cons_of_pos (by rw [hx, hq]), List.filter_cons_of_pos hq, List.map_cons, ih]
    | false =>
      rw [List.map_cons, List.filter_cons_of_neg (by rw [hx, hq]; simp), List.filter_cons_of_neg (by rw [hq]; simp), ih]

theorem fileSelected_map (root : Str) (f : File) (h : SameToAnalysis f (g f)) : fileSelected root (g f) = fileSelected root f := by
  unfold fileSelected
  rw [h.path, h.parses]

theorem filter_selected_map (root : Str) (l : List File) (h : ∀ f ∈ l, SameToAnalysis f (g f)) :
    (l.map g).filter (fileSelected root) = (l.filter (fileSelected root)).map g :=
  filter_map_of g _ l (fun f hf => fileSelected_map g root f (h f hf))

theorem insertFile_map (f : File) (hf : SameToAnalysis f (g f)) : ∀ (l : List File), (∀ x ∈ l, SameToAnalysis x (g x)) →
    insertFile (g f) (l.map g) = (insertFile f l).map g
  | [], _ => rfl
  | x :: xs, h => by
    have hx := h x List.mem_cons_self
    have ih := insertFile_map f hf xs (fun y hy => h y (List.mem_cons_of_mem _ hy))
    simp only [List.map_cons, insertFile, hf.path, hx.path]
    split
    · simp
    · simp [ih]

theorem mem_insertFile {f x : File} : ∀ {l : List File}, x ∈ insertFile f l → x = f ∨ x ∈ l
  | [], h => by simp [insertFile] at h; exact .inl h
  | y :: ys, h => by
    simp only [insertFile] at h
    split at h
    · simp only [List.mem_cons] at h
      rcases h with h | h | h
      · exact .inl h
      · exact .inr (by simp [h])
      · exact .inr (by simp [h])
    · simp only [List.mem_cons] at h
      rcases h with h | h
      · exact .inr (by simp [h])
      · rcases mem_insertFile h with h | h
        · exact .inl h
        · exact .inr (by simp [h])

theorem mem_sortedFiles {x : File} : ∀ {l : List File}, x ∈ sortedFiles l → x ∈ l
  | [], h => by simp [sortedFiles] at h
  | f :: fs, h => by
    simp only [sortedFiles] at h
    rcases mem_insertFile h with h | h
    · simp [h]
    · exact List.mem_cons_of_mem _ (mem_sortedFiles h)

theorem sortedFiles_map : ∀ (l : List File), (∀ f ∈ l, SameToAnalysis f (g f)) →
    sortedFiles (l.map g) = (sortedFiles l).map g
  | [], _ => rfl
  | f :: fs, h => by
    have ih := sortedFiles_map fs (fun x hx => h x (List.mem_cons_of_mem _ hx))
    simp only [List.map_cons, sortedFiles, ih]
    exact insertFile_map g f (h f List.mem_cons_self) _
      (fun x hx => h x (List.mem_cons_of_mem _ (mem_sortedFiles hx)))

theorem getLast?_map' {α β : Type} (k : α → β) : ∀ (l : List α), (l.map k).getLast? = l.getLast?.map k
  | [] => rfl
  | [_] => rfl
  | _ :: b :: r => by
    have := getLast?_map' k (b :: r)
    simp only [List.map_cons, List.getLast?_cons_cons] at this ⊢
    exact this

theorem defFile_map (l : List File) (h : ∀ f ∈ l, SameToAnalysis f (g f)) (n : Str) :
    defFile (l.map g) n = (defFile l n).map g := by
  unfold defFile
  have : (l.map g).filter (fun f => (fileDefs f.items).contains n) = (l.filter fun f => (fileDefs f.items).contains n).map g :=
    filter_map_of g _ l (fun f hf => (h f hf).defsContains n)
  rw [this, getLast?_map']

theorem mem_defFile {l : List File} {n : Str} {f : File} (h : defFile l n = some f) : f ∈ l := by
  unfold defFile at h
  have := List.mem_of_getLast? h
  exact (List.mem_filter.mp this).1

theorem resolve_map (l : List File) (h : ∀ f ∈ l, SameToAnalysis f (g f)) :
    ∀ (fuel : Nat) (pending : List Str) (done : List (SInfo × List Str)),
      resolve (l.map g) fuel pending done = resolve l fuel pending done
  | 0, _, _ => rfl
  | _ + 1, [], _ => by simp [resolve]
  | fuel + 1, n :: pending, done => by
    have hd : ∀ d, (defFile (l.map g) d).isSome = (defFile l d).isSome := by
      intro d; rw [defFile_map g l h d]; simp
    have hx : (defFile (l.map g) n).bind (fun f => extractType f.items n) = (defFile l n).bind (fun f => extractType f.items n) := by
      rw [defFile_map g l h n]
      cases hdf : defFile l n with
      | none => rfl
      | some f => simp [(h f (mem_defFile hdf)).extract n]
    simp only [resolve, hx, hd]
    split
    · exact resolve_map l h fuel pending done
    · split
      · exact resolve_map l h fuel pending done
      · exact resolve_map l h fuel _ _

theorem flatMap_map_congr {β : Type} (k : File → List β) (l : List File) (h : ∀ f ∈ l, k (g f) = k f) :
    (l.map g).flatMap k = l.flatMap k := by
  induction l with
  | nil => rfl
  | cons f fs ih =>
    simp only [List.map_cons, List.flatMap_cons, h f List.mem_cons_self]
    rw [ih (fun x hx => h x (List.mem_cons_of_mem _ hx))]

/-- **the analysis reads a file only through its commands, emissions, indexed definitions and first serde items** -/
theorem analyze_congr (p : Project) (h : ∀ f ∈ p.files, SameToAnalysis f (g f)) :
    analyze { p with files := p.files.map g } = analyze p := by
  unfold analyze
  simp only []
  rw [filter_selected_map g p.absRoot p.files h]
  have hsel : ∀ f ∈ p.files.filter (fileSelected p.absRoot), SameToAnalysis f (g f) :=
    fun f hf => h f (List.mem_filter.mp hf).1
  rw [sortedFiles_map g _ hsel]
  have hs : ∀ f ∈ sortedFiles (p.files.filter (fileSelected p.absRoot)), SameToAnalysis f (g f) :=
    fun f hf => hsel f (mem_sortedFiles hf)
  generalize sortedFiles (p.files.filter (fileSelected p.absRoot)) = files at hs
  have hc : (files.map g).flatMap (fun f => fileCommands f.relPath f.items) = files.flatMap (fun f => fileCommands f.relPath f.items) :=
    flatMap_map_congr g _ files (fun f hf => by rw [(hs f hf).path]; exact (hs f hf).commands)
  have he : (files.map g).flatMap (fun f => fileEvents f.relPath f.items) = files.flatMap (fun f => fileEvents f.relPath f.items) :=
    flatMap_map_congr g _ files (fun f hf => by rw [(hs f hf).path]; exact (hs f hf).events)
  have hdn : ((files.map g).flatMap (fun f => fileDefs f.items)).length = (files.flatMap (fun f => fileDefs f.items)).length := by
    clear hc he
    induction files with
    | nil => rfl
    | cons f fs ih =>
      simp only [List.map_cons, List.flatMap_cons, List.length_append, (hs f List.mem_cons_self).defsLength]
      rw [ih (fun x hx => hs x (List.mem_cons_of_mem _ hx))]
  rw [hc, he, hdn]
  simp only [resolve_map g files hs]

/-! ### inert items -/

/-- an item that contributes nothing: no function, or a function that is no command, emits nothing and whose name no
    other function of the file carries; no type, or a type without the serde derive -/
def inert (file : Str) (others : List Item) : Item → Bool
  | .other => true
  | .struct s => !shouldInclude s.attrs
  | .enum e => !shouldInclude e.attrs
  | .fn f => !isTauriCommand f && (walkStmts file f.body (paramSyms f.params, [])).2.isEmpty &&
      !((fnItems others).any fun k => k.name = f.name)

theorem fnItems_append (a b : List Item) : fnItems (a ++ b) = fnItems a ++ fnItems b := by
  simp [fnItems, List.filterMap_append]

theorem fnItems_insert_nonfn (pre post : List Item) (it : Item) (h : ∀ f, it ≠ .fn f) :
    fnItems (pre ++ it :: post) = fnItems (pre ++ post) := by
  rw [fnItems_append, fnItems_append]
  congr 1
  cases it with
  | fn f => exact absurd rfl (h f)
  | struct s => rfl
  | enum e => rfl
  | other => rfl

theorem fnItems_insert_fn (pre post : List Item) (f : FnItem) :
    fnItems (pre ++ .fn f :: post) = fnItems pre ++ f :: fnItems post := by
  rw [fnItems_append]; rfl

theorem find?_insert_ne {α : Type} (p : α → Bool) (a b : List α) (x : α) (hx : p x = false) :
    (a ++ x :: b).find? p = (a ++ b).find? p := by
  induction a with
  | nil => simp [List.find?_cons, hx]
  | cons y ys ih => simp only [List.cons_append, List.find?_cons]; split <;> simp [ih]

theorem filterMap_congr' {α β : Type} {f g : α → Option β} : ∀ (l : List α), (∀ x ∈ l, f x = g x) → l.filterMap f = l.filterMap g
  | [], _ => rfl
  | x :: xs, h => by
    simp only [List.filterMap_cons, h x List.mem_cons_self]
    rw [filterMap_congr' xs (fun y hy => h y (List.mem_cons_of_mem _ hy))]

theorem fileCommands_insert (file : Str) (pre post : List Item) (it : Item) (h : inert file (pre ++ post) it = true) :
    fileCommands file (pre ++ it :: post) = fileCommands file (pre ++ post) := by
  cases it with
  | other => unfold fileCommands; rw [fnItems_insert_nonfn pre post _ (by intro f hf; cases hf)]
  | struct s => unfold fileCommands; rw [fnItems_insert_nonfn pre post _ (by intro f hf; cases hf)]
  | enum e => unfold fileCommands; rw [fnItems_insert_nonfn pre post _ (by intro f hf; cases hf)]
  | fn f =>
    simp only [inert, Bool.and_eq_true, Bool.not_eq_true', List.any_eq_false, decide_eq_true_eq] at h
    obtain ⟨⟨hcmd, _⟩, hname⟩ := h
    unfold fileCommands
    rw [fnItems_insert_fn, fnItems_append]
    rw [fnItems_append] at hname
    simp only [List.filterMap_append, List.filterMap_cons, hcmd, Bool.false_eq_true, if_false]
    have hfind : ∀ k ∈ fnItems pre ++ fnItems post,
        (fnItems pre ++ f :: fnItems post).find? (fun q => decide (q.name = k.name)) =
        (fnItems pre ++ fnItems post).find? (fun q => decide (q.name = k.name)) := by
      intro k hk
      apply find?_insert_ne
      have := hname k hk
      simp only [decide_eq_false_iff_not]
      intro hfk
      exact this hfk.symm
    congr 1
    · apply filterMap_congr'
      intro k hk
      rw [hfind k (List.mem_append_left _ hk)]
    · apply filterMap_congr'
      intro k hk
      rw [hfind k (List.mem_append_right _ hk)]

theorem fileEvents_insert (file : Str) (pre post : List Item) (it : Item) (h : inert file (pre ++ post) it = true) :
    fileEvents file (pre ++ it :: post) = fileEvents file (pre ++ post) := by
  cases it with
  | other => unfold fileEvents; rw [fnItems_insert_nonfn pre post _ (by intro f hf; cases hf)]
  | struct s => unfold fileEvents; rw [fnItems_insert_nonfn pre post _ (by intro f hf; cases hf)]
  | enum e => unfold fileEvents; rw [fnItems_insert_nonfn pre post _ (by intro f hf; cases hf)]
  | fn f =>
    simp only [inert, Bool.and_eq_true, Bool.not_eq_true', List.isEmpty_iff] at h
    obtain ⟨⟨_, hemit⟩, _⟩ := h
    unfold fileEvents
    rw [fnItems_insert_fn, fnItems_append]
    simp [List.flatMap_append, hemit]

theorem fileDefs_insert (file : Str) (pre post : List Item) (it : Item) (h : inert file (pre ++ post) it = true) :
    fileDefs (pre ++ it :: post) = fileDefs (pre ++ post) := by
  unfold fileDefs
  simp only [List.filterMap_append, List.filterMap_cons]
  cases it with
  | other => rfl
  | fn f => rfl
  | struct s => simp only [inert, Bool.not_eq_true'] at h; simp [h]
  | enum e => simp only [inert, Bool.not_eq_true'] at h; simp [h]

theorem extractType_insert (file : Str) (pre post : List Item) (it : Item) (h : inert file (pre ++ post) it = true) (n : Str) :
    extractType (pre ++ it :: post) n = extractType (pre ++ post) n := by
  unfold extractType
  rw [find?_insert_ne]
  cases it with
  | other => rfl
  | fn f => rfl
  | struct s => simp only [inert, Bool.not_eq_true'] at h; simp [h]
  | enum e => simp only [inert, Bool.not_eq_true'] at h; simp [h]

/-- the file at `path` with an item inserted at position `k` -/
def insertAt (path : Str) (k : Nat) (it : Item) (f : File) : File :=
  if f.relPath = path then { f with items := f.items.take k ++ it :: f.items.drop k } else f

/-- **C13, insertion**: inserting an inert item — anything that is no function and no serde type, a type without the
    serde derive, a function that is no command, emits nothing and shares no function's name — at any position of any
    file leaves the whole analysis unchanged -/
theorem analyze_insert_inert (p : Project) (path : Str) (k : Nat) (it : Item)
    (h : ∀ f ∈ p.files, f.relPath = path → inert path f.items it = true) :
    analyze { p with files := p.files.map (insertAt path k it) } = analyze p := by
  apply analyze_congr
  intro f hf
  unfold insertAt
  split
  · rename_i hp
    have hi := h f hf hp
    have hsplit : f.items = f.items.take k ++ f.items.drop k := (List.take_append_drop k f.items).symm
    rw [hsplit] at hi
    have hdefs : fileDefs (f.items.take k ++ it :: f.items.drop k) = fileDefs f.items := by
      rw [fileDefs_insert path _ _ it hi, ← hsplit]
    refine ⟨rfl, rfl, ?_, ?_, ?_, ?_, ?_⟩
    · show fileCommands f.relPath (f.items.take k ++ it :: f.items.drop k) = fileCommands f.relPath f.items
      rw [hp, fileCommands_insert path _ _ it hi, ← hsplit]
    · show fileEvents f.relPath (f.items.take k ++ it :: f.items.drop k) = fileEvents f.relPath f.items
      rw [hp, fileEvents_insert path _ _ it hi, ← hsplit]
    · intro n
      show (fileDefs (f.items.take k ++ it :: f.items.drop k)).contains n = (fileDefs f.items).contains n
      rw [hdefs]
    · show (fileDefs (f.items.take k ++ it :: f.items.drop k)).length = (fileDefs f.items).length
      rw [hdefs]
    · intro n
      show extractType (f.items.take k ++ it :: f.items.drop k) n = extractType f.items n
      rw [extractType_insert path _ _ it hi n, ← hsplit]
  · exact ⟨rfl, rfl, rfl, rfl, fun _ => rfl, rfl, fun _ => rfl⟩

/-! ### reordering the type declarations of a file -/

/-- the name under which an item is indexed as a serde type, if it is one -/
def inclName : Item → Option Str
  | .struct s => if shouldInclude s.attrs then some s.name else none
  | .enum e => if shouldInclude e.attrs then some e.name else none
  | _ => none

theorem fileDefs_eq (items : List Item) : fileDefs items = items.filterMap inclName := by
  unfold fileDefs
  apply filterMap_congr'
  intro it _
  cases it <;> rfl

theorem find?_perm_unique {α : Type} (q : α → Bool) {l₁ l₂ : List α} (hp : l₁.Perm l₂)
    (hu : ∀ x ∈ l₁, ∀ y ∈ l₁, q x = true → q y = true → x = y) : l₁.find? q = l₂.find? q := by
  cases h₁ : l₁.find? q with
  | none =>
    have : ∀ x ∈ l₁, ¬ q x = true := by simpa [List.find?_eq_none] using h₁
    symm
    rw [List.find?_eq_none]
    intro x hx
    exact this x (hp.symm.subset hx)
  | some a =>
    have ha := List.find?_some h₁
    have ham := List.mem_of_find?_eq_some h₁
    cases h₂ : l₂.find? q with
    | none =>
      have : ∀ x ∈ l₂, ¬ q x = true := by simpa [List.find?_eq_none] using h₂
      exact absurd ha (this a (hp.subset ham))
    | some b =>
      have hb := List.find?_some h₂
      have hbm := hp.symm.subset (List.mem_of_find?_eq_some h₂)
      rw [hu a ham b hbm ha hb]

theorem extractType_perm {items items' : List Item} (hp : items'.Perm items)
    (hu : ∀ x ∈ items, ∀ y ∈ items, inclName x = inclName y → inclName x ≠ none → x = y) (n : Str) :
    extractType items' n = extractType items n := by
  unfold extractType
  have key : ∀ it : Item, (match it with
      | .struct s => s.name = n && shouldInclude s.attrs
      | .enum e => e.name = n && shouldInclude e.attrs
      | _ => false) = true → inclName it = some n := by
    intro it h
    cases it with
    | struct s => simp only [Bool.and_eq_true, decide_eq_true_eq] at h; simp [inclName, h.1, h.2]
    | enum e => simp only [Bool.and_eq_true, decide_eq_true_eq] at h; simp [inclName, h.1, h.2]
    | fn f => cases h
    | other => cases h
  rw [find?_perm_unique _ hp.symm (fun x hx y hy qx qy => hu x hx y hy (by rw [key x qx, key y qy]) (by rw [key x qx]; simp))]

/-- the file at `path` with its items replaced -/
def withItems (path : Str) (items' : List Item) (f : File) : File :=
  if f.relPath = path then { f with items := items' } else f

/-- **C13, reordering**: permuting the items of a file so that the functions keep their order — moving type
    declarations, `use`s, constants anywhere among themselves and among the functions — leaves the whole analysis
    unchanged, provided no two distinct serde types of the file share a name (of two such twins the *first* is taken) -/
theorem analyze_reorder_types (p : Project) (path : Str) (items' : List Item)
    (h : ∀ f ∈ p.files, f.relPath = path → items'.Perm f.items ∧ fnItems items' = fnItems f.items ∧
      (∀ x ∈ f.items, ∀ y ∈ f.items, inclName x = inclName y → inclName x ≠ none → x = y)) :
    analyze { p with files := p.files.map (withItems path items') } = analyze p := by
  apply analyze_congr
  intro f hf
  unfold withItems
  split
  · rename_i hp
    obtain ⟨hperm, hfn, hu⟩ := h f hf hp
    have hdp : (fileDefs items').Perm (fileDefs f.items) := by
      rw [fileDefs_eq, fileDefs_eq]; exact hperm.filterMap _
    refine ⟨rfl, rfl, ?_, ?_, ?_, ?_, ?_⟩
    · show fileCommands f.relPath items' = fileCommands f.relPath f.items
      unfold fileCommands; rw [hfn]
    · show fileEvents f.relPath items' = fileEvents f.relPath f.items
      unfold fileEvents; rw [hfn]
    · intro n
      show (fileDefs items').contains n = (fileDefs f.items).contains n
      have : n ∈ fileDefs items' ↔ n ∈ fileDefs f.items := hdp.mem_iff
      by_cases hm : n ∈ fileDefs f.items
      · simp [hm, this.mpr hm]
      · have hm' : n ∉ fileDefs items' := fun h' => hm (this.mp h')
        simp [hm, hm']
    · exact hdp.length_eq
    · intro n; exact extractType_perm hperm hu n
  · exact ⟨rfl, rfl, rfl, rfl, fun _ => rfl, rfl, fun _ => rfl⟩

/-! ### moving items between files -/

/-- the files in processing order -/
def processed (p : Project) : List File := sortedFiles (p.files.filter (fileSelected p.absRoot))

/-- the project-wide lookup of a type name: the first serde item of that name in the last file that indexes it -/
def lookupType (files : List File) (n : Str) : Option SInfo := (defFile files n).bind fun f => extractType f.items n

theorem resolve_congr_lookup (l₁ l₂ : List File) (hl : ∀ n, lookupType l₁ n = lookupType l₂ n)
    (hd : ∀ n, (defFile l₁ n).isSome = (defFile l₂ n).isSome) :
    ∀ (fuel : Nat) (pending : List Str) (done : List (SInfo × List Str)),
      resolve l₁ fuel pending done = resolve l₂ fuel pending done
  | 0, _, _ => rfl
  | _ + 1, [], _ => by simp [resolve]
  | fuel + 1, n :: pending, done => by
    have hx := hl n
    unfold lookupType at hx
    simp only [resolve, hx, hd]
    split
    · exact resolve_congr_lookup l₁ l₂ hl hd fuel pending done
    · split
      · exact resolve_congr_lookup l₁ l₂ hl hd fuel pending done
      · exact resolve_congr_lookup l₁ l₂ hl hd fuel _ _

/-- **what moving items between files can change**: the analysis depends on the files only through the sequence of
    commands and of emissions in processing order, the number of indexed definitions, and the project-wide lookup of type
    names.  A move that keeps these — a serde type taken from one processed file to another while its name stays defined
    exactly once, a helper item, a `use` — leaves commands, events, the set of declarations and their content unchanged. -/
theorem analyze_congr_lookup (p₁ p₂ : Project)
    (hc : (processed p₁).flatMap (fun f => fileCommands f.relPath f.items) = (processed p₂).flatMap (fun f => fileCommands f.relPath f.items))
    (he : (processed p₁).flatMap (fun f => fileEvents f.relPath f.items) = (processed p₂).flatMap (fun f => fileEvents f.relPath f.items))
    (hn : ((processed p₁).flatMap fun f => fileDefs f.items).length = ((processed p₂).flatMap fun f => fileDefs f.items).length)
    (hl : ∀ n, lookupType (processed p₁) n = lookupType (processed p₂) n)
    (hd : ∀ n, (defFile (processed p₁) n).isSome = (defFile (processed p₂) n).isSome) :
    analyze p₁ = analyze p₂ := by
  unfold analyze
  unfold processed at hc he hn hl hd
  simp only []
  rw [hc, he, hn]
  simp only [resolve_congr_lookup _ _ hl hd]

/-! #### redistributing the serde types among the files -/

def parseItem : Item → Option SInfo
  | .struct s => parseStruct s
  | .enum e => some (parseEnum e)
  | _ => none

theorem filterMap_nodup_inj {α β : Type} (k : α → Option β) : ∀ (l : List α), (l.filterMap k).Nodup →
    ∀ x ∈ l, ∀ y ∈ l, ∀ v, k x = some v → k y = some v → x = y
  | [], _, x, hx, _, _, _, _, _ => by cases hx
  | a :: as, hnd, x, hx, y, hy, v, kx, ky => by
    cases hka : k a with
    | none =>
      have hnd' : (as.filterMap k).Nodup := by simpa [List.filterMap_cons, hka] using hnd
      have hxa : x ∈ as := by
        rcases List.mem_cons.mp hx with h | h
        · rw [h, hka] at kx; cases kx
        · exact h
      have hya : y ∈ as := by
        rcases List.mem_cons.mp hy with h | h
        · rw [h, hka] at ky; cases ky
        · exact h
      exact filterMap_nodup_inj k as hnd' x hxa y hya v kx ky
    | some w =>
      have hnd' : w ∉ as.filterMap k ∧ (as.filterMap k).Nodup := by simpa [List.filterMap_cons, hka] using hnd
      rcases List.mem_cons.mp hx with hxa | hxa <;> rcases List.mem_cons.mp hy with hya | hya
      · rw [hxa, hya]
      · exfalso
        rw [hxa, hka] at kx
        cases kx
        exact hnd'.1 (List.mem_filterMap.mpr ⟨y, hya, ky⟩)
      · exfalso
        rw [hya, hka] at ky
        cases ky
        exact hnd'.1 (List.mem_filterMap.mpr ⟨x, hxa, kx⟩)
      · exact filterMap_nodup_inj k as hnd'.2 x hxa y hya v kx ky

def isNamed (n : Str) : Item → Bool
  | .struct s => s.name = n && shouldInclude s.attrs
  | .enum e => e.name = n && shouldInclude e.attrs
  | _ => false

theorem extractType_eq (items : List Item) (n : Str) : extractType items n = (items.find? (isNamed n)).bind parseItem := by
  have h : extractType items n = (match items.find? (isNamed n) with
      | some (.struct s) => parseStruct s
      | some (.enum e) => some (parseEnum e)
      | _ => none) := rfl
  rw [h]
  cases items.find? (isNamed n) with
  | none => rfl
  | some x => cases x <;> rfl

theorem isNamed_iff (n : Str) (x : Item) : isNamed n x = true ↔ inclName x = some n := by
  cases x with
  | struct s => by_cases h1 : shouldInclude s.attrs = true <;> simp [isNamed, inclName, h1]
  | enum e => by_cases h1 : shouldInclude e.attrs = true <;> simp [isNamed, inclName, h1]
  | fn f => simp [isNamed, inclName]
  | other => simp [isNamed, inclName]

theorem find?_unique {α : Type} (q : α → Bool) : ∀ (l : List α) (x : α), x ∈ l → q x = true → (∀ y ∈ l, q y = true → y = x) →
    l.find? q = some x
  | [], _, hx, _, _ => by cases hx
  | a :: as, x, hx, hqx, hu => by
    by_cases hqa : q a = true
    · have := hu a List.mem_cons_self hqa
      subst this
      simp [List.find?_cons, hqa]
    · have hxa : x ∈ as := by
        rcases List.mem_cons.mp hx with h | h
        · rw [h] at hqx; exact absurd hqx hqa
        · exact h
      simp only [List.find?_cons, hqa]
      exact find?_unique q as x hxa hqx (fun y hy => hu y (List.mem_cons_of_mem _ hy))

/-- in a file whose indexed names are distinct, the lookup of a name finds *the* item of that name -/
theorem extractType_of_mem (items : List Item) (hnd : (fileDefs items).Nodup) (it : Item) (hit : it ∈ items) (n : Str)
    (hn : inclName it = some n) : extractType items n = parseItem it := by
  rw [fileDefs_eq] at hnd
  rw [extractType_eq, find?_unique (isNamed n) items it hit ((isNamed_iff n it).mpr hn)
    (fun y hy hqy => filterMap_nodup_inj inclName items hnd y hy it hit n ((isNamed_iff n y).mp hqy) hn)]
  rfl

theorem nodup_flatMap_sub {α β : Type} (k : α → List β) : ∀ (l : List α), (l.flatMap k).Nodup → ∀ x ∈ l, (k x).Nodup
  | [], _, x, hx => by cases hx
  | a :: as, h, x, hx => by
    simp only [List.flatMap_cons, List.nodup_append] at h
    rcases List.mem_cons.mp hx with rfl | hx
    · exact h.1
    · exact nodup_flatMap_sub k as h.2.1 x hx

/-- when every indexed name is indexed once in the whole list, the file that indexes a name is found whichever it is -/
theorem defFile_of_mem : ∀ (l : List File), (l.flatMap fun f => fileDefs f.items).Nodup → ∀ f ∈ l, ∀ n,
    n ∈ fileDefs f.items → defFile l n = some f
  | [], _, f, hf, _, _ => by cases hf
  | a :: as, hnd, f, hf, n, hn => by
    simp only [List.flatMap_cons, List.nodup_append] at hnd
    obtain ⟨_, hnd2, hdisj⟩ := hnd
    unfold defFile
    rcases List.mem_cons.mp hf with rfl | hfa
    · -- `f` is the head: no later file indexes `n`
      have hrest : as.filter (fun g => (fileDefs g.items).contains n) = [] := by
        rw [List.filter_eq_nil_iff]
        intro g hg hc
        have hmem : n ∈ fileDefs g.items := by simpa using hc
        exact hdisj n hn n (List.mem_flatMap.mpr ⟨g, hg, hmem⟩) rfl
      have hh : (fileDefs f.items).contains n = true := by simpa using hn
      rw [List.filter_cons]
      simp only [hh, if_true, hrest]
      rfl
    · have hna : ¬ (fileDefs a.items).contains n = true := by
        intro hc
        have hmem : n ∈ fileDefs a.items := by simpa using hc
        exact hdisj n hmem n (List.mem_flatMap.mpr ⟨f, hfa, hn⟩) rfl
      rw [List.filter_cons]
      simp only [hna, if_false]
      exact defFile_of_mem as hnd2 f hfa n hn

theorem defFile_none_of_not_mem (l : List File) (n : Str) (h : n ∉ l.flatMap fun f => fileDefs f.items) : defFile l n = none := by
  unfold defFile
  have : l.filter (fun f => (fileDefs f.items).contains n) = [] := by
    rw [List.filter_eq_nil_iff]
    intro g hg hc
    have hmem : n ∈ fileDefs g.items := by simpa using hc
    exact h (List.mem_flatMap.mpr ⟨g, hg, hmem⟩)
  rw [this]; rfl

theorem mem_defs_of_defFile {l : List File} {n : Str} {f : File} (h : defFile l n = some f) : f ∈ l ∧ n ∈ fileDefs f.items := by
  unfold defFile at h
  have := List.mem_filter.mp (List.mem_of_getLast? h)
  exact ⟨this.1, by simpa using this.2⟩

/-- **C13, moving serde types between files**: let the functions of every file stay where they are and let the serde
    items be redistributed among the processed files in any way — each still present somewhere, the indexed names the same
    multiset as before — in a project that indexes every type name once.  Then the analysis is unchanged: the same
    commands and events, the same set of declarations with the same content. -/
theorem analyze_redistribute_types (p : Project) (g : File → File)
    (hpath : ∀ f ∈ p.files, (g f).relPath = f.relPath ∧ (g f).parses = f.parses)
    (hfn : ∀ f ∈ processed p, fnItems (g f).items = fnItems f.items)
    (hperm : ((processed p).map g |>.flatMap fun f => fileDefs f.items).Perm ((processed p).flatMap fun f => fileDefs f.items))
    (huniq : ((processed p).flatMap fun f => fileDefs f.items).Nodup)
    (hkeep : ∀ f ∈ processed p, ∀ it ∈ f.items, inclName it ≠ none → ∃ f' ∈ processed p, it ∈ (g f').items) :
    analyze { p with files := p.files.map g } = analyze p := by
  -- the processed files of the new project are the images of the old ones
  have hproc : processed { p with files := p.files.map g } = (processed p).map g := by
    unfold processed
    have h1 : (p.files.map g).filter (fileSelected p.absRoot) = (p.files.filter (fileSelected p.absRoot)).map g :=
      filter_map_of g _ p.files (fun f hf => by unfold fileSelected; rw [(hpath f hf).1, (hpath f hf).2])
    show sortedFiles ((p.files.map g).filter (fileSelected p.absRoot)) = _
    rw [h1]
    generalize hl : p.files.filter (fileSelected p.absRoot) = l
    have hl' : ∀ f ∈ l, (g f).relPath = f.relPath := by
      intro f hf; rw [← hl] at hf; exact (hpath f (List.mem_filter.mp hf).1).1
    clear hl h1
    induction l with
    | nil => rfl
    | cons f fs ih =>
      have ih := ih (fun x hx => hl' x (List.mem_cons_of_mem _ hx))
      simp only [List.map_cons, sortedFiles, ih]
      -- insertion commutes with `g` because only paths are compared
      have hins : ∀ (l : List File), (∀ x ∈ l, (g x).relPath = x.relPath) → insertFile (g f) (l.map g) = (insertFile f l).map g := by
        intro l hlp
        induction l with
        | nil => rfl
        | cons x xs ihx =>
          simp only [List.map_cons, insertFile, hl' f List.mem_cons_self, hlp x List.mem_cons_self]
          split
          · simp
          · simp [ihx (fun y hy => hlp y (List.mem_cons_of_mem _ hy))]
      exact hins _ (fun x hx => hl' x (List.mem_cons_of_mem _ (mem_sortedFiles hx)))
  have hpathP : ∀ f ∈ processed p, (g f).relPath = f.relPath := by
    intro f hf
    exact (hpath f (List.mem_filter.mp (mem_sortedFiles hf)).1).1
  have huniq' : (((processed p).map g).flatMap fun f => fileDefs f.items).Nodup := hperm.nodup_iff.mpr huniq
  apply analyze_congr_lookup
  · rw [hproc]
    apply flatMap_map_congr
    intro f hf
    rw [hpathP f hf]; unfold fileCommands; rw [hfn f hf]
  · rw [hproc]
    apply flatMap_map_congr
    intro f hf
    rw [hpathP f hf]; unfold fileEvents; rw [hfn f hf]
  · rw [hproc]; exact hperm.length_eq
  · intro n
    rw [hproc]
    unfold lookupType
    cases hdf : defFile (processed p) n with
    | none =>
      have hnot : n ∉ (processed p).flatMap fun f => fileDefs f.items := by
        intro hmem
        obtain ⟨f, hf, hnf⟩ := List.mem_flatMap.mp hmem
        rw [defFile_of_mem _ huniq f hf n hnf] at hdf; cases hdf
      rw [defFile_none_of_not_mem _ n (fun h => hnot (hperm.mem_iff.mp h))]
    | some f =>
      obtain ⟨hf, hnf⟩ := mem_defs_of_defFile hdf
      rw [fileDefs_eq] at hnf
      obtain ⟨it, hit, hin⟩ := List.mem_filterMap.mp hnf
      obtain ⟨f', hf', hit'⟩ := hkeep f hf it hit (by rw [hin]; simp)
      have hn' : n ∈ fileDefs (g f').items := by rw [fileDefs_eq]; exact List.mem_filterMap.mpr ⟨it, hit', hin⟩
      rw [defFile_of_mem _ huniq' (g f') (List.mem_map.mpr ⟨f', hf', rfl⟩) n hn']
      simp only [Option.bind]
      rw [extractType_of_mem f.items (nodup_flatMap_sub _ _ huniq f hf) it hit n hin,
        extractType_of_mem (g f').items (nodup_flatMap_sub _ _ huniq' (g f') (List.mem_map.mpr ⟨f', hf', rfl⟩)) it hit' n hin]
  · intro n
    rw [hproc]
    by_cases hmem : n ∈ (processed p).flatMap fun f => fileDefs f.items
    · obtain ⟨f, hf, hnf⟩ := List.mem_flatMap.mp hmem
      obtain ⟨f2, hf2, hnf2⟩ := List.mem_flatMap.mp (hperm.mem_iff.mpr hmem)
      rw [defFile_of_mem _ huniq f hf n hnf, defFile_of_mem _ huniq' f2 hf2 n hnf2]
      rfl
    · rw [defFile_none_of_not_mem _ n hmem, defFile_none_of_not_mem _ n (fun h => hmem (hperm.mem_iff.mp h))]

end An
