/-- strings of the functional model: Rust `&str`/`String` as lists of Unicode scalar values -/
abbrev Str := List Char

/-- `cl!"abc"` elaborates to the explicit list `['a','b','c']` (string literals under `.toList` make
    `whnf` in proofs blow up; explicit lists do not) -/
syntax:max "cl!" str : term
macro_rules
  | `(cl! $s:str) => do
    let cs := s.getString.toList.toArray.map (fun c => Lean.Syntax.mkCharLit c)
    `(([$cs,*] : List Char))

example : cl!"ab\"c" = ['a', 'b', '"', 'c'] := rfl
