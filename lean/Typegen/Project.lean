import Typegen.Basic
/-! The project IR: what `syn::parse_file` hands to the analysers, abstracted to the parts they look at.
    Types as generic trees (`GTy`), attributes with the token text proc_macro2 prints, function bodies as
    statement/expression trees, files with their path relative to the project root. -/
namespace Pj

inductive ArgKind | none | angle | paren deriving DecidableEq, Repr

mutual
/-- `syn::Type` as far as the three `type_to_string` variants, `is_tauri_parameter_type`, the channel
    parser and the event symbol table distinguish it -/
inductive GTy where
  | path (segs : GSegs)
  | ref (t : GTy)
  | tuple (ts : GTys)
  | array (t : GTy)
  | slice (t : GTy)
  | other
inductive GSegs where
  | nil
  | cons (ident : Str) (kind : ArgKind) (args : GArgs) (rest : GSegs)
inductive GArgs where
  | nil
  | ty (t : GTy) (rest : GArgs)          -- `GenericArgument::Type`
  | other (rest : GArgs)                 -- lifetime, const, binding, …
inductive GTys where
  | nil
  | cons (t : GTy) (rest : GTys)
end

structure Attr where
  path : List Str
  isList : Bool
  tokens : Str          -- `meta_list.tokens.to_string()`
  metaTokens : Str      -- `meta_list.to_token_stream().to_string()` (used by the derive test)

structure Param where
  patIdent : Option Str  -- `Pat::Ident` name; `none` for any other pattern
  ty : GTy
  attrs : List Attr

mutual
inductive Expr where
  | mcall (recv : Expr) (method : Str) (args : Exprs)
  | call (func : Expr) (args : Exprs)
  | path (segs : List Str)
  | field (base : Expr) (name : Str)
  | struct (segs : List Str)
  | ref (e : Expr)
  | lit (kind : Str) (value : Str)        -- kind ∈ str int float bool other; value = the string's value for str
  | tuple (es : Exprs)
  | await (e : Expr)
  | try (e : Expr)
  | block (body : Stmts)
  | ifE (thenB : Stmts) (elseE : Exprs)   -- else branch: zero or one expression
  | matchE (arms : Exprs)
  | loopE (body : Stmts)                  -- loop / while / for
  | other (sub : Exprs)                   -- anything else (closures, parentheses, macros, …): not searched
inductive Exprs where
  | nil | cons (e : Expr) (rest : Exprs)
inductive Stmt where
  | expr (e : Expr)
  | letS (identName : Option Str) (typedName : Option (Str × GTy)) (init : Option Expr)
  | other
inductive Stmts where
  | nil | cons (s : Stmt) (rest : Stmts)
end

structure FnItem where
  name : Str
  attrs : List Attr
  isAsync : Bool
  params : List Param
  ret : Option GTy
  body : Stmts

inductive Shape | named | unit | tuple deriving DecidableEq, Repr

structure Field where
  name : Str
  isPub : Bool
  ty : GTy
  attrs : List Attr

structure StructItem where
  name : Str
  attrs : List Attr
  shape : Shape
  fields : List Field

inductive VShape | unit | tuple | struct deriving DecidableEq, Repr

structure Variant where
  name : Str
  attrs : List Attr
  shape : VShape

structure EnumItem where
  name : Str
  attrs : List Attr
  variants : List Variant

inductive Item where
  | fn (f : FnItem)
  | struct (s : StructItem)
  | enum (e : EnumItem)
  | other

structure File where
  relPath : Str               -- relative to the project root, `/`-separated
  parses : Bool               -- `syn::parse_file` succeeded
  items : List Item

structure Project where
  absRoot : Str               -- the absolute project path as passed to the walker
  files : List File

end Pj
