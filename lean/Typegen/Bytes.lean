import Typegen.SerdeAttrs
import Typegen.Validator
/-! C15: byte-level model of Rust string slicing.  A `&str` is a `List Char`; indices are *byte* offsets into
    its UTF-8 encoding; `&s[i..]`, `&s[..j]`, `&s[i..j]` panic (here: `none`) when an index is past the end or
    not on a character boundary.  `findB` is `str::find` (byte offset of the first match). -/
namespace B
open A SA

def blen : Str → Nat
  | [] => 0
  | c :: cs => c.utf8Size + blen cs

/-- `&s[i..]` -/
def from? : Str → Nat → Option Str
  | s, 0 => some s
  | [], _ + 1 => none
  | c :: cs, i + 1 => if c.utf8Size ≤ i + 1 then from? cs (i + 1 - c.utf8Size) else none

/-- `&s[..j]` -/
def to? : Str → Nat → Option Str
  | _, 0 => some []
  | [], _ + 1 => none
  | c :: cs, j + 1 => if c.utf8Size ≤ j + 1 then (to? cs (j + 1 - c.utf8Size)).map (c :: ·) else none

/-- `&s[i..j]` -/
def slice? (s : Str) (i j : Nat) : Option Str :=
  if i ≤ j then (from? s i).bind fun r => to? r (j - i) else none

/-- `str::find(pat)`: byte offset of the first occurrence -/
def findB (pat : Str) : Str → Option Nat
  | [] => if pat = [] then some 0 else none
  | c :: cs => if startsWith (c :: cs) pat then some 0 else (findB pat cs).map (· + c.utf8Size)

theorem utf8_pos (c : Char) : 0 < c.utf8Size := Char.utf8Size_pos c

@[simp] theorem blen_nil : blen [] = 0 := rfl
@[simp] theorem blen_cons (c : Char) (cs : Str) : blen (c :: cs) = c.utf8Size + blen cs := rfl

theorem blen_append (a b : Str) : blen (a ++ b) = blen a + blen b := by
  induction a with
  | nil => simp
  | cons c cs ih => simp [ih]; omega

/-- slicing at the byte offset of a character index never panics and yields the character-level `drop` -/
theorem from?_take (s : Str) (k : Nat) (hk : k ≤ s.length) : from? s (blen (s.take k)) = some (s.drop k) := by
  induction s generalizing k with
  | nil => simp [from?]
  | cons c cs ih =>
    cases k with
    | zero => simp [from?]
    | succ k =>
      have hk' : k ≤ cs.length := by simpa using hk
      have hp := utf8_pos c
      simp only [List.take_succ_cons, blen_cons, List.drop_succ_cons]
      have : c.utf8Size + blen (cs.take k) = (c.utf8Size + blen (cs.take k) - 1) + 1 := by omega
      rw [this, from?]
      have h1 : c.utf8Size ≤ c.utf8Size + blen (List.take k cs) - 1 + 1 := by omega
      rw [if_pos h1]
      have : c.utf8Size + blen (List.take k cs) - 1 + 1 - c.utf8Size = blen (cs.take k) := by omega
      rw [this, ih k hk']

theorem to?_take (s : Str) (k : Nat) (hk : k ≤ s.length) : to? s (blen (s.take k)) = some (s.take k) := by
  induction s generalizing k with
  | nil => simp [to?]
  | cons c cs ih =>
    cases k with
    | zero => simp [to?]
    | succ k =>
      have hk' : k ≤ cs.length := by simpa using hk
      have hp := utf8_pos c
      simp only [List.take_succ_cons, blen_cons]
      have : c.utf8Size + blen (cs.take k) = (c.utf8Size + blen (cs.take k) - 1) + 1 := by omega
      rw [this, to?]
      have h1 : c.utf8Size ≤ c.utf8Size + blen (List.take k cs) - 1 + 1 := by omega
      rw [if_pos h1]
      have : c.utf8Size + blen (List.take k cs) - 1 + 1 - c.utf8Size = blen (cs.take k) := by omega
      rw [this, ih k hk']; rfl

/-- `find` returns the byte offset of the character index the character-level search returns -/
theorem findB_eq (pat s : Str) : findB pat s = (findSub pat s).map fun k => blen (s.take k) := by
  induction s with
  | nil => simp only [findB, findSub]; split <;> simp
  | cons c cs ih =>
    simp only [findB, findSub]
    split
    · simp
    · rw [ih]; cases findSub pat cs <;> simp; omega

theorem findSub_le (pat s : Str) (k : Nat) (h : findSub pat s = some k) : k ≤ s.length := by
  induction s generalizing k with
  | nil => simp only [findSub] at h; split at h <;> simp_all
  | cons c cs ih =>
    simp only [findSub] at h
    split at h
    · simp at h; subst h; simp
    · cases hf : findSub pat cs with
      | none => simp [hf] at h
      | some j => simp [hf] at h; have := ih j hf; simp; omega

theorem findSub_startsWith (pat s : Str) (k : Nat) (h : findSub pat s = some k) : startsWith (s.drop k) pat = true := by
  induction s generalizing k with
  | nil => simp only [findSub] at h; split at h <;> simp_all [startsWith]
  | cons c cs ih =>
    simp only [findSub] at h
    split at h
    · rename_i hs; simp at h; subst h; simpa using hs
    · cases hf : findSub pat cs with
      | none => simp [hf] at h
      | some j => simp [hf] at h; subst h; simpa using ih j hf

theorem startsWith_length {s p : Str} (h : startsWith s p = true) : p.length ≤ s.length := by
  induction p generalizing s with
  | nil => simp
  | cons b p ih =>
    cases s with
    | nil => simp [startsWith] at h
    | cons a s => simp [startsWith] at h; have := ih h.2; simp; omega

theorem startsWith_take {s p : Str} (h : startsWith s p = true) : s.take p.length = p := by
  induction p generalizing s with
  | nil => simp
  | cons b p ih =>
    cases s with
    | nil => simp [startsWith] at h
    | cons a s => simp [startsWith] at h; simp [h.1, ih h.2]

theorem blen_take_add (s : Str) (k n : Nat) : blen (s.take (k + n)) = blen (s.take k) + blen ((s.drop k).take n) := by
  rw [List.take_add, blen_append]

/-- the single-character search of the attribute model is `findSub` with a one-character pattern -/
theorem findCh_eq (c : Char) (s : Str) : findCh c s = findSub [c] s := by
  induction s with
  | nil => simp [findCh, findSub]
  | cons x xs ih =>
    simp only [findCh, findSub, startsWith]
    by_cases h : x = c
    · simp [h, startsWith]
    · have : (x == c) = false := by simpa using h
      simp [h, this, ih]

theorem trimStartWs_suffix (s : Str) : ∃ k, k ≤ s.length ∧ trimStartWs s = s.drop k := by
  induction s with
  | nil => exact ⟨0, by simp, rfl⟩
  | cons c cs ih =>
    simp only [trimStartWs]
    split
    · obtain ⟨k, hk, e⟩ := ih; exact ⟨k + 1, by simp; omega, by simpa using e⟩
    · exact ⟨0, by simp, rfl⟩

theorem blen_drop (s : Str) (k : Nat) : blen s = blen (s.take k) + blen (s.drop k) := by
  rw [← blen_append, List.take_append_drop]

end B

namespace B
open A SA

/-- the tail of `parse_rename` / `parse_rename_all`: the text between the first two `"` -/
def firstQuotedB (ae : Str) : Option (Option Str) :=
  match findB ['"'] ae with
  | none => some none
  | some q1 =>
    match from? ae (q1 + 1) with
    | none => none
    | some r =>
      match findB ['"'] r with
      | none => some none
      | some q2 => (slice? ae (q1 + 1) (q1 + 1 + q2)).map some

/-- `SerdeParser::parse_rename` with Rust's byte offsets; outer `none` = a slice panicked -/
def parseRenameB : Nat → Str → Nat → Option (Option Str)
  | 0, _, _ => some none
  | fuel + 1, tokens, start =>
    match from? tokens start with
    | none => none
    | some rest =>
      match findB kwRename rest with
      | none => some none
      | some pos =>
        let abs := start + pos
        match from? tokens (abs + 6) with
        | none => none
        | some after =>
          let trimmed := trimStartWs after
          if startsWith trimmed kwAll then
            parseRenameB fuel tokens (abs + 6 + (blen after - blen trimmed) + 4)
          else
            match findB ['='] after with
            | none => some none
            | some eq =>
              match from? after (eq + 1) with
              | none => none
              | some ae0 => firstQuotedB (trimStartWs ae0)

/-- the arithmetic before fix 1fa3690: a fixed skip of 10 bytes -/
def parseRenameOldB : Nat → Str → Nat → Option (Option Str)
  | 0, _, _ => some none
  | fuel + 1, tokens, start =>
    match from? tokens start with
    | none => none
    | some rest =>
      match findB kwRename rest with
      | none => some none
      | some pos =>
        let abs := start + pos
        match from? tokens (abs + 6) with
        | none => none
        | some after =>
          if startsWith (trimStartWs after) kwAll then parseRenameOldB fuel tokens (abs + 10)
          else
            match findB ['='] after with
            | none => some none
            | some eq =>
              match from? after (eq + 1) with
              | none => none
              | some ae0 => firstQuotedB (trimStartWs ae0)

/-- advancing past a pattern that is there: byte offset of `k`, plus the byte length of the pattern -/
theorem from?_past (s pat : Str) (k : Nat) (hk : k ≤ s.length) (h : startsWith (s.drop k) pat = true) :
    from? s (blen (s.take k) + blen pat) = some (s.drop (k + pat.length)) ∧ k + pat.length ≤ s.length := by
  have hl := startsWith_length h
  have hl' : k + pat.length ≤ s.length := by simp at hl; omega
  have e : blen (s.take k) + blen pat = blen (s.take (k + pat.length)) := by
    rw [blen_take_add, startsWith_take h]
  rw [e]
  exact ⟨from?_take s _ hl', hl'⟩

theorem findB_some (pat s : Str) (i : Nat) (h : findB pat s = some i) :
    ∃ k, findSub pat s = some k ∧ i = blen (s.take k) ∧ k ≤ s.length ∧ startsWith (s.drop k) pat = true := by
  rw [findB_eq] at h
  cases hf : findSub pat s with
  | none => simp [hf] at h
  | some k =>
    simp [hf] at h
    exact ⟨k, rfl, h.symm, findSub_le pat s k hf, findSub_startsWith pat s k hf⟩

theorem findB_none (pat s : Str) (h : findB pat s = none) : findSub pat s = none := by
  rw [findB_eq] at h
  cases hf : findSub pat s <;> simp_all

theorem firstQuotedB_eq (ae : Str) : firstQuotedB ae = some (firstQuoted ae) := by
  unfold firstQuotedB firstQuoted
  rw [findCh_eq]
  cases h1 : findB ['"'] ae with
  | none => simp [findB_none _ _ h1]
  | some q1 =>
    obtain ⟨a, ha, hq1, hle, hsw⟩ := findB_some _ _ _ h1
    have hp := from?_past ae ['"'] a hle hsw
    have hb : blen ['"'] = 1 := by decide
    simp only [hb, List.length_singleton] at hp
    subst hq1
    simp only [ha, hp.1, findCh_eq]
    cases h2 : findB ['"'] (ae.drop (a + 1)) with
    | none => simp [findB_none _ _ h2]
    | some q2 =>
      obtain ⟨b, hb2, hq2, hle2, _⟩ := findB_some _ _ _ h2
      subst hq2
      simp only [hb2, slice?, hp.1]
      have h3 : blen (List.take a ae) + 1 ≤ blen (List.take a ae) + 1 + blen (List.take b (List.drop (a + 1) ae)) := by omega
      simp only [h3, if_true, Option.bind]
      have e : blen (List.take a ae) + 1 + blen (List.take b (List.drop (a + 1) ae)) - (blen (List.take a ae) + 1)
          = blen (List.take b (List.drop (a + 1) ae)) := by omega
      rw [e, to?_take _ _ hle2]; rfl

theorem firstQuoted_trim (s : Str) : firstQuoted (trimStartWs s) = firstQuoted s := by
  induction s with
  | nil => rfl
  | cons c cs ih =>
    simp only [trimStartWs]
    split
    · rename_i hw
      rw [ih]
      have hc : c ≠ '"' := by intro h; subst h; revert hw; decide
      simp [firstQuoted, findCh, hc]
      cases findCh '"' cs <;> simp
    · rfl

end B

/-! ## `parse_message_from_content` at byte level -/
namespace B
open A SA VP

/-- the `for (i, ch) in rest.char_indices()` loop of `parse_message_from_content`: byte offset of the closing quote -/
def scanB (q : Char) : Bool → Str → Nat → Option Nat
  | _, [], _ => none
  | true, c :: cs, i => scanB q false cs (i + c.utf8Size)
  | false, c :: cs, i =>
    if c = '\\' then scanB q true cs (i + c.utf8Size)
    else if c = q then some i
    else scanB q false cs (i + c.utf8Size)

/-- the loop before fix f278ab8: `chars().enumerate()` counts characters, the slice takes bytes -/
def scanOldB (q : Char) : Bool → Str → Nat → Option Nat
  | _, [], _ => none
  | true, _ :: cs, i => scanOldB q false cs (i + 1)
  | false, c :: cs, i =>
    if c = '\\' then scanOldB q true cs (i + 1)
    else if c = q then some i
    else scanOldB q false cs (i + 1)

theorem scanB_eq (q : Char) : ∀ (e : Bool) (s : Str) (i : Nat),
    scanB q e s i = (scanQuoted q e s).map fun pre => i + blen pre
  | _, [], _ => by cases ‹Bool› <;> simp [scanB, scanQuoted]
  | true, c :: cs, i => by
    simp only [scanB, scanQuoted, scanB_eq q false cs]
    cases scanQuoted q false cs <;> simp; omega
  | false, c :: cs, i => by
    simp only [scanB, scanQuoted]
    split
    · rw [scanB_eq q true cs]; cases scanQuoted q true cs <;> simp; omega
    · split
      · simp
      · rw [scanB_eq q false cs]; cases scanQuoted q false cs <;> simp; omega

/-- what the scan returns is a prefix of the scanned text -/
theorem scanQuoted_prefix (q : Char) : ∀ (e : Bool) (s pre : Str), scanQuoted q e s = some pre → ∃ k, k ≤ s.length ∧ pre = s.take k
  | _, [], pre, h => by cases ‹Bool› <;> simp [scanQuoted] at h
  | true, c :: cs, pre, h => by
    simp only [scanQuoted] at h
    cases hs : scanQuoted q false cs with
    | none => simp [hs] at h
    | some p =>
      simp [hs] at h
      obtain ⟨k, hk, rfl⟩ := scanQuoted_prefix q false cs p hs
      exact ⟨k + 1, by simp; omega, by simp [← h]⟩
  | false, c :: cs, pre, h => by
    simp only [scanQuoted] at h
    split at h
    · cases hs : scanQuoted q true cs with
      | none => simp [hs] at h
      | some p =>
        simp [hs] at h
        obtain ⟨k, hk, rfl⟩ := scanQuoted_prefix q true cs p hs
        exact ⟨k + 1, by simp; omega, by simp [← h]⟩
    · split at h
      · exact ⟨0, by simp, by simpa using h.symm⟩
      · cases hs : scanQuoted q false cs with
        | none => simp [hs] at h
        | some p =>
          simp [hs] at h
          obtain ⟨k, hk, rfl⟩ := scanQuoted_prefix q false cs p hs
          exact ⟨k + 1, by simp; omega, by simp [← h]⟩

/-- `parse_message_from_content` with Rust's byte offsets; outer `none` = a slice panicked -/
def parseMessageB (content : Str) : Option (Option Str) :=
  match findB kwMessage content with
  | none => some none
  | some mp =>
    match from? content mp with
    | none => none
    | some tail =>
      match findB ['='] tail with
      | none => some none
      | some eq =>
        match from? content (mp + eq + 1) with
        | none => none
        | some ae0 =>
          match trimStartWs ae0 with
          | [] => some none
          | q :: rest0 =>
            if q = '"' || q = '\'' then
              match from? (q :: rest0) 1 with
              | none => none
              | some rest =>
                match scanB q false rest 0 with
                | none => some none
                | some i => (to? rest i).map fun m => some (unescapeMsg m)
            else some none

theorem parseMessageB_refines (content : Str) : parseMessageB content = some (parseMessage content) := by
  unfold parseMessageB parseMessage
  cases hf : findB kwMessage content with
  | none => simp [findB_none _ _ hf]
  | some mp =>
    obtain ⟨k, hk, hmp, hkle, _⟩ := findB_some _ _ _ hf
    subst hmp
    simp only [hk, from?_take content k hkle]
    rw [findCh_eq]
    cases he : findB ['='] (content.drop k) with
    | none => simp [findB_none _ _ he]
    | some eq =>
      obtain ⟨e, hfe, heq, hele, hesw⟩ := findB_some _ _ _ he
      subst heq
      simp only [hfe]
      -- content[mp + eq + 1 ..] = (content.drop k).drop (e + 1)
      have h1 : blen (content.take k) + blen ((content.drop k).take e) + 1 = blen (content.take (k + e)) + blen ['='] := by
        rw [blen_take_add]; rfl
      have hsw' : startsWith (content.drop (k + e)) ['='] = true := by rw [← List.drop_drop]; exact hesw
      have hke : k + e ≤ content.length := by simp at hele; omega
      have hp := from?_past content ['='] (k + e) hke hsw'
      simp only [List.length_singleton] at hp
      rw [h1, hp.1]
      have ed : List.drop (k + e + 1) content = List.drop (e + 1) (List.drop k content) := by
        rw [List.drop_drop, Nat.add_assoc]
      rw [ed]
      simp only
      cases ht : trimStartWs (List.drop (e + 1) (List.drop k content)) with
      | nil => rfl
      | cons q rest0 =>
        simp only
        by_cases hq : (q = '"' || q = '\'') = true
        · simp only [hq, if_true]
          have hq1 : q.utf8Size = 1 := by
            simp only [Bool.or_eq_true, decide_eq_true_eq] at hq
            rcases hq with rfl | rfl <;> decide
          have hfrom : from? (q :: rest0) 1 = some rest0 := by
            have := from?_take (q :: rest0) 1 (by simp)
            simpa [hq1] using this
          rw [hfrom]
          simp only [scanB_eq]
          cases hs : scanQuoted q false rest0 with
          | none => rfl
          | some pre =>
            obtain ⟨j, hj, rfl⟩ := scanQuoted_prefix q false rest0 pre hs
            simp [to?_take rest0 j hj]
        · simp only [hq, Bool.false_eq_true, if_false]

end B

namespace B
open A SA VP
/-- the loop before fix f278ab8 inside the same function -/
def parseMessageOldB (content : Str) : Option (Option Str) :=
  match findB kwMessage content with
  | none => some none
  | some mp =>
    match from? content mp with
    | none => none
    | some tail =>
      match findB ['='] tail with
      | none => some none
      | some eq =>
        match from? content (mp + eq + 1) with
        | none => none
        | some ae0 =>
          match trimStartWs ae0 with
          | [] => some none
          | q :: rest0 =>
            if q = '"' || q = '\'' then
              match from? (q :: rest0) 1 with
              | none => none
              | some rest =>
                match scanOldB q false rest 0 with
                | none => some none
                | some i => (to? rest i).map fun m => some (unescapeMsg m)
            else some none

example : parseMessageOldB cl!"min = 1 , message = \"é\"" = none := by decide +kernel
example : parseMessageB cl!"min = 1 , message = \"é\"" = some (some cl!"é") := by decide +kernel
end B
