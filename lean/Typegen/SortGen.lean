import Typegen.Analyze
/-! Generic insertion sort by a Boolean order (permutation invariance under antisymmetry on the elements), the
    path order of the file walk, and the permutation invariance of the whole analysis model (C13). -/
namespace SG

variable {α : Type}

def ins (le : α → α → Bool) (x : α) : List α → List α
  | [] => [x]
  | y :: ys => if le x y then x :: y :: ys else y :: ins le x ys

def isort (le : α → α → Bool) : List α → List α
  | [] => []
  | x :: xs => ins le x (isort le xs)

theorem ins_perm (le : α → α → Bool) (x : α) : ∀ l, (ins le x l).Perm (x :: l)
  | [] => List.Perm.refl _
  | y :: ys => by
    unfold ins
    split
    · exact List.Perm.refl _
    · exact ((ins_perm le x ys).cons y).trans (List.Perm.swap x y ys)

theorem isort_perm_self (le : α → α → Bool) : ∀ l, (isort le l).Perm l
  | [] => List.Perm.refl _
  | x :: xs => (ins_perm le x (isort le xs)).trans ((isort_perm_self le xs).cons x)

theorem ins_pairwise (le : α → α → Bool) (total : ∀ a b, (le a b || le b a) = true)
    (trans : ∀ a b c, le a b = true → le b c = true → le a c = true) (x : α) :
    ∀ l, l.Pairwise (fun a b => le a b = true) → (ins le x l).Pairwise (fun a b => le a b = true)
  | [], _ => by simp [ins]
  | y :: ys, h => by
    unfold ins
    have hy := List.pairwise_cons.mp h
    split
    · next hxy =>
      apply List.pairwise_cons.mpr
      refine ⟨?_, h⟩
      intro z hz
      rcases List.mem_cons.mp hz with rfl | hz
      · exact hxy
      · exact trans x y z hxy (hy.1 z hz)
    · next hxy =>
      have hyx : le y x = true := by
        have := total x y
        simp only [Bool.or_eq_true] at this
        rcases this with h1 | h1
        · exact absurd h1 hxy
        · exact h1
      apply List.pairwise_cons.mpr
      refine ⟨?_, ins_pairwise le total trans x ys hy.2⟩
      intro z hz
      have := (ins_perm le x ys).mem_iff.mp hz
      rcases List.mem_cons.mp this with rfl | hz'
      · exact hyx
      · exact hy.1 z hz'

theorem isort_pairwise (le : α → α → Bool) (total : ∀ a b, (le a b || le b a) = true)
    (trans : ∀ a b c, le a b = true → le b c = true → le a c = true) :
    ∀ l, (isort le l).Pairwise (fun a b => le a b = true)
  | [] => List.Pairwise.nil
  | x :: xs => ins_pairwise le total trans x _ (isort_pairwise le total trans xs)

/-- two enumerations of the same entries sort to the same list, when `le` is antisymmetric on the entries -/
theorem isort_perm (le : α → α → Bool) (total : ∀ a b, (le a b || le b a) = true)
    (trans : ∀ a b c, le a b = true → le b c = true → le a c = true)
    {l₁ l₂ : List α} (h : l₁.Perm l₂)
    (antisymm : ∀ a b, a ∈ l₁ → b ∈ l₁ → le a b = true → le b a = true → a = b) :
    isort le l₁ = isort le l₂ := by
  apply List.Perm.eq_of_pairwise (le := fun a b => le a b = true)
  · intro a b ha hb h1 h2
    exact antisymm a b ((isort_perm_self le l₁).mem_iff.mp ha) (h.mem_iff.mpr ((isort_perm_self le l₂).mem_iff.mp hb)) h1 h2
  · exact isort_pairwise le total trans l₁
  · exact isort_pairwise le total trans l₂
  · exact (isort_perm_self le l₁).trans (h.trans (isort_perm_self le l₂).symm)

end SG

namespace An
open Pj O

theorem lePath_refl : ∀ a : List Str, lePath a a = true
  | [] => rfl
  | x :: xs => by simp [lePath, lePath_refl xs]

theorem lePath_total : ∀ a b : List Str, (lePath a b || lePath b a) = true
  | [], _ => by simp [lePath]
  | _ :: _, [] => by simp [lePath]
  | x :: xs, y :: ys => by
    by_cases h : x = y
    · subst h; simp [lePath, lePath_total xs ys]
    · have h' : ¬ y = x := fun e => h e.symm
      simp only [lePath, h, h', if_false]
      exact leStr_total x y

theorem lePath_antisymm : ∀ a b : List Str, lePath a b = true → lePath b a = true → a = b
  | [], [], _, _ => rfl
  | [], _ :: _, _, h => by simp [lePath] at h
  | _ :: _, [], h, _ => by simp [lePath] at h
  | x :: xs, y :: ys, h1, h2 => by
    by_cases h : x = y
    · subst h
      simp only [lePath, if_true] at h1 h2
      rw [lePath_antisymm xs ys h1 h2]
    · have h' : ¬ y = x := fun e => h e.symm
      simp only [lePath, h, h', if_false] at h1 h2
      exact absurd (leStr_antisymm x y h1 h2) h

theorem lePath_trans : ∀ a b c : List Str, lePath a b = true → lePath b c = true → lePath a c = true
  | [], _, _, _, _ => by simp [lePath]
  | _ :: _, [], _, h, _ => by simp [lePath] at h
  | _ :: _, _ :: _, [], _, h => by simp [lePath] at h
  | x :: xs, y :: ys, z :: zs, h1, h2 => by
    by_cases hxy : x = y
    · subst hxy
      by_cases hxz : x = z
      · subst hxz
        simp only [lePath, if_true] at h1 h2 ⊢
        exact lePath_trans xs ys zs h1 h2
      · simp only [lePath, if_true, hxz, if_false] at h1 h2 ⊢
        exact h2
    · by_cases hyz : y = z
      · subst hyz
        simp only [lePath, hxy, if_false] at h1 ⊢
        exact h1
      · simp only [lePath, hxy, hyz, if_false] at h1 h2
        by_cases hxz : x = z
        · subst hxz
          exact absurd (leStr_antisymm x y h1 h2) hxy
        · simp only [lePath, hxz, if_false]
          exact leStr_trans x y z h1 h2

def fileLe (f g : File) : Bool := lePath (splitPath f.relPath) (splitPath g.relPath)

theorem sortedFiles_eq_isort : ∀ l : List File, sortedFiles l = SG.isort fileLe l
  | [] => rfl
  | f :: fs => by
    simp only [sortedFiles, SG.isort, sortedFiles_eq_isort fs]
    generalize SG.isort fileLe fs = l
    induction l with
    | nil => rfl
    | cons g gs ih => simp only [insertFile, SG.ins, fileLe, ih]; rfl

/-- `s.split('/')` loses nothing -/
def joinSlash : List Str → Str
  | [] => []
  | [a] => a
  | a :: b :: rest => a ++ '/' :: joinSlash (b :: rest)

theorem join_split (s : Str) : joinSlash (S.splitOn '/' s) = s := by
  induction s with
  | nil => rfl
  | cons x xs ih =>
    unfold S.splitOn
    split
    · next hx =>
      subst hx
      have hne := S.splitOn_ne_nil '/' xs
      cases hs : S.splitOn '/' xs with
      | nil => exact absurd hs hne
      | cons a t => rw [hs] at ih; simp [joinSlash, ih]
    · have hne := S.splitOn_ne_nil '/' xs
      cases hs : S.splitOn '/' xs with
      | nil => exact absurd hs hne
      | cons a t =>
        rw [hs] at ih
        cases t with
        | nil => simp [joinSlash] at ih ⊢; exact ih
        | cons b r => simp [joinSlash] at ih ⊢; exact ih

theorem splitPath_inj {s t : Str} (h : splitPath s = splitPath t) : s = t := by
  have := congrArg joinSlash h
  simpa [splitPath, join_split] using this

end An

namespace An
open Pj O

/-- sorted processing order does not depend on the order the directory walk delivers the files in -/
theorem sortedFiles_perm {l₁ l₂ : List File} (h : l₁.Perm l₂)     (hitems : ∀ f g, f ∈ l₁ → g ∈ l₁ → f.relPath = g.relPath → f = g) : sortedFiles l₁ = sortedFiles l₂ := by
  rw [sortedFiles_eq_isort, sortedFiles_eq_isort]
  apply SG.isort_perm fileLe
  · intro a b; exact lePath_total _ _
  · intro a b c; exact lePath_trans _ _ _
  · exact h
  · intro a b ha hb h1 h2
    exact hitems a b ha hb (splitPath_inj (lePath_antisymm _ _ h1 h2))

/-- **C13 on the whole analysis model**: the analysis (commands in order, events, discovered types, dependency
    sets) is the same for every order in which the directory walk enumerates the files — paths being unique. -/
theorem analyze_perm (p₁ p₂ : Project) (hr : p₁.absRoot = p₂.absRoot) (h : p₁.files.Perm p₂.files)
    (huniq : ∀ f g, f ∈ p₁.files → g ∈ p₁.files → f.relPath = g.relPath → f = g) : analyze p₁ = analyze p₂ := by
  have hf : (p₁.files.filter (fileSelected p₁.absRoot)).Perm (p₂.files.filter (fileSelected p₂.absRoot)) := by
    rw [hr]; exact h.filter _
  have hs : sortedFiles (p₁.files.filter (fileSelected p₁.absRoot)) = sortedFiles (p₂.files.filter (fileSelected p₂.absRoot)) := by
    rw [sortedFiles_eq_isort, sortedFiles_eq_isort]
    apply SG.isort_perm fileLe
    · intro a b; exact lePath_total _ _
    · intro a b c; exact lePath_trans _ _ _
    · exact hf
    · intro a b ha hb h1 h2
      exact huniq a b (List.mem_filter.mp ha).1 (List.mem_filter.mp hb).1 (splitPath_inj (lePath_antisymm _ _ h1 h2))
  unfold analyze
  simp only [hs]

end An
