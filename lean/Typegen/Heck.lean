import Batteries.Data.Char.Basic
import Typegen.HeckDefs
namespace H
theorem split_cons_us (cs : Str) : splitUnderscore ('_' :: cs) = [] :: splitUnderscore cs := by
  simp [splitUnderscore]

theorem split_ne_nil (s : Str) : splitUnderscore s ≠ [] := by
  cases s with
  | nil => simp [splitUnderscore]
  | cons c cs =>
    unfold splitUnderscore; split
    · simp
    · cases splitUnderscore cs <;> simp [consWord]

/-- heckGo over the split = scan; generalised over "a word is in progress" -/
theorem heck_scan_eq : ∀ (s : Str) (first : Bool),
    heckGo first (splitUnderscore s) = heckScan first true s ∧
    (∀ (c : Char), c ≠ '_' →
      -- a word starting with c then continuing with the first word of s
      heckGo first (consWord c (splitUnderscore s))
        = (if first then c else upc c) :: heckScan false false s)
  | [], first => by
    constructor
    · simp [splitUnderscore, heckGo, heckScan]
    · intro c _
      cases first <;> simp [splitUnderscore, consWord, heckGo, heckScan, capitalize]
  | x :: xs, first => by
    have ih := heck_scan_eq xs
    by_cases hx : x = '_'
    · subst hx
      constructor
      · rw [split_cons_us]; simp only [heckGo, if_true]
        rw [(ih first).1]; simp [heckScan]
      · intro c hc
        rw [split_cons_us]
        simp only [consWord, heckGo, List.cons_ne_nil, if_false]
        cases first
        · simp only [Bool.false_eq_true, if_false, capitalize, List.cons_append, List.nil_append, heckGo, if_true]
          rw [(ih false).1]; simp [heckScan]
        · simp only [if_true, List.cons_append, List.nil_append, heckGo]
          rw [(ih false).1]; simp [heckScan]
    · constructor
      · have := (ih first).2 x hx
        simp only [splitUnderscore, hx, if_false]
        rw [this]
        cases first <;> simp [heckScan, hx]
      · intro c hc
        have h2 := (ih false).2 x hx
        simp only [splitUnderscore, hx, if_false]
        -- the word is c :: x :: w
        cases hsp : splitUnderscore xs with
        | nil => exact absurd hsp (split_ne_nil xs)
        | cons w ws =>
          rw [hsp] at h2
          simp only [consWord, heckGo, List.cons_ne_nil, if_false] at h2 ⊢
          cases first
          · simp only [Bool.false_eq_true, if_false, capitalize, List.cons_append] at h2 ⊢
            simp only [heckScan, hx, if_false, Bool.false_eq_true, not_false_eq_true, and_true, false_and]
            have : w ++ heckGo false ws = heckScan false false xs := by
              have := h2; simp only [List.cons.injEq] at this; exact this.2
            rw [this]
          · simp only [Bool.false_eq_true, if_false, capitalize, List.cons_append] at h2
            simp only [if_true, List.cons_append]
            simp only [heckScan, hx, if_false, Bool.false_eq_true, false_and]
            have : w ++ heckGo false ws = heckScan false false xs := by
              have := h2; simp only [List.cons.injEq] at this; exact this.2
            rw [this]

end H

namespace H

theorem pascal_scan : ∀ (s : Str) (cap : Bool), pascalGo cap s = heckScan false cap s
  | [], cap => by simp [pascalGo, heckScan]
  | c :: cs, cap => by
    by_cases hc : c = '_'
    · simp [pascalGo, heckScan, hc, pascal_scan cs true]
    · cases cap <;> simp [pascalGo, heckScan, hc, pascal_scan cs false]

theorem lowc_upc (c : Char) (h : isSnakeCh c = true) (hu : c ≠ '_') : lowc (upc c) = c := by
  simp only [isSnakeCh, Bool.or_eq_true, decide_eq_true_eq, Bool.and_eq_true] at h
  by_cases hl : 'a' ≤ c ∧ c ≤ 'z'
  · -- lowercase letter: upc gives the capital, lowc brings it back
    have h1 : 97 ≤ c.toNat := hl.1
    have h2 : c.toNat ≤ 122 := hl.2
    have hv : (c.toNat - 32).isValidChar := by
      left; omega
    have hnat : (Char.ofNat (c.toNat - 32)).toNat = c.toNat - 32 := by
      rw [Char.toNat_ofNat, if_pos hv]
    have hA : 'A' ≤ Char.ofNat (c.toNat - 32) ∧ Char.ofNat (c.toNat - 32) ≤ 'Z' := by
      constructor
      · show (65 : Nat) ≤ (Char.ofNat (c.toNat - 32)).toNat; rw [hnat]; omega
      · show (Char.ofNat (c.toNat - 32)).toNat ≤ 90; rw [hnat]; omega
    simp only [upc, hl, and_self, if_true, lowc, hA]
    rw [hnat]
    have : c.toNat - 32 + 32 = c.toNat := by omega
    rw [this]; simp
  · -- digit: both maps are the identity
    have hd : '0' ≤ c ∧ c ≤ '9' := by
      rcases h with h | h | h
      · exact absurd h hl
      · exact h
      · exact absurd h hu
    have hnA : ¬ ('A' ≤ c ∧ c ≤ 'Z') := by
      intro ⟨h1, _⟩
      have a1 : (65 : Nat) ≤ c.toNat := h1
      have a2 : c.toNat ≤ 57 := hd.2
      omega
    simp [upc, lowc, hl, hnA]

/-- C04 `key_rule`: on snake-case identifiers with at least one letter or digit, the tool's
    camelCase (serde's field rule) is exactly Tauri's (`heck::to_lower_camel_case`). -/
theorem key_rule (s : Str) (hs : ∀ c ∈ s, isSnakeCh c = true) (hne : ∃ c ∈ s, c ≠ '_') :
    serdeCamel s = some (heckLowerCamel s) := by
  unfold heckLowerCamel
  rw [(heck_scan_eq s true).1]
  unfold serdeCamel serdePascal
  induction s with
  | nil => obtain ⟨c, hc, _⟩ := hne; simp at hc
  | cons x xs ih =>
    by_cases hx : x = '_'
    · subst hx
      have hne' : ∃ c ∈ xs, c ≠ '_' := by
        obtain ⟨c, hc, hcu⟩ := hne
        simp only [List.mem_cons] at hc
        rcases hc with rfl | hc
        · exact absurd rfl hcu
        · exact ⟨c, hc, hcu⟩
      have := ih (fun c hc => hs c (List.mem_cons_of_mem _ hc)) hne'
      simpa [pascalGo, heckScan] using this
    · have hsx := hs x (by simp)
      simp only [pascalGo, hx, if_false, if_true, heckScan, Bool.true_eq_false, not_true_eq_false, and_false]
      rw [lowc_upc x hsx hx, pascal_scan xs false]

end H
