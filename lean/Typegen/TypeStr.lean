import Typegen.Basic
import Typegen.Generated.Tables
/-! Probe: full L1 — model of `TypeResolver::parse_type_structure` and `type_to_string`,
    round trip on the CommaSafe fragment. -/
namespace L

/-! ### string primitives (Rust `str` API on `List Char`) -/
def startsWith : Str → Str → Bool
  | _, [] => true
  | [], _ :: _ => false
  | a :: s, b :: p => a == b && startsWith s p
def endsWithCh (s : Str) (c : Char) : Bool := s.getLast? == some c
/-- `&s[k .. s.len()-1]` -/
def inner (k : Nat) (s : Str) : Str := (s.drop k).dropLast
def trimStart : Str → Str
  | ' ' :: xs => trimStart xs
  | xs => xs
def trim (s : Str) : Str := (trimStart (trimStart s).reverse).reverse
/-- `s.find(',')` -/
def findComma : Str → Option Nat
  | [] => none
  | c :: cs => if c = ',' then some 0 else (findComma cs).map (· + 1)
/-- `s.split(',')` -/
def splitComma : Str → List Str
  | [] => [[]]
  | x :: xs =>
    if x = ',' then [] :: splitComma xs
    else match splitComma xs with
      | [] => [[x]]
      | h :: t => (x :: h) :: t
/-- the scan of `parse_two_type_params`: first `,` at `<>`-depth 0 -/
def topComma : Int → Str → Option Nat
  | _, [] => none
  | d, c :: cs =>
    if c = '<' then (topComma (d + 1) cs).map (· + 1)
    else if c = '>' then (topComma (d - 1) cs).map (· + 1)
    else if c = ',' ∧ d = 0 then some 0
    else (topComma d cs).map (· + 1)

def kwOption : Str := ['O','p','t','i','o','n','<']
def kwResult : Str := ['R','e','s','u','l','t','<']
def kwVec : Str := ['V','e','c','<']
def kwHashMap : Str := ['H','a','s','h','M','a','p','<']
def kwBTreeMap : Str := ['B','T','r','e','e','M','a','p','<']
def kwHashSet : Str := ['H','a','s','h','S','e','t','<']
def kwBTreeSet : Str := ['B','T','r','e','e','S','e','t','<']

/-! ### TypeStructure -/
mutual
inductive TS where
  | prim (p : Str)
  | array (t : TS)
  | map (k v : TS)
  | set (t : TS)
  | tuple (ts : TSList)
  | optional (t : TS)
  | result (t : TS)
  | custom (n : Str)
  deriving DecidableEq
inductive TSList where
  | nil | cons (t : TS) (ts : TSList)
  deriving DecidableEq
end

def TSList.ofList : List TS → TSList
  | [] => .nil
  | t :: ts => .cons t (TSList.ofList ts)

/-- `map_to_target_primitive` -/
def primOf (s : Str) : Option Str :=
  if s = "String".toList ∨ s = "str".toList ∨ s = "&str".toList then some "string".toList
  else if s ∈ ["i8","i16","i32","i64","i128","isize","u8","u16","u32","u64","u128","usize","f32","f64"].map String.toList
    then some "number".toList
  else if s = "bool".toList then some "boolean".toList
  else if s = "()".toList then some "void".toList
  else none

/-- `parse_two_type_params` -/
def twoParams (i : Str) : Option (Str × Str) :=
  match topComma 0 i with
  | some pos => some (trim (i.take pos), trim (i.drop (pos + 1)))
  | none => none

/-- one level of `parse_type_structure` on the trimmed string after the `&` test, same order of tests
    as the Rust code; `rec` is the recursive call -/
def parseRest (rec : Str → TS) (s : Str) : TS :=
  if startsWith s kwOption && endsWithCh s '>' then .optional (rec (inner 7 s))
  else if startsWith s kwResult && endsWithCh s '>' then
    let i := inner 7 s
    match findComma i with
    | some pos => .result (rec (trim (i.take pos)))
    | none => .result (rec i)
  else if startsWith s kwVec && endsWithCh s '>' then .array (rec (inner 4 s))
  else
    let hm := if startsWith s kwHashMap && endsWithCh s '>' then twoParams (inner 8 s) else none
    let bm := match hm with
      | some r => some r
      | none => if startsWith s kwBTreeMap && endsWithCh s '>' then twoParams (inner 9 s) else none
    match bm with
    | some (k, v) => .map (rec k) (rec v)
    | none =>
    let hs := if startsWith s kwHashSet && endsWithCh s '>' then some (inner 8 s) else none
    let bs := match hs with
      | some r => some r
      | none => if startsWith s kwBTreeSet && endsWithCh s '>' then some (inner 9 s) else none
    match bs with
    | some i => .set (rec i)
    | none =>
    if startsWith s ['('] && endsWithCh s ')' then
      let i := inner 1 s
      if trim i = [] then .prim "void".toList
      else .tuple (TSList.ofList ((splitComma i).map (fun p => rec (trim (trim p)))))
    else match primOf s with
      | some p => .prim p
      | none => .custom s

def parseBody (rec : Str → TS) (s : Str) : TS :=
  match s with
  | '&' :: rest => rec rest
  | _ => parseRest rec s

def parseTS : Nat → Str → TS
  | 0, s => .custom (trim s)
  | fuel+1, s0 => parseBody (parseTS fuel) (trim s0)

end L

namespace L

/-! ### string lemmas -/
theorem startsWith_append (p s : Str) : startsWith (p ++ s) p = true := by
  induction p with
  | nil => cases s <;> simp [startsWith]
  | cons a p ih => simp [startsWith, ih]

theorem startsWith_mem {s p : Str} (h : startsWith s p = true) : ∀ c ∈ p, c ∈ s := by
  induction p generalizing s with
  | nil => intro c hc; simp at hc
  | cons b p ih =>
    cases s with
    | nil => simp [startsWith] at h
    | cons a s =>
      simp only [startsWith, Bool.and_eq_true, beq_iff_eq] at h
      intro c hc
      simp only [List.mem_cons] at hc ⊢
      rcases hc with rfl | hc
      · exact .inl h.1.symm
      · exact .inr (ih h.2 c hc)

theorem startsWith_false_of_not_mem {s p : Str} (c : Char) (hp : c ∈ p) (hs : c ∉ s) : startsWith s p = false := by
  cases h : startsWith s p with
  | false => rfl
  | true => exact absurd (startsWith_mem h c hp) hs

theorem endsWith_snoc (a : Str) (c : Char) : endsWithCh (a ++ [c]) c = true := by
  simp [endsWithCh]

theorem inner_wrap (p s : Str) (c : Char) : inner p.length (p ++ s ++ [c]) = s := by
  simp [inner]

theorem trimStart_id {s : Str} (h : s.head? ≠ some ' ') : trimStart s = s := by
  cases s with
  | nil => rfl
  | cons x xs =>
    have : x ≠ ' ' := fun e => h (by simp [e])
    unfold trimStart; split
    · rename_i heq; simp at heq; exact absurd heq.1 this
    · rfl

/-- non-empty, no space at either end -/
def Edge (s : Str) : Prop := s ≠ [] ∧ s.head? ≠ some ' ' ∧ s.getLast? ≠ some ' '

theorem trim_id {s : Str} (h : Edge s) : trim s = s := by
  unfold trim
  rw [trimStart_id h.2.1, trimStart_id (by simpa using h.2.2)]; simp

theorem trim_sp {s : Str} (h : Edge s) : trim (' ' :: s) = s := by
  unfold trim
  have : trimStart (' ' :: s) = s := by
    show trimStart s = s
    exact trimStart_id h.2.1
  rw [this, trimStart_id (by simpa using h.2.2)]; simp

theorem findComma_none {a : Str} (h : ',' ∉ a) : findComma a = none := by
  induction a with
  | nil => rfl
  | cons x xs ih =>
    have hx : x ≠ ',' := fun e => h (e ▸ List.mem_cons_self)
    simp [findComma, hx, ih (fun m => h (List.mem_cons_of_mem _ m))]

theorem findComma_app {a : Str} (b : Str) (h : ',' ∉ a) : findComma (a ++ ',' :: b) = some a.length := by
  induction a with
  | nil => simp [findComma]
  | cons x xs ih =>
    have hx : x ≠ ',' := fun e => h (e ▸ List.mem_cons_self)
    simp [findComma, hx, ih (fun m => h (List.mem_cons_of_mem _ m))]

/-- depth after scanning -/
def depthAfter : Int → Str → Int
  | d, [] => d
  | d, c :: cs => if c = '<' then depthAfter (d + 1) cs else if c = '>' then depthAfter (d - 1) cs else depthAfter d cs

theorem depthAfter_app (d : Int) (a b : Str) : depthAfter d (a ++ b) = depthAfter (depthAfter d a) b := by
  induction a generalizing d with
  | nil => rfl
  | cons x xs ih =>
    simp only [List.cons_append, depthAfter]
    by_cases h1 : x = '<'
    · simp only [h1, if_true]; exact ih _
    · by_cases h2 : x = '>'
      · simp only [h1, h2, if_true, if_false]; exact ih _
      · simp only [h1, h2, if_false]; exact ih _

theorem topComma_app (d : Int) (a b : Str) (h : topComma d a = none) :
    topComma d (a ++ b) = (topComma (depthAfter d a) b).map (· + a.length) := by
  induction a generalizing d with
  | nil => simp [depthAfter]
  | cons x xs ih =>
    simp only [List.cons_append, topComma, depthAfter] at h ⊢
    by_cases h1 : x = '<'
    · simp only [h1, if_true] at h ⊢
      have h' : topComma (d + 1) xs = none := by simpa using h
      rw [ih _ h']; simp [Option.map_map, Function.comp_def, Nat.add_assoc]
    · by_cases h2 : x = '>'
      · simp only [h1, h2, if_true, if_false] at h ⊢
        have h' : topComma (d - 1) xs = none := by simpa using h
        have hne : ('>' : Char) ≠ '<' := by decide
        simp only [hne, if_false] at h ⊢
        rw [ih _ (by simpa using h)]; simp [Option.map_map, Function.comp_def, Nat.add_assoc]
      · simp only [h1, h2, if_false] at h ⊢
        by_cases h3 : x = ',' ∧ d = 0
        · simp [h3] at h
        · simp only [h3, if_false] at h ⊢
          have h' : topComma d xs = none := by simpa using h
          rw [ih _ h']; simp [Option.map_map, Function.comp_def, Nat.add_assoc]

end L

namespace L

/-! ### the Rust type language of the README table -/
mutual
inductive RTy where
  | prim (name : Str)          -- String, str, i8 … f64, bool
  | unit
  | named (n : Str)
  | opt (t : RTy) | vec (t : RTy) | hset (t : RTy) | bset (t : RTy)
  | hmap (k v : RTy) | bmap (k v : RTy)
  | res1 (t : RTy) | res2 (t e : RTy)
  | tup (t : RTy) (ts : RTyList)   -- at least one element
  | ref (t : RTy)
inductive RTyList where
  | nil | cons (t : RTy) (ts : RTyList)
end

def joinComma : List Str → Str
  | [] => []
  | [a] => a
  | a :: b :: rest => a ++ [',', ' '] ++ joinComma (b :: rest)

mutual
/-- `command_parser::type_to_string` on this fragment -/
def str : RTy → Str
  | .prim n => n
  | .unit => ['(', ')']
  | .named n => n
  | .opt t => kwOption ++ str t ++ ['>']
  | .vec t => kwVec ++ str t ++ ['>']
  | .hset t => kwHashSet ++ str t ++ ['>']
  | .bset t => kwBTreeSet ++ str t ++ ['>']
  | .hmap k v => kwHashMap ++ (str k ++ [',', ' '] ++ str v) ++ ['>']
  | .bmap k v => kwBTreeMap ++ (str k ++ [',', ' '] ++ str v) ++ ['>']
  | .res1 t => kwResult ++ str t ++ ['>']
  | .res2 t e => kwResult ++ (str t ++ [',', ' '] ++ str e) ++ ['>']
  | .tup t ts => ['('] ++ joinComma (str t :: strs ts) ++ [')']
  | .ref t => '&' :: str t
def strs : RTyList → List Str
  | .nil => []
  | .cons t ts => str t :: strs ts
end

mutual
def structOf : RTy → TS
  | .prim n => .prim ((primOf n).getD [])
  | .unit => .prim "void".toList
  | .named n => .custom n
  | .opt t => .optional (structOf t)
  | .vec t => .array (structOf t)
  | .hset t => .set (structOf t)
  | .bset t => .set (structOf t)
  | .hmap k v => .map (structOf k) (structOf v)
  | .bmap k v => .map (structOf k) (structOf v)
  | .res1 t => .result (structOf t)
  | .res2 t _ => .result (structOf t)
  | .tup t ts => .tuple (.cons (structOf t) (structOfs ts))
  | .ref t => structOf t
def structOfs : RTyList → TSList
  | .nil => .nil
  | .cons t ts => .cons (structOf t) (structOfs ts)
end

def primNames : List Str :=
  ["String","str","i8","i16","i32","i64","i128","isize","u8","u16","u32","u64","u128","usize","f32","f64","bool"].map String.toList

def identCh (c : Char) : Bool := c.isAlphanum || c = '_'

/-- a custom type name: identifier characters only, not a primitive -/
def NameOk (n : Str) : Prop := n ≠ [] ∧ (∀ c ∈ n, identCh c = true) ∧ primOf n = none

mutual
def WF : RTy → Prop
  | .prim n => n ∈ primNames
  | .unit => True
  | .named n => NameOk n
  | .opt t | .vec t | .hset t | .bset t | .res1 t | .ref t => WF t
  | .hmap k v | .bmap k v => WF k ∧ WF v
  | .res2 t e => WF t ∧ WF e
  | .tup t ts => WF t ∧ WFs ts
def WFs : RTyList → Prop
  | .nil => True
  | .cons t ts => WF t ∧ WFs ts
end

mutual
/-- exactly the conditions under which `find(',')`, `split(',')` and the depth scan pick the right comma -/
def CommaSafe : RTy → Prop
  | .prim _ | .unit | .named _ => True
  | .opt t | .vec t | .hset t | .bset t | .ref t => CommaSafe t
  | .hmap k v | .bmap k v => topComma 0 (str k) = none ∧ CommaSafe k ∧ CommaSafe v
  | .res1 t => ',' ∉ str t ∧ CommaSafe t
  | .res2 t _ => ',' ∉ str t ∧ CommaSafe t
  | .tup t ts => ',' ∉ str t ∧ CommaSafe t ∧ CommaSafes ts
def CommaSafes : RTyList → Prop
  | .nil => True
  | .cons t ts => ',' ∉ str t ∧ CommaSafe t ∧ CommaSafes ts
end

mutual
def size : RTy → Nat
  | .prim _ | .unit | .named _ => 1
  | .opt t | .vec t | .hset t | .bset t | .res1 t | .ref t => size t + 1
  | .hmap k v | .bmap k v => size k + size v + 1
  | .res2 t e => size t + size e + 1
  | .tup t ts => size t + sizes ts + 1
def sizes : RTyList → Nat
  | .nil => 0
  | .cons t ts => size t + sizes ts + 1
end

end L

namespace L

theorem body_ref (rec : Str → TS) (x : Str) : parseBody rec ('&' :: x) = rec x := rfl

theorem body_noamp (rec : Str → TS) (s : Str) (h : s.head? ≠ some '&') : parseBody rec s = parseRest rec s := by
  unfold parseBody
  split
  · rename_i rest; simp at h
  · rfl

theorem rest_opt (rec : Str → TS) (x : Str) : parseRest rec (kwOption ++ x ++ ['>']) = .optional (rec x) := by
  have h1 : startsWith (kwOption ++ x ++ ['>']) kwOption = true := by
    rw [List.append_assoc]; exact startsWith_append _ _
  have h2 := endsWith_snoc (kwOption ++ x) '>'
  have h3 : inner 7 (kwOption ++ x ++ ['>']) = x := inner_wrap kwOption x '>'
  simp only [parseRest, h1, h2, h3, Bool.and_self, if_true]

theorem rest_vec (rec : Str → TS) (x : Str) : parseRest rec (kwVec ++ x ++ ['>']) = .array (rec x) := by
  have n1 : startsWith (kwVec ++ x ++ ['>']) kwOption = false := by simp [startsWith, kwVec, kwOption]
  have n2 : startsWith (kwVec ++ x ++ ['>']) kwResult = false := by simp [startsWith, kwVec, kwResult]
  have h1 : startsWith (kwVec ++ x ++ ['>']) kwVec = true := by
    rw [List.append_assoc]; exact startsWith_append _ _
  have h2 := endsWith_snoc (kwVec ++ x) '>'
  have h3 : inner 4 (kwVec ++ x ++ ['>']) = x := inner_wrap kwVec x '>'
  simp only [parseRest, n1, n2, h1, h2, h3, Bool.and_self, Bool.false_and, if_true, Bool.false_eq_true, if_false]

theorem rest_res1 (rec : Str → TS) (x : Str) (hc : ',' ∉ x) :
    parseRest rec (kwResult ++ x ++ ['>']) = .result (rec x) := by
  have n1 : startsWith (kwResult ++ x ++ ['>']) kwOption = false := by simp [startsWith, kwResult, kwOption]
  have h1 : startsWith (kwResult ++ x ++ ['>']) kwResult = true := by
    rw [List.append_assoc]; exact startsWith_append _ _
  have h2 := endsWith_snoc (kwResult ++ x) '>'
  have h3 : inner 7 (kwResult ++ x ++ ['>']) = x := inner_wrap kwResult x '>'
  simp only [parseRest, n1, h1, h2, h3, Bool.and_self, Bool.false_and, if_true, Bool.false_eq_true, if_false,
    findComma_none hc]

theorem rest_res2 (rec : Str → TS) (x e : Str) (hc : ',' ∉ x) (hx : Edge x) :
    parseRest rec (kwResult ++ (x ++ [',', ' '] ++ e) ++ ['>']) = .result (rec x) := by
  have n1 : startsWith (kwResult ++ (x ++ [',', ' '] ++ e) ++ ['>']) kwOption = false := by
    simp [startsWith, kwResult, kwOption]
  have h1 : startsWith (kwResult ++ (x ++ [',', ' '] ++ e) ++ ['>']) kwResult = true := by
    rw [List.append_assoc]; exact startsWith_append _ _
  have h2 := endsWith_snoc (kwResult ++ (x ++ [',', ' '] ++ e)) '>'
  have h3 : inner 7 (kwResult ++ (x ++ [',', ' '] ++ e) ++ ['>']) = x ++ [',', ' '] ++ e :=
    inner_wrap kwResult _ '>'
  have h4 : findComma (x ++ [',', ' '] ++ e) = some x.length := by
    have := findComma_app (' ' :: e) hc
    simpa using this
  simp only [parseRest, n1, h1, h2, h3, h4, Bool.and_self, Bool.false_and, if_true, Bool.false_eq_true, if_false]
  have : (x ++ [',', ' '] ++ e).take x.length = x := by simp
  rw [this, trim_id hx]

end L

namespace L

theorem twoParams_ok (k v : Str) (hk : topComma 0 k = none) (hb : depthAfter 0 k = 0) (ek : Edge k) (ev : Edge v) :
    twoParams (k ++ [',', ' '] ++ v) = some (k, v) := by
  have h : topComma 0 (k ++ [',', ' '] ++ v) = some k.length := by
    rw [List.append_assoc, topComma_app 0 k _ hk, hb]
    simp [topComma]
  unfold twoParams
  rw [h]
  have t1 : (k ++ [',', ' '] ++ v).take k.length = k := by simp
  have t2 : (k ++ [',', ' '] ++ v).drop (k.length + 1) = ' ' :: v := by
    rw [List.append_assoc, List.drop_append]; simp
  simp only [t1, t2, trim_id ek, trim_sp ev]

theorem rest_hmap (rec : Str → TS) (k v : Str) (hk : topComma 0 k = none) (hb : depthAfter 0 k = 0)
    (ek : Edge k) (ev : Edge v) :
    parseRest rec (kwHashMap ++ (k ++ [',', ' '] ++ v) ++ ['>']) = .map (rec k) (rec v) := by
  have n1 : startsWith (kwHashMap ++ (k ++ [',', ' '] ++ v) ++ ['>']) kwOption = false := by
    simp [startsWith, kwHashMap, kwOption]
  have n2 : startsWith (kwHashMap ++ (k ++ [',', ' '] ++ v) ++ ['>']) kwResult = false := by
    simp [startsWith, kwHashMap, kwResult]
  have n3 : startsWith (kwHashMap ++ (k ++ [',', ' '] ++ v) ++ ['>']) kwVec = false := by
    simp [startsWith, kwHashMap, kwVec]
  have h1 : startsWith (kwHashMap ++ (k ++ [',', ' '] ++ v) ++ ['>']) kwHashMap = true := by
    rw [List.append_assoc]; exact startsWith_append _ _
  have h2 := endsWith_snoc (kwHashMap ++ (k ++ [',', ' '] ++ v)) '>'
  have h3 : inner 8 (kwHashMap ++ (k ++ [',', ' '] ++ v) ++ ['>']) = k ++ [',', ' '] ++ v :=
    inner_wrap kwHashMap _ '>'
  simp only [parseRest, n1, n2, n3, h1, h2, h3, Bool.and_self, Bool.false_and, if_true, Bool.false_eq_true,
    if_false, twoParams_ok k v hk hb ek ev]

theorem rest_bmap (rec : Str → TS) (k v : Str) (hk : topComma 0 k = none) (hb : depthAfter 0 k = 0)
    (ek : Edge k) (ev : Edge v) :
    parseRest rec (kwBTreeMap ++ (k ++ [',', ' '] ++ v) ++ ['>']) = .map (rec k) (rec v) := by
  have n1 : startsWith (kwBTreeMap ++ (k ++ [',', ' '] ++ v) ++ ['>']) kwOption = false := by
    simp [startsWith, kwBTreeMap, kwOption]
  have n2 : startsWith (kwBTreeMap ++ (k ++ [',', ' '] ++ v) ++ ['>']) kwResult = false := by
    simp [startsWith, kwBTreeMap, kwResult]
  have n3 : startsWith (kwBTreeMap ++ (k ++ [',', ' '] ++ v) ++ ['>']) kwVec = false := by
    simp [startsWith, kwBTreeMap, kwVec]
  have n4 : startsWith (kwBTreeMap ++ (k ++ [',', ' '] ++ v) ++ ['>']) kwHashMap = false := by
    simp [startsWith, kwBTreeMap, kwHashMap]
  have h1 : startsWith (kwBTreeMap ++ (k ++ [',', ' '] ++ v) ++ ['>']) kwBTreeMap = true := by
    rw [List.append_assoc]; exact startsWith_append _ _
  have h2 := endsWith_snoc (kwBTreeMap ++ (k ++ [',', ' '] ++ v)) '>'
  have h3 : inner 9 (kwBTreeMap ++ (k ++ [',', ' '] ++ v) ++ ['>']) = k ++ [',', ' '] ++ v :=
    inner_wrap kwBTreeMap _ '>'
  simp only [parseRest, n1, n2, n3, n4, h1, h2, h3, Bool.and_self, Bool.false_and, if_true, Bool.false_eq_true,
    if_false, twoParams_ok k v hk hb ek ev]

theorem rest_hset (rec : Str → TS) (x : Str) : parseRest rec (kwHashSet ++ x ++ ['>']) = .set (rec x) := by
  have n1 : startsWith (kwHashSet ++ x ++ ['>']) kwOption = false := by simp [startsWith, kwHashSet, kwOption]
  have n2 : startsWith (kwHashSet ++ x ++ ['>']) kwResult = false := by simp [startsWith, kwHashSet, kwResult]
  have n3 : startsWith (kwHashSet ++ x ++ ['>']) kwVec = false := by simp [startsWith, kwHashSet, kwVec]
  have n4 : startsWith (kwHashSet ++ x ++ ['>']) kwHashMap = false := by simp [startsWith, kwHashSet, kwHashMap]
  have n5 : startsWith (kwHashSet ++ x ++ ['>']) kwBTreeMap = false := by simp [startsWith, kwHashSet, kwBTreeMap]
  have h1 : startsWith (kwHashSet ++ x ++ ['>']) kwHashSet = true := by
    rw [List.append_assoc]; exact startsWith_append _ _
  have h2 := endsWith_snoc (kwHashSet ++ x) '>'
  have h3 : inner 8 (kwHashSet ++ x ++ ['>']) = x := inner_wrap kwHashSet x '>'
  simp only [parseRest, n1, n2, n3, n4, n5, h1, h2, h3, Bool.and_self, Bool.false_and, if_true,
    Bool.false_eq_true, if_false]

theorem rest_bset (rec : Str → TS) (x : Str) : parseRest rec (kwBTreeSet ++ x ++ ['>']) = .set (rec x) := by
  have n1 : startsWith (kwBTreeSet ++ x ++ ['>']) kwOption = false := by simp [startsWith, kwBTreeSet, kwOption]
  have n2 : startsWith (kwBTreeSet ++ x ++ ['>']) kwResult = false := by simp [startsWith, kwBTreeSet, kwResult]
  have n3 : startsWith (kwBTreeSet ++ x ++ ['>']) kwVec = false := by simp [startsWith, kwBTreeSet, kwVec]
  have n4 : startsWith (kwBTreeSet ++ x ++ ['>']) kwHashMap = false := by simp [startsWith, kwBTreeSet, kwHashMap]
  have n5 : startsWith (kwBTreeSet ++ x ++ ['>']) kwBTreeMap = false := by simp [startsWith, kwBTreeSet, kwBTreeMap]
  have n6 : startsWith (kwBTreeSet ++ x ++ ['>']) kwHashSet = false := by simp [startsWith, kwBTreeSet, kwHashSet]
  have h1 : startsWith (kwBTreeSet ++ x ++ ['>']) kwBTreeSet = true := by
    rw [List.append_assoc]; exact startsWith_append _ _
  have h2 := endsWith_snoc (kwBTreeSet ++ x) '>'
  have h3 : inner 9 (kwBTreeSet ++ x ++ ['>']) = x := inner_wrap kwBTreeSet x '>'
  simp only [parseRest, n1, n2, n3, n4, n5, n6, h1, h2, h3, Bool.and_self, Bool.false_and, if_true,
    Bool.false_eq_true, if_false]

/-- a string without `<` and without `(` is a leaf: primitive table or custom -/
theorem rest_leaf (rec : Str → TS) (s : Str) (h1 : '<' ∉ s) (h2 : '(' ∉ s) :
    parseRest rec s = match primOf s with | some p => .prim p | none => .custom s := by
  have k (kw : Str) (hk : '<' ∈ kw) : startsWith s kw = false := startsWith_false_of_not_mem '<' hk h1
  have n1 := k kwOption (by decide)
  have n2 := k kwResult (by decide)
  have n3 := k kwVec (by decide)
  have n4 := k kwHashMap (by decide)
  have n5 := k kwBTreeMap (by decide)
  have n6 := k kwHashSet (by decide)
  have n7 := k kwBTreeSet (by decide)
  have n8 : startsWith s ['('] = false := startsWith_false_of_not_mem '(' (by simp) h2
  simp only [parseRest, n1, n2, n3, n4, n5, n6, n7, n8, Bool.false_and, Bool.false_eq_true, if_false]

theorem rest_tuple (rec : Str → TS) (body : Str) (hb : Edge body) :
    parseRest rec (['('] ++ body ++ [')']) =
      .tuple (TSList.ofList ((splitComma body).map (fun p => rec (trim (trim p))))) := by
  have n1 : startsWith (['('] ++ body ++ [')']) kwOption = false := by simp [startsWith, kwOption]
  have n2 : startsWith (['('] ++ body ++ [')']) kwResult = false := by simp [startsWith, kwResult]
  have n3 : startsWith (['('] ++ body ++ [')']) kwVec = false := by simp [startsWith, kwVec]
  have n4 : startsWith (['('] ++ body ++ [')']) kwHashMap = false := by simp [startsWith, kwHashMap]
  have n5 : startsWith (['('] ++ body ++ [')']) kwBTreeMap = false := by simp [startsWith, kwBTreeMap]
  have n6 : startsWith (['('] ++ body ++ [')']) kwHashSet = false := by simp [startsWith, kwHashSet]
  have n7 : startsWith (['('] ++ body ++ [')']) kwBTreeSet = false := by simp [startsWith, kwBTreeSet]
  have h1 : startsWith (['('] ++ body ++ [')']) ['('] = true := by
    rw [List.append_assoc]; exact startsWith_append _ _
  have h2 := endsWith_snoc (['('] ++ body) ')'
  have h3 : inner 1 (['('] ++ body ++ [')']) = body := inner_wrap ['('] body ')'
  have h4 : trim body ≠ [] := by rw [trim_id hb]; exact hb.1
  simp only [parseRest, n1, n2, n3, n4, n5, n6, n7, h1, h2, h3, h4, Bool.and_self, Bool.false_and, if_true,
    Bool.false_eq_true, if_false]

end L

namespace L

/-! ### facts about `str r` -/

theorem identCh_facts {c : Char} (h : identCh c = true) :
    c ≠ ' ' ∧ c ≠ ',' ∧ c ≠ '<' ∧ c ≠ '>' ∧ c ≠ '(' ∧ c ≠ ')' ∧ c ≠ '&' := by
  refine ⟨?_, ?_, ?_, ?_, ?_, ?_, ?_⟩ <;> (intro e; subst e; revert h; decide)

theorem primNames_ident : ∀ n ∈ primNames, n ≠ [] ∧ (∀ c ∈ n, identCh c = true) ∧ (primOf n).isSome = true := by
  decide

/-- what we need to know about a leaf string -/
structure Leaf (n : Str) : Prop where
  ne : n ≠ []
  ident : ∀ c ∈ n, identCh c = true

theorem Leaf.edge {n : Str} (h : Leaf n) : Edge n := by
  refine ⟨h.ne, ?_, ?_⟩
  · cases n with
    | nil => exact absurd rfl h.ne
    | cons c cs => simp; exact (identCh_facts (h.ident c (by simp))).1
  · intro hl
    have hm : ' ' ∈ n := List.mem_of_getLast? hl
    exact (identCh_facts (h.ident _ hm)).1 rfl

theorem Leaf.not_mem {n : Str} (h : Leaf n) (c : Char) (hc : identCh c = false) : c ∉ n := by
  intro hm; have := h.ident c hm; rw [hc] at this; exact absurd this (by simp)

theorem Leaf.head_ne {n : Str} (h : Leaf n) (c : Char) (hc : identCh c = false) : n.head? ≠ some c := by
  intro hh
  have : c ∈ n := List.mem_of_head? hh
  exact h.not_mem c hc this

theorem Leaf.depth {n : Str} (h : Leaf n) (d : Int) : depthAfter d n = d := by
  induction n generalizing d with
  | nil => rfl
  | cons c cs ih =>
    have hc := identCh_facts (h.ident c (by simp))
    simp only [depthAfter, hc.2.2.1, hc.2.2.2.1, if_false]
    by_cases hcs : cs = []
    · subst hcs; rfl
    · exact ih ⟨hcs, fun c' hc' => h.ident c' (List.mem_cons_of_mem _ hc')⟩ d

theorem depth_wrap (kw x : Str) (d : Int) (hk : depthAfter d kw = d + 1) (hx : depthAfter (d + 1) x = d + 1) :
    depthAfter d (kw ++ x ++ ['>']) = d := by
  rw [depthAfter_app, depthAfter_app, hk, hx]; simp [depthAfter]

theorem depth_kw (d : Int) :
    depthAfter d kwOption = d + 1 ∧ depthAfter d kwResult = d + 1 ∧ depthAfter d kwVec = d + 1 ∧
    depthAfter d kwHashMap = d + 1 ∧ depthAfter d kwBTreeMap = d + 1 ∧ depthAfter d kwHashSet = d + 1 ∧
    depthAfter d kwBTreeSet = d + 1 := by
  simp [depthAfter, kwOption, kwResult, kwVec, kwHashMap, kwBTreeMap, kwHashSet, kwBTreeSet]

end L

namespace L

structure Good (s : Str) : Prop where
  edge : Edge s
  depth : ∀ d, depthAfter d s = d
  spaceComma : ' ' ∈ s → ',' ∈ s

theorem Leaf.good {n : Str} (h : Leaf n) : Good n :=
  ⟨h.edge, h.depth, fun hs => absurd hs (h.not_mem ' ' (by decide))⟩

theorem good_wrap (kw x : Str) (hkne : kw ≠ []) (hkh : kw.head? ≠ some ' ') (hks : ' ' ∉ kw)
    (hkd : ∀ d, depthAfter d kw = d + 1) (hx : (∀ d, depthAfter d x = d) ∧ (' ' ∈ x → ',' ∈ x)) :
    Good (kw ++ x ++ ['>']) := by
  refine ⟨⟨by simp [hkne], ?_, by simp⟩, ?_, ?_⟩
  · cases kw with
    | nil => exact absurd rfl hkne
    | cons c cs => simpa using hkh
  · intro d; exact depth_wrap kw x d (hkd d) (hx.1 _)
  · intro hs
    simp only [List.mem_append, List.mem_singleton] at hs ⊢
    rcases hs with (hs | hs) | hs
    · exact absurd hs hks
    · exact .inl (.inr (hx.2 hs))
    · exact absurd hs (by decide)

theorem pair_facts {k v : Str} (gk : Good k) (gv : Good v) :
    (∀ d, depthAfter d (k ++ [',', ' '] ++ v) = d) ∧ (' ' ∈ k ++ [',', ' '] ++ v → ',' ∈ k ++ [',', ' '] ++ v) := by
  constructor
  · intro d; rw [depthAfter_app, depthAfter_app, gk.depth]; simp [depthAfter, gv.depth]
  · intro _; simp

theorem join_facts : ∀ (parts : List Str), parts ≠ [] → (∀ p ∈ parts, Good p) →
    Edge (joinComma parts) ∧ (∀ d, depthAfter d (joinComma parts) = d) ∧
      (' ' ∈ joinComma parts → ',' ∈ joinComma parts) ∧
      (joinComma parts).head? = (parts.head?.bind List.head?)
  | [], h, _ => absurd rfl h
  | [a], _, hg => by
    have ga := hg a (by simp)
    refine ⟨ga.edge, ga.depth, ga.spaceComma, ?_⟩
    simp [joinComma]
  | a :: b :: rest, _, hg => by
    have ga := hg a (by simp)
    obtain ⟨e, d, _, _⟩ := join_facts (b :: rest) (by simp) (fun p hp => hg p (List.mem_cons_of_mem _ hp))
    have hne : a ≠ [] := ga.edge.1
    refine ⟨⟨by simp [joinComma], ?_, ?_⟩, ?_, ?_, ?_⟩
    · cases a with
      | nil => exact absurd rfl hne
      | cons c cs => have := ga.edge.2.1; simpa [joinComma] using this
    · have : (joinComma (a :: b :: rest)).getLast? = (joinComma (b :: rest)).getLast? := by
        simp only [joinComma]
        rw [List.getLast?_append]
        cases hl : (joinComma (b :: rest)).getLast? with
        | none => exact absurd (List.getLast?_eq_none_iff.mp hl) e.1
        | some c => rfl
      rw [this]; exact e.2.2
    · intro d'
      simp only [joinComma]
      rw [depthAfter_app, depthAfter_app, ga.depth]; simp [depthAfter, d]
    · intro _; simp [joinComma]
    · cases a with
      | nil => exact absurd rfl hne
      | cons c cs => simp [joinComma]

end L

namespace L

theorem leaf_of_prim {n : Str} (h : n ∈ primNames) : Leaf n :=
  ⟨(primNames_ident n h).1, (primNames_ident n h).2.1⟩
theorem leaf_of_named {n : Str} (h : NameOk n) : Leaf n := ⟨h.1, h.2.1⟩

theorem kw_side (kw : Str) (h : kw = kwOption ∨ kw = kwResult ∨ kw = kwVec ∨ kw = kwHashMap ∨ kw = kwBTreeMap ∨
    kw = kwHashSet ∨ kw = kwBTreeSet) :
    kw ≠ [] ∧ kw.head? ≠ some ' ' ∧ ' ' ∉ kw ∧ kw.head? ≠ some '&' ∧ ∀ d, depthAfter d kw = d + 1 := by
  rcases h with rfl | rfl | rfl | rfl | rfl | rfl | rfl <;>
    exact ⟨by decide, by decide, by decide, by decide, fun d => by
      simp [depthAfter, kwOption, kwResult, kwVec, kwHashMap, kwBTreeMap, kwHashSet, kwBTreeSet]⟩

mutual
theorem good_str : ∀ (r : RTy), WF r → Good (str r)
  | .prim n, h => (leaf_of_prim h).good
  | .unit, _ => ⟨⟨by simp [str], by simp [str], by simp [str]⟩, fun d => by simp [str, depthAfter], by simp [str]⟩
  | .named n, h => (leaf_of_named h).good
  | .opt t, h => by
    have g := good_str t h
    have k := kw_side kwOption (by simp)
    exact good_wrap kwOption (str t) k.1 k.2.1 k.2.2.1 k.2.2.2.2 ⟨g.depth, g.spaceComma⟩
  | .vec t, h => by
    have g := good_str t h
    have k := kw_side kwVec (by simp)
    exact good_wrap kwVec (str t) k.1 k.2.1 k.2.2.1 k.2.2.2.2 ⟨g.depth, g.spaceComma⟩
  | .hset t, h => by
    have g := good_str t h
    have k := kw_side kwHashSet (by simp)
    exact good_wrap kwHashSet (str t) k.1 k.2.1 k.2.2.1 k.2.2.2.2 ⟨g.depth, g.spaceComma⟩
  | .bset t, h => by
    have g := good_str t h
    have k := kw_side kwBTreeSet (by simp)
    exact good_wrap kwBTreeSet (str t) k.1 k.2.1 k.2.2.1 k.2.2.2.2 ⟨g.depth, g.spaceComma⟩
  | .res1 t, h => by
    have g := good_str t h
    have k := kw_side kwResult (by simp)
    exact good_wrap kwResult (str t) k.1 k.2.1 k.2.2.1 k.2.2.2.2 ⟨g.depth, g.spaceComma⟩
  | .hmap a b, h => by
    have k := kw_side kwHashMap (by simp)
    exact good_wrap kwHashMap _ k.1 k.2.1 k.2.2.1 k.2.2.2.2 (pair_facts (good_str a h.1) (good_str b h.2))
  | .bmap a b, h => by
    have k := kw_side kwBTreeMap (by simp)
    exact good_wrap kwBTreeMap _ k.1 k.2.1 k.2.2.1 k.2.2.2.2 (pair_facts (good_str a h.1) (good_str b h.2))
  | .res2 a b, h => by
    have k := kw_side kwResult (by simp)
    exact good_wrap kwResult _ k.1 k.2.1 k.2.2.1 k.2.2.2.2 (pair_facts (good_str a h.1) (good_str b h.2))
  | .tup t ts, h => by
    have gl : ∀ p ∈ str t :: strs ts, Good p := by
      intro p hp
      simp only [List.mem_cons] at hp
      rcases hp with rfl | hp
      · exact good_str t h.1
      · exact goods_strs ts h.2 p hp
    obtain ⟨e, d, sc, _⟩ := join_facts (str t :: strs ts) (by simp) gl
    have hlast : (str (.tup t ts)).getLast? ≠ some ' ' := by
      simp only [str]
      rw [List.getLast?_append]; simp
    refine ⟨⟨by simp [str], by simp [str], hlast⟩, ?_, ?_⟩
    · intro d'
      simp only [str]
      rw [depthAfter_app, depthAfter_app]
      simp [depthAfter, d]
    · intro hs
      simp only [str, List.mem_append, List.mem_singleton, List.mem_cons, List.not_mem_nil, or_false] at hs ⊢
      rcases hs with (hs | hs) | hs
      · exact absurd hs (by decide)
      · exact .inl (.inr (sc hs))
      · exact absurd hs (by decide)
  | .ref t, h => by
    have g := good_str t h
    refine ⟨⟨by simp [str], by simp [str], ?_⟩, ?_, ?_⟩
    · simp only [str]
      rw [List.getLast?_cons_of_ne_nil g.edge.1]; exact g.edge.2.2
    · intro d; simp [str, depthAfter, g.depth]
    · intro hs
      simp only [str, List.mem_cons] at hs ⊢
      rcases hs with hs | hs
      · exact absurd hs (by decide)
      · exact .inr (g.spaceComma hs)
theorem goods_strs : ∀ (ts : RTyList), WFs ts → ∀ p ∈ strs ts, Good p
  | .nil, _ => by intro p hp; simp [strs] at hp
  | .cons t ts, h => by
    intro p hp
    simp only [strs, List.mem_cons] at hp
    rcases hp with rfl | hp
    · exact good_str t h.1
    · exact goods_strs ts h.2 p hp
end

/-- for everything but a reference, the string does not start with `&` -/
theorem head_noamp : ∀ (r : RTy), WF r → (∀ t, r ≠ .ref t) → (str r).head? ≠ some '&'
  | .prim n, h, _ => (leaf_of_prim h).head_ne '&' (by decide)
  | .unit, _, _ => by simp [str]
  | .named n, h, _ => (leaf_of_named h).head_ne '&' (by decide)
  | .opt t, _, _ => by simp [str, kwOption]
  | .vec t, _, _ => by simp [str, kwVec]
  | .hset t, _, _ => by simp [str, kwHashSet]
  | .bset t, _, _ => by simp [str, kwBTreeSet]
  | .res1 t, _, _ => by simp [str, kwResult]
  | .hmap a b, _, _ => by simp [str, kwHashMap]
  | .bmap a b, _, _ => by simp [str, kwBTreeMap]
  | .res2 a b, _, _ => by simp [str, kwResult]
  | .tup t ts, _, _ => by simp [str]
  | .ref t, _, h => absurd rfl (h t)

end L

namespace L

/-! ### `split(',')` after `join(", ")` (Appendix C, restated for this file) -/
theorem splitComma_free (a : Str) (h : ',' ∉ a) : splitComma a = [a] := by
  induction a with
  | nil => simp [splitComma]
  | cons x xs ih =>
    have hx : x ≠ ',' := fun e => h (e ▸ List.mem_cons_self)
    have hxs : ',' ∉ xs := fun m => h (List.mem_cons_of_mem _ m)
    simp [splitComma, hx, ih hxs]

theorem splitComma_app (a rest : Str) (h : ',' ∉ a) : splitComma (a ++ ',' :: rest) = a :: splitComma rest := by
  induction a with
  | nil => simp [splitComma]
  | cons x xs ih =>
    have hx : x ≠ ',' := fun e => h (e ▸ List.mem_cons_self)
    have hxs : ',' ∉ xs := fun m => h (List.mem_cons_of_mem _ m)
    simp [splitComma, hx, ih hxs]

def Clean (a : Str) : Prop := ',' ∉ a ∧ Edge a

/-- every piece but the first carries the space that followed the comma -/
theorem split_join_aux : ∀ (parts : List Str), (∀ p ∈ parts, Clean p) → parts ≠ [] →
    (splitComma (joinComma parts)).map trim = parts ∧
    (splitComma (' ' :: joinComma parts)).map trim = parts
  | [], _, h => absurd rfl h
  | [a], hp, _ => by
    have ha := hp a (by simp)
    have hsp : ',' ∉ (' ' :: a) := by intro h; simp at h; exact ha.1 h
    simp [joinComma, splitComma_free a ha.1, splitComma_free _ hsp, trim_id ha.2, trim_sp ha.2]
  | a :: b :: rest, hp, _ => by
    have ha := hp a (by simp)
    have ih := (split_join_aux (b :: rest) (fun p h => hp p (List.mem_cons_of_mem _ h)) (by simp)).2
    have hsp : ',' ∉ (' ' :: a) := by intro h; simp at h; exact ha.1 h
    constructor
    · simp only [joinComma, List.append_assoc, List.cons_append, List.nil_append]
      rw [splitComma_app a _ ha.1]
      simp only [List.map_cons, trim_id ha.2, ih]
    · simp only [joinComma, List.append_assoc, List.cons_append, List.nil_append]
      rw [show (' ' :: (a ++ ',' :: ' ' :: joinComma (b :: rest))) = (' ' :: a) ++ ',' :: (' ' :: joinComma (b :: rest)) by simp]
      rw [splitComma_app (' ' :: a) _ hsp]
      simp only [List.map_cons, trim_sp ha.2, ih]

theorem split_join (parts : List Str) (hp : ∀ p ∈ parts, Clean p) (hne : parts ≠ []) :
    (splitComma (joinComma parts)).map trim = parts := (split_join_aux parts hp hne).1

mutual
/-- **L1**: on the CommaSafe fragment `parse_type_structure (type_to_string r)` is the ideal structure -/
theorem L1 : ∀ (r : RTy) (fuel : Nat), WF r → CommaSafe r → size r ≤ fuel → parseTS fuel (str r) = structOf r
  | r, 0, _, _, hs => by cases r <;> simp [size] at hs
  | .prim n, f+1, h, _, _ => by
    have lf := leaf_of_prim h
    simp only [parseTS, str, trim_id lf.edge]
    rw [body_noamp _ _ (lf.head_ne '&' (by decide)),
        rest_leaf _ n (lf.not_mem '<' (by decide)) (lf.not_mem '(' (by decide))]
    have := (primNames_ident n h).2.2
    cases hp : primOf n with
    | none => rw [hp] at this; simp at this
    | some p => simp [structOf, hp]
  | .unit, f+1, _, _, _ => by
    have e : Edge ['(', ')'] := ⟨by simp, by simp, by simp⟩
    simp only [parseTS, str, trim_id e]
    rw [body_noamp _ _ (by simp)]
    simp [parseRest, startsWith, endsWithCh, kwOption, kwResult, kwVec, kwHashMap, kwBTreeMap, kwHashSet,
      kwBTreeSet, inner, trim, trimStart, structOf]
  | .named n, f+1, h, _, _ => by
    have lf := leaf_of_named h
    simp only [parseTS, str, trim_id lf.edge]
    rw [body_noamp _ _ (lf.head_ne '&' (by decide)),
        rest_leaf _ n (lf.not_mem '<' (by decide)) (lf.not_mem '(' (by decide))]
    simp [structOf, h.2.2]
  | .opt t, f+1, h, hc, hs => by
    have g := good_str (.opt t) h
    simp only [parseTS, trim_id g.edge]
    rw [body_noamp _ _ (head_noamp _ h (by intro t'; simp)), str, rest_opt]
    rw [L1 t f h hc (by simp [size] at hs; omega)]; rfl
  | .vec t, f+1, h, hc, hs => by
    have g := good_str (.vec t) h
    simp only [parseTS, trim_id g.edge]
    rw [body_noamp _ _ (head_noamp _ h (by intro t'; simp)), str, rest_vec]
    rw [L1 t f h hc (by simp [size] at hs; omega)]; rfl
  | .hset t, f+1, h, hc, hs => by
    have g := good_str (.hset t) h
    simp only [parseTS, trim_id g.edge]
    rw [body_noamp _ _ (head_noamp _ h (by intro t'; simp)), str, rest_hset]
    rw [L1 t f h hc (by simp [size] at hs; omega)]; rfl
  | .bset t, f+1, h, hc, hs => by
    have g := good_str (.bset t) h
    simp only [parseTS, trim_id g.edge]
    rw [body_noamp _ _ (head_noamp _ h (by intro t'; simp)), str, rest_bset]
    rw [L1 t f h hc (by simp [size] at hs; omega)]; rfl
  | .res1 t, f+1, h, hc, hs => by
    have g := good_str (.res1 t) h
    simp only [parseTS, trim_id g.edge]
    rw [body_noamp _ _ (head_noamp _ h (by intro t'; simp)), str, rest_res1 _ _ hc.1]
    rw [L1 t f h hc.2 (by simp [size] at hs; omega)]; rfl
  | .res2 t e, f+1, h, hc, hs => by
    have g := good_str (.res2 t e) h
    simp only [parseTS, trim_id g.edge]
    rw [body_noamp _ _ (head_noamp _ h (by intro t'; simp)), str, rest_res2 _ _ _ hc.1 (good_str t h.1).edge]
    rw [L1 t f h.1 hc.2 (by simp [size] at hs; omega)]; rfl
  | .hmap k v, f+1, h, hc, hs => by
    have g := good_str (.hmap k v) h
    have gk := good_str k h.1
    have gv := good_str v h.2
    simp only [parseTS, trim_id g.edge]
    rw [body_noamp _ _ (head_noamp _ h (by intro t'; simp)), str,
        rest_hmap _ _ _ hc.1 (gk.depth 0) gk.edge gv.edge]
    rw [L1 k f h.1 hc.2.1 (by simp [size] at hs; omega), L1 v f h.2 hc.2.2 (by simp [size] at hs; omega)]; rfl
  | .bmap k v, f+1, h, hc, hs => by
    have g := good_str (.bmap k v) h
    have gk := good_str k h.1
    have gv := good_str v h.2
    simp only [parseTS, trim_id g.edge]
    rw [body_noamp _ _ (head_noamp _ h (by intro t'; simp)), str,
        rest_bmap _ _ _ hc.1 (gk.depth 0) gk.edge gv.edge]
    rw [L1 k f h.1 hc.2.1 (by simp [size] at hs; omega), L1 v f h.2 hc.2.2 (by simp [size] at hs; omega)]; rfl
  | .ref t, f+1, h, hc, hs => by
    have g := good_str (.ref t) h
    simp only [parseTS, trim_id g.edge]
    rw [str, body_ref]
    rw [L1 t f h hc (by simp [size] at hs; omega)]; rfl
  | .tup t ts, f+1, h, hc, hs => by
    have g := good_str (.tup t ts) h
    have gl : ∀ p ∈ str t :: strs ts, Good p := by
      intro p hp
      simp only [List.mem_cons] at hp
      rcases hp with rfl | hp
      · exact good_str t h.1
      · exact goods_strs ts h.2 p hp
    have cl : ∀ p ∈ str t :: strs ts, Clean p := by
      intro p hp
      refine ⟨?_, (gl p hp).edge⟩
      simp only [List.mem_cons] at hp
      rcases hp with rfl | hp
      · exact hc.1
      · exact commaFree_strs ts hc.2.2 p hp
    obtain ⟨e, _, _, _⟩ := join_facts (str t :: strs ts) (by simp) gl
    simp only [parseTS, trim_id g.edge]
    rw [body_noamp _ _ (head_noamp _ h (by intro t'; simp)), str, rest_tuple _ _ e]
    have hm : (splitComma (joinComma (str t :: strs ts))).map (fun p => parseTS f (trim (trim p)))
        = (str t :: strs ts).map (fun q => parseTS f q) := by
      have := split_join (str t :: strs ts) cl (by simp)
      calc (splitComma (joinComma (str t :: strs ts))).map (fun p => parseTS f (trim (trim p)))
          = ((splitComma (joinComma (str t :: strs ts))).map trim).map (fun q => parseTS f (trim q)) := by
            simp [List.map_map, Function.comp_def]
        _ = (str t :: strs ts).map (fun q => parseTS f (trim q)) := by rw [this]
        _ = (str t :: strs ts).map (fun q => parseTS f q) := by
            apply List.map_congr_left
            intro q hq; rw [trim_id (gl q hq).edge]
    rw [hm]
    simp only [List.map_cons, TSList.ofList, structOf]
    rw [L1 t f h.1 hc.2.1 (by simp [size] at hs; omega),
        L1s ts f h.2 hc.2.2 (by simp [size] at hs; omega)]
theorem L1s : ∀ (ts : RTyList) (fuel : Nat), WFs ts → CommaSafes ts → sizes ts ≤ fuel →
    TSList.ofList ((strs ts).map (fun q => parseTS fuel q)) = structOfs ts
  | .nil, _, _, _, _ => by simp [strs, TSList.ofList, structOfs]
  | .cons t ts, fuel, h, hc, hs => by
    simp only [strs, List.map_cons, TSList.ofList, structOfs]
    rw [L1 t fuel h.1 hc.2.1 (by simp [sizes] at hs; omega),
        L1s ts fuel h.2 hc.2.2 (by simp [sizes] at hs; omega)]
theorem commaFree_strs : ∀ (ts : RTyList), CommaSafes ts → ∀ p ∈ strs ts, ',' ∉ p
  | .nil, _ => by intro p hp; simp [strs] at hp
  | .cons t ts, hc => by
    intro p hp
    simp only [strs, List.mem_cons] at hp
    rcases hp with rfl | hp
    · exact hc.1
    · exact commaFree_strs ts hc.2.2 p hp
end


end L

namespace L

/-! ### `extract_type_names_recursive` (analysis/mod.rs) -/

/-- `s.strip_prefix(p)` -/
def stripPrefix : Str → Str → Option Str
  | s, [] => some s
  | [], _ :: _ => none
  | a :: s, b :: p => if a = b then stripPrefix s p else none
/-- `s.strip_suffix(">")` -/
def stripGt (s : Str) : Option Str := if endsWithCh s '>' then some s.dropLast else none

/-- `trim_start_matches('&')` -/
def dropAmps : Str → Str
  | '&' :: xs => dropAmps xs
  | xs => xs

def typeSet : List Str :=
  ["String","&str","str","i8","i16","i32","i64","i128","isize","u8","u16","u32","u64","u128","usize","f32","f64",
   "bool","()","HashMap","BTreeMap","HashSet","BTreeSet"].map String.toList

def isLowerAscii (c : Char) : Bool := 'a' ≤ c ∧ c ≤ 'z'
def isAlphaAscii (c : Char) : Bool := ('a' ≤ c ∧ c ≤ 'z') ∨ ('A' ≤ c ∧ c ≤ 'Z')

def inRanges (rs : List (Nat × Nat)) (n : Nat) : Bool := rs.any fun r => r.1 ≤ n && n ≤ r.2
/-- `char::is_lowercase` / `char::is_alphabetic`: ASCII by definition, beyond ASCII by the tables `tgh extract` reads
    off the toolchain's std on every run -/
def isLowerU (c : Char) : Bool := isLowerAscii c || (128 ≤ c.toNat && inRanges Gen.lowerRanges c.toNat)
def isAlphaU (c : Char) : Bool := isAlphaAscii c || (128 ≤ c.toNat && inRanges Gen.alphaRanges c.toNat)

/-- the final "is this a custom type name" test -/
def isCustomName (s : Str) : Bool :=
  match s with
  | [] => false
  | c :: _ => !(typeSet.contains s) && !(isLowerU c) && isAlphaU c && !(s.contains '<')

def firstCommaSplit (i : Str) : Option (Str × Str) :=
  match findComma i with
  | some pos => some (trim (i.take pos), trim (i.drop (pos + 1)))
  | none => none

/-- one level; `rec` is the recursive call returning the names found -/
def harvestBody (rec : Str → List Str) (s : Str) : List Str :=
  if startsWith s kwResult then
    match (stripPrefix s kwResult).bind stripGt with
    | some i => match firstCommaSplit i with
      | some (a, b) => rec a ++ rec b
      | none => rec i          -- one-argument alias `Result<T>` (fix dd2e4b8)
    | none => []
  else if startsWith s kwOption then
    match (stripPrefix s kwOption).bind stripGt with
    | some i => rec i
    | none => []
  else if startsWith s kwVec then
    match (stripPrefix s kwVec).bind stripGt with
    | some i => rec i
    | none => []
  else if startsWith s kwHashMap || startsWith s kwBTreeMap then
    let pre := if startsWith s kwHashMap then kwHashMap else kwBTreeMap
    match (stripPrefix s pre).bind stripGt with
    | some i => match firstCommaSplit i with
      | some (a, b) => rec a ++ rec b
      | none => []
    | none => []
  else if startsWith s kwHashSet || startsWith s kwBTreeSet then
    let pre := if startsWith s kwHashSet then kwHashSet else kwBTreeSet
    match (stripPrefix s pre).bind stripGt with
    | some i => rec i
    | none => []
  else if startsWith s ['('] && endsWithCh s ')' && s != ['(', ')'] then
    ((splitComma (inner 1 s)).map (fun p => rec (trim p))).flatten
  else if startsWith s ['&'] then rec (dropAmps s)
  else if isCustomName s then [s] else []

def harvest : Nat → Str → List Str
  | 0, _ => []
  | fuel+1, s0 => harvestBody (harvest fuel) (trim s0)

end L

namespace L

theorem stripPrefix_append (p x : Str) : stripPrefix (p ++ x) p = some x := by
  induction p with
  | nil => cases x <;> simp [stripPrefix]
  | cons a p ih => simp [stripPrefix, ih]

theorem stripGt_snoc (x : Str) : stripGt (x ++ ['>']) = some x := by
  simp [stripGt, endsWith_snoc]

theorem strip_wrap (kw x : Str) : (stripPrefix (kw ++ x ++ ['>']) kw).bind stripGt = some x := by
  rw [List.append_assoc, stripPrefix_append]; simp [stripGt_snoc]

theorem firstCommaSplit_ok (a b : Str) (hc : ',' ∉ a) (ea : Edge a) (eb : Edge b) :
    firstCommaSplit (a ++ [',', ' '] ++ b) = some (a, b) := by
  have h : findComma (a ++ [',', ' '] ++ b) = some a.length := by
    have := findComma_app (' ' :: b) hc; simpa using this
  unfold firstCommaSplit
  rw [h]
  have t1 : (a ++ [',', ' '] ++ b).take a.length = a := by simp
  have t2 : (a ++ [',', ' '] ++ b).drop (a.length + 1) = ' ' :: b := by
    rw [List.append_assoc, List.drop_append]; simp
  simp only [t1, t2, trim_id ea, trim_sp eb]

theorem firstCommaSplit_none (a : Str) (hc : ',' ∉ a) : firstCommaSplit a = none := by
  simp [firstCommaSplit, findComma_none hc]

section bodies
variable (rec : Str → List Str)

theorem hb_res2 (a b : Str) (hc : ',' ∉ a) (ea : Edge a) (eb : Edge b) :
    harvestBody rec (kwResult ++ (a ++ [',', ' '] ++ b) ++ ['>']) = rec a ++ rec b := by
  have h1 : startsWith (kwResult ++ (a ++ [',', ' '] ++ b) ++ ['>']) kwResult = true := by
    rw [List.append_assoc]; exact startsWith_append _ _
  simp only [harvestBody, h1, if_true, strip_wrap, firstCommaSplit_ok a b hc ea eb]

theorem hb_res1 (a : Str) (hc : ',' ∉ a) : harvestBody rec (kwResult ++ a ++ ['>']) = rec a := by
  have h1 : startsWith (kwResult ++ a ++ ['>']) kwResult = true := by
    rw [List.append_assoc]; exact startsWith_append _ _
  simp only [harvestBody, h1, if_true, strip_wrap, firstCommaSplit_none a hc]

theorem hb_opt (a : Str) : harvestBody rec (kwOption ++ a ++ ['>']) = rec a := by
  have n1 : startsWith (kwOption ++ a ++ ['>']) kwResult = false := by simp [startsWith, kwOption, kwResult]
  have h1 : startsWith (kwOption ++ a ++ ['>']) kwOption = true := by
    rw [List.append_assoc]; exact startsWith_append _ _
  simp only [harvestBody, n1, h1, if_true, Bool.false_eq_true, if_false, strip_wrap]

theorem hb_vec (a : Str) : harvestBody rec (kwVec ++ a ++ ['>']) = rec a := by
  have n1 : startsWith (kwVec ++ a ++ ['>']) kwResult = false := by simp [startsWith, kwVec, kwResult]
  have n2 : startsWith (kwVec ++ a ++ ['>']) kwOption = false := by simp [startsWith, kwVec, kwOption]
  have h1 : startsWith (kwVec ++ a ++ ['>']) kwVec = true := by
    rw [List.append_assoc]; exact startsWith_append _ _
  simp only [harvestBody, n1, n2, h1, if_true, Bool.false_eq_true, if_false, strip_wrap]

theorem hb_hmap (a b : Str) (hc : ',' ∉ a) (ea : Edge a) (eb : Edge b) :
    harvestBody rec (kwHashMap ++ (a ++ [',', ' '] ++ b) ++ ['>']) = rec a ++ rec b := by
  have n1 : startsWith (kwHashMap ++ (a ++ [',', ' '] ++ b) ++ ['>']) kwResult = false := by
    simp [startsWith, kwHashMap, kwResult]
  have n2 : startsWith (kwHashMap ++ (a ++ [',', ' '] ++ b) ++ ['>']) kwOption = false := by
    simp [startsWith, kwHashMap, kwOption]
  have n3 : startsWith (kwHashMap ++ (a ++ [',', ' '] ++ b) ++ ['>']) kwVec = false := by
    simp [startsWith, kwHashMap, kwVec]
  have h1 : startsWith (kwHashMap ++ (a ++ [',', ' '] ++ b) ++ ['>']) kwHashMap = true := by
    rw [List.append_assoc]; exact startsWith_append _ _
  simp only [harvestBody, n1, n2, n3, h1, if_true, Bool.false_eq_true, if_false, Bool.true_or, strip_wrap,
    firstCommaSplit_ok a b hc ea eb]

theorem hb_bmap (a b : Str) (hc : ',' ∉ a) (ea : Edge a) (eb : Edge b) :
    harvestBody rec (kwBTreeMap ++ (a ++ [',', ' '] ++ b) ++ ['>']) = rec a ++ rec b := by
  have n1 : startsWith (kwBTreeMap ++ (a ++ [',', ' '] ++ b) ++ ['>']) kwResult = false := by
    simp [startsWith, kwBTreeMap, kwResult]
  have n2 : startsWith (kwBTreeMap ++ (a ++ [',', ' '] ++ b) ++ ['>']) kwOption = false := by
    simp [startsWith, kwBTreeMap, kwOption]
  have n3 : startsWith (kwBTreeMap ++ (a ++ [',', ' '] ++ b) ++ ['>']) kwVec = false := by
    simp [startsWith, kwBTreeMap, kwVec]
  have n4 : startsWith (kwBTreeMap ++ (a ++ [',', ' '] ++ b) ++ ['>']) kwHashMap = false := by
    simp [startsWith, kwBTreeMap, kwHashMap]
  have h1 : startsWith (kwBTreeMap ++ (a ++ [',', ' '] ++ b) ++ ['>']) kwBTreeMap = true := by
    rw [List.append_assoc]; exact startsWith_append _ _
  simp only [harvestBody, n1, n2, n3, n4, h1, if_true, Bool.false_eq_true, if_false, Bool.or_true,
    Bool.false_or, strip_wrap, firstCommaSplit_ok a b hc ea eb]

theorem hb_hset (a : Str) : harvestBody rec (kwHashSet ++ a ++ ['>']) = rec a := by
  have n1 : startsWith (kwHashSet ++ a ++ ['>']) kwResult = false := by simp [startsWith, kwHashSet, kwResult]
  have n2 : startsWith (kwHashSet ++ a ++ ['>']) kwOption = false := by simp [startsWith, kwHashSet, kwOption]
  have n3 : startsWith (kwHashSet ++ a ++ ['>']) kwVec = false := by simp [startsWith, kwHashSet, kwVec]
  have n4 : startsWith (kwHashSet ++ a ++ ['>']) kwHashMap = false := by simp [startsWith, kwHashSet, kwHashMap]
  have n5 : startsWith (kwHashSet ++ a ++ ['>']) kwBTreeMap = false := by simp [startsWith, kwHashSet, kwBTreeMap]
  have h1 : startsWith (kwHashSet ++ a ++ ['>']) kwHashSet = true := by
    rw [List.append_assoc]; exact startsWith_append _ _
  simp only [harvestBody, n1, n2, n3, n4, n5, h1, if_true, Bool.false_eq_true, if_false, Bool.or_self,
    Bool.true_or, strip_wrap]

theorem hb_bset (a : Str) : harvestBody rec (kwBTreeSet ++ a ++ ['>']) = rec a := by
  have n1 : startsWith (kwBTreeSet ++ a ++ ['>']) kwResult = false := by simp [startsWith, kwBTreeSet, kwResult]
  have n2 : startsWith (kwBTreeSet ++ a ++ ['>']) kwOption = false := by simp [startsWith, kwBTreeSet, kwOption]
  have n3 : startsWith (kwBTreeSet ++ a ++ ['>']) kwVec = false := by simp [startsWith, kwBTreeSet, kwVec]
  have n4 : startsWith (kwBTreeSet ++ a ++ ['>']) kwHashMap = false := by simp [startsWith, kwBTreeSet, kwHashMap]
  have n5 : startsWith (kwBTreeSet ++ a ++ ['>']) kwBTreeMap = false := by simp [startsWith, kwBTreeSet, kwBTreeMap]
  have n6 : startsWith (kwBTreeSet ++ a ++ ['>']) kwHashSet = false := by simp [startsWith, kwBTreeSet, kwHashSet]
  have h1 : startsWith (kwBTreeSet ++ a ++ ['>']) kwBTreeSet = true := by
    rw [List.append_assoc]; exact startsWith_append _ _
  simp only [harvestBody, n1, n2, n3, n4, n5, n6, h1, if_true, Bool.false_eq_true, if_false, Bool.or_self,
    Bool.or_true, Bool.false_or, strip_wrap]

/-- leaf strings: no `<`, `(`, `&` -/
theorem hb_leaf (s : Str) (h1 : '<' ∉ s) (h2 : '(' ∉ s) (h3 : '&' ∉ s) :
    harvestBody rec s = if isCustomName s then [s] else [] := by
  have k (kw : Str) (hk : '<' ∈ kw) : startsWith s kw = false := startsWith_false_of_not_mem '<' hk h1
  have n1 := k kwOption (by decide)
  have n2 := k kwResult (by decide)
  have n3 := k kwVec (by decide)
  have n4 := k kwHashMap (by decide)
  have n5 := k kwBTreeMap (by decide)
  have n6 := k kwHashSet (by decide)
  have n7 := k kwBTreeSet (by decide)
  have n8 : startsWith s ['('] = false := startsWith_false_of_not_mem '(' (by simp) h2
  have n9 : startsWith s ['&'] = false := startsWith_false_of_not_mem '&' (by simp) h3
  simp only [harvestBody, n1, n2, n3, n4, n5, n6, n7, n8, n9, Bool.false_and, Bool.or_self, Bool.false_eq_true,
    if_false]

theorem hb_unit : harvestBody rec ['(', ')'] = [] := by
  simp [harvestBody, startsWith, endsWithCh, kwOption, kwResult, kwVec, kwHashMap, kwBTreeMap, kwHashSet,
    kwBTreeSet, isCustomName, typeSet]

theorem hb_tuple (body : Str) (hb : body ≠ []) :
    harvestBody rec (['('] ++ body ++ [')']) = ((splitComma body).map (fun p => rec (trim p))).flatten := by
  have n1 : startsWith (['('] ++ body ++ [')']) kwOption = false := by simp [startsWith, kwOption]
  have n2 : startsWith (['('] ++ body ++ [')']) kwResult = false := by simp [startsWith, kwResult]
  have n3 : startsWith (['('] ++ body ++ [')']) kwVec = false := by simp [startsWith, kwVec]
  have n4 : startsWith (['('] ++ body ++ [')']) kwHashMap = false := by simp [startsWith, kwHashMap]
  have n5 : startsWith (['('] ++ body ++ [')']) kwBTreeMap = false := by simp [startsWith, kwBTreeMap]
  have n6 : startsWith (['('] ++ body ++ [')']) kwHashSet = false := by simp [startsWith, kwHashSet]
  have n7 : startsWith (['('] ++ body ++ [')']) kwBTreeSet = false := by simp [startsWith, kwBTreeSet]
  have h1 : startsWith (['('] ++ body ++ [')']) ['('] = true := by
    rw [List.append_assoc]; exact startsWith_append _ _
  have h2 := endsWith_snoc (['('] ++ body) ')'
  have h3 : inner 1 (['('] ++ body ++ [')']) = body := inner_wrap ['('] body ')'
  have h4 : ((['('] ++ body ++ [')']) != ['(', ')']) = true := by
    cases body with
    | nil => exact absurd rfl hb
    | cons c cs => simp
  simp only [harvestBody, n1, n2, n3, n4, n5, n6, n7, h1, h2, h3, h4, Bool.and_self, Bool.or_self,
    Bool.false_eq_true, if_false, if_true]

theorem hb_ref (x : Str) (hx : x.head? ≠ some '&') : harvestBody rec ('&' :: x) = rec x := by
  have d : dropAmps ('&' :: x) = x := by
    show dropAmps x = x
    cases x with
    | nil => rfl
    | cons c cs =>
      have : c ≠ '&' := fun e => hx (by simp [e])
      unfold dropAmps; split
      · rename_i heq; simp at heq; exact absurd heq.1 this
      · rfl
  simp [harvestBody, startsWith, kwOption, kwResult, kwVec, kwHashMap, kwBTreeMap, kwHashSet, kwBTreeSet, d]

end bodies
end L

namespace L

mutual
/-- what the harvester returns, in order (note `res1`: the one-argument `Result<T>` alias yields nothing) -/
def hSpec : RTy → List Str
  | .prim _ | .unit => []
  | .named n => [n]
  | .opt t | .vec t | .hset t | .bset t | .ref t => hSpec t
  | .hmap k v | .bmap k v => hSpec k ++ hSpec v
  | .res1 t => hSpec t
  | .res2 t e => hSpec t ++ hSpec e
  | .tup t ts => hSpec t ++ hSpecs ts
def hSpecs : RTyList → List Str
  | .nil => []
  | .cons t ts => hSpec t ++ hSpecs ts
end

/-- name shapes the final test accepts -/
def UpperName (n : Str) : Prop := isCustomName n = true

mutual
def HarvestSafe : RTy → Prop
  | .prim _ | .unit => True
  | .named n => UpperName n
  | .opt t | .vec t | .hset t | .bset t => HarvestSafe t
  | .ref t => HarvestSafe t ∧ (str t).head? ≠ some '&'
  | .hmap k v | .bmap k v => ',' ∉ str k ∧ HarvestSafe k ∧ HarvestSafe v
  | .res1 t => ',' ∉ str t ∧ HarvestSafe t
  | .res2 t e => ',' ∉ str t ∧ HarvestSafe t ∧ HarvestSafe e
  | .tup t ts => ',' ∉ str t ∧ HarvestSafe t ∧ HarvestSafes ts
def HarvestSafes : RTyList → Prop
  | .nil => True
  | .cons t ts => ',' ∉ str t ∧ HarvestSafe t ∧ HarvestSafes ts
end

theorem prim_not_custom : ∀ n ∈ primNames, isCustomName n = false := by decide

mutual
/-- **H1**: on the HarvestSafe fragment the harvester returns exactly `hSpec` -/
theorem H1 : ∀ (r : RTy) (fuel : Nat), WF r → HarvestSafe r → size r ≤ fuel → harvest fuel (str r) = hSpec r
  | r, 0, _, _, hs => by cases r <;> simp [size] at hs
  | .prim n, f+1, h, _, _ => by
    have lf := leaf_of_prim h
    simp only [harvest, str, trim_id lf.edge]
    rw [hb_leaf _ n (lf.not_mem '<' (by decide)) (lf.not_mem '(' (by decide)) (lf.not_mem '&' (by decide))]
    simp [prim_not_custom n h, hSpec]
  | .unit, f+1, _, _, _ => by
    have e : Edge ['(', ')'] := ⟨by simp, by simp, by simp⟩
    simp only [harvest, str, trim_id e, hb_unit, hSpec]
  | .named n, f+1, h, hh, _ => by
    have lf := leaf_of_named h
    simp only [harvest, str, trim_id lf.edge]
    rw [hb_leaf _ n (lf.not_mem '<' (by decide)) (lf.not_mem '(' (by decide)) (lf.not_mem '&' (by decide))]
    have : isCustomName n = true := hh
    simp [this, hSpec]
  | .opt t, f+1, h, hh, hs => by
    have g := good_str (.opt t) h
    simp only [harvest, trim_id g.edge]
    rw [str, hb_opt, H1 t f h hh (by simp [size] at hs; omega)]; rfl
  | .vec t, f+1, h, hh, hs => by
    have g := good_str (.vec t) h
    simp only [harvest, trim_id g.edge]
    rw [str, hb_vec, H1 t f h hh (by simp [size] at hs; omega)]; rfl
  | .hset t, f+1, h, hh, hs => by
    have g := good_str (.hset t) h
    simp only [harvest, trim_id g.edge]
    rw [str, hb_hset, H1 t f h hh (by simp [size] at hs; omega)]; rfl
  | .bset t, f+1, h, hh, hs => by
    have g := good_str (.bset t) h
    simp only [harvest, trim_id g.edge]
    rw [str, hb_bset, H1 t f h hh (by simp [size] at hs; omega)]; rfl
  | .res1 t, f+1, h, hh, hs => by
    have g := good_str (.res1 t) h
    simp only [harvest, trim_id g.edge]
    rw [str, hb_res1 _ _ hh.1, H1 t f h hh.2 (by simp [size] at hs; omega)]; rfl
  | .res2 t e, f+1, h, hh, hs => by
    have g := good_str (.res2 t e) h
    simp only [harvest, trim_id g.edge]
    rw [str, hb_res2 _ _ _ hh.1 (good_str t h.1).edge (good_str e h.2).edge,
        H1 t f h.1 hh.2.1 (by simp [size] at hs; omega), H1 e f h.2 hh.2.2 (by simp [size] at hs; omega)]; rfl
  | .hmap k v, f+1, h, hh, hs => by
    have g := good_str (.hmap k v) h
    simp only [harvest, trim_id g.edge]
    rw [str, hb_hmap _ _ _ hh.1 (good_str k h.1).edge (good_str v h.2).edge,
        H1 k f h.1 hh.2.1 (by simp [size] at hs; omega), H1 v f h.2 hh.2.2 (by simp [size] at hs; omega)]; rfl
  | .bmap k v, f+1, h, hh, hs => by
    have g := good_str (.bmap k v) h
    simp only [harvest, trim_id g.edge]
    rw [str, hb_bmap _ _ _ hh.1 (good_str k h.1).edge (good_str v h.2).edge,
        H1 k f h.1 hh.2.1 (by simp [size] at hs; omega), H1 v f h.2 hh.2.2 (by simp [size] at hs; omega)]; rfl
  | .ref t, f+1, h, hh, hs => by
    have g := good_str (.ref t) h
    simp only [harvest, trim_id g.edge]
    rw [str, hb_ref _ _ hh.2, H1 t f h hh.1 (by simp [size] at hs; omega)]; rfl
  | .tup t ts, f+1, h, hh, hs => by
    have g := good_str (.tup t ts) h
    have gl : ∀ p ∈ str t :: strs ts, Good p := by
      intro p hp
      simp only [List.mem_cons] at hp
      rcases hp with rfl | hp
      · exact good_str t h.1
      · exact goods_strs ts h.2 p hp
    have cl : ∀ p ∈ str t :: strs ts, Clean p := by
      intro p hp
      refine ⟨?_, (gl p hp).edge⟩
      simp only [List.mem_cons] at hp
      rcases hp with rfl | hp
      · exact hh.1
      · exact commaFreeH_strs ts hh.2.2 p hp
    obtain ⟨e, _, _, _⟩ := join_facts (str t :: strs ts) (by simp) gl
    simp only [harvest, trim_id g.edge]
    rw [str, hb_tuple _ _ e.1]
    have hm : (splitComma (joinComma (str t :: strs ts))).map (fun p => harvest f (trim p))
        = (str t :: strs ts).map (fun q => harvest f q) := by
      have := split_join (str t :: strs ts) cl (by simp)
      calc (splitComma (joinComma (str t :: strs ts))).map (fun p => harvest f (trim p))
          = ((splitComma (joinComma (str t :: strs ts))).map trim).map (fun q => harvest f q) := by
            simp [List.map_map, Function.comp_def]
        _ = (str t :: strs ts).map (fun q => harvest f q) := by rw [this]
    rw [hm]
    simp only [List.map_cons, List.flatten_cons, hSpec]
    rw [H1 t f h.1 hh.2.1 (by simp [size] at hs; omega),
        H1s ts f h.2 hh.2.2 (by simp [size] at hs; omega)]
theorem H1s : ∀ (ts : RTyList) (fuel : Nat), WFs ts → HarvestSafes ts → sizes ts ≤ fuel →
    ((strs ts).map (fun q => harvest fuel q)).flatten = hSpecs ts
  | .nil, _, _, _, _ => by simp [strs, hSpecs]
  | .cons t ts, fuel, h, hh, hs => by
    simp only [strs, List.map_cons, List.flatten_cons, hSpecs]
    rw [H1 t fuel h.1 hh.2.1 (by simp [sizes] at hs; omega),
        H1s ts fuel h.2 hh.2.2 (by simp [sizes] at hs; omega)]
theorem commaFreeH_strs : ∀ (ts : RTyList), HarvestSafes ts → ∀ p ∈ strs ts, ',' ∉ p
  | .nil, _ => by intro p hp; simp [strs] at hp
  | .cons t ts, hc => by
    intro p hp
    simp only [strs, List.mem_cons] at hp
    rcases hp with rfl | hp
    · exact hc.1
    · exact commaFreeH_strs ts hc.2.2 p hp
end


/-- K07d (fixed by dd2e4b8): the one-argument `Result<T>` alias is harvested -/
theorem K07d_fixed_witness : harvest 50 "Result<User>".toList = ["User".toList] := by decide +kernel
/-- K07b: a comma-bearing ok-type yields junk names -/
theorem K07b_witness : harvest 50 "Result<HashMap<String, Foo>, String>".toList = ["Foo>, String".toList] := by
  decide +kernel
end L
