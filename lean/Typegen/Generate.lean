import Typegen.Analyze
/-! Model of the generation phase (src/generators): used-type collection, naming, the three renderers,
    and the content of every template as a list of *declarations* (`Decl`) per output file.  Each
    declaration carries its exported name, the names it references, and its text; the text is compared with
    the real files modulo whitespace on every correspondence run. -/
namespace Gn
open Pj An L N V

structure Config where
  zod : Bool
  mappings : Mappings
  paramCase : Str
  fieldCase : Str

/-! ### used types -/
mutual
def customs : TS → List Str
  | .custom n => [n]
  | .array t | .set t | .optional t | .result t => customs t
  | .map k v => customs k ++ customs v
  | .tuple ts => customsL ts
  | .prim _ => []
def customsL : TSList → List Str
  | .nil => []
  | .cons t ts => customs t ++ customsL ts
end

def tsOfStr (s : Str) : TS := parseTS (s.length + 2) s

def findStruct (all : List SInfo) (n : Str) : Option SInfo := all.find? fun s => s.name = n

/-- `discover_nested_dependencies`: closure of `seen` under field types, restricted to known structs -/
def nested (all : List SInfo) : Nat → List Str → List Str → List Str
  | 0, _, seen => seen
  | _, [], seen => seen
  | fuel+1, n :: todo, seen =>
    match findStruct all n with
    | none => nested all fuel todo seen
    | some s =>
      let refs := (s.fields.flatMap fun f => customs (tsOfStr f.rustType)).eraseDups
      let fresh := refs.filter fun r => !seen.contains r && (findStruct all r).isSome
      nested all fuel (fresh.eraseDups ++ todo) (seen ++ fresh.eraseDups)

/-- names of the structs the generators emit (`collect_used_types` + the event-payload loop) -/
def usedNames (a : Analysis) : List Str :=
  let fromCmds : List Str := (a.commands.flatMap fun c =>
    (c.params.flatMap fun p => customs (tsOfStr p.rustType)) ++ customs (tsOfStr c.ret) ++
    (c.channels.flatMap fun ch => customs (tsOfStr ch.msgType))).eraseDups
  let closed := nested a.structs (a.structs.length * (a.structs.length + 1) + fromCmds.length + 1) fromCmds fromCmds
  -- event payload types with their own nested dependencies (`TypeCollector::add_event_types`, fix 445f724)
  let fromEvents := (a.events.flatMap fun e => customs (tsOfStr e.payload)).eraseDups
  let evClosed := nested a.structs (a.structs.length * (a.structs.length + 1) + fromEvents.length + 1) fromEvents fromEvents
  ((closed ++ evClosed).filter fun n => (findStruct a.structs n).isSome).eraseDups

/-! ### declarations -/
inductive DKind | importD | iface | typeAlias | const | func | reexport | comment
  deriving DecidableEq, Repr

structure Decl where
  kind : DKind
  name : Str             -- exported name (empty for imports / comments / re-exports)
  refs : List Str        -- unqualified project names this declaration refers to
  text : Str

def nl : Str := ['\n']
def cat (l : List Str) : Str := l.foldr (· ++ ·) []

def fieldKey (cfg : Config) (s : SInfo) (f : FInfo) : Str := computeName f.name f.serdeRename s.renameAll cfg.fieldCase
def paramKey (cfg : Config) (c : CInfo) (name : Str) (rename : Option Str) : Str :=
  computeName name rename c.renameAll cfg.paramCase

/-- unmapped custom names of a structure = the names its rendering refers to -/
def refsOf (cfg : Config) (t : TS) : List Str := (customs t).filter fun n => (lookup cfg.mappings n).isNone

def validatorOf (p : Option VP.Parsed) : Option Validator :=
  p.map fun v =>
    { length := v.length.map fun b => { min := b.min.map VP.natToStr, max := b.max.map VP.natToStr, message := b.message },
      range := v.range.map fun b => { min := b.min.bind VP.canonDec, max := b.max.bind VP.canonDec, message := b.message },
      email := v.email, url := v.url }

/-- `interface.tera` / `enum.tera` -/
def tsStructDecl (cfg : Config) (s : SInfo) : Decl :=
  if s.isEnum then
    { kind := .typeAlias, name := s.name, refs := [],
      text := cat [cl!"export type ", s.name, cl!" = ",
        joinWith cl!" | " (s.fields.map fun f => ['"'] ++ fieldKey cfg s f ++ ['"']), cl!";"] }
  else
    { kind := .iface, name := s.name,
      refs := (s.fields.flatMap fun f => refsOf cfg (tsOfStr f.rustType)).eraseDups,
      text := cat [cl!"export interface ", s.name, cl!" {", nl,
        cat (s.fields.map fun f => cat [cl!"  ", fieldKey cfg s f, if f.isOptional then ['?'] else [], cl!": ",
          visitTs cfg.mappings (tsOfStr f.rustType), cl!";", nl]), cl!"}"] }

def hasParamsDecl (c : CInfo) : Bool := !c.params.isEmpty || !c.channels.isEmpty
def typeName (c : CInfo) : Str := computeTypeName c.name
def fnName (c : CInfo) : Str := computeFunctionName c.name

def channelMembers (cfg : Config) (c : CInfo) : Str :=
  cat (c.channels.map fun ch => cat [cl!"  ", paramKey cfg c ch.param none, cl!": Channel<",
    visitTs cfg.mappings (tsOfStr ch.msgType), cl!">;", nl])

def channelRefs (cfg : Config) (c : CInfo) : List Str :=
  c.channels.flatMap fun ch => refsOf cfg (tsOfStr ch.msgType)

/-- `param_interface.ts.tera` -/
def tsParamsDecl (cfg : Config) (c : CInfo) : Option Decl :=
  if !hasParamsDecl c then none else
  some { kind := .iface, name := typeName c ++ cl!"Params",
         refs := ((c.params.flatMap fun p => refsOf cfg (tsOfStr p.rustType)) ++ channelRefs cfg c).eraseDups,
         text := cat [cl!"export interface ", typeName c, cl!"Params {", nl,
           cat (c.params.map fun p => cat [cl!"  ", paramKey cfg c p.name p.serdeRename, if p.isOptional then ['?'] else [],
             cl!": ", visitTs cfg.mappings (tsOfStr p.rustType), cl!";", nl]),
           channelMembers cfg c, cl!"  [key: string]: unknown;", nl, cl!"}"] }

def hasChannels (a : Analysis) : Bool := a.commands.any fun c => !c.channels.isEmpty

def structsSortedByName (a : Analysis) : List SInfo :=
  (usedNames a).filterMap (findStruct a.structs) |> An.sortBy (·.name)

/-- plain mode `types.ts` -/
def tsTypesFile (cfg : Config) (a : Analysis) : List Decl :=
  (if hasChannels a then [{ kind := .importD, name := [], refs := [], text := cl!"import type { Channel } from '@tauri-apps/api/core';" }] else []) ++
  (structsSortedByName a).map (tsStructDecl cfg) ++
  a.commands.filterMap (tsParamsDecl cfg)

def retTs (cfg : Config) (c : CInfo) : Str := addPrefix (visitTs cfg.mappings (tsOfStr c.ret))

/-- plain mode `command_function.ts.tera` -/
def tsCommandDecl (cfg : Config) (c : CInfo) : Decl :=
  { kind := .func, name := fnName c, refs := refsOf cfg (tsOfStr c.ret),
    text :=
      if hasParamsDecl c then
        cat [cl!"export async function ", fnName c, cl!"(params: types.", typeName c, cl!"Params): Promise<", retTs cfg c, cl!"> {", nl,
             cl!"  return invoke('", c.name, cl!"', params);", nl, cl!"}"]
      else
        cat [cl!"export async function ", fnName c, cl!"(): Promise<", retTs cfg c, cl!"> {", nl,
             cl!"  return invoke('", c.name, cl!"');", nl, cl!"}"] }

def invokeImport (a : Analysis) : Decl :=
  { kind := .importD, name := [], refs := [],
    text := if hasChannels a then cl!"import { invoke, Channel } from '@tauri-apps/api/core';"
            else cl!"import { invoke } from '@tauri-apps/api/core';" }
def typesImport : Decl := { kind := .importD, name := [], refs := [], text := cl!"import * as types from './types';" }

def tsCommandsFile (cfg : Config) (a : Analysis) : List Decl :=
  [invokeImport a, typesImport] ++ a.commands.map (tsCommandDecl cfg)

/-- `event_listener.ts.tera` (identical in both modes) -/
def eventDecl (cfg : Config) (e : EInfo) : Decl :=
  let p := addPrefix (visitTs cfg.mappings (tsOfStr e.payload))
  { kind := .func, name := eventFunctionName e.name, refs := refsOf cfg (tsOfStr e.payload),
    text := cat [cl!"/**", nl, cl!" * Listen for '", e.name, cl!"' events", nl,
      cl!" * @param handler - Callback function to handle the event", nl,
      cl!" * @returns Promise that resolves to an unlisten function", nl, cl!" */", nl,
      cl!"export async function ", eventFunctionName e.name, cl!"(", nl,
      cl!"  handler: (payload: ", p, cl!") => void", nl, cl!"): Promise<UnlistenFn> {", nl,
      cl!"  return listen<", p, cl!">('", e.name, cl!"', (event) => {", nl,
      cl!"    handler(event.payload);", nl, cl!"  });", nl, cl!"}"] }

def eventsFile (cfg : Config) (a : Analysis) : List Decl :=
  [{ kind := .comment, name := [], refs := [],
     text := cat [cl!"/**", nl, cl!" * Event Listeners", nl, cl!" * Type-safe event listener helpers for Tauri events", nl, cl!" */"] },
   { kind := .importD, name := [], refs := [], text := cl!"import { listen, type UnlistenFn, type Event } from '@tauri-apps/api/event';" },
   typesImport] ++ a.events.map (eventDecl cfg)

/-- the list `generate_models` returns before `index.ts` is added -/
def writtenBeforeIndex (a : Analysis) : List Str :=
  [cl!"types.ts", cl!"commands.ts"] ++ (if a.events.isEmpty then [] else [cl!"events.ts"])

/-- tera's `replace(from=".ts", to="")` -/
def dropTs : Str → Str
  | [] => []
  | c :: cs => if A.startsWith (c :: cs) cl!".ts" then dropTs (cs.drop 2) else c :: dropTs cs
termination_by s => s.length
decreasing_by all_goals simp_wf <;> omega

def indexFile (a : Analysis) : List Decl :=
  (writtenBeforeIndex a).map fun f =>
    { kind := .reexport, name := dropTs f, refs := [], text := cat [cl!"export * from './", dropTs f, cl!"';"] }

/-! ### Zod mode -/
def zodEnumDecl (cfg : Config) (s : SInfo) : List Decl :=
  [{ kind := .const, name := s.name ++ cl!"Schema", refs := [],
     text := cat [cl!"export const ", s.name, cl!"Schema = z.enum([",
       joinWith sComma (s.fields.map fun f => ['"'] ++ fieldKey cfg s f ++ ['"']), cl!"]);"] },
   -- the inferred alias, as for object schemas (fix af54852)
   { kind := .typeAlias, name := s.name, refs := [s.name ++ cl!"Schema"],
     text := cat [cl!"export type ", s.name, cl!" = z.infer<typeof ", s.name, cl!"Schema>;"] }]

def schemaRefs (cfg : Config) (t : TS) : List Str := (refsOf cfg t).map (· ++ cl!"Schema")

/-- `schema.ts.tera`: the object schema and its inferred type alias -/
def zodObjectDecl (cfg : Config) (s : SInfo) : List Decl :=
  [{ kind := .const, name := s.name ++ cl!"Schema",
     refs := (s.fields.flatMap fun f => schemaRefs cfg (tsOfStr f.rustType)).eraseDups,
     text := cat [cl!"export const ", s.name, cl!"Schema = z.object({", nl,
       cat (s.fields.map fun f => cat [cl!"  ", fieldKey cfg s f, cl!": ",
         buildSchema cfg.mappings (tsOfStr f.rustType) (validatorOf f.validator), cl!",", nl]), cl!"});"] },
   { kind := .typeAlias, name := s.name, refs := [s.name ++ cl!"Schema"],
     text := cat [cl!"export type ", s.name, cl!" = z.infer<typeof ", s.name, cl!"Schema>;"] }]

def zodStructDecl (cfg : Config) (s : SInfo) : List Decl :=
  if s.isEnum then zodEnumDecl cfg s else zodObjectDecl cfg s

/-- the order of struct schemas: `topological_sort_types` over the used names (sorted) with the recorded,
    sorted dependency sets; names that are not used structs are visited but not emitted -/
def zodOrder (a : Analysis) : List Str :=
  let used := usedNames a
  let deps := fun n => ((a.deps.find? fun d => d.1 = n).map (·.2)).getD []
  let all := (used ++ a.deps.flatMap fun d => d.1 :: d.2).eraseDups
  (D.topoSort deps (all.length + 1) (O.sortNames used)).sorted

/-- `param_schemas.ts.tera` -/
def zodParamSchema (cfg : Config) (c : CInfo) : Option Decl :=
  if c.params.isEmpty then none else
  some { kind := .const, name := typeName c ++ cl!"ParamsSchema",
         refs := (c.params.flatMap fun p => schemaRefs cfg (tsOfStr p.rustType)).eraseDups,
         text := cat [cl!"export const ", typeName c, cl!"ParamsSchema = z.object({", nl,
           cat (c.params.map fun p => cat [cl!"  ", paramKey cfg c p.name p.serdeRename, cl!": ",
             buildParamSchema cfg.mappings (tsOfStr p.rustType), if p.isOptional then cl!".optional()" else [], cl!","]),
           nl, cl!"});"] }

/-- `type_aliases.ts.tera` -/
def zodParamsAlias (cfg : Config) (c : CInfo) : Option Decl :=
  let tn := typeName c
  match c.params.isEmpty, c.channels.isEmpty with
  | true, true => none
  | true, false =>
    some { kind := .iface, name := tn ++ cl!"Params", refs := (channelRefs cfg c).eraseDups,
           text := cat [cl!"export interface ", tn, cl!"Params {", nl, channelMembers cfg c,
                        cl!"  [key: string]: unknown;", nl, cl!"}"] }
  | false, true =>
    some { kind := .typeAlias, name := tn ++ cl!"Params", refs := [tn ++ cl!"ParamsSchema"],
           text := cat [cl!"export type ", tn, cl!"Params = z.infer<typeof ", tn, cl!"ParamsSchema>;"] }
  | false, false =>
    some { kind := .iface, name := tn ++ cl!"Params", refs := (tn ++ cl!"ParamsSchema") :: (channelRefs cfg c).eraseDups,
           text := cat [cl!"export interface ", tn, cl!"Params extends z.infer<typeof ", tn, cl!"ParamsSchema> {", nl,
                        channelMembers cfg c, cl!"}"] }

def zodTypesFile (cfg : Config) (a : Analysis) : List Decl :=
  [{ kind := .importD, name := [], refs := [], text := cl!"import { z } from 'zod';" }] ++
  (if hasChannels a then [{ kind := .importD, name := [], refs := [], text := cl!"import type { Channel } from '@tauri-apps/api/core';" }] else []) ++
  ((zodOrder a).filterMap fun n => if (usedNames a).contains n then findStruct a.structs n else none).flatMap (zodStructDecl cfg) ++
  a.commands.filterMap (zodParamSchema cfg) ++
  a.commands.filterMap (zodParamsAlias cfg)

def hooksDecl : Decl :=
  { kind := .iface, name := cl!"CommandHooks", refs := [],
    text := cat [cl!"export interface CommandHooks<T> {", nl,
      cl!"  /** Called when Zod schema validation fails */", nl, cl!"  onValidationError?: (error: ZodError) => void;", nl,
      cl!"  /** Called when Tauri invoke fails (Rust error, serialization, etc.) */", nl, cl!"  onInvokeError?: (error: unknown) => void;", nl,
      cl!"  /** Called when command succeeds */", nl, cl!"  onSuccess?: (result: T) => void;", nl,
      cl!"  /** Called after command settles (success or error) */", nl, cl!"  onSettled?: () => void;", nl, cl!"}"] }

/-- zod mode `command_function.ts.tera` -/
def zodCommandDecl (cfg : Config) (c : CInfo) : Decl :=
  let r := retTs cfg c
  let tn := typeName c
  let hasP := !c.params.isEmpty
  let hasC := !c.channels.isEmpty
  let tail (onErr : Str) : Str := cat [cl!"    hooks?.onSuccess?.(data);", nl, cl!"    return data;", nl,
      cl!"  } catch (error) {", nl, onErr, cl!"    throw error;", nl, cl!"  } finally {", nl,
      cl!"    hooks?.onSettled?.();", nl, cl!"  }", nl, cl!"}"]
  let plainErr : Str := cat [cl!"    hooks?.onInvokeError?.(error);", nl]
  let zodErr : Str := cat [cl!"    if (!(error instanceof ZodError)) {", nl, cl!"      hooks?.onInvokeError?.(error);", nl, cl!"    }", nl]
  { kind := .func, name := fnName c, refs := refsOf cfg (tsOfStr c.ret),
    text :=
      if hasP || hasC then
        cat [cl!"export async function ", fnName c, cl!"(params: types.", tn, cl!"Params, hooks?: CommandHooks<", r, cl!">): Promise<", r, cl!"> {", nl,
          cl!"  try {", nl,
          (if hasP then
            cat [cl!"    const result = types.", tn, cl!"ParamsSchema.safeParse(params);", nl,
                 cl!"    if (!result.success) {", nl, cl!"      hooks?.onValidationError?.(result.error);", nl,
                 cl!"      throw result.error;", nl, cl!"    }", nl,
                 (if hasC then
                    cat [cl!"    const data = await invoke<", r, cl!">('", c.name, cl!"', { ...result.data, ",
                      joinWith sComma (c.channels.map fun ch => cat [paramKey cfg c ch.param none, cl!": params.", paramKey cfg c ch.param none]),
                      cl!" });", nl]
                  else cat [cl!"    const data = await invoke<", r, cl!">('", c.name, cl!"', result.data);", nl])]
           else cat [cl!"    const data = await invoke<", r, cl!">('", c.name, cl!"', params);", nl]),
          tail (if hasP then zodErr else plainErr)]
      else
        cat [cl!"export async function ", fnName c, cl!"(hooks?: CommandHooks<", r, cl!">): Promise<", r, cl!"> {", nl,
          cl!"  try {", nl, cl!"    const data = await invoke<", r, cl!">('", c.name, cl!"');", nl, tail plainErr] }

def zodCommandsFile (cfg : Config) (a : Analysis) : List Decl :=
  [invokeImport a, { kind := .importD, name := [], refs := [], text := cl!"import { ZodError } from 'zod';" }, typesImport, hooksDecl] ++
  a.commands.map (zodCommandDecl cfg)

/-! ### the output of one generation -/
structure Output where
  types : List Decl
  commands : List Decl
  events : Option (List Decl)
  index : List Decl

def generate (cfg : Config) (a : Analysis) : Output :=
  { types := if cfg.zod then zodTypesFile cfg a else tsTypesFile cfg a,
    commands := if cfg.zod then zodCommandsFile cfg a else tsCommandsFile cfg a,
    events := if a.events.isEmpty then none else some (eventsFile cfg a),
    index := indexFile a }

def fileText (ds : List Decl) : Str := cat (ds.map fun d => d.text ++ nl ++ nl)

end Gn
