import Typegen.Project
import Typegen.Validator
import Typegen.Order
import Typegen.Split
/-! Model of the analysis phase (src/analysis): the three `type_to_string` variants, command / parameter /
    channel extraction, the event walker with its symbol table, serde-struct parsing, the definition index,
    lazy resolution, and the file filter + ordering of `analyze_project_with_verbose`. -/
namespace An
open Pj L N SA VP V

inductive TV | cmd | strct | chan deriving DecidableEq

def sUnknown : Str := cl!"unknown"

def argsEmpty : GArgs → Bool
  | .nil => true
  | _ => false

mutual
/-- `command_parser::type_to_string` (`cmd`), `struct_parser::type_to_string` (`strct`),
    `channel_parser::type_to_string` (`chan`) -/
def tyStr (v : TV) : GTy → Str
  | .path segs => joinWith [':', ':'] (segStrs v segs)
  | .ref t => '&' :: tyStr v t
  | .tuple ts =>
    match ts with
    | .nil => ['(', ')']
    | .cons t rest => ['('] ++ joinWith sComma (tyStr v t :: tysStrs v rest) ++ [')']
  | .array t =>
    match v with
    | .cmd => sUnknown
    | .strct => ['['] ++ tyStr v t ++ cl!"; _]"
    | .chan => ['['] ++ tyStr v t ++ [']']
  | .slice t =>
    match v with
    | .strct => ['['] ++ tyStr v t ++ [']']
    | _ => sUnknown
  | .other => sUnknown
def segStrs (v : TV) : GSegs → List Str
  | .nil => []
  | .cons id kind args rest =>
    let here : Str :=
      match kind with
      | .none => id
      | .paren => id
      | .angle =>
        match v with
        | .cmd => if argsEmpty args then id else id ++ ['<'] ++ joinWith sComma (argStrs v false args) ++ ['>']
        | .strct => id ++ ['<'] ++ joinWith sComma (argStrs v true args) ++ ['>']
        | .chan =>
          let a := argStrs v false args
          if a.isEmpty then id else id ++ ['<'] ++ joinWith sComma a ++ ['>']
    here :: segStrs v rest
/-- generic arguments: types rendered; non-type arguments dropped (`keepOther = false`) or `unknown` -/
def argStrs (v : TV) (keepOther : Bool) : GArgs → List Str
  | .nil => []
  | .ty t rest => tyStr v t :: argStrs v keepOther rest
  | .other rest => if keepOther then sUnknown :: argStrs v keepOther rest else argStrs v keepOther rest
def tysStrs (v : TV) : GTys → List Str
  | .nil => []
  | .cons t rest => tyStr v t :: tysStrs v rest
end

def segList : GSegs → List (Str × ArgKind × GArgs)
  | .nil => []
  | .cons id k a rest => (id, k, a) :: segList rest

/-- `is_optional_type`: the last path segment is named `Option` -/
def isOptionalType : GTy → Bool
  | .path segs => match (segList segs).getLast? with
    | some (id, _, _) => id = cl!"Option"
    | none => false
  | _ => false

/-- `PathArguments::is_empty` -/
def pathArgsEmpty (k : ArgKind) (a : GArgs) : Bool :=
  match k with
  | .none => true
  | .angle => argsEmpty a
  | .paren => false

/-- `CommandParser::is_tauri_parameter_type` -/
def isTauriParamType : GTy → Bool
  | .path segs =>
    let l := segList segs
    let qualified : Option Bool :=
      match l with
      | (a, _, _) :: (b, _, _) :: [] =>
        if a = cl!"tauri" then
          some (b = cl!"AppHandle" || b = cl!"Window" || b = cl!"WebviewWindow" || b = cl!"State" || b = cl!"Manager" ||
                b = cl!"Channel")   -- `tauri::Channel<T>`: fix 755cfc6
        else none
      | (a, _, _) :: (b, _, _) :: (c, _, _) :: [] =>
        if a = cl!"tauri" && b = cl!"ipc" then some (c = cl!"Request" || c = cl!"Channel") else none
      | _ => none
    match qualified with
    | some r => r
    | none =>
      match l.getLast? with
      | none => false
      | some (id, k, a) =>
        if id = cl!"AppHandle" || id = cl!"WebviewWindow" then true
        else if id = cl!"Channel" && k = .angle then true
        else if (id = cl!"State" || id = cl!"Window") && !pathArgsEmpty k a then true
        else false
  | _ => false

/-- `ChannelParser::extract_channel_message_type` -/
def channelMessageType : GTy → Option Str
  | .path segs =>
    let l := segList segs
    match l.getLast? with
    | none => none
    | some (id, k, a) =>
      let isChan := id = cl!"Channel" &&
        (l.length = 1 || (match l.head? with | some (f, _, _) => f = cl!"tauri" | none => false))
      if !isChan then none else
      match k, a with
      | .angle, .ty t _ => some (tyStr .chan t)
      | _, _ => none
  | _ => none

/-! ### attributes -/
def isIdent (a : Attr) (n : Str) : Bool := a.path = [n]

/-- token strings of the `#[serde(..)]` list attributes, in order -/
def serdeTokens (attrs : List Attr) : List Str :=
  (attrs.filter fun a => isIdent a cl!"serde" && a.isList).map (·.tokens)

/-- `#[validate]` attributes: `some tokens` for lists, `none` otherwise -/
def validateTokens (attrs : List Attr) : List (Option Str) :=
  (attrs.filter fun a => isIdent a cl!"validate").map fun a => if a.isList then some a.tokens else none

/-- `CommandParser::is_tauri_command` -/
def isTauriCommand (f : FnItem) : Bool :=
  f.attrs.any fun a => a.path = [cl!"tauri", cl!"command"] || a.path = [cl!"command"]

/-- `StructParser::should_include`: a `derive` list whose printed text contains `Serialize` or `Deserialize` -/
def shouldInclude (attrs : List Attr) : Bool :=
  attrs.any fun a => a.isList && isIdent a cl!"derive" &&
    (A.containsSub cl!"Serialize" a.metaTokens || A.containsSub cl!"Deserialize" a.metaTokens)

/-! ### commands -/
structure PInfo where
  name : Str
  rustType : Str
  isOptional : Bool
  serdeRename : Option Str
  deriving DecidableEq, Repr

structure ChInfo where
  param : Str
  msgType : Str
  deriving DecidableEq, Repr

structure CInfo where
  name : Str
  file : Str
  isAsync : Bool
  params : List PInfo
  ret : Str
  channels : List ChInfo
  renameAll : Option Rule
  deriving DecidableEq, Repr

/-- `extract_parameters` -/
def extractParams (ps : List Param) : List PInfo :=
  ps.filterMap fun p =>
    match p.patIdent with
    | none => none
    | some name =>
      if isTauriParamType p.ty then none
      else some { name := name, rustType := tyStr .cmd p.ty, isOptional := isOptionalType p.ty,
                  serdeRename := (parseFieldAttrs (serdeTokens p.attrs)).rename }

/-- `extract_channels_from_command` -/
def extractChannels (ps : List Param) : List ChInfo :=
  ps.filterMap fun p =>
    match p.patIdent with
    | none => none
    | some name => (channelMessageType p.ty).map fun mt => { param := name, msgType := mt }

def commandOf (file : Str) (f : FnItem) : CInfo :=
  { name := f.name, file := file, isAsync := f.isAsync, params := extractParams f.params,
    ret := match f.ret with | none => ['(', ')'] | some t => tyStr .cmd t,
    channels := extractChannels f.params,
    renameAll := parseStructAttrs (serdeTokens f.attrs) }

def fnItems (items : List Item) : List FnItem :=
  items.filterMap fun it => match it with | .fn f => some f | _ => none

/-- commands of one file, in item order; channels come from the *first* function of that name
    (`find_function_in_ast`) -/
def fileCommands (file : Str) (items : List Item) : List CInfo :=
  (fnItems items).filterMap fun f =>
    if isTauriCommand f then
      let c := commandOf file f
      let first := (fnItems items).find? fun g => g.name = f.name
      some { c with channels := match first with | some g => extractChannels g.params | none => [] }
    else none

/-! ### events -/
structure EInfo where
  name : Str
  payload : Str
  file : Str
  deriving DecidableEq, Repr

abbrev Sym := List (Str × Str)

def symGet (s : Sym) (n : Str) : Option Str := (s.find? fun p => p.1 = n).map (·.2)
def symSet (s : Sym) (n t : Str) : Sym := (n, t) :: s.filter (fun p => p.1 ≠ n)

/-- `extract_type_name`: last path segment, looking through references -/
def typeNameOf : GTy → Str
  | .ref t => typeNameOf t
  | .path segs => match (segList segs).getLast? with
    | some (id, _, _) => id
    | none => sUnknown
  | _ => sUnknown

def exprList : Exprs → List Expr
  | .nil => []
  | .cons e rest => e :: exprList rest

/-- `is_likely_tauri_emitter` -/
def isEmitter : Expr → Bool
  | .path segs =>
    match segs with
    | a :: b :: _ =>
      if a = cl!"tauri" then b = cl!"AppHandle" || b = cl!"Window" || b = cl!"WebviewWindow"
      else segs.any fun s => s = cl!"AppHandle" || s = cl!"WebviewWindow"
    | [n] => n = cl!"app" || n = cl!"window" || n = cl!"webview"
    | [] => false
  | .field _ name => name = cl!"app" || name = cl!"window" || name = cl!"webview"
  | .mcall _ _ _ => true
  | _ => false

/-- `infer_payload_type` -/
def inferPayload (sym : Sym) : Expr → Str
  | .ref e => inferPayload sym e
  | .struct segs => segs.getLast?.getD sUnknown
  | .path segs =>
    match segs with
    | [n] => (symGet sym n).getD n
    | _ => segs.getLast?.getD sUnknown
  | .tuple es => match es with | .nil => ['(', ')'] | _ => cl!"tuple"
  | .lit kind _ =>
    if kind = cl!"str" then cl!"String" else if kind = cl!"int" then cl!"i32"
    else if kind = cl!"float" then cl!"f64" else if kind = cl!"bool" then cl!"bool" else sUnknown
  | .mcall recv m _ => if m = cl!"clone" then inferPayload sym recv else sUnknown
  | _ => sUnknown

/-- `infer_type_from_init` -/
def inferInit (sym : Sym) : Expr → Str
  | .struct segs => segs.getLast?.getD sUnknown
  | .call (.path segs) _ => if segs.length ≥ 2 then segs.head?.getD sUnknown else sUnknown
  | .path [n] => (symGet sym n).getD sUnknown
  | .ref e => inferInit sym e
  | _ => sUnknown

def strLit : Expr → Option Str
  | .lit kind v => if kind = cl!"str" then some v else none
  | _ => none

/-- `extract_emit_event` for one `emit` / `emit_to` method call -/
def emitEvent (file : Str) (sym : Sym) (method : Str) (args : List Expr) : Option EInfo :=
  let pick : Option (Expr × Expr) :=
    if method = cl!"emit_to" then
      match args with
      | _ :: n :: p :: _ => some (n, p)
      | _ => none
    else
      match args with
      | n :: p :: _ => some (n, p)
      | _ => none
  match pick with
  | none => none
  | some (n, p) => (strLit n).map fun name => { name := name, payload := inferPayload sym p, file := file }

mutual
/-- `extract_events_from_expr` (state: symbol table threaded through, events appended) -/
def walkExpr (file : Str) : Expr → Sym × List EInfo → Sym × List EInfo
  | .mcall recv m args, (sym, evs) =>
    let here : List EInfo :=
      if (m = cl!"emit" || m = cl!"emit_to") && isEmitter recv then (emitEvent file sym m (exprList args)).toList else []
    let st1 := walkExpr file recv (sym, evs ++ here)
    walkExprs file args st1
  | .block body, st => walkStmts file body st
  | .ifE thenB elseE, st => walkExprs file elseE (walkStmts file thenB st)
  | .matchE arms, st => walkExprs file arms st
  | .loopE body, st => walkStmts file body st
  | .await e, st => walkExpr file e st
  | .try e, st => walkExpr file e st
  | _, st => st
def walkExprs (file : Str) : Exprs → Sym × List EInfo → Sym × List EInfo
  | .nil, st => st
  | .cons e rest, st => walkExprs file rest (walkExpr file e st)
/-- `extract_events_from_stmt` incl. `extract_local_binding` -/
def walkStmt (file : Str) : Stmt → Sym × List EInfo → Sym × List EInfo
  | .expr e, st => walkExpr file e st
  | .letS identName typed init, (sym, evs) =>
    let sym1 : Sym :=
      match identName, init with
      | some n, some i => let t := inferInit sym i; if t ≠ sUnknown then symSet sym n t else sym
      | _, _ => sym
    let sym2 : Sym :=
      match typed with
      | some (n, ty) => symSet sym1 n (typeNameOf ty)
      | none => sym1
    match init with
    | some i => walkExpr file i (sym2, evs)
    | none => (sym2, evs)
  | .other, st => st
def walkStmts (file : Str) : Stmts → Sym × List EInfo → Sym × List EInfo
  | .nil, st => st
  | .cons s rest, st => walkStmts file rest (walkStmt file s st)
end

/-- `extract_param_types` -/
def paramSyms (ps : List Param) : Sym :=
  ps.foldl (fun sym p => match p.patIdent with | some n => symSet sym n (typeNameOf p.ty) | none => sym) []

/-- events of one file: every top-level function (command or not), in item order -/
def fileEvents (file : Str) (items : List Item) : List EInfo :=
  (fnItems items).flatMap fun f => (walkStmts file f.body (paramSyms f.params, [])).2

/-! ### serde types -/
structure FInfo where
  name : Str
  rustType : Str
  isOptional : Bool
  isPublic : Bool
  serdeRename : Option Str
  validator : Option Parsed
  deriving DecidableEq, Repr

structure SInfo where
  name : Str
  isEnum : Bool
  renameAll : Option Rule
  fields : List FInfo
  deriving DecidableEq, Repr

/-- `parse_field` (`none`: skipped) -/
def parseField (f : Field) : Option FInfo :=
  let fa := parseFieldAttrs (serdeTokens f.attrs)
  if fa.skip then none
  else some { name := f.name, rustType := tyStr .strct f.ty, isOptional := isOptionalType f.ty, isPublic := f.isPub,
              serdeRename := fa.rename, validator := parseValidator (validateTokens f.attrs) }

/-- `parse_struct` (`none` for tuple structs) -/
def parseStruct (s : StructItem) : Option SInfo :=
  match s.shape with
  | .tuple => none
  | .unit => some { name := s.name, isEnum := false, renameAll := parseStructAttrs (serdeTokens s.attrs), fields := [] }
  | .named => some { name := s.name, isEnum := false, renameAll := parseStructAttrs (serdeTokens s.attrs),
                     fields := s.fields.filterMap parseField }

/-- `parse_enum` -/
def parseEnum (e : EnumItem) : SInfo :=
  { name := e.name, isEnum := true, renameAll := parseStructAttrs (serdeTokens e.attrs),
    fields := e.variants.map fun v =>
      { name := v.name,
        rustType := match v.shape with | .unit => cl!"enum_variant" | .tuple => cl!"enum_variant_tuple" | .struct => cl!"enum_variant_struct",
        isOptional := false, isPublic := true,
        serdeRename := (parseFieldAttrs (serdeTokens v.attrs)).rename, validator := none } }

/-- names indexed by `index_type_definitions` for one file -/
def fileDefs (items : List Item) : List Str :=
  items.filterMap fun it => match it with
    | .struct s => if shouldInclude s.attrs then some s.name else none
    | .enum e => if shouldInclude e.attrs then some e.name else none
    | _ => none

/-- `extract_type_from_ast`: the first serde item of that name in the file (`none` also for tuple structs) -/
def extractType (items : List Item) (name : Str) : Option SInfo :=
  match items.find? (fun it => match it with
      | .struct s => s.name = name && shouldInclude s.attrs
      | .enum e => e.name = name && shouldInclude e.attrs
      | _ => false) with
  | some (.struct s) => parseStruct s
  | some (.enum e) => some (parseEnum e)
  | _ => none

/-! ### files -/
def splitPath (p : Str) : List Str := S.splitOn '/' p
def endsWithStr (s suf : Str) : Bool := A.startsWith s.reverse suf.reverse

/-- `parse_and_cache_all_files`: extension `rs`, no `/target/` or `/.git/` anywhere in the full path -/
def fileSelected (root : Str) (f : File) : Bool :=
  let full := root ++ ['/'] ++ f.relPath
  let name := (splitPath f.relPath).getLast?.getD []
  let ext := (S.splitOn '.' name)
  (ext.length ≥ 2 && ext.getLast? = some cl!"rs" && (ext.dropLast ≠ [[]] || ext.length > 2)) &&
  !A.containsSub cl!"/target/" full && !A.containsSub cl!"/.git/" full && f.parses

/-- `PathBuf`'s `Ord`: component-wise, each component by code points -/
def lePath : List Str → List Str → Bool
  | [], _ => true
  | _ :: _, [] => false
  | a :: as, b :: bs => if a = b then lePath as bs else O.leStr a b

def insertFile (f : File) : List File → List File
  | [] => [f]
  | g :: gs => if lePath (splitPath f.relPath) (splitPath g.relPath) then f :: g :: gs else g :: insertFile f gs

/-- the files in the order `analyze_project_with_verbose` processes them (sorted paths; fix dcbafc3) -/
def sortedFiles : List File → List File
  | [] => []
  | f :: fs => insertFile f (sortedFiles fs)

structure Analysis where
  commands : List CInfo
  events : List EInfo
  structs : List SInfo             -- discovered (resolved) serde types, sorted by name
  deps : List (Str × List Str)     -- dependency sets (sorted), for every resolved type
  deriving Repr

/-- harvested names of a list of type strings (`extract_type_names`), as a duplicate-free list -/
def harvestAll (tys : List Str) : List Str :=
  (tys.flatMap fun t => L.harvest (t.length + 2) t).eraseDups

def defFile (files : List File) (name : Str) : Option File :=
  -- `type_definitions.insert`: the last file (in processing order) defining the name wins
  (files.filter fun f => (fileDefs f.items).contains name).getLast?

/-- `resolve_types_lazily`: worklist closure; `fuel` bounds the number of pops -/
def resolve (files : List File) : Nat → List Str → List (SInfo × List Str) → List (SInfo × List Str)
  | 0, _, done => done
  | _, [], done => done
  | fuel+1, n :: pending, done =>
    if done.any (fun d => d.1.name = n) then resolve files fuel pending done
    else
      match (defFile files n).bind (fun f => extractType f.items n) with
      | none => resolve files fuel pending done
      | some info =>
        let deps := harvestAll (info.fields.map (·.rustType))
        let next := deps.filter fun d => !(done.any fun x => x.1.name = d) && (defFile files d).isSome
        resolve files fuel (next ++ pending) (done ++ [(info, deps)])

def insertBy {α : Type} (key : α → Str) (x : α) : List α → List α
  | [] => [x]
  | y :: ys => if O.leStr (key x) (key y) then x :: y :: ys else y :: insertBy key x ys
def sortBy {α : Type} (key : α → Str) : List α → List α
  | [] => []
  | x :: xs => insertBy key x (sortBy key xs)

/-- `CommandAnalyzer::analyze_project` -/
def analyze (p : Project) : Analysis :=
  let files := sortedFiles (p.files.filter (fileSelected p.absRoot))
  let commands := files.flatMap fun f => fileCommands f.relPath f.items
  -- one entry per event name, first occurrence in processing order (fix c10c97b); the payload types of
  -- *all* emit sites are still handed to the type discovery
  let allEvents := files.flatMap fun f => fileEvents f.relPath f.items
  let events := allEvents.foldl (fun acc e => if acc.any (fun k => k.name = e.name) then acc else acc ++ [e]) []
  let seeds := harvestAll (
    (commands.flatMap fun c => c.channels.map (·.msgType)) ++
    (commands.flatMap fun c => c.params.map (·.rustType) ++ [c.ret]) ++
    allEvents.map (·.payload))
  let ndefs := (files.flatMap fun f => fileDefs f.items).length
  let resolved := resolve files (ndefs * (ndefs + 2) + seeds.length + 2) seeds []
  let sorted := sortBy (fun (d : SInfo × List Str) => d.1.name) resolved
  { commands := commands, events := events, structs := sorted.map (·.1),
    deps := sorted.map fun d => (d.1.name, O.sortNames d.2) }

end An
