import Typegen.Basic
import Typegen.Topo
/-! Rust's `Ord` on `String`/`PathBuf` components (byte-wise lexicographic = code-point lexicographic
    for valid UTF-8) as a Boolean order on `List Char`, and sorting by it. -/
namespace O

def leStr : Str → Str → Bool
  | [], _ => true
  | _ :: _, [] => false
  | a :: as, b :: bs => if a.toNat < b.toNat then true else if a = b then leStr as bs else false

theorem leStr_refl : ∀ (a : Str), leStr a a = true
  | [] => rfl
  | c :: cs => by simp [leStr, leStr_refl cs]

theorem leStr_total : ∀ (a b : Str), (leStr a b || leStr b a) = true
  | [], _ => by simp [leStr]
  | _ :: _, [] => by simp [leStr]
  | a :: as, b :: bs => by
    simp only [leStr]
    by_cases h1 : a.toNat < b.toNat
    · simp [h1]
    · by_cases h2 : a = b
      · subst h2; simp [leStr_total as bs]
      · have : b.toNat < a.toNat := by
          have : a.toNat ≠ b.toNat := fun e => h2 (Char.toNat_inj.mp e)
          omega
        simp [h1, h2, this]

theorem leStr_antisymm : ∀ (a b : Str), leStr a b = true → leStr b a = true → a = b
  | [], [], _, _ => rfl
  | [], _ :: _, _, h => by simp [leStr] at h
  | _ :: _, [], h, _ => by simp [leStr] at h
  | a :: as, b :: bs, h1, h2 => by
    simp only [leStr] at h1 h2
    by_cases hab : a.toNat < b.toNat
    · have hba : ¬ b.toNat < a.toNat := by omega
      have hne : b ≠ a := fun e => by subst e; omega
      simp [hba, hne] at h2
    · by_cases he : a = b
      · subst he
        simp only [Nat.lt_irrefl, if_false, if_true] at h1 h2
        rw [leStr_antisymm as bs h1 h2]
      · simp [hab, he] at h1

theorem leStr_trans : ∀ (a b c : Str), leStr a b = true → leStr b c = true → leStr a c = true
  | [], _, _, _, _ => by simp [leStr]
  | _ :: _, [], _, h, _ => by simp [leStr] at h
  | _ :: _, _ :: _, [], _, h => by simp [leStr] at h
  | a :: as, b :: bs, c :: cs, h1, h2 => by
    simp only [leStr] at h1 h2 ⊢
    by_cases hab : a.toNat < b.toNat
    · by_cases hbc : b.toNat < c.toNat
      · have : a.toNat < c.toNat := by omega
        simp [this]
      · by_cases e : b = c
        · subst e; simp [hab]
        · simp [hbc, e] at h2
    · by_cases e1 : a = b
      · subst e1
        simp only [Nat.lt_irrefl, if_false, if_true] at h1
        by_cases hbc : a.toNat < c.toNat
        · simp [hbc]
        · by_cases e2 : a = c
          · subst e2
            simp only [Nat.lt_irrefl, if_false, if_true] at h2 ⊢
            exact leStr_trans as bs cs h1 h2
          · simp [hbc, e2] at h2
      · simp [hab, e1] at h1

/-- insertion into a sorted list (structural, so that the kernel can evaluate witnesses) -/
def insertStr (x : Str) : List Str → List Str
  | [] => [x]
  | y :: ys => if leStr x y then x :: y :: ys else y :: insertStr x ys

/-- `Vec::sort` of names (any stable or unstable sort gives the same list: the order is total and antisymmetric) -/
def sortNames : List Str → List Str
  | [] => []
  | x :: xs => insertStr x (sortNames xs)

theorem insertStr_perm (x : Str) : ∀ (l : List Str), (insertStr x l).Perm (x :: l)
  | [] => List.Perm.refl _
  | y :: ys => by
    unfold insertStr
    split
    · exact List.Perm.refl _
    · exact ((insertStr_perm x ys).cons y).trans (List.Perm.swap x y ys)

theorem sortNames_perm_self : ∀ (l : List Str), (sortNames l).Perm l
  | [] => List.Perm.refl _
  | x :: xs => (insertStr_perm x (sortNames xs)).trans ((sortNames_perm_self xs).cons x)

theorem insertStr_pairwise (x : Str) : ∀ (l : List Str), l.Pairwise (fun a b => leStr a b = true) →
    (insertStr x l).Pairwise (fun a b => leStr a b = true)
  | [], _ => by simp [insertStr]
  | y :: ys, h => by
    unfold insertStr
    have hy := List.pairwise_cons.mp h
    split
    · next hxy =>
      apply List.pairwise_cons.mpr
      refine ⟨?_, h⟩
      intro z hz
      rcases List.mem_cons.mp hz with rfl | hz
      · exact hxy
      · exact leStr_trans x y z hxy (hy.1 z hz)
    · next hxy =>
      have hyx : leStr y x = true := by
        have := leStr_total x y
        simp only [Bool.or_eq_true] at this
        rcases this with h1 | h1
        · exact absurd h1 hxy
        · exact h1
      apply List.pairwise_cons.mpr
      refine ⟨?_, insertStr_pairwise x ys hy.2⟩
      intro z hz
      have := (insertStr_perm x ys).mem_iff.mp hz
      rcases List.mem_cons.mp this with rfl | hz'
      · exact hyx
      · exact hy.1 z hz'

theorem sortNames_pairwise : ∀ (l : List Str), (sortNames l).Pairwise (fun a b => leStr a b = true)
  | [] => List.Pairwise.nil
  | x :: xs => insertStr_pairwise x _ (sortNames_pairwise xs)

/-- **sorting removes the iteration order**: two enumerations of the same entries sort to the same list -/
theorem sortNames_perm {l₁ l₂ : List Str} (h : l₁.Perm l₂) : sortNames l₁ = sortNames l₂ := by
  apply List.Perm.eq_of_pairwise (le := fun a b => leStr a b = true)
  · intro a b _ _ h1 h2; exact leStr_antisymm a b h1 h2
  · exact sortNames_pairwise l₁
  · exact sortNames_pairwise l₂
  · exact (sortNames_perm_self l₁).trans (h.trans (sortNames_perm_self l₂).symm)

theorem sortNames_mem {l : List Str} {x : Str} : x ∈ sortNames l ↔ x ∈ l :=
  (sortNames_perm_self l).mem_iff

end O
