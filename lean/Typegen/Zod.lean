import Typegen.TsTyLemmas
import Typegen.Scan
import Typegen.Attr
import Typegen.Split
/-! C10: the structure described by a Zod schema expression and by a TypeScript type expression.
    `Shape` is the common vocabulary; `shapeOfTs` reads a parsed TypeScript type, `parseZod` + `shapeOfZ`
    read the schema text the builder emits.  `tsShape` / `zodShape` give the shapes the two renderers
    produce for a `TypeStructure`, and the theorem compares them. -/
namespace Z
open L V T

mutual
inductive Shape where
  | str | num | bool | void | unknown
  | arr (s : Shape)
  | set (s : Shape)               -- a JS `Set`: not JSON-serialisable, does not accept arrays
  | record (k v : Shape)
  | tup (ss : Shapes)
  | omittable (s : Shape)         -- `T | null`, `.optional()`, `.nullable()`
  | ref (n : Str)                 -- reference to the declaration / schema of a project type
  | alt (ss : Shapes)             -- a union of alternatives that is not just "or null"
  | errObj                        -- `z.object({ error: z.string() })`
  deriving DecidableEq
inductive Shapes where
  | nil | cons (s : Shape) (ss : Shapes)
  deriving DecidableEq
end

def Shapes.ofList : List Shape → Shapes
  | [] => .nil
  | s :: ss => .cons s (Shapes.ofList ss)

/-- nested omittables collapse (`Option<Option<T>>` is still "T or absent") -/
def mkOmit : Shape → Shape
  | .omittable s => .omittable s
  | s => .omittable s

/-! ### shape of a TypeScript type -/
def primShape (n : Str) : Option Shape :=
  if n = cl!"string" then some .str else if n = cl!"number" then some .num
  else if n = cl!"boolean" then some .bool else if n = cl!"void" then some .void
  else if n = cl!"unknown" then some .unknown else none

mutual
def shapeOfTs : TsTy → Shape
  | .name n => (primShape n).getD (.ref n)
  | .arr t => .arr (shapeOfTs t)
  | .tuple ts => .tup (shapesOfTs ts)
  | .app f args =>
    match args with
    | .cons k (.cons v .nil) => if f = cl!"Record" then .record (shapeOfTs k) (shapeOfTs v) else .ref f
    | _ => .ref f
  | .union ts =>
    -- `A | null` = omittable A; several non-null members = alternatives
    let members := unionMembers ts
    let nonNull := members.filter fun s => s ≠ Shape.ref cl!"null"
    let hasNull := members.any fun s => s = Shape.ref cl!"null"
    let core : Shape := match nonNull with
      | [s] => s
      | l => .alt (Shapes.ofList l)
    if hasNull then mkOmit core else core
def shapesOfTs : TsTyList → Shapes
  | .nil => .nil
  | .cons t ts => .cons (shapeOfTs t) (shapesOfTs ts)
def unionMembers : TsTyList → List Shape
  | .nil => []
  | .cons t ts => shapeOfTs t :: unionMembers ts
end

/-! ### Zod schema expressions as emitted by `ZodSchemaBuilder` -/
mutual
inductive ZE where
  | call (path : List Str) (tyArg : Option Str) (args : ZEs)   -- `z.coerce.number()`, `z.array(e)`, `z.custom<T>(…)`
  | ref (n : Str)                                          -- `UserSchema`
  | arr (es : ZEs)                                         -- `[e, …]`
  | objErr                                                 -- `{ error: z.string() }` (any object literal argument)
  | other                                                  -- numbers, string literals, arrow functions
  | method (recv : ZE) (name : Str) (args : ZEs)           -- `.optional()`, `.min(1, {…})`, …
inductive ZEs where
  | nil | cons (e : ZE) (es : ZEs)
end

def ZEs.toList : ZEs → List ZE
  | .nil => []
  | .cons e es => e :: es.toList
def ZEs.ofList : List ZE → ZEs
  | [] => .nil
  | e :: es => .cons e (ZEs.ofList es)

def skipBalanced : Nat → Nat → Str → Option Str      -- skip to the matching closer of an already opened bracket
  | 0, _, _ => none
  | _, _, [] => none
  | f+1, d, c :: cs =>
    if c = '"' then
      match P.lexBody cs with
      | some (_, r) => skipBalanced f d r
      | none => none
    else if c = '(' || c = '{' || c = '[' then skipBalanced f (d + 1) cs
    else if c = ')' || c = '}' || c = ']' then (if d = 0 then some cs else skipBalanced f (d - 1) cs)
    else skipBalanced f d cs

mutual
/-- primary: `z.a.b(args)`, `z.custom<T>(args)`, `NameSchema`, `[…]`, `{…}`, literal -/
def pzPrimary : Nat → Str → Option (ZE × Str)
  | 0, _ => none
  | f+1, s =>
    match skipWs s with
    | '[' :: r =>
      match pzArgs f ']' (skipWs r) with
      | some (es, r2) => some (.arr es, r2)
      | none => none
    | '{' :: r => (skipBalanced (r.length + 1) 0 r).map fun r2 => (.objErr, r2)
    | '"' :: r => (P.lexBody r).map fun (_, r2) => (.other, r2)
    | '(' :: r => (skipBalanced (r.length + 1) 0 r).bind fun r2 =>
        -- `(val) => true`
        match skipWs r2 with
        | '=' :: '>' :: r3 => let (_, r4) := takeIdent (skipWs r3); some (.other, r4)
        | _ => none
    | c :: r =>
      if isIdStart c && (takeIdent (c :: r)).1 ≠ cl!"z" then
        -- a schema constant; `.optional()` etc. follow as a method chain
        let (n, r2) := takeIdent (c :: r)
        some (.ref n, r2)
      else if isIdStart c then
        match takeQName ((c :: r).length + 1) (c :: r) with
        | none => none
        | some (qn, r2) =>
          let path := S.splitOn '.' qn
          let (tyArgs, r3) : Option Str × Str := match r2 with
            | '<' :: x => match skipAngle (x.length + 1) 0 x with
              | some y => (some (x.take (x.length - y.length - 1)), y)
              | none => (none, r2)
            | _ => (none, r2)
          match r3 with
          | '(' :: x =>
            match pzArgs f ')' (skipWs x) with
            | some (es, r4) => some (.call path tyArgs es, r4)
            | none => none
          | _ => if path.length = 1 then some (.ref qn, r3) else none
      else if c.isDigit || c = '-' then
        let (_, r2) := Sc.takeWhileS (fun x => x.isDigit || x = '.' || x = '-' || x = 'e') (c :: r)
        some (.other, r2)
      else none
    | [] => none
/-- postfix chain of method calls -/
def pzChain : Nat → ZE → Str → Option (ZE × Str)
  | 0, _, _ => none
  | f+1, e, s =>
    match s with
    | '.' :: r =>
      let (m, r2) := takeIdent r
      match r2 with
      | '(' :: x =>
        match pzArgs f ')' (skipWs x) with
        | some (es, r3) => pzChain f (.method e m es) r3
        | none => none
      | _ => none
    | _ => some (e, s)
def pzExpr : Nat → Str → Option (ZE × Str)
  | 0, _ => none
  | f+1, s =>
    match pzPrimary f s with
    | none => none
    | some (e, r) => pzChain f e r
/-- comma-separated arguments up to the closer -/
def pzArgs : Nat → Char → Str → Option (ZEs × Str)
  | 0, _, _ => none
  | f+1, close, s =>
    match s with
    | c :: r => if c = close then some (.nil, r) else
      match pzExpr f (c :: r) with
      | none => none
      | some (e, r2) =>
        match skipWs r2 with
        | ',' :: r3 =>
          match pzArgs f close (skipWs r3) with
          | some (es, r4) => some (.cons e es, r4)
          | none => none
        | c2 :: r3 => if c2 = close then some (.cons e .nil, r3) else none
        | [] => none
    | [] => none
/-- skip a `<…>` type argument list -/
def skipAngle : Nat → Nat → Str → Option Str
  | 0, _, _ => none
  | _, _, [] => none
  | f+1, d, c :: cs =>
    if c = '<' then skipAngle f (d + 1) cs
    else if c = '>' then (if d = 0 then some cs else skipAngle f (d - 1) cs)
    else skipAngle f d cs
end

/-- block comments (`/* Unknown primitive: x */`) are white space; string literals are copied verbatim -/
def stripCommentsF : Nat → Str → Str
  | 0, s => s
  | _, [] => []
  | f+1, '/' :: '*' :: r => match Sc.skipBlock r with | some r2 => ' ' :: stripCommentsF f r2 | none => []
  | f+1, '"' :: r => match P.lexBody r with
    | some (_, r2) => ('"' :: r.take (r.length - r2.length)) ++ stripCommentsF f r2
    | none => '"' :: r
  | f+1, c :: r => c :: stripCommentsF f r
def stripComments (s : Str) : Str := stripCommentsF (s.length + 1) s

def parseZod (s0 : Str) : Option ZE :=
  let s := stripComments s0
  match pzExpr (6 * s.length + 10) s with
  | some (e, r) => if skipWs r = [] then some e else none
  | none => none

def stripSchema (n : Str) : Str :=
  if A.startsWith n.reverse cl!"amehcS" then n.take (n.length - 6) else n

mutual
def shapeOfZ : ZE → Shape
  | .ref n => .ref (stripSchema n)
  | .call path tyArg args =>
    let last := path.getLast?.getD []
    if last = cl!"string" then .str else if last = cl!"number" then .num
    else if last = cl!"boolean" then .bool else if last = cl!"void" then .void
    else if last = cl!"unknown" then .unknown
    else if last = cl!"array" then (match args with | .cons e .nil => .arr (shapeOfZ e) | _ => .unknown)
    else if last = cl!"set" then (match args with | .cons e .nil => .set (shapeOfZ e) | _ => .unknown)
    else if last = cl!"record" then (match args with | .cons k (.cons v .nil) => .record (shapeOfZ k) (shapeOfZ v) | _ => .unknown)
    else if last = cl!"tuple" then (match args with | .cons (.arr es) .nil => .tup (shapesOfZ es) | _ => .unknown)
    else if last = cl!"union" then (match args with | .cons (.arr es) .nil => .alt (shapesOfZ es) | _ => .unknown)
    else if last = cl!"object" then .errObj
    else if last = cl!"custom" then
      (match tyArg with
       | some t => (match parseTsTy t with | some ty => shapeOfTs ty | none => .unknown)
       | none => .unknown)
    else .unknown
  | .method recv m _ =>
    if m = cl!"optional" || m = cl!"nullable" then mkOmit (shapeOfZ recv) else shapeOfZ recv
  | .arr _ => .unknown
  | .objErr => .errObj
  | .other => .unknown
def shapesOfZ : ZEs → Shapes
  | .nil => .nil
  | .cons e es => .cons (shapeOfZ e) (shapesOfZ es)
end

/-! ### the shapes the two renderers produce for a `TypeStructure` (no type mappings) -/
mutual
/-- what `visitTs` describes (arrays for sequences and sets, `| null` = omittable) -/
def tsShape : TS → Shape
  | .prim p => (primShape p).getD .unknown
  | .array t => .arr (tsShape t)
  | .set t => .arr (tsShape t)
  | .map k v => .record (tsShape k) (tsShape v)
  | .tuple ts => match ts with | .nil => .void | .cons t r => .tup (.cons (tsShape t) (tsShapes r))
  | .optional t => mkOmit (tsShape t)
  | .result t => tsShape t
  | .custom n => .ref n
def tsShapes : TSList → Shapes
  | .nil => .nil
  | .cons t ts => .cons (tsShape t) (tsShapes ts)
end

mutual
/-- what `ZodSchemaBuilder::render_type` describes -/
def zodShape : TS → Shape
  | .prim p => (primShape p).getD .unknown
  | .array t => .arr (zodShape t)
  | .set t => .set (zodShape t)
  | .map k v => .record (zodShape k) (zodShape v)
  | .tuple ts => match ts with | .nil => .void | .cons t r => .tup (.cons (zodShape t) (zodShapes r))
  | .optional t => mkOmit (zodShape t)
  | .result t => .alt (.cons (zodShape t) (.cons .errObj .nil))
  | .custom n => .ref n
def zodShapes : TSList → Shapes
  | .nil => .nil
  | .cons t ts => .cons (zodShape t) (zodShapes ts)
end

mutual
/-- no `HashSet`/`BTreeSet` and no `Result` anywhere inside -/
def noSetNoResult : TS → Bool
  | .prim _ | .custom _ => true
  | .array t | .optional t => noSetNoResult t
  | .set _ | .result _ => false
  | .map k v => noSetNoResult k && noSetNoResult v
  | .tuple ts => noSetNoResults ts
def noSetNoResults : TSList → Bool
  | .nil => true
  | .cons t ts => noSetNoResult t && noSetNoResults ts
end

mutual
/-- no `HashSet`/`BTreeSet` anywhere inside (`Result` allowed) -/
def noSet : TS → Bool
  | .prim _ | .custom _ => true
  | .array t | .optional t | .result t => noSet t
  | .set _ => false
  | .map k v => noSet k && noSet v
  | .tuple ts => noSets ts
def noSets : TSList → Bool
  | .nil => true
  | .cons t ts => noSet t && noSets ts
end

mutual
/-- primitives are the four target primitives, custom names are neither a primitive keyword nor `null` -/
def namesOk : TS → Bool
  | .prim p => (primShape p).isSome
  | .custom n => (primShape n).isNone && n ≠ cl!"null"
  | .array t | .set t | .optional t | .result t => namesOk t
  | .map k v => namesOk k && namesOk v
  | .tuple ts => namesOkL ts
def namesOkL : TSList → Bool
  | .nil => true
  | .cons t ts => namesOk t && namesOkL ts
end

mutual
/-- the two known deviations undone: `z.set(x)` read as an array, `z.union([x, {error}])` read as `x` -/
def normKnown : Shape → Shape
  | .set s => .arr (normKnown s)
  | .arr s => .arr (normKnown s)
  | .record k v => .record (normKnown k) (normKnown v)
  | .tup ss => .tup (normKnowns ss)
  | .omittable s => mkOmit (normKnown s)
  | .alt (.cons s (.cons .errObj .nil)) => normKnown s
  | .alt ss => .alt (normKnowns ss)
  | s => s
def normKnowns : Shapes → Shapes
  | .nil => .nil
  | .cons s ss => .cons (normKnown s) (normKnowns ss)
end

end Z
