import Typegen.TypeStr
import Typegen.Esc
/-! Model of the three renderers of `TypeStructure`:
    `TypeVisitor::visit_type` as implemented by `TypeScriptVisitor` (= `ZodVisitor::visit_type_for_interface`),
    `ZodVisitor::visit_type`, `ZodSchemaBuilder::render_type`, and the string filter `add_types_prefix`.
    Mirrors the code that exists, bugs included (no parentheses around unions, `z.set`, …). -/
namespace V
open L

abbrev Mappings := List (Str × Str)

def lookup (m : Mappings) (n : Str) : Option Str :=
  match m.find? (fun p => p.1 == n) with
  | some p => some p.2
  | none => none

def joinWith (sep : Str) : List Str → Str
  | [] => []
  | [a] => a
  | a :: b :: rest => a ++ sep ++ joinWith sep (b :: rest)

def sArr : Str := ['[', ']']
def sNull : Str := [' ', '|', ' ', 'n', 'u', 'l', 'l']
def sUndef : Str := [' ', '|', ' ', 'u', 'n', 'd', 'e', 'f', 'i', 'n', 'e', 'd']
def sRecord : Str := ['R', 'e', 'c', 'o', 'r', 'd', '<']
def sMap : Str := ['M', 'a', 'p', '<']
def sTypes : Str := ['t', 'y', 'p', 'e', 's', '.']
def sComma : Str := [',', ' ']
def sVoid : Str := ['v', 'o', 'i', 'd']

/-! ### TypeScript rendering (`visit_type` of `TypeScriptVisitor`, `visit_type_for_interface` of both) -/
mutual
def visitTs (m : Mappings) : TS → Str
  | .prim p => p
  | .array t => visitTs m t ++ sArr
  | .map k v => sRecord ++ visitTs m k ++ sComma ++ visitTs m v ++ ['>']
  | .set t => visitTs m t ++ sArr
  | .tuple ts =>
    match ts with
    | .nil => sVoid
    | .cons t rest => ['['] ++ joinWith sComma (visitTs m t :: visitTsList m rest) ++ [']']
  | .optional t => visitTs m t ++ sNull
  | .result t => visitTs m t
  | .custom n => (lookup m n).getD n
def visitTsList (m : Mappings) : TSList → List Str
  | .nil => []
  | .cons t ts => visitTs m t :: visitTsList m ts
end

/-! ### `ZodVisitor::visit_type` -/
def zodPrim (p : Str) : Str :=
  if p = cl!"string" then cl!"z.string()"
  else if p = cl!"number" then cl!"z.number()"
  else if p = cl!"boolean" then cl!"z.boolean()"
  else if p = cl!"void" then cl!"z.void()"
  else cl!"z.unknown() /* Unexpected: " ++ p ++ cl!" */"

def zodMapped (mapped : Str) : Str :=
  if mapped = cl!"string" then cl!"z.string()"
  else if mapped = cl!"number" then cl!"z.number()"
  else if mapped = cl!"boolean" then cl!"z.boolean()"
  else if mapped = cl!"void" then cl!"z.void()"
  else cl!"z.custom<" ++ mapped ++ cl!">((val) => true)"

def zodCustom (m : Mappings) (n : Str) : Str :=
  match lookup m n with
  | some mapped => zodMapped mapped
  | none => n ++ cl!"Schema"

mutual
def visitZod (m : Mappings) : TS → Str
  | .prim p => zodPrim p
  | .array t => cl!"z.array(" ++ visitZod m t ++ [')']
  | .map k v => cl!"z.record(" ++ visitZod m k ++ sComma ++ visitZod m v ++ [')']
  | .set t => cl!"z.array(" ++ visitZod m t ++ [')']
  | .tuple ts =>
    match ts with
    | .nil => cl!"z.void()"
    | .cons t rest => cl!"z.tuple([" ++ joinWith sComma (visitZod m t :: visitZodList m rest) ++ cl!"])"
  | .optional t => visitZod m t ++ cl!".nullable()"
  | .result t => visitZod m t
  | .custom n => zodCustom m n
def visitZodList (m : Mappings) : TSList → List Str
  | .nil => []
  | .cons t ts => visitZod m t :: visitZodList m ts
end

/-! ### validator attributes and `ZodSchemaBuilder` -/
structure Bound where
  min : Option Str     -- already printed (`u64`/`f64` Display), supplied by the harness for f64
  max : Option Str
  message : Option Str
  deriving DecidableEq, Repr

structure Validator where
  length : Option Bound
  range : Option Bound
  email : Bool
  url : Bool
  deriving DecidableEq, Repr

/-- `escape_js_string` / the `escape_js` filter: five sequential `replace`s, backslash first (Esc.lean) -/
def escapeJs (s : Str) : Str := P.escapeJs s

def msgSuffix (msg : Option Str) : Str :=
  match msg with
  | some mtxt => cl!", { message: \"" ++ escapeJs mtxt ++ cl!"\" }"
  | none => []

/-- the common body of `apply_length_validator` / `apply_range_validator` -/
def applyBound (schema : Str) (b : Bound) : Str :=
  match b.min, b.max with
  | some mn, some mx =>
    schema ++ cl!".min(" ++ mn ++ msgSuffix b.message ++ cl!")" ++ cl!".max(" ++ mx ++ msgSuffix b.message ++ cl!")"
  | some mn, none => schema ++ cl!".min(" ++ mn ++ msgSuffix b.message ++ cl!")"
  | none, some mx => schema ++ cl!".max(" ++ mx ++ msgSuffix b.message ++ cl!")"
  | none, none => schema

def applyLength (schema : Str) (v : Option Validator) (skip : Bool) : Str :=
  if skip then schema else
  match v with
  | none => schema
  | some val => match val.length with
    | none => schema
    | some b => applyBound schema b

def applyRange (schema : Str) (v : Option Validator) (skip : Bool) : Str :=
  if skip then schema else
  match v with
  | none => schema
  | some val => match val.range with
    | none => schema
    | some b => applyBound schema b

def applyStringValidators (schema : Str) (v : Option Validator) (skip : Bool) : Str :=
  if skip then schema else
  match v with
  | none => schema
  | some val =>
    let r1 := if val.email then schema ++ cl!".email()" else schema
    let r2 := if val.url then r1 ++ cl!".url()" else r1
    applyLength r2 v skip

def renderPrimitive (p : Str) (v : Option Validator) (skip isKey : Bool) : Str :=
  if p = cl!"string" then applyStringValidators cl!"z.string()" v skip
  else if p = cl!"number" then
    applyRange (if isKey then cl!"z.number()" else cl!"z.coerce.number()") v skip
  else if p = cl!"boolean" then cl!"z.coerce.boolean()"
  else if p = cl!"void" then cl!"z.void()"
  else cl!"z.unknown() /* Unknown primitive: " ++ p ++ cl!" */"

mutual
/-- `ZodSchemaBuilder::render_type(ts, validator, skip_validation, is_record_key)` -/
def renderType (m : Mappings) (v : Option Validator) : TS → Bool → Bool → Str
  | .optional t, _, isKey => renderType m v t false isKey ++ cl!".optional()"
  | .prim p, skip, isKey => renderPrimitive p v skip isKey
  | .array t, skip, _ => applyLength (cl!"z.array(" ++ renderType m v t true false ++ [')']) v skip
  | .map k val, _, _ => cl!"z.record(" ++ renderType m v k true true ++ sComma ++ renderType m v val true false ++ [')']
  | .set t, _, _ => cl!"z.set(" ++ renderType m v t true false ++ [')']
  | .tuple ts, _, _ =>
    match ts with
    | .nil => cl!"z.void()"
    | .cons t rest => cl!"z.tuple([" ++ joinWith sComma (renderType m v t true false :: renderTypeList m v rest) ++ cl!"])"
  | .result t, _, _ => cl!"z.union([" ++ renderType m v t true false ++ cl!", z.object({ error: z.string() })])"
  | .custom n, _, _ => zodCustom m n
def renderTypeList (m : Mappings) (v : Option Validator) : TSList → List Str
  | .nil => []
  | .cons t ts => renderType m v t true false :: renderTypeList m v ts
end

def buildSchema (m : Mappings) (t : TS) (v : Option Validator) : Str := renderType m v t false false
def buildParamSchema (m : Mappings) (t : TS) : Str := renderType m none t true false

/-! ### `add_types_prefix` -/
def endsWith (s suf : Str) : Bool := startsWith s.reverse suf.reverse
def dropEnd (n : Nat) (s : Str) : Str := (s.reverse.drop n).reverse

def isPrimKw (s : Str) : Bool :=
  s ∈ [cl!"void", cl!"string", cl!"number", cl!"boolean", cl!"any", cl!"unknown", cl!"null", cl!"undefined"]
def isArrPrim (s : Str) : Bool :=
  s ∈ [cl!"string", cl!"number", cl!"boolean", cl!"void"]

/-- one level; `rec` is the recursive call (on a strictly shorter string) -/
def addPrefixBody (rec : Str → Str) (s : Str) : Str :=
  if isPrimKw s then s
  else if endsWith s sArr then
    let base := dropEnd 2 s
    if isArrPrim base then s else sTypes ++ base ++ sArr
  else if startsWith s sRecord || startsWith s sMap then s
  else if endsWith s sNull then rec (dropEnd 7 s) ++ sNull
  else if endsWith s sUndef then rec (dropEnd 12 s) ++ sUndef
  else if startsWith s ['['] && endsWith s [']'] then s
  else if startsWith s sTypes then s
  else sTypes ++ s

def addTypesPrefix : Nat → Str → Str
  | 0, s => s
  | fuel+1, s => addPrefixBody (addTypesPrefix fuel) s

def addPrefix (s : Str) : Str := addTypesPrefix (s.length + 1) s

end V
