import Typegen.Analyze
/-! The event walker against a state-free specification (C12): the names of the events `walkStmts` collects from a
    function body are exactly the syntactic occurrences `occSs` of `emit` / `emit_to` calls at the documented placements
    (statement, initialiser of any `let`, under `?` / `.await`, receiver or argument of a method call, any nesting of
    blocks, `if`, `match`, loops), in source order — whatever the symbol table threaded through the walk contains. -/
namespace An
open Pj

/-- the event name of one `emit` / `emit_to` call: the string literal in name position, if there is one -/
def emitName (method : Str) (args : List Expr) : Option Str :=
  if method = cl!"emit_to" then
    match args with
    | _ :: n :: _ :: _ => strLit n
    | _ => none
  else
    match args with
    | n :: _ :: _ => strLit n
    | _ => none

mutual
/-- names of the documented emit calls inside an expression, in source order -/
def occE : Expr → List Str
  | .mcall recv m args =>
    (if (m = cl!"emit" || m = cl!"emit_to") && isEmitter recv then (emitName m (exprList args)).toList else []) ++
    occE recv ++ occEs args
  | .block body => occSs body
  | .ifE thenB elseE => occSs thenB ++ occEs elseE
  | .matchE arms => occEs arms
  | .loopE body => occSs body
  | .await e => occE e
  | .try e => occE e
  | _ => []
def occEs : Exprs → List Str
  | .nil => []
  | .cons e rest => occE e ++ occEs rest
def occS : Stmt → List Str
  | .expr e => occE e
  | .letS _ _ (some i) => occE i
  | _ => []
def occSs : Stmts → List Str
  | .nil => []
  | .cons s rest => occS s ++ occSs rest
end

/-- the symbol table in force while the initialiser of a `let` is walked (`extract_local_binding`) -/
def letSym (sym : Sym) (identName : Option Str) (typed : Option (Str × GTy)) (init : Option Expr) : Sym :=
  let sym1 : Sym :=
    match identName, init with
    | some n, some i => let t := inferInit sym i; if t ≠ sUnknown then symSet sym n t else sym
    | _, _ => sym
  match typed with
  | some (n, ty) => symSet sym1 n (typeNameOf ty)
  | none => sym1

theorem emitEvent_name (file : Str) (sym : Sym) (m : Str) (args : List Expr) :
    (emitEvent file sym m args).toList.map (·.name) = (emitName m args).toList := by
  unfold emitEvent emitName
  split
  · split <;> simp <;> (cases strLit _ <;> simp)
  · split <;> simp <;> (cases strLit _ <;> simp)

mutual
theorem walkExpr_names (file : Str) : ∀ (e : Expr) (st : Sym × List EInfo),
    (walkExpr file e st).2.map (·.name) = st.2.map (·.name) ++ occE e
  | .mcall recv m args, (sym, evs) => by
    simp only [walkExpr, occE]
    rw [walkExprs_names file args, walkExpr_names file recv]
    simp only [List.map_append, List.append_assoc]
    congr 1
    split
    · simp [emitEvent_name]
    · simp
  | .block body, st => by simp only [walkExpr, occE]; exact walkStmts_names file body st
  | .ifE thenB elseE, st => by
    simp only [walkExpr, occE]
    rw [walkExprs_names file elseE, walkStmts_names file thenB, List.append_assoc]
  | .matchE arms, st => by simp only [walkExpr, occE]; exact walkExprs_names file arms st
  | .loopE body, st => by simp only [walkExpr, occE]; exact walkStmts_names file body st
  | .await e, st => by simp only [walkExpr, occE]; exact walkExpr_names file e st
  | .try e, st => by simp only [walkExpr, occE]; exact walkExpr_names file e st
  | .call _ _, st => by simp [walkExpr, occE]
  | .path _, st => by simp [walkExpr, occE]
  | .field _ _, st => by simp [walkExpr, occE]
  | .struct _, st => by simp [walkExpr, occE]
  | .ref _, st => by simp [walkExpr, occE]
  | .lit _ _, st => by simp [walkExpr, occE]
  | .tuple _, st => by simp [walkExpr, occE]
  | .other _, st => by simp [walkExpr, occE]
theorem walkExprs_names (file : Str) : ∀ (es : Exprs) (st : Sym × List EInfo),
    (walkExprs file es st).2.map (·.name) = st.2.map (·.name) ++ occEs es
  | .nil, st => by simp [walkExprs, occEs]
  | .cons e rest, st => by
    simp only [walkExprs, occEs]
    rw [walkExprs_names file rest, walkExpr_names file e, List.append_assoc]
theorem walkStmt_names (file : Str) : ∀ (s : Stmt) (st : Sym × List EInfo),
    (walkStmt file s st).2.map (·.name) = st.2.map (·.name) ++ occS s
  | .expr e, st => by
    have h : walkStmt file (.expr e) st = walkExpr file e st := rfl
    rw [h]; simp only [occS]; exact walkExpr_names file e st
  | .letS i t (some init), (sym, evs) => by
    have h : walkStmt file (.letS i t (some init)) (sym, evs) = walkExpr file init (letSym sym i t (some init), evs) := by
      cases i <;> cases t <;> rfl
    rw [h, walkExpr_names file init]
    simp only [occS]
  | .letS i t none, (sym, evs) => by
    have h : (walkStmt file (.letS i t none) (sym, evs)).2 = evs := by
      cases i <;> cases t <;> rfl
    rw [h]; simp [occS]
  | .other, st => by
    have h : walkStmt file .other st = st := rfl
    rw [h]; simp [occS]
theorem walkStmts_names (file : Str) : ∀ (ss : Stmts) (st : Sym × List EInfo),
    (walkStmts file ss st).2.map (·.name) = st.2.map (·.name) ++ occSs ss
  | .nil, st => by simp [walkStmts, occSs]
  | .cons s rest, st => by
    simp only [walkStmts, occSs]
    rw [walkStmts_names file rest, walkStmt_names file s, List.append_assoc]
end

/-- the event names of one file: the documented occurrences in every top-level function, in item order -/
theorem fileEvents_names (file : Str) (items : List Item) :
    (fileEvents file items).map (·.name) = (fnItems items).flatMap fun f => occSs f.body := by
  unfold fileEvents
  induction fnItems items with
  | nil => rfl
  | cons f fs ih =>
    simp only [List.flatMap_cons, List.map_append, ih]
    congr 1
    simpa using walkStmts_names file f.body (paramSyms f.params, [])

end An
