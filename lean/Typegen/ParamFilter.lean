import Typegen.Analyze
/-! C04, filter half: which parameters become keys.  The statement's spellings of injected and channel parameter types,
    and the proof that `is_tauri_parameter_type` + `extract_channel_message_type` treat each as the statement says. -/
namespace PF
open Pj An

abbrev Seg := Str × ArgKind × GArgs

/-- the body of `isTauriParamType` on the segment list -/
def isTauriL (l : List Seg) : Bool :=
  let qualified : Option Bool :=
    match l with
    | (a, _, _) :: (b, _, _) :: [] =>
      if a = cl!"tauri" then
        some (b = cl!"AppHandle" || b = cl!"Window" || b = cl!"WebviewWindow" || b = cl!"State" || b = cl!"Manager" ||
              b = cl!"Channel")
      else none
    | (a, _, _) :: (b, _, _) :: (c, _, _) :: [] =>
      if a = cl!"tauri" && b = cl!"ipc" then some (c = cl!"Request" || c = cl!"Channel") else none
    | _ => none
  match qualified with
  | some r => r
  | none =>
    match l.getLast? with
    | none => false
    | some (id, k, a) =>
      if id = cl!"AppHandle" || id = cl!"WebviewWindow" then true
      else if id = cl!"Channel" && k = .angle then true
      else if (id = cl!"State" || id = cl!"Window") && !pathArgsEmpty k a then true
      else false

theorem isTauri_path (segs : GSegs) : isTauriParamType (.path segs) = isTauriL (segList segs) := rfl

def chanL (l : List Seg) : Option Str :=
  match l.getLast? with
  | none => none
  | some (id, k, a) =>
    let isChan := id = cl!"Channel" &&
      (l.length = 1 || (match l.head? with | some (f, _, _) => f = cl!"tauri" | none => false))
    if !isChan then none else
    match k, a with
    | .angle, .ty t _ => some (tyStr .chan t)
    | _, _ => none

theorem chan_path (segs : GSegs) : channelMessageType (.path segs) = chanL (segList segs) := rfl

/-- the spellings of framework-injected parameter types the statement lists -/
def spellInjectedL : List Seg → Bool
  | [(a, k, args)] =>
    a = cl!"AppHandle" || a = cl!"WebviewWindow" || ((a = cl!"State" || a = cl!"Window") && !pathArgsEmpty k args)
  | [(t, _, _), (b, _, _)] =>
    t = cl!"tauri" && (b = cl!"AppHandle" || b = cl!"Window" || b = cl!"WebviewWindow" || b = cl!"State")
  | [(t, _, _), (i, _, _), (r, _, _)] => t = cl!"tauri" && i = cl!"ipc" && r = cl!"Request"
  | _ => false

theorem injectedL_never_key (l : List Seg) (h : spellInjectedL l = true) : isTauriL l = true ∧ chanL l = none := by
  match l with
  | [] => simp [spellInjectedL] at h
  | [(a, k, args)] =>
    simp only [spellInjectedL, Bool.or_eq_true, decide_eq_true_eq, Bool.and_eq_true, Bool.not_eq_true'] at h
    rcases h with (h | h) | ⟨h1 | h1, h2⟩
    all_goals subst_vars
    · constructor <;> simp [isTauriL, chanL, List.getLast?]
    · constructor <;> simp [isTauriL, chanL, List.getLast?]
    · constructor
      · simp [isTauriL, List.getLast?, h2]
      · simp [chanL, List.getLast?]
    · constructor
      · simp [isTauriL, List.getLast?, h2]
      · simp [chanL, List.getLast?]
  | [(t, _, _), (b, k, args)] =>
    simp only [spellInjectedL, Bool.or_eq_true, decide_eq_true_eq, Bool.and_eq_true] at h
    obtain ⟨rfl, hb⟩ := h
    rcases hb with ((rfl | rfl) | rfl) | rfl
    all_goals (constructor <;> simp [isTauriL, chanL, List.getLast?])
  | [(t, _, _), (i, _, _), (r, k, args)] =>
    simp only [spellInjectedL, Bool.and_eq_true, decide_eq_true_eq] at h
    obtain ⟨⟨rfl, rfl⟩, rfl⟩ := h
    constructor <;> simp [isTauriL, chanL, List.getLast?]
  | _ :: _ :: _ :: _ :: _ => simp [spellInjectedL] at h

/-- `Channel<T>`, `tauri::Channel<T>`, `tauri::ipc::Channel<T>` with a type as first generic argument -/
def spellChannelL : List Seg → Option GTy
  | [(a, .angle, .ty t _)] => if a = cl!"Channel" then some t else none
  | [(p, _, _), (a, .angle, .ty t _)] => if p = cl!"tauri" && a = cl!"Channel" then some t else none
  | [(p, _, _), (i, _, _), (a, .angle, .ty t _)] =>
    if p = cl!"tauri" && i = cl!"ipc" && a = cl!"Channel" then some t else none
  | _ => none

/-- a channel parameter is not a value key, and is re-attached exactly as a channel with its message type -/
theorem channelL_key (l : List Seg) (t : GTy) (h : spellChannelL l = some t) :
    isTauriL l = true ∧ chanL l = some (tyStr .chan t) := by
  match l with
  | [(a, .angle, .ty t' r)] =>
    simp only [spellChannelL] at h
    split at h
    · next ha => subst ha; cases h; constructor <;> simp [isTauriL, chanL, List.getLast?]
    · cases h
  | [(p, _, _), (a, .angle, .ty t' r)] =>
    simp only [spellChannelL] at h
    split at h
    · next ha =>
      simp only [Bool.and_eq_true, decide_eq_true_eq] at ha
      obtain ⟨rfl, rfl⟩ := ha
      cases h; constructor <;> simp [isTauriL, chanL, List.getLast?]
    · cases h
  | [(p, _, _), (i, _, _), (a, .angle, .ty t' r)] =>
    simp only [spellChannelL] at h
    split at h
    · next ha =>
      simp only [Bool.and_eq_true, decide_eq_true_eq] at ha
      obtain ⟨⟨rfl, rfl⟩, rfl⟩ := ha
      cases h; constructor <;> simp [isTauriL, chanL, List.getLast?]
    · cases h

/-- an ordinary value type: not `tauri::`-qualified and its last segment is none of the five special names -/
def plainL (l : List Seg) : Bool :=
  (match l.head? with | some (f, _, _) => f ≠ cl!"tauri" | none => true) &&
  (match l.getLast? with
   | some (id, _, _) => id ≠ cl!"AppHandle" && id ≠ cl!"WebviewWindow" && id ≠ cl!"Channel" && id ≠ cl!"State" && id ≠ cl!"Window"
   | none => true)

theorem plainL_key (l : List Seg) (h : plainL l = true) : isTauriL l = false ∧ chanL l = none := by
  unfold plainL at h
  simp only [Bool.and_eq_true] at h
  obtain ⟨hh, hl⟩ := h
  match l, hh, hl with
  | [], _, _ => constructor <;> simp [isTauriL, chanL]
  | [(a, k, args)], hh, hl =>
    simp [List.getLast?] at hl
    constructor <;> simp [isTauriL, chanL, List.getLast?, hl]
  | [(a, _, _), (b, k, args)], hh, hl =>
    simp [List.head?] at hh
    simp [List.getLast?] at hl
    constructor <;> simp [isTauriL, chanL, List.getLast?, hl, hh]
  | [(a, _, _), (b, _, _), (c, k, args)], hh, hl =>
    simp [List.head?] at hh
    simp [List.getLast?] at hl
    constructor <;> simp [isTauriL, chanL, List.getLast?, hl, hh]
  | x :: y :: z :: w :: rest, hh, hl =>
    constructor
    · unfold isTauriL
      simp only
      cases hg : (x :: y :: z :: w :: rest).getLast? with
      | none => rfl
      | some v =>
        obtain ⟨id, k, a⟩ := v
        rw [hg] at hl
        simp at hl
        simp [hl]
    · unfold chanL
      cases hg : (x :: y :: z :: w :: rest).getLast? with
      | none => rfl
      | some v =>
        obtain ⟨id, k, a⟩ := v
        rw [hg] at hl
        simp at hl
        simp [hl]

inductive Kind | injected | channel | plain deriving DecidableEq

/-- classification of a parameter type by the statement's list of spellings; `none` = a spelling the statement
    does not mention (e.g. `my::Window`, `tauri::Manager`) -/
def kindOf : GTy → Option Kind
  | .path segs =>
    let l := segList segs
    if spellInjectedL l then some .injected
    else if (spellChannelL l).isSome then some .channel
    else if plainL l then some .plain else none
  | _ => some .plain

theorem kind_facts (t : GTy) (k : Kind) (h : kindOf t = some k) :
    (k = .injected → isTauriParamType t = true ∧ channelMessageType t = none) ∧
    (k = .channel → isTauriParamType t = true ∧ (channelMessageType t).isSome = true) ∧
    (k = .plain → isTauriParamType t = false ∧ channelMessageType t = none) := by
  cases t with
  | path segs =>
    simp only [kindOf] at h
    rw [isTauri_path, chan_path]
    split at h
    · next hi => cases h; simp [injectedL_never_key _ hi]
    · split at h
      · next hc =>
        cases h
        obtain ⟨t', ht'⟩ := Option.isSome_iff_exists.mp hc
        simp [channelL_key _ t' ht']
      · split at h
        · next hp => cases h; simp [plainL_key _ hp]
        · cases h
  | ref _ => simp [kindOf] at h; subst h; simp [isTauriParamType, channelMessageType]
  | tuple _ => simp [kindOf] at h; subst h; simp [isTauriParamType, channelMessageType]
  | array _ => simp [kindOf] at h; subst h; simp [isTauriParamType, channelMessageType]
  | slice _ => simp [kindOf] at h; subst h; simp [isTauriParamType, channelMessageType]
  | other => simp [kindOf] at h; subst h; simp [isTauriParamType, channelMessageType]

/-- **C04, which parameters become keys**: for a parameter list in the statement's spellings, the value keys are the
    plain parameters (in order), the channel keys are the channel parameters (in order), injected parameters
    contribute nothing — so the key set is exactly the parameters Tauri fills from the frontend, each once -/
theorem C04_keys_exactly_frontend_params (ps : List Param)
    (h : ∀ p ∈ ps, p.patIdent.isSome = true ∧ (kindOf p.ty).isSome = true) :
    (extractParams ps).map (·.name) = (ps.filter fun p => kindOf p.ty = some .plain).filterMap (·.patIdent) ∧
    (extractChannels ps).map (·.param) = (ps.filter fun p => kindOf p.ty = some .channel).filterMap (·.patIdent) := by
  induction ps with
  | nil => exact ⟨rfl, rfl⟩
  | cons p ps ih =>
    have hp := h p (by simp)
    have ih' := ih (fun q hq => h q (List.mem_cons_of_mem _ hq))
    obtain ⟨name, hname⟩ := Option.isSome_iff_exists.mp hp.1
    obtain ⟨k, hk⟩ := Option.isSome_iff_exists.mp hp.2
    have hf := kind_facts p.ty k hk
    unfold extractParams extractChannels at ih' ⊢
    cases k with
    | injected =>
      have := hf.1 rfl
      simp [List.filterMap_cons, List.filter_cons, hname, hk, this.1, this.2, ih'.1, ih'.2]
    | channel =>
      have := hf.2.1 rfl
      obtain ⟨mt, hmt⟩ := Option.isSome_iff_exists.mp this.2
      simp [List.filterMap_cons, List.filter_cons, hname, hk, this.1, hmt, ih'.1, ih'.2]
    | plain =>
      have := hf.2.2 rfl
      simp [List.filterMap_cons, List.filter_cons, hname, hk, this.1, this.2, ih'.1, ih'.2]

/-! non-vacuity: `(app: AppHandle, state: tauri::State<'_, Db>, user_id: i32, on_event: Channel<String>)` -/
def exParams : List Param :=
  let seg (n : String) (k : ArgKind) (a : GArgs) (r : GSegs) : GSegs := .cons n.toList k a r
  [{ patIdent := some cl!"app", ty := .path (seg "AppHandle" .none .nil .nil), attrs := [] },
   { patIdent := some cl!"state", ty := .path (seg "tauri" .none .nil (seg "State" .angle (.other (.ty (.path (seg "Db" .none .nil .nil)) .nil)) .nil)), attrs := [] },
   { patIdent := some cl!"user_id", ty := .path (seg "i32" .none .nil .nil), attrs := [] },
   { patIdent := some cl!"on_event", ty := .path (seg "Channel" .angle (.ty (.path (seg "String" .none .nil .nil)) .nil) .nil), attrs := [] }]
example : (exParams.map fun p => kindOf p.ty) = [some .injected, some .injected, some .plain, some .channel] := by decide +kernel
example : (extractParams exParams).map (·.name) = [cl!"user_id"] ∧ (extractChannels exParams).map (·.param) = [cl!"on_event"] := by
  decide +kernel

end PF
