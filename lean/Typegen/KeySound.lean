import Typegen.Generate
/-! Key soundness of the cache for the *concrete* generation model (C08): the output of `Gn.generate` on an analysis
    produced by `An.analyze` is a function of exactly the view the hash structs of src/build/generation_cache.rs
    record — commands, (event name, payload) pairs, discovered types, configuration.  The two things the analysis
    carries beyond that view are shown irrelevant / derived: the file an event was found in is never read by a
    generator, and the dependency sets are a function of the discovered types. -/
namespace KS
open Pj An Gn

/-- what `EventHashData` records of an event -/
def evView (e : EInfo) : Str × Str := (e.name, e.payload)

/-- the hashed view of an analysis (one component per `*HashData` list) -/
structure View where
  commands : List CInfo
  events : List (Str × Str)
  structs : List SInfo
  deriving DecidableEq

def viewOf (a : Analysis) : View := { commands := a.commands, events := a.events.map evView, structs := a.structs }

/-- the dependency sets as a function of the discovered types -/
def depsOfStruct (s : SInfo) : Str × List Str := (s.name, O.sortNames (harvestAll (s.fields.map (·.rustType))))

def Derived (l : List (SInfo × List Str)) : Prop := ∀ d ∈ l, d.2 = harvestAll (d.1.fields.map (·.rustType))

theorem resolve_derived (files : List File) : ∀ (fuel : Nat) (pending : List Str) (done : List (SInfo × List Str)),
    Derived done → Derived (resolve files fuel pending done)
  | 0, _, _, h => by simpa [resolve] using h
  | _+1, [], _, h => by simpa [resolve] using h
  | fuel+1, n :: pending, done, h => by
    unfold resolve
    split
    · exact resolve_derived files fuel pending done h
    · split
      · exact resolve_derived files fuel pending done h
      · apply resolve_derived
        intro d hd
        rcases List.mem_append.mp hd with hd | hd
        · exact h d hd
        · simp only [List.mem_singleton] at hd
          subst hd; rfl

theorem insertBy_mem {α : Type} (key : α → Str) (x : α) : ∀ (l : List α) (y : α), y ∈ insertBy key x l ↔ y = x ∨ y ∈ l
  | [], y => by simp [insertBy]
  | z :: zs, y => by
    unfold insertBy
    split
    · simp
    · simp only [List.mem_cons, insertBy_mem key x zs y]
      constructor
      · rintro (h | h | h) <;> simp [h]
      · rintro (h | h | h) <;> simp [h]

theorem sortBy_mem {α : Type} (key : α → Str) : ∀ (l : List α) (y : α), y ∈ sortBy key l ↔ y ∈ l
  | [], y => by simp [sortBy]
  | x :: xs, y => by simp [sortBy, insertBy_mem, sortBy_mem key xs y]

/-- the dependency table of an analysis is determined by its discovered types -/
theorem deps_of_structs (p : Project) : (analyze p).deps = (analyze p).structs.map depsOfStruct := by
  unfold analyze
  simp only [List.map_map]
  apply List.map_congr_left
  intro d hd
  have hd' := (sortBy_mem _ _ d).mp hd
  have := resolve_derived _ _ _ [] (by intro d hd; cases hd) d hd'
  simp [depsOfStruct, Function.comp, this]

/-! ### the generators never read the file an event was found in -/

def eraseE (e : EInfo) : EInfo := { e with file := [] }
def eraseA (a : Analysis) : Analysis := { a with events := a.events.map eraseE }

theorem eventDecl_erase (cfg : Config) (e : EInfo) : eventDecl cfg (eraseE e) = eventDecl cfg e := rfl

theorem usedNames_erase (a : Analysis) : usedNames (eraseA a) = usedNames a := by
  unfold usedNames eraseA
  simp only [List.flatMap_map, eraseE]

theorem isEmpty_erase (a : Analysis) : (eraseA a).events.isEmpty = a.events.isEmpty := by
  simp [eraseA, List.isEmpty_iff]

theorem zodOrder_erase (a : Analysis) : zodOrder (eraseA a) = zodOrder a := by
  unfold zodOrder
  rw [usedNames_erase]
  rfl

theorem tsTypes_erase (cfg : Config) (a : Analysis) : tsTypesFile cfg (eraseA a) = tsTypesFile cfg a := by
  unfold tsTypesFile structsSortedByName
  rw [usedNames_erase]
  rfl

theorem zodTypes_erase (cfg : Config) (a : Analysis) : zodTypesFile cfg (eraseA a) = zodTypesFile cfg a := by
  unfold zodTypesFile
  rw [usedNames_erase, zodOrder_erase]
  rfl

theorem eventsFile_erase (cfg : Config) (a : Analysis) : eventsFile cfg (eraseA a) = eventsFile cfg a := by
  unfold eventsFile eraseA
  simp only [List.map_map]
  rfl

theorem index_erase (a : Analysis) : indexFile (eraseA a) = indexFile a := by
  unfold indexFile writtenBeforeIndex
  rw [isEmpty_erase]

/-- **no generator reads the file an event was found in** -/
theorem generate_erase (cfg : Config) (a : Analysis) : generate cfg (eraseA a) = generate cfg a := by
  unfold generate
  rw [tsTypes_erase, zodTypes_erase, isEmpty_erase, eventsFile_erase, index_erase]
  rfl

/-- an analysis rebuilt from its hashed view -/
def ofView (v : View) : Analysis :=
  { commands := v.commands, events := v.events.map (fun e => { name := e.1, payload := e.2, file := [] }),
    structs := v.structs, deps := v.structs.map depsOfStruct }

theorem eraseA_analyze (p : Project) : eraseA (analyze p) = ofView (viewOf (analyze p)) := by
  have h := deps_of_structs p
  unfold eraseA ofView viewOf
  simp only [List.map_map]
  congr 1

/-- **the generation is a function of the hashed view and the configuration** -/
theorem generate_of_view (cfg : Config) (p : Project) :
    generate cfg (analyze p) = generate cfg (ofView (viewOf (analyze p))) := by
  rw [← eraseA_analyze, generate_erase]

/-- **key soundness, concrete**: two projects whose analyses have the same hashed view generate the same output under the
    same configuration (this discharges the `keySound` hypothesis of `C08` for the model's generators, with the key
    read as the view itself, i.e. up to collisions of the hash function) -/
theorem keySound (cfg cfg' : Config) (p p' : Project)
    (hv : viewOf (analyze p) = viewOf (analyze p')) (hc : cfg = cfg') :
    generate cfg (analyze p) = generate cfg' (analyze p') := by
  subst hc
  rw [generate_of_view cfg p, generate_of_view cfg p', hv]

end KS
