import Typegen.Generate
/-! Key soundness of the cache for the *concrete* generation model (C08): the output of `Gn.generate` on an analysis
    produced by `An.analyze` is a function of exactly the view the hash structs of src/build/generation_cache.rs
    record — commands, (event name, payload) pairs, discovered types, configuration.  The two things the analysis
    carries beyond that view are shown irrelevant / derived: the file an event was found in is never read by a
    generator, and the dependency sets are a function of the discovered types. -/
namespace KS
open Pj An Gn

/-- what `EventHashData` records of an event -/
def evView (e : EInfo) : Str × Str := (e.name, e.payload)

/-- the hashed view of an analysis (one component per `*HashData` list) -/
structure View where
  commands : List CInfo
  events : List (Str × Str)
  structs : List SInfo
  deriving DecidableEq

/-- what the hash needs of a command / a field for the output to be determined: everything but the file a command was found
    in, whether it is `async`, and whether a field is `pub` (all three are hashed by the tool, none is read by a generator) -/
def normC (c : CInfo) : CInfo := { c with file := [], isAsync := false }
def normF (f : FInfo) : FInfo := { f with isPublic := false }
def normS (s : SInfo) : SInfo := { s with fields := s.fields.map normF }

def viewOf (a : Analysis) : View :=
  { commands := a.commands.map normC, events := a.events.map evView, structs := a.structs.map normS }

/-- the dependency sets as a function of the discovered types -/
def depsOfStruct (s : SInfo) : Str × List Str := (s.name, O.sortNames (harvestAll (s.fields.map (·.rustType))))

def Derived (l : List (SInfo × List Str)) : Prop := ∀ d ∈ l, d.2 = harvestAll (d.1.fields.map (·.rustType))

theorem resolve_derived (files : List File) : ∀ (fuel : Nat) (pending : List Str) (done : List (SInfo × List Str)),
    Derived done → Derived (resolve files fuel pending done)
  | 0, _, _, h => by simpa [resolve] using h
  | _+1, [], _, h => by simpa [resolve] using h
  | fuel+1, n :: pending, done, h => by
    unfold resolve
    split
    · exact resolve_derived files fuel pending done h
    · split
      · exact resolve_derived files fuel pending done h
      · apply resolve_derived
        intro d hd
        rcases List.mem_append.mp hd with hd | hd
        · exact h d hd
        · simp only [List.mem_singleton] at hd
          subst hd; rfl

theorem insertBy_mem {α : Type} (key : α → Str) (x : α) : ∀ (l : List α) (y : α), y ∈ insertBy key x l ↔ y = x ∨ y ∈ l
  | [], y => by simp [insertBy]
  | z :: zs, y => by
    unfold insertBy
    split
    · simp
    · simp only [List.mem_cons, insertBy_mem key x zs y]
      constructor
      · rintro (h | h | h) <;> simp [h]
      · rintro (h | h | h) <;> simp [h]

theorem sortBy_mem {α : Type} (key : α → Str) : ∀ (l : List α) (y : α), y ∈ sortBy key l ↔ y ∈ l
  | [], y => by simp [sortBy]
  | x :: xs, y => by simp [sortBy, insertBy_mem, sortBy_mem key xs y]

/-- the dependency table of an analysis is determined by its discovered types -/
theorem deps_of_structs (p : Project) : (analyze p).deps = (analyze p).structs.map depsOfStruct := by
  unfold analyze
  simp only [List.map_map]
  apply List.map_congr_left
  intro d hd
  have hd' := (sortBy_mem _ _ d).mp hd
  have := resolve_derived _ _ _ [] (by intro d hd; cases hd) d hd'
  simp [depsOfStruct, Function.comp, this]

/-! ### the generators never read the file an event was found in -/

def eraseE (e : EInfo) : EInfo := { e with file := [] }
def eraseA (a : Analysis) : Analysis := { a with events := a.events.map eraseE }

theorem eventDecl_erase (cfg : Config) (e : EInfo) : eventDecl cfg (eraseE e) = eventDecl cfg e := rfl

theorem usedNames_erase (a : Analysis) : usedNames (eraseA a) = usedNames a := by
  unfold usedNames eraseA
  simp only [List.flatMap_map, eraseE]

theorem isEmpty_erase (a : Analysis) : (eraseA a).events.isEmpty = a.events.isEmpty := by
  simp [eraseA, List.isEmpty_iff]

theorem zodOrder_erase (a : Analysis) : zodOrder (eraseA a) = zodOrder a := by
  unfold zodOrder
  rw [usedNames_erase]
  rfl

theorem tsTypes_erase (cfg : Config) (a : Analysis) : tsTypesFile cfg (eraseA a) = tsTypesFile cfg a := by
  unfold tsTypesFile structsSortedByName
  rw [usedNames_erase]
  rfl

theorem zodTypes_erase (cfg : Config) (a : Analysis) : zodTypesFile cfg (eraseA a) = zodTypesFile cfg a := by
  unfold zodTypesFile
  rw [usedNames_erase, zodOrder_erase]
  rfl

theorem eventsFile_erase (cfg : Config) (a : Analysis) : eventsFile cfg (eraseA a) = eventsFile cfg a := by
  unfold eventsFile eraseA
  simp only [List.map_map]
  rfl

theorem index_erase (a : Analysis) : indexFile (eraseA a) = indexFile a := by
  unfold indexFile writtenBeforeIndex
  rw [isEmpty_erase]

/-- **no generator reads the file an event was found in** -/
theorem generate_erase (cfg : Config) (a : Analysis) : generate cfg (eraseA a) = generate cfg a := by
  unfold generate
  rw [tsTypes_erase, zodTypes_erase, isEmpty_erase, eventsFile_erase, index_erase]
  rfl

/-! ### … nor the file a command was found in, nor whether it is `async`, nor whether a field is `pub` -/

def normA (a : Analysis) : Analysis := { a with commands := a.commands.map normC, structs := a.structs.map normS }

theorem findStruct_norm (l : List SInfo) (n : Str) : findStruct (l.map normS) n = (findStruct l n).map normS := by
  unfold findStruct
  induction l with
  | nil => rfl
  | cons s l ih =>
    simp only [List.map_cons, List.find?_cons]
    have : (normS s).name = s.name := rfl
    rw [this]
    split <;> simp_all

theorem fieldRefs_norm (s : SInfo) :
    ((normS s).fields.flatMap fun f => customs (tsOfStr f.rustType)) = (s.fields.flatMap fun f => customs (tsOfStr f.rustType)) := by
  simp only [normS, List.flatMap_map, normF]

theorem nested_norm (l : List SInfo) : ∀ (fuel : Nat) (todo seen : List Str),
    nested (l.map normS) fuel todo seen = nested l fuel todo seen
  | 0, _, _ => by simp [nested]
  | _+1, [], _ => by simp [nested]
  | fuel+1, n :: todo, seen => by
    unfold nested
    rw [findStruct_norm]
    cases h : findStruct l n with
    | none => simp only [Option.map_none]; exact nested_norm l fuel todo seen
    | some s =>
      simp only [Option.map_some]
      rw [fieldRefs_norm]
      have hf : ∀ r, (findStruct (l.map normS) r).isSome = (findStruct l r).isSome := by
        intro r; rw [findStruct_norm]; simp
      simp only [hf]
      exact nested_norm l fuel _ _

theorem usedNames_norm (a : Analysis) : usedNames (normA a) = usedNames a := by
  unfold usedNames normA
  simp only [List.flatMap_map, List.length_map, nested_norm]
  have hf : ∀ r, (findStruct (a.structs.map normS) r).isSome = (findStruct a.structs r).isSome := by
    intro r; rw [findStruct_norm]; simp
  simp only [hf]
  rfl

theorem tsStructDecl_norm (cfg : Config) (s : SInfo) : tsStructDecl cfg (normS s) = tsStructDecl cfg s := by
  simp only [tsStructDecl, normS, normF, fieldKey, List.map_map, List.flatMap_map, Function.comp_def]
  rfl

theorem zodStructDecl_norm (cfg : Config) (s : SInfo) : zodStructDecl cfg (normS s) = zodStructDecl cfg s := by
  simp only [zodStructDecl, zodEnumDecl, zodObjectDecl, normS, normF, fieldKey, List.map_map, List.flatMap_map, Function.comp_def]

theorem insertBy_map {α : Type} (key : α → Str) (g : α → α) (hk : ∀ x, key (g x) = key x) (x : α) :
    ∀ (l : List α), insertBy key (g x) (l.map g) = (insertBy key x l).map g
  | [] => rfl
  | y :: ys => by
    simp only [List.map_cons, insertBy, hk]
    split
    · rfl
    · simp only [List.map_cons, insertBy_map key g hk x ys]

theorem sortBy_map {α : Type} (key : α → Str) (g : α → α) (hk : ∀ x, key (g x) = key x) :
    ∀ (l : List α), sortBy key (l.map g) = (sortBy key l).map g
  | [] => rfl
  | x :: xs => by simp only [List.map_cons, sortBy, sortBy_map key g hk xs, insertBy_map key g hk]

theorem structsSorted_norm (a : Analysis) : structsSortedByName (normA a) = (structsSortedByName a).map normS := by
  unfold structsSortedByName
  rw [usedNames_norm]
  have : (usedNames a).filterMap (findStruct (normA a).structs) = ((usedNames a).filterMap (findStruct a.structs)).map normS := by
    simp only [normA, List.map_filterMap]
    congr 1
    funext n
    exact findStruct_norm a.structs n
  rw [this]
  exact sortBy_map _ normS (fun _ => rfl) _

theorem hasChannels_norm (a : Analysis) : hasChannels (normA a) = hasChannels a := by
  simp only [hasChannels, normA, List.any_map, Function.comp_def, normC]

theorem tsTypes_norm (cfg : Config) (a : Analysis) : tsTypesFile cfg (normA a) = tsTypesFile cfg a := by
  unfold tsTypesFile
  rw [hasChannels_norm, structsSorted_norm]
  simp only [List.map_map, normA, List.filterMap_map]
  congr 2
  · apply List.map_congr_left; intro s _; exact tsStructDecl_norm cfg s

theorem zodOrder_norm (a : Analysis) : zodOrder (normA a) = zodOrder a := by
  unfold zodOrder
  rw [usedNames_norm]
  rfl

theorem zodTypes_norm (cfg : Config) (a : Analysis) : zodTypesFile cfg (normA a) = zodTypesFile cfg a := by
  unfold zodTypesFile
  rw [hasChannels_norm, zodOrder_norm, usedNames_norm]
  have h1 : ((zodOrder a).filterMap fun n => if (usedNames a).contains n then findStruct (normA a).structs n else none) =
      ((zodOrder a).filterMap fun n => if (usedNames a).contains n then findStruct a.structs n else none).map normS := by
    simp only [normA, List.map_filterMap, findStruct_norm]
    congr 1
    funext n
    split <;> rfl
  rw [h1]
  simp only [List.flatMap_map, normA, List.filterMap_map, zodStructDecl_norm]
  rfl

theorem commands_norm (cfg : Config) (a : Analysis) :
    tsCommandsFile cfg (normA a) = tsCommandsFile cfg a ∧ zodCommandsFile cfg (normA a) = zodCommandsFile cfg a := by
  constructor
  · simp only [tsCommandsFile, invokeImport, hasChannels_norm]
    simp only [normA, List.map_map]
    rfl
  · simp only [zodCommandsFile, invokeImport, hasChannels_norm]
    simp only [normA, List.map_map]
    rfl

/-- **no generator reads the file of a command, its `async`, or the visibility of a field** -/
theorem generate_norm (cfg : Config) (a : Analysis) : generate cfg (normA a) = generate cfg a := by
  unfold generate
  rw [tsTypes_norm, zodTypes_norm, (commands_norm cfg a).1, (commands_norm cfg a).2]
  rfl

/-- an analysis rebuilt from its hashed view -/
def ofView (v : View) : Analysis :=
  { commands := v.commands, events := v.events.map (fun e => { name := e.1, payload := e.2, file := [] }),
    structs := v.structs, deps := v.structs.map depsOfStruct }

theorem depsOfStruct_norm (s : SInfo) : depsOfStruct (normS s) = depsOfStruct s := by
  simp only [depsOfStruct, normS, normF, List.map_map, Function.comp_def]

theorem norm_erase_analyze (p : Project) : normA (eraseA (analyze p)) = ofView (viewOf (analyze p)) := by
  have h := deps_of_structs p
  unfold normA eraseA ofView viewOf
  simp only [List.map_map]
  congr 1
  · rw [h]
    apply List.map_congr_left
    intro s _
    exact (depsOfStruct_norm s).symm

/-- **the generation is a function of the hashed view and the configuration** -/
theorem generate_of_view (cfg : Config) (p : Project) :
    generate cfg (analyze p) = generate cfg (ofView (viewOf (analyze p))) := by
  rw [← norm_erase_analyze, generate_norm, generate_erase]

/-- **key soundness, concrete**: two projects whose analyses have the same hashed view generate the same output under the
    same configuration (this discharges the `keySound` hypothesis of `C08` for the model's generators, with the key
    read as the view itself, i.e. up to collisions of the hash function) -/
theorem keySound (cfg cfg' : Config) (p p' : Project)
    (hv : viewOf (analyze p) = viewOf (analyze p')) (hc : cfg = cfg') :
    generate cfg (analyze p) = generate cfg' (analyze p') := by
  subst hc
  rw [generate_of_view cfg p, generate_of_view cfg p', hv]

end KS
