import Typegen.RunTheorems
/-! The build-script path (`BuildSystem::run_generation`): after a successful `generate_bindings` the output manager
    cleans the output directory up — of the names it finds there, those it regards as generated (`is_generated_file`)
    and that the run did not hand back in its list are removed (`OutputManager::finalize_generation` /
    `cleanup_old_files`).  The list is empty when no command was found, everything present on a cache hit, the written
    files otherwise. -/
namespace R

variable {Src Cfg Key Content : Type}

/-- the clean-up: `present` is the directory listing, `kept` the list the run returned -/
def finalize (isGen : Name → Bool) (present kept : List Name) (o : Out Key Content) : Out Key Content :=
  (present.filter fun n => isGen n && !(kept.contains n)).foldl (fun o n => applyOp o (.remove n)) o

/-- the list `generate_bindings` returns -/
def keptOf (S : Sys Src Cfg Key Content) (src : Src) (cfg : Cfg) (a : Action) (present : List Name) (o : Out Key Content) : List Name :=
  match a with
  | .noCommands => []
  | .upToDate => present.filter fun n => (o.files n).isSome
  | _ => (S.gen src cfg).map (·.1)

variable [DecidableEq Key]

/-- one build-script run: the run proper, then (on success) the clean-up -/
def runBuild (S : Sys Src Cfg Key Content) (isGen : Name → Bool) (present : List Name) (src : Src) (cfg : Cfg)
    (forced : Bool) (fault : Option Nat) (o : Out Key Content) : Res × Action × Out Key Content :=
  let r := run S src cfg forced fault o
  if r.1 = .ok then (r.1, r.2.1, finalize isGen present (keptOf S src cfg r.2.1 present r.2.2) r.2.2) else r

theorem removes_frame (n : Name) : ∀ (l : List Name) (o : Out Key Content), n ∉ l →
    (l.foldl (fun o m => applyOp o (.remove m)) o).files n = o.files n
  | [], _, _ => rfl
  | m :: ms, o, h => by
    simp only [List.foldl_cons]
    rw [removes_frame n ms _ (fun h' => h (List.mem_cons_of_mem _ h'))]
    have : n ≠ m := fun e => h (by rw [e]; exact List.mem_cons_self)
    simp [applyOp, this]

theorem removes_mem (n : Name) : ∀ (l : List Name) (o : Out Key Content), n ∈ l →
    (l.foldl (fun o m => applyOp o (.remove m)) o).files n = none
  | [], _, h => by cases h
  | a :: as, o, h => by
    simp only [List.foldl_cons]
    by_cases han : n ∈ as
    · exact removes_mem n as _ han
    · rw [removes_frame n as _ han]
      have : n = a := by
        rcases List.mem_cons.mp h with h | h
        · exact h
        · exact absurd h han
      simp [applyOp, this]

theorem removes_cache : ∀ (l : List Name) (o : Out Key Content),
    (l.foldl (fun o m => applyOp o (.remove m)) o).cache = o.cache
  | [], _ => rfl
  | m :: ms, o => by
    simp only [List.foldl_cons]
    rw [removes_cache ms]
    rfl

/-- the clean-up touches no name the tool does not regard as generated … -/
theorem finalize_frame_notGen (isGen : Name → Bool) (present kept : List Name) (o : Out Key Content) (n : Name)
    (h : isGen n = false) : (finalize isGen present kept o).files n = o.files n := by
  unfold finalize
  apply removes_frame
  intro hm
  have := (List.mem_filter.mp hm).2
  simp [h] at this

/-- … none the run handed back … -/
theorem finalize_frame_kept (isGen : Name → Bool) (present kept : List Name) (o : Out Key Content) (n : Name)
    (h : n ∈ kept) : (finalize isGen present kept o).files n = o.files n := by
  unfold finalize
  apply removes_frame
  intro hm
  have := (List.mem_filter.mp hm).2
  simp only [Bool.and_eq_true, Bool.not_eq_true'] at this
  have hc : kept.contains n = true := by simpa using h
  rw [hc] at this
  exact absurd this.2 (by decide)

/-- … and never the cache record -/
theorem finalize_cache (isGen : Name → Bool) (present kept : List Name) (o : Out Key Content) :
    (finalize isGen present kept o).cache = o.cache := by
  unfold finalize; exact removes_cache _ _

/-- … and when the clean-up itself fails (a stale generated-looking file cannot be removed) the run is reported as failed
    and the record it had just written is dropped again (fix 2a70fe0) -/
def runBuildF (S : Sys Src Cfg Key Content) (isGen : Name → Bool) (present : List Name) (cleanupFails : Bool) (src : Src) (cfg : Cfg)
    (forced : Bool) (fault : Option Nat) (o : Out Key Content) : Res × Action × Out Key Content :=
  let rb := runBuild S isGen present src cfg forced fault o
  if rb.1 = .ok ∧ rb.2.1 ≠ .noCommands ∧ cleanupFails = true then (.err, .failed, applyOp rb.2.2 .removeCache) else rb

/-- a run whose clean-up failed reports failure and leaves no record: the next non-forced run cannot be a cache hit -/
theorem runBuildF_cleanup_failure (S : Sys Src Cfg Key Content) (isGen : Name → Bool) (present : List Name) (src : Src) (cfg : Cfg)
    (forced : Bool) (fault : Option Nat) (o : Out Key Content)
    (hok : (runBuild S isGen present src cfg forced fault o).1 = .ok)
    (hcmd : (runBuild S isGen present src cfg forced fault o).2.1 ≠ .noCommands) :
    (runBuildF S isGen present true src cfg forced fault o).1 = .err ∧
    (runBuildF S isGen present true src cfg forced fault o).2.2.cache = none ∧
    ∀ src' cfg', upToDate S src' cfg' false (runBuildF S isGen present true src cfg forced fault o).2.2 = false := by
  unfold runBuildF
  simp only [hok, hcmd, ne_eq, not_false_eq_true, and_self, if_true]
  refine ⟨by trivial, by simp [applyOp], ?_⟩
  intro src' cfg'
  simp [upToDate, applyOp]

/-- without a clean-up failure it is the plain build-script run -/
theorem runBuildF_false (S : Sys Src Cfg Key Content) (isGen : Name → Bool) (present : List Name) (src : Src) (cfg : Cfg)
    (forced : Bool) (fault : Option Nat) (o : Out Key Content) :
    runBuildF S isGen present false src cfg forced fault o = runBuild S isGen present src cfg forced fault o := by
  unfold runBuildF; simp

/-! ### histories that mix the two entry points -/

theorem finalize_inv (S : Sys Src Cfg Key Content) (isGen : Name → Bool) (present kept : List Name) (o : Out Key Content)
    (hI : Inv S o) : Inv S (finalize isGen present kept o) := by
  unfold finalize
  generalize present.filter (fun n => isGen n && !(kept.contains n)) = l
  induction l generalizing o with
  | nil => exact hI
  | cons a as ih => simp only [List.foldl_cons]; exact ih _ (delete_inv S o a hI)

theorem runBuildF_inv (S : Sys Src Cfg Key Content) (isGen : Name → Bool) (present : List Name) (cf : Bool) (src : Src) (cfg : Cfg)
    (forced : Bool) (fault : Option Nat) (o : Out Key Content)
    (keySound : ∀ s c s' c', S.key s c = S.key s' c' → S.gen s c = S.gen s' c')
    (hd : NamesDistinct (S.gen src cfg)) (hI : Inv S o) :
    Inv S (runBuildF S isGen present cf src cfg forced fault o).2.2 := by
  have hrun := run_inv S src cfg o forced fault keySound hd hI
  have hb : Inv S (runBuild S isGen present src cfg forced fault o).2.2 := by
    unfold runBuild
    simp only []
    split
    · exact finalize_inv S isGen present _ _ hrun
    · exact hrun
  unfold runBuildF
  simp only []
  split
  · intro s c h; simp [applyOp] at h
  · exact hb

/-- a step of a history over one output directory: everything `Step` has, and a build-script run (with the directory
    listing the clean-up sees and whether the clean-up fails) -/
inductive MStep (Src Cfg : Type) where
  | base (st : Step Src Cfg)
  | buildRun (present : List Name) (cleanupFails : Bool) (forced : Bool) (fault : Option Nat)

def mstep (S : Sys Src Cfg Key Content) (isGen : Name → Bool) (w : World Src Cfg Key Content) : MStep Src Cfg → World Src Cfg Key Content
  | .base st => step S w st
  | .buildRun present cf forced fault => { w with out := (runBuildF S isGen present cf w.src w.cfg forced fault w.out).2.2 }

def mexec (S : Sys Src Cfg Key Content) (isGen : Name → Bool) (w : World Src Cfg Key Content) (h : List (MStep Src Cfg)) :
    World Src Cfg Key Content := h.foldl (mstep S isGen) w

/-- **C08 / C17 over histories that mix the command line and the build script**: from any state satisfying `Inv`, after any
    history of edits, deletions, record losses, command-line runs, build-script runs (each forced or not, with any fault,
    with or without a failing clean-up) and crashes, `Inv` holds: there is one directory and one record, whoever wrote it -/
theorem mexec_inv (S : Sys Src Cfg Key Content) (isGen : Name → Bool)
    (keySound : ∀ s c s' c', S.key s c = S.key s' c' → S.gen s c = S.gen s' c')
    (hd : ∀ s c, NamesDistinct (S.gen s c))
    (w : World Src Cfg Key Content) (h : List (MStep Src Cfg)) (hI : Inv S w.out) : Inv S (mexec S isGen w h).out := by
  induction h generalizing w with
  | nil => exact hI
  | cons st rest ih =>
    apply ih
    cases st with
    | base b => exact step_inv S keySound hd w b hI
    | buildRun present cf forced fault => exact runBuildF_inv S isGen present cf w.src w.cfg forced fault w.out keySound (hd _ _) hI

end R
