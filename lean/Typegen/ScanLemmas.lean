import Typegen.Validator
/-! C11: the validator scanner on the text `proc_macro2` prints for a canonical `length(..)` item — search lemmas
    (skipping characters that cannot start the pattern) and the exact reading of bounds and message. -/
namespace SL
open A SA VP

/-! search lemmas: skipping characters that cannot start the pattern -/
theorem findSub_here {pat s : Str} (h : startsWith s pat = true) (hs : s ≠ []) : findSub pat s = some 0 := by
  cases s with
  | nil => exact absurd rfl hs
  | cons c cs => simp [findSub, h]

theorem findSub_skip {pat : Str} {c : Char} (s : Str) (h : pat.head? ≠ some c) (hp : pat ≠ []) :
    findSub pat (c :: s) = (findSub pat s).map (· + 1) := by
  have : startsWith (c :: s) pat = false := by
    cases pat with
    | nil => exact absurd rfl hp
    | cons b p =>
      have hb : c ≠ b := fun e => h (by simp [e])
      simp [startsWith, hb]
  simp [findSub, this]

theorem findSub_cons_false {pat : Str} {c : Char} {s : Str} (h : startsWith (c :: s) pat = false) :
    findSub pat (c :: s) = (findSub pat s).map (· + 1) := by
  simp [findSub, h]

theorem findSub_skipList {pat : Str} (l s : Str) (h : ∀ c ∈ l, pat.head? ≠ some c) (hp : pat ≠ []) :
    findSub pat (l ++ s) = (findSub pat s).map (· + l.length) := by
  induction l with
  | nil => simp
  | cons c l ih =>
    have h1 := h c (by simp)
    have ih' := ih (fun x hx => h x (List.mem_cons_of_mem _ hx))
    rw [List.cons_append, findSub_skip _ h1 hp, ih']
    cases findSub pat s <;> simp; omega

theorem findCh_skipList (c : Char) (l s : Str) (h : c ∉ l) : findCh c (l ++ s) = (findCh c s).map (· + l.length) := by
  induction l with
  | nil => simp
  | cons x l ih =>
    have hx : x ≠ c := fun e => h (by simp [e])
    have ih' := ih (fun m => h (List.mem_cons_of_mem _ m))
    simp only [List.cons_append, findCh, hx, if_false, ih']
    cases findCh c s <;> simp; omega

theorem findCh_here (c : Char) (s : Str) : findCh c (c :: s) = some 0 := by simp [findCh]

def Digits (d : Str) : Prop := d ≠ [] ∧ ∀ c ∈ d, isDigit c = true

theorem digit_ne {d : Str} (hd : Digits d) (x : Char) (hx : isDigit x = false) : x ∉ d := by
  intro hm; have := hd.2 x hm; rw [hx] at this; exact absurd this (by simp)

theorem trimStartWs_digits {d : Str} (hd : Digits d) (r : Str) : trimStartWs (d ++ r) = d ++ r := by
  cases d with
  | nil => exact absurd rfl hd.1
  | cons c cs =>
    have : isWs c = false := by
      have hc := hd.2 c (by simp)
      unfold isDigit at hc
      simp only [decide_eq_true_eq] at hc
      unfold isWs
      have hge : 48 ≤ c.toNat := by
        have := hc.1; rw [Char.le_def, UInt32.le_iff_toNat_le] at this; simpa using this
      have hle : c.toNat ≤ 57 := by
        have := hc.2; rw [Char.le_def, UInt32.le_iff_toNat_le] at this; simpa using this
      simp only [Bool.or_eq_false_iff, Bool.and_eq_false_iff, decide_eq_false_iff_not, Nat.not_le]
      omega
    simp [trimStartWs, this]

theorem replaceSub2_none (a b : Char) (r : Str) : ∀ (s : Str), a ∉ s → replaceSub2 a b r s = s
  | [], _ => rfl
  | [x], _ => rfl
  | x :: y :: rest, h => by
    have hx : x ≠ a := fun e => h (by simp [e])
    have := replaceSub2_none a b r (y :: rest) (fun m => h (List.mem_cons_of_mem _ m))
    simp [replaceSub2, hx, this]

theorem unescape_plain (m : Str) (h : '\\' ∉ m) : unescapeMsg m = m := by
  unfold unescapeMsg
  simp [replaceSub2_none _ _ _ m h]

theorem scanQuoted_plain (q : Char) : ∀ (m rest : Str), q ∉ m → '\\' ∉ m → q ≠ '\\' →
    scanQuoted q false (m ++ q :: rest) = some m
  | [], rest, _, _, hq => by simp [scanQuoted, hq]
  | c :: m, rest, h1, h2, hq => by
    have hc1 : c ≠ q := fun e => h1 (by simp [e])
    have hc2 : c ≠ '\\' := fun e => h2 (by simp [e])
    have := scanQuoted_plain q m rest (fun x => h1 (List.mem_cons_of_mem _ x)) (fun x => h2 (List.mem_cons_of_mem _ x)) hq
    simp [scanQuoted, hc1, hc2, this]

theorem trimWs_pad {d : Str} (hd : Digits d) : trimWs (' ' :: d ++ [' ']) = d := by
  have hr : Digits d.reverse := ⟨by simpa using hd.1, fun c hc => hd.2 c (by simpa using hc)⟩
  have hws : isWs ' ' = true := by decide
  unfold trimWs
  have h1 : trimStartWs (' ' :: d ++ [' ']) = d ++ [' '] := by
    rw [List.cons_append]
    simp only [trimStartWs, hws, if_true]
    exact trimStartWs_digits hd [' ']
  rw [h1]
  have h2 : (d ++ [' ']).reverse = ' ' :: d.reverse := by simp
  rw [h2]
  simp only [trimStartWs, hws, if_true]
  have := trimStartWs_digits hr []
  simp only [List.append_nil] at this
  rw [this]; simp

/-- the text of a `length(..)` validator as `proc_macro2` prints it: `min = A , max = B , message = "M"` -/
def rest3 (m : Str) : Str :=
  ' ' :: ',' :: ' ' :: 'm' :: 'e' :: 's' :: 's' :: 'a' :: 'g' :: 'e' :: ' ' :: '=' :: ' ' :: '"' :: (m ++ ['"'])
def rest2 (b m : Str) : Str := ' ' :: ',' :: ' ' :: 'm' :: 'a' :: 'x' :: ' ' :: '=' :: ' ' :: (b ++ rest3 m)
def content (a b m : Str) : Str := 'm' :: 'i' :: 'n' :: ' ' :: '=' :: ' ' :: (a ++ rest2 b m)
def tokensOf (a b m : Str) : Str := 'l' :: 'e' :: 'n' :: 'g' :: 't' :: 'h' :: ' ' :: '(' :: (content a b m ++ [')'])

theorem value_min (a b m : Str) (ha : Digits a) : valueText kwMin (content a b m) = some a := by
  unfold valueText content
  have hf : findSub kwMin ('m' :: 'i' :: 'n' :: ' ' :: '=' :: ' ' :: (a ++ rest2 b m)) = some 0 := by
    simp [findSub, startsWith, kwMin]
  rw [hf]
  simp only [List.drop_zero]
  have he : findCh '=' ('m' :: 'i' :: 'n' :: ' ' :: '=' :: ' ' :: (a ++ rest2 b m)) = some 4 := by simp [findCh]
  rw [he]
  simp only [List.drop_succ_cons, List.drop_zero]
  have hc : findCh ',' (' ' :: (a ++ rest2 b m)) = some (a.length + 2) := by
    have hna : ',' ∉ a := digit_ne ha ',' (by decide)
    simp only [findCh, show (' ' : Char) ≠ ',' by decide, if_false]
    rw [findCh_skipList ',' a _ hna]
    simp [findCh, rest2]; omega
  rw [hc]
  simp only
  have ht : List.take (a.length + 2) (' ' :: (a ++ rest2 b m)) = ' ' :: a ++ [' '] := by
    simp [List.take_append, List.take_of_length_le, rest2]
  rw [ht, trimWs_pad ha]

theorem value_max (a b m : Str) (ha : Digits a) (hb : Digits b) : valueText kwMax (content a b m) = some b := by
  unfold valueText content
  have hma : ∀ c ∈ a, kwMax.head? ≠ some c := by
    intro c hc h
    have : c = 'm' := by simpa [kwMax] using h.symm
    subst this
    exact digit_ne ha 'm' (by decide) hc
  have hf : findSub kwMax ('m' :: 'i' :: 'n' :: ' ' :: '=' :: ' ' :: (a ++ rest2 b m)) = some (a.length + 9) := by
    have h0 : findSub kwMax (a ++ rest2 b m) = some (a.length + 3) := by
      rw [findSub_skipList a _ hma (by decide)]
      simp [rest2, findSub, startsWith, kwMax]; omega
    simp [findSub, startsWith, kwMax] at h0 ⊢
    simp [h0]
  rw [hf]
  simp only
  have hd : List.drop (a.length + 9) ('m' :: 'i' :: 'n' :: ' ' :: '=' :: ' ' :: (a ++ rest2 b m)) =
      'm' :: 'a' :: 'x' :: ' ' :: '=' :: ' ' :: (b ++ rest3 m) := by
    have : a.length + 9 = (a.length + 3) + 6 := by omega
    rw [this]
    simp [List.drop_append, rest2]
  rw [hd]
  have he : findCh '=' ('m' :: 'a' :: 'x' :: ' ' :: '=' :: ' ' :: (b ++ rest3 m)) = some 4 := by simp [findCh]
  rw [he]
  simp only [List.drop_succ_cons, List.drop_zero]
  have hc : findCh ',' (' ' :: (b ++ rest3 m)) = some (b.length + 2) := by
    have hnb : ',' ∉ b := digit_ne hb ',' (by decide)
    simp only [findCh, show (' ' : Char) ≠ ',' by decide, if_false]
    rw [findCh_skipList ',' b _ hnb]
    simp [findCh, rest3]; omega
  rw [hc]
  simp only
  have ht : List.take (b.length + 2) (' ' :: (b ++ rest3 m)) = ' ' :: b ++ [' '] := by
    simp [List.take_append, List.take_of_length_le, rest3]
  rw [ht, trimWs_pad hb]

theorem message_of (a b m : Str) (ha : Digits a) (hb : Digits b) (hq : '"' ∉ m) (hbs : '\\' ∉ m) :
    parseMessage (content a b m) = some m := by
  unfold parseMessage content
  have hma : ∀ c ∈ a, kwMessage.head? ≠ some c := by
    intro c hc h
    have : c = 'm' := by simpa [kwMessage] using h.symm
    subst this; exact digit_ne ha 'm' (by decide) hc
  have hmb : ∀ c ∈ b, kwMessage.head? ≠ some c := by
    intro c hc h
    have : c = 'm' := by simpa [kwMessage] using h.symm
    subst this; exact digit_ne hb 'm' (by decide) hc
  have hf : findSub kwMessage ('m' :: 'i' :: 'n' :: ' ' :: '=' :: ' ' :: (a ++ rest2 b m)) = some (a.length + b.length + 18) := by
    have h1 : findSub kwMessage (b ++ rest3 m) = some (b.length + 3) := by
      rw [findSub_skipList b _ hmb (by decide)]
      simp [rest3, findSub, startsWith, kwMessage]; omega
    have h0 : findSub kwMessage (a ++ rest2 b m) = some (a.length + b.length + 12) := by
      rw [findSub_skipList a _ hma (by decide)]
      unfold rest2
      rw [findSub_cons_false (by simp [startsWith, kwMessage]), findSub_cons_false (by simp [startsWith, kwMessage]),
          findSub_cons_false (by simp [startsWith, kwMessage]), findSub_cons_false (by simp [startsWith, kwMessage]),
          findSub_cons_false (by simp [startsWith, kwMessage]), findSub_cons_false (by simp [startsWith, kwMessage]),
          findSub_cons_false (by simp [startsWith, kwMessage]), findSub_cons_false (by simp [startsWith, kwMessage]),
          findSub_cons_false (by simp [startsWith, kwMessage]), h1]
      simp; omega
    simp [findSub, startsWith, kwMessage] at h0 ⊢
    simp [h0]
  rw [hf]
  simp only
  have hd : List.drop (a.length + b.length + 18) ('m' :: 'i' :: 'n' :: ' ' :: '=' :: ' ' :: (a ++ rest2 b m)) =
      'm' :: 'e' :: 's' :: 's' :: 'a' :: 'g' :: 'e' :: ' ' :: '=' :: ' ' :: '"' :: (m ++ ['"']) := by
    have : a.length + b.length + 18 = ((a.length + 9) + 6) + (b.length + 3) := by omega
    rw [this, ← List.drop_drop]
    have h6 : List.drop (a.length + 9 + 6) ('m' :: 'i' :: 'n' :: ' ' :: '=' :: ' ' :: (a ++ rest2 b m)) = b ++ rest3 m := by
      simp [List.drop_append, rest2]
    rw [h6]
    simp [List.drop_append, rest3]
  rw [hd]
  have he : findCh '=' ('m' :: 'e' :: 's' :: 's' :: 'a' :: 'g' :: 'e' :: ' ' :: '=' :: ' ' :: '"' :: (m ++ ['"'])) = some 8 := by
    simp [findCh]
  rw [he]
  simp only [List.drop_succ_cons, List.drop_zero]
  have hws : isWs ' ' = true := by decide
  have hnq : isWs '"' = false := by decide
  simp only [trimStartWs, hws, hnq, if_true, Bool.false_eq_true, if_false]
  simp only [decide_true, Bool.true_or, if_true]
  rw [scanQuoted_plain '"' m [] hq hbs (by decide)]
  simp [unescape_plain m hbs]

theorem paren_content (a b m : Str) (ha : Digits a) (hb : Digits b) (hp : ')' ∉ m) :
    parenContent kwLength (tokensOf a b m) = some (content a b m) := by
  unfold parenContent tokensOf
  have hf : findSub kwLength ('l' :: 'e' :: 'n' :: 'g' :: 't' :: 'h' :: ' ' :: '(' :: (content a b m ++ [')'])) = some 0 := by
    simp [findSub, startsWith, kwLength]
  rw [hf]
  simp only [List.drop_zero]
  have h1 : findCh '(' ('l' :: 'e' :: 'n' :: 'g' :: 't' :: 'h' :: ' ' :: '(' :: (content a b m ++ [')'])) = some 7 := by simp [findCh]
  rw [h1]
  simp only [List.drop_succ_cons, List.drop_zero]
  have hnc : ')' ∉ content a b m := by
    have hna := digit_ne ha ')' (by decide)
    have hnb := digit_ne hb ')' (by decide)
    simp [content, rest2, rest3, hna, hnb, hp]
  have h2 : findCh ')' ('(' :: (content a b m ++ [')'])) = some ((content a b m).length + 1) := by
    simp only [findCh, show ('(' : Char) ≠ ')' by decide, if_false]
    rw [findCh_skipList ')' _ _ hnc]
    simp [findCh]
  rw [h2]
  simp [List.take_append, List.take_of_length_le]

/-- **C11, scanning stage on the canonical fragment**: for every pair of numerals and every message free of `"`, `\`
    and `)`, the scanner reads exactly the declared bounds and the declared message from the text `proc_macro2` prints
    for `#[validate(length(min = A, max = B, message = "M"))]` -/
theorem C11_scan_length_canonical (a b m : Str) (ha : Digits a) (hb : Digits b)
    (hq : '"' ∉ m) (hbs : '\\' ∉ m) (hp : ')' ∉ m) :
    parseLength (tokensOf a b m) = some { min := parseU64 a, max := parseU64 b, message := some m } := by
  unfold parseLength
  have hc : containsSub kwLength (tokensOf a b m) = true := by
    unfold containsSub tokensOf
    simp [findSub, startsWith, kwLength]
  simp only [hc, Bool.not_true, Bool.false_eq_true, if_false, paren_content a b m ha hb hp,
    value_min a b m ha, value_max a b m ha hb, message_of a b m ha hb hq hbs, Option.bind]

/-! ### the same for `range`: the scanner keeps the *text* of each bound -/

def rangeTokensOf (a b m : Str) : Str := 'r' :: 'a' :: 'n' :: 'g' :: 'e' :: ' ' :: '(' :: (content a b m ++ [')'])

theorem paren_content_range (a b m : Str) (ha : Digits a) (hb : Digits b) (hp : ')' ∉ m) :
    parenContent kwRange (rangeTokensOf a b m) = some (content a b m) := by
  unfold parenContent rangeTokensOf
  have hf : findSub kwRange ('r' :: 'a' :: 'n' :: 'g' :: 'e' :: ' ' :: '(' :: (content a b m ++ [')'])) = some 0 := by
    simp [findSub, startsWith, kwRange]
  rw [hf]
  simp only [List.drop_zero]
  have h1 : findCh '(' ('r' :: 'a' :: 'n' :: 'g' :: 'e' :: ' ' :: '(' :: (content a b m ++ [')'])) = some 6 := by simp [findCh]
  rw [h1]
  simp only [List.drop_succ_cons, List.drop_zero]
  have hnc : ')' ∉ content a b m := by
    have hna := digit_ne ha ')' (by decide)
    have hnb := digit_ne hb ')' (by decide)
    simp [content, rest2, rest3, hna, hnb, hp]
  have h2 : findCh ')' ('(' :: (content a b m ++ [')'])) = some ((content a b m).length + 1) := by
    simp only [findCh, show ('(' : Char) ≠ ')' by decide, if_false]
    rw [findCh_skipList ')' _ _ hnc]
    simp [findCh]
  rw [h2]
  simp [List.take_append, List.take_of_length_le]

/-- **C11, scanning stage, `range`**: for every pair of numerals and every message free of `"`, `\` and `)`, the
    scanner reads exactly the declared bound texts and the declared message from the text `proc_macro2` prints for
    `#[validate(range(min = A, max = B, message = "M"))]` -/
theorem C11_scan_range_canonical (a b m : Str) (ha : Digits a) (hb : Digits b)
    (hq : '"' ∉ m) (hbs : '\\' ∉ m) (hp : ')' ∉ m) :
    parseRange (rangeTokensOf a b m) = some { min := some a, max := some b, message := some m } := by
  unfold parseRange
  have hc : containsSub kwRange (rangeTokensOf a b m) = true := by
    unfold containsSub rangeTokensOf
    simp [findSub, startsWith, kwRange]
  simp only [hc, Bool.not_true, Bool.false_eq_true, if_false, paren_content_range a b m ha hb hp,
    value_min a b m ha, value_max a b m ha hb, message_of a b m ha hb hq hbs]

/-! ### from the attribute text to the schema text -/

/-- **C11 end to end on the canonical fragment (`length`, string field)**: from the token text of
    `#[validate(length(min = A, max = B, message = "M"))]` on a `String` field, scanner and schema builder together emit
    `z.string().min(A, { message: "M" }).max(B, { message: "M" })` — the bounds as numbers, the message escaped —
    provided the message does not itself spell another validator's keyword (K11d) -/
theorem C11_length_end_to_end (mp : V.Mappings) (a b m : Str) (ha : Digits a) (hb : Digits b)
    (hq : '"' ∉ m) (hbs : '\\' ∉ m) (hp : ')' ∉ m)
    (hr : containsSub kwRange (tokensOf a b m) = false) (he : containsSub kwEmail (tokensOf a b m) = false)
    (hu : containsSub kwUrl (tokensOf a b m) = false) :
    V.buildSchema mp (.prim cl!"string") ((parseValidator [some (tokensOf a b m)]).map toValidator) =
      V.applyBound cl!"z.string()" ⟨(parseU64 a).map natToStr, (parseU64 b).map natToStr, some m⟩ := by
  have hrange : parseRange (tokensOf a b m) = none := by simp [parseRange, hr]
  simp [parseValidator, C11_scan_length_canonical a b m ha hb hq hbs hp, hrange, he, hu, toValidator,
    V.buildSchema, V.renderType, V.renderPrimitive, V.applyStringValidators, V.applyLength]

/-- … and for `range` on a numeric field: `z.coerce.number().min(A, …).max(B, …)` -/
theorem C11_range_end_to_end (mp : V.Mappings) (a b m : Str) (ha : Digits a) (hb : Digits b)
    (hq : '"' ∉ m) (hbs : '\\' ∉ m) (hp : ')' ∉ m)
    (hl : containsSub kwLength (rangeTokensOf a b m) = false) (he : containsSub kwEmail (rangeTokensOf a b m) = false)
    (hu : containsSub kwUrl (rangeTokensOf a b m) = false) :
    V.buildSchema mp (.prim cl!"number") ((parseValidator [some (rangeTokensOf a b m)]).map toValidator) =
      V.applyBound cl!"z.coerce.number()" ⟨canonDec a, canonDec b, some m⟩ := by
  have hlen : parseLength (rangeTokensOf a b m) = none := by simp [parseLength, hl]
  simp [parseValidator, C11_scan_range_canonical a b m ha hb hq hbs hp, hlen, he, hu, toValidator,
    V.buildSchema, V.renderType, V.renderPrimitive, V.applyRange]

end SL
