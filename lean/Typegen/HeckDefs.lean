import Typegen.Basic
namespace H

/-! ## serde-rename-rule `apply_to_field` (PascalCase / CamelCase), ASCII -/
def upc (c : Char) : Char := if 'a' ≤ c ∧ c ≤ 'z' then Char.ofNat (c.toNat - 32) else c
def lowc (c : Char) : Char := if 'A' ≤ c ∧ c ≤ 'Z' then Char.ofNat (c.toNat + 32) else c

/-- `for ch in field.chars() { if ch == '_' {cap = true} else if cap {push upper; cap=false} else push ch }` -/
def pascalGo : Bool → Str → Str
  | _, [] => []
  | cap, c :: cs =>
    if c = '_' then pascalGo true cs
    else if cap then upc c :: pascalGo false cs
    else c :: pascalGo false cs
def serdePascal (s : Str) : Str := pascalGo true s
/-- `pascal[..1].to_ascii_lowercase() + &pascal[1..]` (panics on empty: modelled as `none`) -/
def serdeCamel (s : Str) : Option Str :=
  match serdePascal s with
  | [] => none
  | c :: cs => some (lowc c :: cs)

/-! ## heck 0.5 `to_lower_camel_case`, restricted to what it does on `[a-z0-9_]*`
    (no uppercase ⇒ no intra-word boundaries): split on non-alphanumerics, drop empty words,
    first word lowercased (identity here), later words capitalised (first char upper, rest lower = identity). -/
def isSnakeCh (c : Char) : Bool := ('a' ≤ c ∧ c ≤ 'z') ∨ ('0' ≤ c ∧ c ≤ '9') ∨ c = '_'

def consWord (c : Char) : List Str → List Str
  | [] => [[c]]
  | w :: ws => (c :: w) :: ws
def splitUnderscore : Str → List Str
  | [] => [[]]
  | c :: cs =>
    if c = '_' then [] :: splitUnderscore cs
    else consWord c (splitUnderscore cs)

def capitalize : Str → Str
  | [] => []
  | c :: cs => upc c :: cs

/-- words in order, `first` = no word emitted yet -/
def heckGo : Bool → List Str → Str
  | _, [] => []
  | first, w :: ws =>
    if w = [] then heckGo first ws
    else if first then w ++ heckGo false ws
    else capitalize w ++ heckGo false ws
def heckLowerCamel (s : Str) : Str := heckGo true (splitUnderscore s)

/-! ## the theorem -/

/-- one-pass characterisation of heck on snake strings: state = (first word not yet started?, at word start?) -/
def heckScan : Bool → Bool → Str → Str
  | _, _, [] => []
  | first, start, c :: cs =>
    if c = '_' then heckScan first true cs
    else if start ∧ ¬ first then upc c :: heckScan false false cs
    else c :: heckScan false false cs

end H
