import Typegen.TsTy
/-! Lemmas for C05/C18: the renderer equals the canonical printer on `PrecSafe` structures. -/
namespace T
open L V

theorem joinWith_snoc (sep : Str) (l : List Str) (x : Str) (h : l ≠ []) :
    joinWith sep (l ++ [x]) = joinWith sep l ++ sep ++ x := by
  induction l with
  | nil => exact absurd rfl h
  | cons a rest ih =>
    cases rest with
    | nil => simp [joinWith]
    | cons b rest' =>
      have := ih (by simp)
      simp only [List.cons_append, joinWith] at this ⊢
      rw [this]; simp [List.append_assoc]

theorem printList_append : ∀ (a b : TsTyList), printList (a.append b) = printList a ++ printList b
  | .nil, b => by simp [TsTyList.append, printList]
  | .cons t ts, b => by simp [TsTyList.append, printList, printList_append ts b]

theorem printList_ne_nil {ts : TsTyList} (h : ts ≠ .nil) : printList ts ≠ [] := by
  cases ts with
  | nil => exact absurd rfl h
  | cons t ts => simp [printList]

/-- printing `T | null` appends ` | null`, provided a union operand is non-empty -/
theorem print_mkOpt (t : TsTy) (hne : ∀ ts, t = .union ts → ts ≠ .nil) :
    printSpec (mkOpt t) = printSpec t ++ sNull := by
  cases t with
  | union ts =>
    simp only [mkOpt, printSpec, printList_append, printList]
    rw [joinWith_snoc _ _ _ (printList_ne_nil (hne ts rfl))]
    simp [tNull, sNull, printSpec, List.append_assoc]
  | name n => simp [mkOpt, printSpec, printList, joinWith, tNull, sNull]
  | arr t => simp [mkOpt, printSpec, printList, joinWith, tNull, sNull]
  | tuple ts => simp [mkOpt, printSpec, printList, joinWith, tNull, sNull]
  | app f a => simp [mkOpt, printSpec, printList, joinWith, tNull, sNull]

theorem mkOpt_union_ne (t : TsTy) : ∀ ts, mkOpt t = .union ts → ts ≠ .nil := by
  intro ts h
  cases t with
  | union us =>
    simp only [mkOpt, TsTy.union.injEq] at h; subst h
    cases us <;> simp [TsTyList.append]
  | name n => simp only [mkOpt, TsTy.union.injEq] at h; subst h; simp
  | arr t => simp only [mkOpt, TsTy.union.injEq] at h; subst h; simp
  | tuple us => simp only [mkOpt, TsTy.union.injEq] at h; subst h; simp
  | app f a => simp only [mkOpt, TsTy.union.injEq] at h; subst h; simp

/-- every union produced by `tsOf` has at least one member -/
theorem tsOf_union_ne (m : Mappings) : ∀ (t : TS) (ts : TsTyList), tsOf m t = .union ts → ts ≠ .nil
  | .prim _, ts, h => by simp [tsOf] at h
  | .array _, ts, h => by simp [tsOf] at h
  | .map _ _, ts, h => by simp [tsOf] at h
  | .set _, ts, h => by simp [tsOf] at h
  | .tuple us, ts, h => by cases us <;> simp [tsOf] at h
  | .optional t, ts, h => by simp only [tsOf] at h; exact mkOpt_union_ne _ ts h
  | .result t, ts, h => by simp only [tsOf] at h; exact tsOf_union_ne m t ts h
  | .custom _, ts, h => by simp [tsOf] at h

/-- without a top-level `Optional` (through `Result`) the meaning is not a union -/
theorem tsOf_not_union (m : Mappings) : ∀ (t : TS), topUnion t = false → isUnion (tsOf m t) = false
  | .prim _, _ => by simp [tsOf, isUnion]
  | .array _, _ => by simp [tsOf, isUnion]
  | .map _ _, _ => by simp [tsOf, isUnion]
  | .set _, _ => by simp [tsOf, isUnion]
  | .tuple us, _ => by cases us <;> simp [tsOf, isUnion]
  | .optional _, h => by simp [topUnion] at h
  | .result t, h => by simp only [topUnion] at h; simp only [tsOf]; exact tsOf_not_union m t h
  | .custom _, _ => by simp [tsOf, isUnion]

mutual
/-- **L2**: on `PrecSafe` structures the renderer of the tool is the canonical printer of the meaning -/
theorem visit_eq_print (m : Mappings) : ∀ (t : TS), precSafe t = true → visitTs m t = printSpec (tsOf m t)
  | .prim p, _ => by simp [visitTs, tsOf, printSpec]
  | .array t, h => by
    simp only [precSafe, Bool.and_eq_true, Bool.not_eq_true'] at h
    simp only [visitTs, tsOf, printSpec, tsOf_not_union m t h.1, visit_eq_print m t h.2]
    simp
  | .set t, h => by
    simp only [precSafe, Bool.and_eq_true, Bool.not_eq_true'] at h
    simp only [visitTs, tsOf, printSpec, tsOf_not_union m t h.1, visit_eq_print m t h.2]
    simp
  | .map k v, h => by
    simp only [precSafe, Bool.and_eq_true] at h
    simp only [visitTs, tsOf, printSpec, printList, joinWith, visit_eq_print m k h.1, visit_eq_print m v h.2]
    simp [sRecord, List.append_assoc]
  | .tuple ts, h => by
    cases ts with
    | nil => simp [visitTs, tsOf, printSpec]
    | cons t rest =>
      simp only [precSafe, precSafeList, Bool.and_eq_true] at h
      simp only [visitTs, tsOf, printSpec, printList, visit_eq_print m t h.1, visitList_eq_print m rest h.2]
  | .optional t, h => by
    simp only [precSafe] at h
    simp only [visitTs, tsOf]
    rw [print_mkOpt _ (tsOf_union_ne m t), visit_eq_print m t h]
  | .result t, h => by
    simp only [precSafe] at h
    simp only [visitTs, tsOf]; exact visit_eq_print m t h
  | .custom n, _ => by simp [visitTs, tsOf, printSpec]
theorem visitList_eq_print (m : Mappings) : ∀ (ts : TSList), precSafeList ts = true →
    visitTsList m ts = printList (tsOfList m ts)
  | .nil, _ => by simp [visitTsList, tsOfList, printList]
  | .cons t ts, h => by
    simp only [precSafeList, Bool.and_eq_true] at h
    simp only [visitTsList, tsOfList, printList, visit_eq_print m t h.1, visitList_eq_print m ts h.2]
end

end T
