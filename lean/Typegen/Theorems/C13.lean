import Typegen.Order
import Typegen.SortGen
import Typegen.Generate
import Typegen.Inert
/-! # C13 — output is a deterministic function of sources and configuration

Every place where the tool iterates a `HashMap`/`HashSet`/directory listing to produce *ordered*
output is modelled as "take the entries in an arbitrary order `π`, sort, iterate" (after fix …, see
known_findings.json: file paths in `analyze_project_with_verbose`, struct names in
`create_struct_contexts`, requested names and dependency sets in `topological_sort_types`, type
mappings in the cache key).  The theorems say the result does not depend on `π`. -/
namespace TG.C13
open O

/-- any two enumeration orders of the same entries give the same sorted sequence -/
theorem C13_sorted_iteration {l₁ l₂ : List Str} (h : l₁.Perm l₂) : sortNames l₁ = sortNames l₂ :=
  sortNames_perm h

/-- the Zod declaration order: DFS over the sorted request with sorted dependency lists -/
def zodOrder (deps : Str → List Str) (fuel : Nat) (types : List Str) : List Str :=
  (D.topoSort (fun n => sortNames (deps n)) fuel (sortNames types)).sorted

/-- … is the same for every iteration order of the requested set and of every dependency set -/
theorem C13_zod_order_invariant (deps₁ deps₂ : Str → List Str) (fuel : Nat) (types₁ types₂ : List Str)
    (ht : types₁.Perm types₂) (hd : ∀ n, (deps₁ n).Perm (deps₂ n)) :
    zodOrder deps₁ fuel types₁ = zodOrder deps₂ fuel types₂ := by
  unfold zodOrder
  have h1 : (fun n => sortNames (deps₁ n)) = (fun n => sortNames (deps₂ n)) := by
    funext n; exact sortNames_perm (hd n)
  rw [h1, sortNames_perm ht]

/-- the plain-TypeScript declaration order (struct contexts sorted by name) and the order of commands
    and events (files processed in sorted path order): a map over the sorted keys -/
theorem C13_decl_order_invariant {β : Type} (render : Str → β) {keys₁ keys₂ : List Str} (h : keys₁.Perm keys₂) :
    (sortNames keys₁).map render = (sortNames keys₂).map render := by
  rw [sortNames_perm h]

/-- sorting loses and invents nothing -/
theorem C13_sorted_same_entries {l : List Str} {x : Str} : x ∈ sortNames l ↔ x ∈ l := sortNames_mem

/-! non-vacuity -/
example : sortNames [cl!"b/z.rs", cl!"a/y.rs", cl!"a.rs", cl!"a/x.rs"] = [cl!"a.rs", cl!"a/x.rs", cl!"a/y.rs", cl!"b/z.rs"] := by
  decide +kernel
example : zodOrder (fun n => if n = cl!"A" then [cl!"C", cl!"B"] else []) 5 [cl!"B", cl!"A"] = [cl!"B", cl!"C", cl!"A"] := by
  decide +kernel


/-! ## the whole analysis / generation model -/

/-- **C13 on the whole model**: the analysis — commands in output order, events, discovered types, dependency sets —
    is the same for every order in which the directory walk enumerates the files (paths being unique) -/
theorem C13_analysis_permutation_invariant (p₁ p₂ : Pj.Project) (hr : p₁.absRoot = p₂.absRoot)
    (h : p₁.files.Perm p₂.files)
    (huniq : ∀ f g, f ∈ p₁.files → g ∈ p₁.files → f.relPath = g.relPath → f = g) :
    An.analyze p₁ = An.analyze p₂ := An.analyze_perm p₁ p₂ hr h huniq

/-- … and so are all four generated files, in both modes, under every configuration -/
theorem C13_output_permutation_invariant (cfg : Gn.Config) (p₁ p₂ : Pj.Project) (hr : p₁.absRoot = p₂.absRoot)
    (h : p₁.files.Perm p₂.files)
    (huniq : ∀ f g, f ∈ p₁.files → g ∈ p₁.files → f.relPath = g.relPath → f = g) :
    Gn.generate cfg (An.analyze p₁) = Gn.generate cfg (An.analyze p₂) := by
  rw [An.analyze_perm p₁ p₂ hr h huniq]

/-! ## inserting items that are none of the tool's business -/

/-- **C13, insertion, on the whole model**: inserting, at any position of any file, an item that is no function and no
    type (a `use`, a `const`, a `mod`, an `impl` — to `syn` a comment or blank line is not even that), a type without
    the serde derive, or a function that is no command, emits nothing and does not carry the name of another function of
    the file, leaves the analysis — commands, events, discovered types, dependency sets — unchanged.
    (The side condition on function names is not idle: channels are read off the *first* function of a command's name,
    `find_function_in_ast`.) -/
theorem C13_insert_inert_analysis (p : Pj.Project) (path : Str) (k : Nat) (it : Pj.Item)
    (h : ∀ f ∈ p.files, f.relPath = path → An.inert path f.items it = true) :
    An.analyze { p with files := p.files.map (An.insertAt path k it) } = An.analyze p :=
  An.analyze_insert_inert p path k it h

/-- … and so are all generated files, in both modes, under every configuration -/
theorem C13_insert_inert_output (cfg : Gn.Config) (p : Pj.Project) (path : Str) (k : Nat) (it : Pj.Item)
    (h : ∀ f ∈ p.files, f.relPath = path → An.inert path f.items it = true) :
    Gn.generate cfg (An.analyze { p with files := p.files.map (An.insertAt path k it) }) = Gn.generate cfg (An.analyze p) := by
  rw [An.analyze_insert_inert p path k it h]

/-- **C13, reordering, on the whole model**: permuting the items of a file so that its functions keep their order —
    type declarations, `use`s, constants moved anywhere among themselves and among the functions — changes nothing at all
    (types are emitted sorted by name), provided no two distinct serde types of the file share a name -/
theorem C13_reorder_types_analysis (p : Pj.Project) (path : Str) (items' : List Pj.Item)
    (h : ∀ f ∈ p.files, f.relPath = path → items'.Perm f.items ∧ An.fnItems items' = An.fnItems f.items ∧
      (∀ x ∈ f.items, ∀ y ∈ f.items, An.inclName x = An.inclName y → An.inclName x ≠ none → x = y)) :
    An.analyze { p with files := p.files.map (An.withItems path items') } = An.analyze p :=
  An.analyze_reorder_types p path items' h

theorem C13_reorder_types_output (cfg : Gn.Config) (p : Pj.Project) (path : Str) (items' : List Pj.Item)
    (h : ∀ f ∈ p.files, f.relPath = path → items'.Perm f.items ∧ An.fnItems items' = An.fnItems f.items ∧
      (∀ x ∈ f.items, ∀ y ∈ f.items, An.inclName x = An.inclName y → An.inclName x ≠ none → x = y)) :
    Gn.generate cfg (An.analyze { p with files := p.files.map (An.withItems path items') }) = Gn.generate cfg (An.analyze p) := by
  rw [An.analyze_reorder_types p path items' h]

/-- the analysis reads a file through four functions of its items only (what the insertion theorem rests on) -/
theorem C13_analysis_reads_four_views (p : Pj.Project) (g : Pj.File → Pj.File) (h : ∀ f ∈ p.files, An.SameToAnalysis f (g f)) :
    An.analyze { p with files := p.files.map g } = An.analyze p := An.analyze_congr g p h

/-! non-vacuity: an `other` item and a struct without the derive are inert wherever they are put; a twin of a serde type
    that lacks the derive is inert even though it carries the type's name -/
example (path : Str) (items : List Pj.Item) : An.inert path items .other = true := rfl
example (path : Str) (items : List Pj.Item) :
    An.inert path items (.struct { name := cl!"User", attrs := [], shape := .named, fields := [] }) = true := by
  simp [An.inert, An.shouldInclude]

end TG.C13
