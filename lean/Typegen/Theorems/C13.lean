import Typegen.Order
import Typegen.SortGen
import Typegen.Generate
import Typegen.Inert
/-! # C13 — output is a deterministic function of sources and configuration

Every place where the tool iterates a `HashMap`/`HashSet`/directory listing to produce *ordered*
output is modelled as "take the entries in an arbitrary order `π`, sort, iterate" (after fix …, see
known_findings.json: file paths in `analyze_project_with_verbose`, struct names in
`create_struct_contexts`, requested names and dependency sets in `topological_sort_types`, type
mappings in the cache key).  The theorems say the result does not depend on `π`. -/
namespace TG.C13
open O

/-- any two enumeration orders of the same entries give the same sorted sequence -/
theorem C13_sorted_iteration {l₁ l₂ : List Str} (h : l₁.Perm l₂) : sortNames l₁ = sortNames l₂ :=
  sortNames_perm h

/-- the Zod declaration order: DFS over the sorted request with sorted dependency lists -/
def zodOrder (deps : Str → List Str) (fuel : Nat) (types : List Str) : List Str :=
  (D.topoSort (fun n => sortNames (deps n)) fuel (sortNames types)).sorted

/-- … is the same for every iteration order of the requested set and of every dependency set -/
theorem C13_zod_order_invariant (deps₁ deps₂ : Str → List Str) (fuel : Nat) (types₁ types₂ : List Str)
    (ht : types₁.Perm types₂) (hd : ∀ n, (deps₁ n).Perm (deps₂ n)) :
    zodOrder deps₁ fuel types₁ = zodOrder deps₂ fuel types₂ := by
  unfold zodOrder
  have h1 : (fun n => sortNames (deps₁ n)) = (fun n => sortNames (deps₂ n)) := by
    funext n; exact sortNames_perm (hd n)
  rw [h1, sortNames_perm ht]

/-- the plain-TypeScript declaration order (struct contexts sorted by name) and the order of commands
    and events (files processed in sorted path order): a map over the sorted keys -/
theorem C13_decl_order_invariant {β : Type} (render : Str → β) {keys₁ keys₂ : List Str} (h : keys₁.Perm keys₂) :
    (sortNames keys₁).map render = (sortNames keys₂).map render := by
  rw [sortNames_perm h]

/-- sorting loses and invents nothing -/
theorem C13_sorted_same_entries {l : List Str} {x : Str} : x ∈ sortNames l ↔ x ∈ l := sortNames_mem

/-! non-vacuity -/
example : sortNames [cl!"b/z.rs", cl!"a/y.rs", cl!"a.rs", cl!"a/x.rs"] = [cl!"a.rs", cl!"a/x.rs", cl!"a/y.rs", cl!"b/z.rs"] := by
  decide +kernel
example : zodOrder (fun n => if n = cl!"A" then [cl!"C", cl!"B"] else []) 5 [cl!"B", cl!"A"] = [cl!"B", cl!"C", cl!"A"] := by
  decide +kernel


/-! ## the whole analysis / generation model -/

/-- **C13 on the whole model**: the analysis — commands in output order, events, discovered types, dependency sets —
    is the same for every order in which the directory walk enumerates the files (paths being unique) -/
theorem C13_analysis_permutation_invariant (p₁ p₂ : Pj.Project) (hr : p₁.absRoot = p₂.absRoot)
    (h : p₁.files.Perm p₂.files)
    (huniq : ∀ f g, f ∈ p₁.files → g ∈ p₁.files → f.relPath = g.relPath → f = g) :
    An.analyze p₁ = An.analyze p₂ := An.analyze_perm p₁ p₂ hr h huniq

/-- … and so are all four generated files, in both modes, under every configuration -/
theorem C13_output_permutation_invariant (cfg : Gn.Config) (p₁ p₂ : Pj.Project) (hr : p₁.absRoot = p₂.absRoot)
    (h : p₁.files.Perm p₂.files)
    (huniq : ∀ f g, f ∈ p₁.files → g ∈ p₁.files → f.relPath = g.relPath → f = g) :
    Gn.generate cfg (An.analyze p₁) = Gn.generate cfg (An.analyze p₂) := by
  rw [An.analyze_perm p₁ p₂ hr h huniq]

/-! ## inserting items that are none of the tool's business -/

/-- **C13, insertion, on the whole model**: inserting, at any position of any file, an item that is no function and no
    type (a `use`, a `const`, a `mod`, an `impl` — to `syn` a comment or blank line is not even that), a type without
    the serde derive, or a function that is no command, emits nothing and does not carry the name of another function of
    the file, leaves the analysis — commands, events, discovered types, dependency sets — unchanged.
    (The side condition on function names is not idle: channels are read off the *first* function of a command's name,
    `find_function_in_ast`.) -/
theorem C13_insert_inert_analysis (p : Pj.Project) (path : Str) (k : Nat) (it : Pj.Item)
    (h : ∀ f ∈ p.files, f.relPath = path → An.inert path f.items it = true) :
    An.analyze { p with files := p.files.map (An.insertAt path k it) } = An.analyze p :=
  An.analyze_insert_inert p path k it h

/-- … and so are all generated files, in both modes, under every configuration -/
theorem C13_insert_inert_output (cfg : Gn.Config) (p : Pj.Project) (path : Str) (k : Nat) (it : Pj.Item)
    (h : ∀ f ∈ p.files, f.relPath = path → An.inert path f.items it = true) :
    Gn.generate cfg (An.analyze { p with files := p.files.map (An.insertAt path k it) }) = Gn.generate cfg (An.analyze p) := by
  rw [An.analyze_insert_inert p path k it h]

/-- **C13, reordering, on the whole model**: permuting the items of a file so that its functions keep their order —
    type declarations, `use`s, constants moved anywhere among themselves and among the functions — changes nothing at all
    (types are emitted sorted by name), provided no two distinct serde types of the file share a name -/
theorem C13_reorder_types_analysis (p : Pj.Project) (path : Str) (items' : List Pj.Item)
    (h : ∀ f ∈ p.files, f.relPath = path → items'.Perm f.items ∧ An.fnItems items' = An.fnItems f.items ∧
      (∀ x ∈ f.items, ∀ y ∈ f.items, An.inclName x = An.inclName y → An.inclName x ≠ none → x = y)) :
    An.analyze { p with files := p.files.map (An.withItems path items') } = An.analyze p :=
  An.analyze_reorder_types p path items' h

theorem C13_reorder_types_output (cfg : Gn.Config) (p : Pj.Project) (path : Str) (items' : List Pj.Item)
    (h : ∀ f ∈ p.files, f.relPath = path → items'.Perm f.items ∧ An.fnItems items' = An.fnItems f.items ∧
      (∀ x ∈ f.items, ∀ y ∈ f.items, An.inclName x = An.inclName y → An.inclName x ≠ none → x = y)) :
    Gn.generate cfg (An.analyze { p with files := p.files.map (An.withItems path items') }) = Gn.generate cfg (An.analyze p) := by
  rw [An.analyze_reorder_types p path items' h]

/-- **C13, moving serde types between files, on the whole model**: let the functions of every file stay where they are and
    let the serde items be redistributed among the processed files in any way — each still present somewhere, the indexed
    names the same multiset as before — in a project that indexes every type name once.  Then the analysis is unchanged
    (same commands and events, the same set of declarations with the same content), and so is every generated file. -/
theorem C13_redistribute_types_analysis (p : Pj.Project) (g : Pj.File → Pj.File)
    (hpath : ∀ f ∈ p.files, (g f).relPath = f.relPath ∧ (g f).parses = f.parses)
    (hfn : ∀ f ∈ An.processed p, An.fnItems (g f).items = An.fnItems f.items)
    (hperm : ((An.processed p).map g |>.flatMap fun f => An.fileDefs f.items).Perm ((An.processed p).flatMap fun f => An.fileDefs f.items))
    (huniq : ((An.processed p).flatMap fun f => An.fileDefs f.items).Nodup)
    (hkeep : ∀ f ∈ An.processed p, ∀ it ∈ f.items, An.inclName it ≠ none → ∃ f' ∈ An.processed p, it ∈ (g f').items) :
    An.analyze { p with files := p.files.map g } = An.analyze p :=
  An.analyze_redistribute_types p g hpath hfn hperm huniq hkeep

theorem C13_redistribute_types_output (cfg : Gn.Config) (p : Pj.Project) (g : Pj.File → Pj.File)
    (hpath : ∀ f ∈ p.files, (g f).relPath = f.relPath ∧ (g f).parses = f.parses)
    (hfn : ∀ f ∈ An.processed p, An.fnItems (g f).items = An.fnItems f.items)
    (hperm : ((An.processed p).map g |>.flatMap fun f => An.fileDefs f.items).Perm ((An.processed p).flatMap fun f => An.fileDefs f.items))
    (huniq : ((An.processed p).flatMap fun f => An.fileDefs f.items).Nodup)
    (hkeep : ∀ f ∈ An.processed p, ∀ it ∈ f.items, An.inclName it ≠ none → ∃ f' ∈ An.processed p, it ∈ (g f').items) :
    Gn.generate cfg (An.analyze { p with files := p.files.map g }) = Gn.generate cfg (An.analyze p) := by
  rw [An.analyze_redistribute_types p g hpath hfn hperm huniq hkeep]

/-- what a move between files can change at all: the analysis depends on the files only through the commands and the
    emissions in processing order, the number of indexed definitions and the project-wide lookup of type names -/
theorem C13_moving_depends_on_lookup (p₁ p₂ : Pj.Project)
    (hc : (An.processed p₁).flatMap (fun f => An.fileCommands f.relPath f.items) = (An.processed p₂).flatMap (fun f => An.fileCommands f.relPath f.items))
    (he : (An.processed p₁).flatMap (fun f => An.fileEvents f.relPath f.items) = (An.processed p₂).flatMap (fun f => An.fileEvents f.relPath f.items))
    (hn : ((An.processed p₁).flatMap fun f => An.fileDefs f.items).length = ((An.processed p₂).flatMap fun f => An.fileDefs f.items).length)
    (hl : ∀ n, An.lookupType (An.processed p₁) n = An.lookupType (An.processed p₂) n)
    (hd : ∀ n, (An.defFile (An.processed p₁) n).isSome = (An.defFile (An.processed p₂) n).isSome) :
    An.analyze p₁ = An.analyze p₂ := An.analyze_congr_lookup p₁ p₂ hc he hn hl hd

/-- the analysis reads a file through four functions of its items only (what the insertion theorem rests on) -/
theorem C13_analysis_reads_four_views (p : Pj.Project) (g : Pj.File → Pj.File) (h : ∀ f ∈ p.files, An.SameToAnalysis f (g f)) :
    An.analyze { p with files := p.files.map g } = An.analyze p := An.analyze_congr g p h

/-! non-vacuity: an `other` item and a struct without the derive are inert wherever they are put; a twin of a serde type
    that lacks the derive is inert even though it carries the type's name -/
example (path : Str) (items : List Pj.Item) : An.inert path items .other = true := rfl
example (path : Str) (items : List Pj.Item) :
    An.inert path items (.struct { name := cl!"User", attrs := [], shape := .named, fields := [] }) = true := by
  simp [An.inert, An.shouldInclude]

/-! non-vacuity of the redistribution theorem: a serde type moved from `a.rs` to `b.rs` meets all its hypotheses -/
namespace Ex
open An Pj
def deriveAttr : Attr := { path := [cl!"derive"], isList := true, tokens := cl!"Serialize", metaTokens := cl!"derive (Serialize)" }
def user : Item := .struct { name := cl!"User", attrs := [deriveAttr], shape := .named, fields := [] }
def fa : File := { relPath := cl!"a.rs", parses := true, items := [user] }
def fb : File := { relPath := cl!"b.rs", parses := true, items := [] }
def proj : Project := { absRoot := cl!"/r", files := [fa, fb] }
def move (f : File) : File :=
  if f.relPath = cl!"a.rs" then { f with items := [] } else if f.relPath = cl!"b.rs" then { f with items := [user] } else f

example : analyze { proj with files := proj.files.map move } = analyze proj := by
  have ex_processed : processed proj = [fa, fb] := by rfl
  apply C13_redistribute_types_analysis
  · intro f hf
    simp only [proj, List.mem_cons, List.not_mem_nil, or_false] at hf
    rcases hf with rfl | rfl <;> exact ⟨by decide +kernel, by decide +kernel⟩
  · rw [ex_processed]; intro f hf
    simp only [List.mem_cons, List.not_mem_nil, or_false] at hf
    rcases hf with rfl | rfl <;> rfl
  · rw [ex_processed]; decide +kernel
  · rw [ex_processed]; decide +kernel
  · rw [ex_processed]; intro f hf it hit _
    simp only [List.mem_cons, List.not_mem_nil, or_false] at hf
    rcases hf with rfl | rfl
    · simp only [fa, List.mem_cons, List.not_mem_nil, or_false] at hit
      subst hit
      exact ⟨fb, by simp, by simp [move, fb]⟩
    · simp [fb] at hit
end Ex

end TG.C13
