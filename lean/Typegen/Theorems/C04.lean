import Typegen.Heck
import Typegen.Names
import Typegen.TablesExpected
import Typegen.ParamFilter
/-! # C04 — the object passed to invoke has exactly the keys Tauri deserialises (naming half)

Tauri's command macro converts each Rust parameter name with `heck`'s `to_lower_camel_case`; the tool
converts with serde's field rule `camelCase` (`RenameRule::CamelCase.apply_to_field`).  The theorem: on
every snake_case identifier (digits, leading, trailing and consecutive underscores included) the two agree. -/
namespace TG.C04
open N H

theorem pascalGo_chars : ∀ (s : List Char) (cap : Bool) (c : Char), c ∈ pascalGo cap s → ∃ d ∈ s, c = d ∨ c = H.upc d
  | [], _, c, h => by simp [pascalGo] at h
  | x :: xs, cap, c, h => by
    unfold pascalGo at h
    split at h
    · obtain ⟨d, hd, e⟩ := pascalGo_chars xs true c h
      exact ⟨d, List.mem_cons_of_mem _ hd, e⟩
    · split at h
      · rcases List.mem_cons.mp h with h0 | h
        · exact ⟨x, by simp, .inr h0⟩
        · obtain ⟨d, hd, e⟩ := pascalGo_chars xs false c h
          exact ⟨d, List.mem_cons_of_mem _ hd, e⟩
      · rcases List.mem_cons.mp h with h0 | h
        · exact ⟨x, by simp, .inl h0⟩
        · obtain ⟨d, hd, e⟩ := pascalGo_chars xs false c h
          exact ⟨d, List.mem_cons_of_mem _ hd, e⟩

theorem snake_ascii {c : Char} (h : isSnakeCh c = true) : N.isAscii c = true := by
  simp only [isSnakeCh, Bool.or_eq_true, decide_eq_true_eq, Bool.and_eq_true] at h
  simp only [N.isAscii, decide_eq_true_eq]
  rcases h with h | h | h
  · have h2 : c.toNat ≤ 122 := h.2; omega
  · have h2 : c.toNat ≤ 57 := h.2; omega
  · subst h; decide

theorem upc_snake_ascii {c : Char} (h : isSnakeCh c = true) : N.isAscii (H.upc c) = true := by
  unfold H.upc
  split
  · next hlow =>
    have h1 : 97 ≤ c.toNat := hlow.1
    have h2 : c.toNat ≤ 122 := hlow.2
    have hv : (c.toNat - 32).isValidChar := by
      left; omega
    simp only [N.isAscii, decide_eq_true_eq, Char.toNat_ofNat, if_pos hv]
    omega
  · exact snake_ascii h

/-- **key rule**: on snake_case identifiers the tool's default parameter key is the key Tauri expects -/
theorem C04_key_rule (s : List Char) (hs : ∀ c ∈ s, isSnakeCh c = true) (hne : ∃ c ∈ s, c ≠ '_') :
    computeName s none none cl!"camelCase" = heckLowerCamel s := by
  have hk := key_rule s hs hne
  have hr : (ruleOfStr cl!"camelCase").getD Rule.camel = Rule.camel := by decide +kernel
  show applyFieldTool ((ruleOfStr cl!"camelCase").getD Rule.camel) s = heckLowerCamel s
  rw [hr]
  unfold serdeCamel serdePascal at hk
  simp only [applyFieldTool]
  cases hp : pascalGo true s with
  | nil => rw [hp] at hk; cases hk
  | cons c cs =>
    rw [hp] at hk
    exact Option.some.inj hk

/-- precedence: an explicit `#[serde(rename = ..)]` wins, then the command's `rename_all`, then the configured default -/
theorem C04_rename_wins (n r : List Char) (rule : Option Rule) (d : List Char) :
    computeName n (some r) rule d = r := rfl
theorem C04_rule_over_default (n : List Char) (rule : Rule) (d : List Char) :
    computeName n none (some rule) d = applyFieldTool rule n := rfl
theorem C04_default_case (n : List Char) (d : List Char) (rule : Rule) (h : ruleOfStr d = some rule) :
    computeName n none none d = applyFieldTool rule n := by simp [computeName, h]

/-! non-vacuity + the values the design recorded from the real binary -/
example : computeName cl!"user_id" none none cl!"camelCase" = cl!"userId" := by decide +kernel
example : computeName cl!"user2fa" none none cl!"camelCase" = cl!"user2fa" := by decide +kernel
example : computeName cl!"_foo" none none cl!"camelCase" = cl!"foo" := by decide +kernel
example : computeName cl!"foo__bar" none none cl!"camelCase" = cl!"fooBar" := by decide +kernel
example : heckLowerCamel cl!"foo__bar" = cl!"fooBar" := by decide +kernel
/-- K15b (fixed by de6a196): the vendored rule is undefined (panics) on `__` and on a multi-byte first
    character; the tool now keeps the name / lower-cases by character -/
theorem K15b_fixed_witness :
    applyField .camel cl!"__" = none ∧ computeName cl!"__" none none cl!"camelCase" = cl!"__" ∧
    applyField .camel cl!"über" = none ∧ computeName cl!"über" none none cl!"camelCase" = cl!"über" := by
  decide +kernel


/-- the literals of `is_tauri_parameter_type` (which parameters are framework-injected), re-read from the source on
    this run, are the ones `An.isTauriParamType` was written against -/
theorem C04_source_table_injected_types : Exp.litsOf "is_tauri_parameter_type" = Exp.isTauriParameterType := by decide


/-! ## which parameters become keys -/

/-- **C04 (filter half)**: for a parameter list written in the statement's spellings, the value keys are exactly the
    plain parameters, the channel keys exactly the `Channel<T>` parameters (each once, in order), and an injected
    parameter (`AppHandle`, `State<..>`, `Window<..>`, `WebviewWindow`, `tauri::`-qualified forms, `tauri::ipc::Request`)
    never yields a key -/
theorem C04_keys_exactly_frontend_params (ps : List Pj.Param)
    (h : ∀ p ∈ ps, p.patIdent.isSome = true ∧ (PF.kindOf p.ty).isSome = true) :
    (An.extractParams ps).map (·.name) = (ps.filter fun p => PF.kindOf p.ty = some .plain).filterMap (·.patIdent) ∧
    (An.extractChannels ps).map (·.param) = (ps.filter fun p => PF.kindOf p.ty = some .channel).filterMap (·.patIdent) :=
  PF.C04_keys_exactly_frontend_params ps h

/-- no parameter is both a value key and a channel key (the defect repaired by 755cfc6) -/
theorem C04_never_both (t : Pj.GTy) (k : PF.Kind) (h : PF.kindOf t = some k) :
    ¬ (An.isTauriParamType t = false ∧ (An.channelMessageType t).isSome = true) := by
  have hf := PF.kind_facts t k h
  cases k with
  | injected => have := hf.1 rfl; simp [this.1]
  | channel => have := hf.2.1 rfl; simp [this.1]
  | plain => have := hf.2.2 rfl; simp [this.2]

end TG.C04
