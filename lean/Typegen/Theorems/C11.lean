import Typegen.Validator
import Typegen.ScanLemmas
/-! # C11 — validator attributes become exactly the declared Zod constraints

Two stages: `VP.parseValidator` (mirror of `ValidatorParser`, a substring scanner over the attribute's
token text) and `V.renderType` (mirror of `ZodSchemaBuilder::render_type`).  Proved here: the rendering
stage is exact for every validator value and every message (all Unicode); the scanner stage is proved on
kernel-evaluated instances and is otherwise tied by correspondence (its exclusion classes are the
known findings K11b–K11g). -/
namespace TG.C11
open L V VP

/-- `escape_exact`: for every message (any Unicode text) the emitted JS string literal lexes back to
    exactly that message -/
theorem C11_escape_exact (s rest : Str) :
    P.lexJsString ('"' :: escapeJs s ++ '"' :: rest) = some (s, rest) :=
  P.jsString_roundtrip s rest

/-- the message is reproduced character for character inside `{ message: "…" }` -/
theorem C11_message_literal (msg : Str) :
    msgSuffix (some msg) = cl!", { message: " ++ ('"' :: escapeJs msg ++ '"' :: cl!" }") := by
  simp [msgSuffix]

/-- exact bounds: both, min only, max only, none — with the same message on both calls -/
theorem C11_bound_both (s a b : Str) (msg : Option Str) :
    applyBound s ⟨some a, some b, msg⟩ =
      s ++ cl!".min(" ++ a ++ msgSuffix msg ++ cl!")" ++ cl!".max(" ++ b ++ msgSuffix msg ++ cl!")" := rfl
theorem C11_bound_min (s a : Str) (msg : Option Str) :
    applyBound s ⟨some a, none, msg⟩ = s ++ cl!".min(" ++ a ++ msgSuffix msg ++ cl!")" := rfl
theorem C11_bound_max (s b : Str) (msg : Option Str) :
    applyBound s ⟨none, some b, msg⟩ = s ++ cl!".max(" ++ b ++ msgSuffix msg ++ cl!")" := rfl
theorem C11_bound_none (s : Str) (msg : Option Str) : applyBound s ⟨none, none, msg⟩ = s := rfl

/-- string fields: `email`/`url` iff declared, then the length bounds -/
theorem C11_string_chain (m : Mappings) (v : Validator) :
    buildSchema m (.prim cl!"string") (some v) =
      applyLength ((if v.url then (if v.email then cl!"z.string()" ++ cl!".email()" else cl!"z.string()") ++ cl!".url()"
        else (if v.email then cl!"z.string()" ++ cl!".email()" else cl!"z.string()"))) (some v) false := by
  simp [buildSchema, renderType, renderPrimitive, applyStringValidators]

/-- numeric fields: exactly the range bounds, on the coercing number schema -/
theorem C11_number_chain (m : Mappings) (v : Validator) :
    buildSchema m (.prim cl!"number") (some v) = applyRange cl!"z.coerce.number()" (some v) false := by
  simp [buildSchema, renderType, renderPrimitive]

/-- arrays: the length bounds apply to the array, the element carries no constraint -/
theorem C11_array_chain (m : Mappings) (v : Validator) (t : TS) :
    buildSchema m (.array t) (some v) =
      applyLength (cl!"z.array(" ++ renderType m (some v) t true false ++ [')']) (some v) false := by
  simp [buildSchema, renderType]

/-- `Option<T>`: the constraints of `T`, then `.optional()` -/
theorem C11_through_option (m : Mappings) (v : Option Validator) (t : TS) :
    buildSchema m (.optional t) v = buildSchema m t v ++ cl!".optional()" := by
  simp [buildSchema, renderType]

/-- fields without validators carry no constraints: every constraint applicator is the identity -/
theorem C11_no_validator (s : Str) (skip : Bool) :
    applyLength s none skip = s ∧ applyRange s none skip = s ∧ applyStringValidators s none skip = s := by
  cases skip <;> simp [applyLength, applyRange, applyStringValidators]

/-- a skipped position (array element, map key/value, tuple element) never receives constraints -/
theorem C11_skip_no_constraints (s : Str) (v : Option Validator) :
    applyLength s v true = s ∧ applyRange s v true = s ∧ applyStringValidators s v true = s := by
  simp [applyLength, applyRange, applyStringValidators]

/-! ## the scanner on concrete attribute texts (kernel-evaluated; token text exactly as proc_macro2 prints it) -/
theorem C11_scan_example :
    parseValidator [some cl!"length (min = 1 , max = 10 , message = \"say \\\"hi\\\"\") , email"] =
      some { length := some { min := some 1, max := some 10, message := some cl!"say \"hi\"" },
             range := none, email := true, url := false } := by decide +kernel
theorem C11_scan_range_decimal :
    (parseValidator [some cl!"range (min = 0.5 , max = 1e3)"]).bind (·.range) =
      some { min := some cl!"0.5", max := some cl!"1e3", message := none } ∧
    canonDec cl!"1e3" = some cl!"1000" ∧ canonDec cl!"0.50" = some cl!"0.5" ∧
    canonDec cl!"2.5e-3" = some cl!"0.0025" := by decide +kernel
/-- after the K11a fix multi-byte messages are scanned correctly (the model indexes by character) -/
theorem C11_scan_multibyte :
    (parseValidator [some cl!"length (min = 1 , message = \"é日🎉\")"]).bind (·.length) =
      some { min := some 1, max := none, message := some cl!"é日🎉" } := by decide +kernel

/-! ## witnesses of the known findings -/
/-- K11b: `)` inside the message ends the scanned content early; the message is dropped -/
theorem K11b_witness :
    (parseValidator [some cl!"length (min = 1 , message = \"a)b\")"]).bind (·.length) =
      some { min := some 1, max := none, message := none } := by decide +kernel
/-- K11c: a negative bound is printed `- 5` by proc_macro2 and fails `f64::from_str` -/
theorem K11c_witness :
    (parseValidator [some cl!"range (min = - 5)"]).bind (·.range) =
      some { min := some cl!"- 5", max := none, message := none } ∧ canonDec cl!"- 5" = none := by
  decide +kernel
/-- K11d: the word `email` inside a message switches the email validator on -/
theorem K11d_witness :
    (parseValidator [some cl!"length (min = 1 , message = \"invalid email address\")"]).map (·.email) = some true := by
  decide +kernel
/-- K11e: unescape order — `\\n` (backslash, n) becomes backslash + newline -/
theorem K11e_witness : unescapeMsg cl!"dir\\\\new" = cl!"dir\\\new" := by decide +kernel


/-! ## the scanning stage on the canonical fragment -/

/-- **C11, scanner, unbounded**: for every pair of numerals `A`, `B` and every message `M` free of `"`, `\` and `)`,
    from the token text of `#[validate(length(min = A, max = B, message = "M"))]` the scanner reads exactly the
    declared bounds and exactly the declared message (the excluded characters are the known findings K11b, K11e) -/
theorem C11_scan_length_canonical (a b m : Str) (ha : SL.Digits a) (hb : SL.Digits b)
    (hq : '"' ∉ m) (hbs : '\\' ∉ m) (hp : ')' ∉ m) :
    VP.parseLength (SL.tokensOf a b m) = some { min := VP.parseU64 a, max := VP.parseU64 b, message := some m } :=
  SL.C11_scan_length_canonical a b m ha hb hq hbs hp

/-- the canonical text is what the harness observes from proc_macro2 (instance) -/
example : SL.tokensOf cl!"1" cl!"20" cl!"short text" = cl!"length (min = 1 , max = 20 , message = \"short text\")" := by decide +kernel

/-- the same for `range`: the scanner keeps the declared bound texts (the numeric reading is `canonDec`, below) -/
theorem C11_scan_range_canonical (a b m : Str) (ha : SL.Digits a) (hb : SL.Digits b)
    (hq : '"' ∉ m) (hbs : '\\' ∉ m) (hp : ')' ∉ m) :
    VP.parseRange (SL.rangeTokensOf a b m) = some { min := some a, max := some b, message := some m } :=
  SL.C11_scan_range_canonical a b m ha hb hq hbs hp

example : SL.rangeTokensOf cl!"1" cl!"20" cl!"out of range" = cl!"range (min = 1 , max = 20 , message = \"out of range\")" := by decide +kernel

/-! ## from the attribute text to the schema text (both stages composed) -/

/-- **C11, end to end, `length` on a string field, unbounded**: for all numerals `A`, `B` and every message `M` (free of
    `"`, `\`, `)` and of the other validators' keywords — the known findings K11b, K11d, K11e), the schema emitted for
    `#[validate(length(min = A, max = B, message = "M"))] x: String` is
    `z.string().min(A, { message: "M" }).max(B, { message: "M" })`: exactly the declared bounds (dropped only when they
    do not fit `u64`), the message escaped, and neither `.email()` nor `.url()` -/
theorem C11_length_end_to_end (mp : Mappings) (a b m : Str) (ha : SL.Digits a) (hb : SL.Digits b)
    (hq : '"' ∉ m) (hbs : '\\' ∉ m) (hp : ')' ∉ m)
    (hr : A.containsSub VP.kwRange (SL.tokensOf a b m) = false) (he : A.containsSub VP.kwEmail (SL.tokensOf a b m) = false)
    (hu : A.containsSub VP.kwUrl (SL.tokensOf a b m) = false) :
    buildSchema mp (.prim cl!"string") ((VP.parseValidator [some (SL.tokensOf a b m)]).map VP.toValidator) =
      applyBound cl!"z.string()" ⟨(VP.parseU64 a).map VP.natToStr, (VP.parseU64 b).map VP.natToStr, some m⟩ :=
  SL.C11_length_end_to_end mp a b m ha hb hq hbs hp hr he hu

/-- … `range` on a numeric field: `z.coerce.number().min(A, { message: "M" }).max(B, { message: "M" })` with the bounds in
    canonical decimal -/
theorem C11_range_end_to_end (mp : Mappings) (a b m : Str) (ha : SL.Digits a) (hb : SL.Digits b)
    (hq : '"' ∉ m) (hbs : '\\' ∉ m) (hp : ')' ∉ m)
    (hl : A.containsSub VP.kwLength (SL.rangeTokensOf a b m) = false) (he : A.containsSub VP.kwEmail (SL.rangeTokensOf a b m) = false)
    (hu : A.containsSub VP.kwUrl (SL.rangeTokensOf a b m) = false) :
    buildSchema mp (.prim cl!"number") ((VP.parseValidator [some (SL.rangeTokensOf a b m)]).map VP.toValidator) =
      applyBound cl!"z.coerce.number()" ⟨VP.canonDec a, VP.canonDec b, some m⟩ :=
  SL.C11_range_end_to_end mp a b m ha hb hq hbs hp hl he hu

/-- the hypotheses are satisfiable, and the conclusion is the text one expects (instance) -/
example : buildSchema [] (.prim cl!"string") ((VP.parseValidator [some (SL.tokensOf cl!"1" cl!"20" cl!"too short!")]).map VP.toValidator) =
    cl!"z.string().min(1, { message: \"too short!\" }).max(20, { message: \"too short!\" })" := by decide +kernel
example : SL.Digits cl!"20" ∧ '"' ∉ cl!"too short!" ∧ '\\' ∉ cl!"too short!" ∧ ')' ∉ cl!"too short!" ∧
    A.containsSub VP.kwRange (SL.tokensOf cl!"1" cl!"20" cl!"too short!") = false ∧
    A.containsSub VP.kwEmail (SL.tokensOf cl!"1" cl!"20" cl!"too short!") = false ∧
    A.containsSub VP.kwUrl (SL.tokensOf cl!"1" cl!"20" cl!"too short!") = false := by
  refine ⟨⟨by decide, by decide⟩, by decide, by decide, by decide, by decide +kernel, by decide +kernel, by decide +kernel⟩
example : buildSchema [] (.prim cl!"number") ((VP.parseValidator [some (SL.rangeTokensOf cl!"007" cl!"10" cl!"1 to 10")]).map VP.toValidator) =
    cl!"z.coerce.number().min(7, { message: \"1 to 10\" }).max(10, { message: \"1 to 10\" })" := by decide +kernel

end TG.C11
