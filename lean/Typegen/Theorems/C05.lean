import Typegen.TsTyLemmas
import Typegen.Classes
import Typegen.ParsePrint
/-! # C05 — each emitted TypeScript type denotes the JSON shape serde produces

Chain: Rust type expression `r` —`type_to_string`→ string —`parse_type_structure`→ `TypeStructure`
—`visit_type`→ text.  Specification: `T.denote m r` (README table, compositional) printed by the canonical
printer `T.printSpec` (parentheses where TypeScript needs them). -/
namespace TG.C05
open L V T

/-- **L1** (string round trip): on well-formed, comma-safe type expressions the resolver recovers the
    structure from the flattened string — all constructors of the README table, any depth. -/
theorem C05_L1_parse_roundtrip (r : RTy) (fuel : Nat) (hwf : WF r) (hcs : CommaSafe r) (hf : size r ≤ fuel) :
    parseTS fuel (str r) = structOf r :=
  L.L1 r fuel hwf hcs hf

/-- **L2** (rendering): without an `Option` directly under `Vec`/`HashSet`/`BTreeSet` the renderer is the
    canonical printer of the meaning (type mappings included). -/
theorem C05_L2_render (m : Mappings) (t : TS) (h : precSafe t = true) :
    visitTs m t = printSpec (tsOf m t) :=
  visit_eq_print m t h

/-- **C05 (partial)**: for every supported type expression outside the two exclusion classes, at the
    parameter / struct-field / channel-message sites (plain `visit_type`) the emitted text is the canonical
    print of what the Rust type denotes.  Full statement = the same without `CommaSafe`/`precSafe`; it is
    false on the pinned tree (witnesses below, known findings K05a–d). -/
theorem C05_partial (m : Mappings) (r : RTy) (fuel : Nat) (hwf : WF r) (hcs : CommaSafe r)
    (hf : size r ≤ fuel) (hp : precSafe (structOf r) = true) :
    visitTs m (parseTS fuel (str r)) = printSpec (denote m r) := by
  rw [L.L1 r fuel hwf hcs hf]
  exact visit_eq_print m (structOf r) hp

/-- the same through the decidable predicates the driver evaluates on every generated case -/
theorem C05_partial_bool (m : Mappings) (r : RTy) (hwf : wfB r = true) (hcs : commaSafeB r = true)
    (hp : precSafe (structOf r) = true) :
    visitTs m (parseTS (size r) (str r)) = printSpec (denote m r) :=
  C05_partial m r (size r) ((wfB_iff r).mp hwf) ((commaSafeB_iff r).mp hcs) (Nat.le_refl _) hp

/-- `Result<T, E>` is transparent and references are dropped: the denotation ignores them -/
theorem C05_result_ref_transparent (m : Mappings) (t e : RTy) :
    denote m (.res2 t e) = denote m t ∧ denote m (.res1 t) = denote m t ∧ denote m (.ref t) = denote m t := by
  simp [denote, structOf, tsOf]

/-! ## non-vacuity and witnesses (kernel-evaluated, no axioms) -/

/-- a non-trivial type meeting all hypotheses: `HashMap<String, Vec<(User, Option<i32>)>>` -/
def exTy : RTy := .hmap (.prim "String".toList) (.vec (.tup (.named "User".toList) (.cons (.opt (.prim "i32".toList)) .nil)))
example : wfB exTy = true ∧ commaSafeB exTy = true ∧ precSafe (structOf exTy) = true := by decide +kernel
theorem C05_example :
    visitTs [] (parseTS 20 (str exTy)) = "Record<string, [User, number | null][]>".toList := by decide +kernel
theorem C05_example_parses :
    parseTsTy "Record<string, [User, number | null][]>".toList = some (denote [] exTy) := by decide +kernel

/-- K05a: `Vec<Option<String>>` is rendered `string | null[]`, which TypeScript reads as
    `string | (null[])`, not as an array of `string | null` -/
theorem K05a_witness :
    visitTs [] (parseTS 20 "Vec<Option<String>>".toList) = "string | null[]".toList ∧
    parseTsTy "string | null[]".toList ≠ some (denote [] (.vec (.opt (.prim "String".toList)))) ∧
    parseTsTy "(string | null)[]".toList = some (denote [] (.vec (.opt (.prim "String".toList)))) := by
  decide +kernel

/-- K05b: the ok-type of a `Result` is cut at its first comma -/
theorem K05b_witness :
    parseTS 50 "Result<HashMap<String, V>, E>".toList = .result (.custom "HashMap<String".toList) :=
  by decide +kernel
/-- K05c: tuple elements are split at every comma -/
theorem K05c_witness :
    parseTS 50 "(Vec<A>, HashMap<K, V>)".toList
      = .tuple (.cons (.array (.custom ['A'])) (.cons (.custom "HashMap<K".toList) (.cons (.custom "V>".toList) .nil))) :=
  by decide +kernel
/-- K05d: a tuple as map key is split inside the parentheses -/
theorem K05d_witness :
    parseTS 50 "HashMap<(A, B), V>".toList = .map (.custom "(A".toList) (.custom "B), V".toList) :=
  by decide +kernel


/-! ## the recogniser reads the printer back: `parse ∘ print = id` -/

/-- **parse ∘ print**: every canonical TypeScript type (dotted identifier names, non-empty tuples and argument lists,
    unions of at least two non-union members) is read back exactly by `parseTsTy` from its canonical print — the
    recogniser the oracles of C05 / C10 / C18 rely on is exact on the printer's image, at any depth -/
theorem C05_parse_print (t : TsTy) (h : PP.Canon t) : parseTsTy (printSpec t) = some t := PP.parse_print t h

/-- **C05 at text level**: for a type structure whose names are identifiers and that has no `Option` directly under an
    array, the emitted text *parses to* the denotation: `parse (render t) = some (denote t)` -/
theorem C05_text_parses_to_denotation (t : TS) (hn : PP.identNames t) (hp : precSafe t = true) :
    parseTsTy (visitTs [] t) = some (tsOf [] t) := PP.render_parses_to_denotation t hn hp

/-- … and from the Rust type expression through the flattened string (L1), for supported, comma-safe expressions -/
theorem C05_full_chain_partial (r : RTy) (fuel : Nat) (hwf : WF r) (hcs : CommaSafe r) (hf : size r ≤ fuel)
    (hn : PP.identNames (structOf r)) (hp : precSafe (structOf r) = true) :
    parseTsTy (visitTs [] (parseTS fuel (str r))) = some (denote [] r) := by
  rw [L.L1 r fuel hwf hcs hf]
  exact PP.render_parses_to_denotation _ hn hp

end TG.C05
