import Typegen.SerdeAttrs
/-! # C06 — property keys and enum literals equal the names serde uses on the wire

Model: `N.computeName` (= `NamingContext::compute_field_name`) fed by the attribute scanners of
`SA` (= `SerdeParser`).  Specification: `N.serdeName` (serde_derive: explicit rename > container
`rename_all` with the rule for the kind of item > identifier). -/
namespace TG.C06
open N A SA

/-- struct fields: for every rule, every rename, every identifier on which serde's own routine is
    defined, the tool's key is serde's key (default field case `snake_case`) -/
theorem C06_field_names (f : Str) (rename : Option Str) (rule : Option Rule) (x : Str)
    (h : serdeName .field rule rename f = some x) :
    computeName f rename rule cl!"snake_case" = x := by
  have hr : (ruleOfStr cl!"snake_case").getD Rule.camel = Rule.snake := by decide +kernel
  cases rename with
  | some r => simp only [serdeName, Option.some.injEq] at h; exact h
  | none =>
    cases rule with
    | some r => simp only [serdeName] at h; exact applyFieldTool_eq h
    | none =>
      simp only [serdeName, Option.some.injEq] at h
      show applyFieldTool ((ruleOfStr cl!"snake_case").getD Rule.camel) f = x
      rw [hr]; exact h

theorem pascalGo_false_id : ∀ (s : Str), '_' ∉ s → H.pascalGo false s = s
  | [], _ => by simp [H.pascalGo]
  | c :: cs, h => by
    have hc : c ≠ '_' := fun e => h (by simp [e])
    have hcs : '_' ∉ cs := fun e => h (List.mem_cons_of_mem _ e)
    simp [H.pascalGo, hc, pascalGo_false_id cs hcs]

theorem upc_upper {c : Char} (h : isUpperAscii c = true) : H.upc c = c := by
  simp only [isUpperAscii, decide_eq_true_eq] at h
  unfold H.upc
  split
  · next hl =>
    have a1 : 97 ≤ c.toNat := hl.1
    have a2 : c.toNat ≤ 90 := h.2
    omega
  · rfl

theorem pascal_upperCamel (v : Str) (h : isUpperCamel v = true) : H.pascalGo true v = v := by
  cases v with
  | nil => simp [isUpperCamel] at h
  | cons c cs =>
    simp only [isUpperCamel, Bool.and_eq_true, Bool.not_eq_true', List.contains_eq_mem,
      decide_eq_false_iff_not] at h
    have hc : c ≠ '_' := fun e => h.2 (by simp [e])
    have hcs : '_' ∉ cs := fun e => h.2 (List.mem_cons_of_mem _ e)
    simp [H.pascalGo, hc, upc_upper h.1, pascalGo_false_id cs hcs]

/-- enum variants, the part that holds: on idiomatic (`UpperCamel`) variant identifiers the field rule
    the tool applies coincides with serde's variant rule for PascalCase, camelCase and UPPERCASE -/
theorem C06_variant_agree_partial (v : Str) (h : isUpperCamel v = true) (rule : Rule)
    (hr : rule = .pascal ∨ rule = .camel ∨ rule = .upper) :
    applyField rule v = applyVariant rule v := by
  rcases hr with rfl | rfl | rfl
  · simp [applyField, applyVariant, pascal_upperCamel v h]
  · simp only [applyField, applyVariant, pascal_upperCamel v h]
  · rfl

/-- therefore: variants without a container rule, with an explicit rename, or in the agreeing
    combinations get serde's name -/
theorem C06_variant_names_partial (v : Str) (rename : Option Str) (rule : Option Rule) (x : Str)
    (h : rename.isSome ∨ rule = none ∨
      (isUpperCamel v = true ∧ (rule = some .pascal ∨ rule = some .camel ∨ rule = some .upper)))
    (hs : serdeName .variant rule rename v = some x) :
    computeName v rename rule cl!"snake_case" = x := by
  have hr : (ruleOfStr cl!"snake_case").getD Rule.camel = Rule.snake := by decide +kernel
  cases rename with
  | some r => simp only [serdeName, Option.some.injEq] at hs; exact hs
  | none =>
    rcases h with h | h | ⟨hu, h⟩
    · simp at h
    · subst h
      simp only [serdeName, Option.some.injEq] at hs
      show applyFieldTool ((ruleOfStr cl!"snake_case").getD Rule.camel) v = x
      rw [hr]; exact hs
    · have key : ∀ r : Rule, (r = .pascal ∨ r = .camel ∨ r = .upper) → rule = some r →
          computeName v none rule cl!"snake_case" = x := by
        intro r hrr e
        subst e
        simp only [serdeName] at hs
        rw [← C06_variant_agree_partial v hu r hrr] at hs
        exact applyFieldTool_eq hs
      rcases h with e | e | e
      · exact key _ (.inl rfl) e
      · exact key _ (.inr (.inl rfl)) e
      · exact key _ (.inr (.inr rfl)) e

/-- the `skip` decision of the scanner depends only on which single tokens mention `skip` /
    `skip_serializing` — for every token list (proc_macro2 prints tokens space-separated) -/
theorem C06_skip_tokens (toks : List Str) :
    skipFlag (joinSp toks) = (toks.any (containsSub kwSkip) && !toks.any (containsSub kwSkipSer)) :=
  skipFlag_tokens toks

/-! ## witnesses (kernel-evaluated): the full statement is false on the pinned tree -/
/-- K06a: `rename_all = "SCREAMING_SNAKE_CASE"` on `enum { HelloWorld }`: tool `HELLOWORLD`, serde `HELLO_WORLD` -/
theorem K06a_witness :
    computeName cl!"HelloWorld" none (some .screamingSnake) cl!"snake_case" = cl!"HELLOWORLD" ∧
    serdeName .variant (some .screamingSnake) none cl!"HelloWorld" = some cl!"HELLO_WORLD" := by
  decide +kernel
theorem K06a_witness_lower :
    computeName cl!"Outcome" none (some .lower) cl!"snake_case" = cl!"Outcome" ∧
    serdeName .variant (some .lower) none cl!"Outcome" = some cl!"outcome" := by
  decide +kernel
/-- K06b: text that merely contains `skip` inside another attribute's value drops the field -/
theorem K06b_witness : (parseFieldAttrs [cl!"default = \"skip_me\""]).skip = true := by decide +kernel
/-- K06c: `skip_deserializing` is taken for `skip` -/
theorem K06c_witness : (parseFieldAttrs [cl!"skip_deserializing"]).skip = true := by decide +kernel
/-- K06d: an escaped quote ends the rename value early -/
theorem K06d_witness : (parseFieldAttrs [cl!"rename = \"a\\\"b\""]).rename = some cl!"a\\" := by
  decide +kernel
/-! ## the rename scanner on the canonical attribute text, for every value -/

theorem findCh_skip (c : Char) : ∀ (l s : Str), c ∉ l → SA.findCh c (l ++ s) = (SA.findCh c s).map (· + l.length)
  | [], s, _ => by simp
  | x :: xs, s, h => by
    have hx : x ≠ c := fun e => h (by simp [e])
    have hxs : c ∉ xs := fun e => h (List.mem_cons_of_mem _ e)
    simp only [List.cons_append, SA.findCh, hx, if_false, findCh_skip c xs s hxs, Option.map_map, List.length_cons]
    congr 1

/-- the text `proc_macro2` prints for `#[serde(rename = "X")]` -/
def renameText (x : Str) : Str := 'r' :: 'e' :: 'n' :: 'a' :: 'm' :: 'e' :: ' ' :: '=' :: ' ' :: '"' :: (x ++ ['"'])

/-- **for every rename value free of `"`** (K06d is the escaped quote) the scanner reads exactly the declared value -/
theorem C06_scan_rename_canonical (x : Str) (hq : '"' ∉ x) : parseRename (renameText x) = some x := by
  unfold parseRename parseRenameFrom renameText
  have hf : findSub kwRename ('r' :: 'e' :: 'n' :: 'a' :: 'm' :: 'e' :: ' ' :: '=' :: ' ' :: '"' :: (x ++ ['"'])) = some 0 := by
    simp [findSub, startsWith, kwRename]
  simp only [List.length_cons, hf]
  simp only [Nat.zero_add, List.drop_succ_cons, List.drop_zero]
  have hws : isWs ' ' = true := by decide
  have hne : isWs '=' = false := by decide
  have ht : trimStartWs (' ' :: '=' :: ' ' :: '"' :: (x ++ ['"'])) = '=' :: ' ' :: '"' :: (x ++ ['"']) := by
    simp [trimStartWs, hws, hne]
  rw [ht]
  have hs : startsWith ('=' :: ' ' :: '"' :: (x ++ ['"'])) kwAll = false := by simp [startsWith, kwAll]
  simp only [hs, Bool.false_eq_true, if_false]
  have he : SA.findCh '=' (' ' :: '=' :: ' ' :: '"' :: (x ++ ['"'])) = some 1 := by simp [SA.findCh]
  rw [he]
  simp only [List.drop_succ_cons, List.drop_zero]
  unfold firstQuoted
  have h1 : SA.findCh '"' (' ' :: '"' :: (x ++ ['"'])) = some 1 := by simp [SA.findCh]
  rw [h1]
  simp only [List.drop_succ_cons, List.drop_zero]
  have h2 : SA.findCh '"' (x ++ ['"']) = some x.length := by
    rw [findCh_skip '"' x _ hq]; simp [SA.findCh]
  rw [h2]
  simp

/-- hence the key of a field declared `#[serde(rename = "X")]` is `X`, whatever the identifier, the container rule and
    the configured default case -/
theorem C06_rename_text_to_key (f x : Str) (hq : '"' ∉ x) (rule : Option Rule) (dflt : Str) :
    computeName f (parseFieldAttrs [renameText x]).rename rule dflt = x := by
  simp only [parseFieldAttrs, List.foldl, C06_scan_rename_canonical x hq]
  rfl

/-- the text printed for `#[serde(rename_all = "<rule>")]` -/
def renameAllText (r : Rule) : Str := cl!"rename_all = \"" ++ ruleName r ++ ['"']

/-- all eight rules of serde are read back from the canonical container attribute (the whole table) … -/
theorem C06_scan_rename_all_canonical (r : Rule) : parseStructAttrs [renameAllText r] = some r := by
  cases r <;> decide +kernel

/-- … and a container `rename_all` is never mistaken for a field rename -/
theorem C06_rename_all_is_not_rename (r : Rule) : parseRename (renameAllText r) = none := by
  cases r <;> decide +kernel

/-- the scanner is right on the plain cases (non-vacuity of the correspondence) -/
example : parseFieldAttrs [cl!"rename = \"userName\" , skip_serializing_if = \"Option::is_none\""]
    = { rename := some cl!"userName", skip := false } := by decide +kernel
example : parseStructAttrs [cl!"rename_all = \"camelCase\""] = some .camel := by decide +kernel

end TG.C06
