import Typegen.TsSyntax
import Typegen.ProjectSpec
import Typegen.Heck
/-! # C01 — every generated file is syntactically valid TypeScript

The fixed text of the templates is transcribed in `Gn` and compared with the real files on every run; the
recogniser `Sx.parsesAsModule` (trusted as the definition of "parses as a TypeScript module" for the
emitted subset) is run on every real file.  Proved here, for all inputs: the *hole fillers* are of the
right syntactic category — string literals are escaped so that they lex back to the same text, function
and type identifiers derived from Rust identifiers are legal TypeScript identifiers. -/
namespace TG.C01
open N H T

/-- string-literal holes (validator messages): for every Unicode text the emitted literal lexes back to it -/
theorem C01_string_literal_roundtrip (s rest : Str) :
    P.lexJsString ('"' :: P.escapeJs s ++ '"' :: rest) = some (s, rest) :=
  P.jsString_roundtrip s rest

/-- the characters of a Rust identifier (ASCII) -/
def isRustIdCh (c : Char) : Bool := isLetter c || isDigitC c || c = '_'

theorem upc_idchar {c : Char} (h : isRustIdCh c = true) (hu : c ≠ '_') : (isLetter (H.upc c) || isDigitC (H.upc c)) = true := by
  simp only [isRustIdCh, isLetter, isDigitC, Bool.or_eq_true, decide_eq_true_eq] at h ⊢
  unfold H.upc
  split
  · next hl =>
    have h1 : 97 ≤ c.toNat := hl.1
    have h2 : c.toNat ≤ 122 := hl.2
    have hv : (c.toNat - 32).isValidChar := by left; omega
    have hnat : (Char.ofNat (c.toNat - 32)).toNat = c.toNat - 32 := by rw [Char.toNat_ofNat, if_pos hv]
    left; right
    constructor
    · show (65 : Nat) ≤ (Char.ofNat (c.toNat - 32)).toNat; rw [hnat]; omega
    · show (Char.ofNat (c.toNat - 32)).toNat ≤ 90; rw [hnat]; omega
  · rcases h with (h | h) | h
    · exact .inl h
    · exact .inr h
    · exact absurd h hu

/-- every character of the PascalCase form of a Rust identifier is a letter or digit (underscores vanish) -/
theorem pascalGo_chars_alnum : ∀ (s : Str) (cap : Bool), (∀ c ∈ s, isRustIdCh c = true) →
    ∀ c ∈ H.pascalGo cap s, (isLetter c || isDigitC c) = true
  | [], _, _, c, h => by simp [H.pascalGo] at h
  | x :: xs, cap, hs, c, h => by
    have hx := hs x (by simp)
    have hxs : ∀ c ∈ xs, isRustIdCh c = true := fun c hc => hs c (List.mem_cons_of_mem _ hc)
    unfold H.pascalGo at h
    split at h
    · exact pascalGo_chars_alnum xs true hxs c h
    · next hne =>
      split at h
      · rcases List.mem_cons.mp h with h0 | h
        · rw [h0]; exact upc_idchar hx hne
        · exact pascalGo_chars_alnum xs false hxs c h
      · rcases List.mem_cons.mp h with h0 | h
        · rw [h0]
          simp only [isRustIdCh, Bool.or_eq_true, decide_eq_true_eq] at hx
          rcases hx with hx | hx
          · simpa using hx
          · exact absurd hx hne
        · exact pascalGo_chars_alnum xs false hxs c h

theorem alnum_idchar {c : Char} (h : (isLetter c || isDigitC c) = true) : isIdChar c = true := by
  simp only [isIdChar, Bool.or_eq_true] at h ⊢
  rcases h with h | h
  · exact .inl (.inl (.inl (.inl h)))
  · exact .inl (.inl (.inl (.inr h)))

/-- **type identifiers** (`<Pascal>Params`, `<Pascal>ParamsSchema`): every character of the PascalCase of a
    Rust identifier is an identifier character, so the name is one identifier token -/
theorem C01_type_name_chars (n : Str) (h : ∀ c ∈ n, isRustIdCh c = true) :
    ∀ c ∈ computeTypeName n, isIdChar c = true := by
  intro c hc
  exact alnum_idchar (pascalGo_chars_alnum n true h c hc)

theorem lowc_letter_or_digit {c : Char} (h : (isLetter c || isDigitC c) = true) : (isLetter (N.lowc c) || isDigitC (N.lowc c)) = true := by
  simp only [isLetter, isDigitC, Bool.or_eq_true, decide_eq_true_eq] at h ⊢
  unfold N.lowc H.lowc
  split
  · next hu =>
    have h1 : 65 ≤ c.toNat := hu.1
    have h2 : c.toNat ≤ 90 := hu.2
    have hv : (c.toNat + 32).isValidChar := by left; omega
    have hnat : (Char.ofNat (c.toNat + 32)).toNat = c.toNat + 32 := by rw [Char.toNat_ofNat, if_pos hv]
    left; left
    constructor
    · show (97 : Nat) ≤ (Char.ofNat (c.toNat + 32)).toNat; rw [hnat]; omega
    · show (Char.ofNat (c.toNat + 32)).toNat ≤ 122; rw [hnat]; omega
  · exact h

/-- **function identifiers**: every character of the camelCase name of a Rust identifier is an identifier
    character (the fallback for an all-underscore name keeps the name) -/
theorem C01_function_name_chars (n : Str) (h : ∀ c ∈ n, isRustIdCh c = true) :
    ∀ c ∈ computeFunctionName n, isIdChar c = true := by
  intro c hc
  have hdef : computeFunctionName n = (match H.pascalGo true n with | [] => n | x :: xs => N.lowc x :: xs) := rfl
  rw [hdef] at hc
  cases hp : H.pascalGo true n with
  | nil =>
    rw [hp] at hc
    have := h c hc
    simp only [isRustIdCh, isIdChar, Bool.or_eq_true] at this ⊢
    rcases this with (h1 | h1) | h1
    · exact .inl (.inl (.inl (.inl h1)))
    · exact .inl (.inl (.inl (.inr h1)))
    · exact .inl (.inl (.inr h1))
  | cons x xs =>
    rw [hp] at hc
    have hall := pascalGo_chars_alnum n true h
    rcases List.mem_cons.mp hc with h0 | h0
    · rw [h0]; exact alnum_idchar (lowc_letter_or_digit (hall x (by rw [hp]; simp)))
    · exact alnum_idchar (hall c (by rw [hp]; exact List.mem_cons_of_mem _ h0))

/-- listener identifiers: for event names over letters, digits, `-` and `_` every character of
    `on<Pascal>` is an identifier character and the name starts with a letter -/
theorem C01_listener_name_chars (ev : Str) (h : ∀ c ∈ ev, (isRustIdCh c || c = '-') = true) :
    (∀ c ∈ eventFunctionName ev, isIdChar c = true) ∧ (eventFunctionName ev).head? = some 'o' := by
  constructor
  · intro c hc
    unfold eventFunctionName at hc
    rcases List.mem_append.mp hc with h0 | h0
    · simp only [List.mem_cons, List.not_mem_nil, or_false] at h0
      rcases h0 with rfl | rfl <;> decide
    · apply alnum_idchar
      apply pascalGo_chars_alnum _ true _ c h0
      intro d hd
      obtain ⟨e, he, hed⟩ := List.mem_map.mp hd
      have := h e he
      by_cases hdash : e = '-'
      · subst hdash; simp at hed; subst hed; decide
      · simp only [hdash, if_false] at hed
        subst hed
        simpa [hdash] using this
  · rfl

/-! ## witnesses of the known findings (kernel-evaluated) -/
/-- K01a: a command named like a reserved word keeps that name -/
theorem K01a_witness : computeFunctionName cl!"class" = cl!"class" ∧ isTsIdentName cl!"class" = false := by decide +kernel
/-- K01b: `:` and `/` of an event name survive into the listener identifier -/
theorem K01b_witness : eventFunctionName cl!"user:login/now" = cl!"onUser:login/now" ∧
    isTsIdentName (eventFunctionName cl!"user:login/now") = false := by decide +kernel
/-- K01c: kebab-case keys are emitted unquoted -/
theorem K01c_witness : computeName cl!"user_id" none (some .kebab) cl!"snake_case" = cl!"user-id" ∧
    isTsIdentName cl!"user-id" = false := by decide +kernel
/-- the recogniser on the forms the templates produce, and on a K01c file -/
theorem C01_recogniser_examples :
    Sx.parsesAsModule cl!"import { z } from 'zod';\nexport const ASchema = z.object({\n  a: z.string().min(1, { message: \"x\" }),\n});\nexport type A = z.infer<typeof ASchema>;\n" = true ∧
    Sx.parsesAsModule cl!"export interface P {\n  userId?: string[] | null;\n  [key: string]: unknown;\n}\n" = true ∧
    Sx.parsesAsModule cl!"export async function f(params: types.P): Promise<types.A[]> {\n  return invoke('f', params);\n}\n" = true ∧
    Sx.parsesAsModule cl!"export interface P {\n  user-id: string;\n}\n" = false ∧
    Sx.parsesAsModule cl!"export async function class(): Promise<void> {\n  return invoke('class');\n}\n" = false ∧
    Sx.parsesAsModule cl!"export async function f(): Promise<types.HashMap<String> {\n  return invoke('f');\n}\n" = false := by
  decide +kernel

end TG.C01
