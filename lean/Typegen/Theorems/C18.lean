import Typegen.TsTyLemmas
/-! # C18 — a type mapping replaces the mapped type everywhere and nothing else

The mapping is looked up at `TypeStructure::Custom(name)` nodes only (`visit_custom` of the three
renderers).  Theorems: rendering with a mapping table `m` equals rendering *without* mapping after
substituting every mapped custom name by its target (for all structures, all depths); unmapped names are
untouched; a structure without mapped names renders exactly as without the table. -/
namespace TG.C18
open L V T

mutual
/-- substitute mapped custom names by their targets (a target is then looked up again with the empty table) -/
def subst (m : Mappings) : TS → TS
  | .prim p => .prim p
  | .array t => .array (subst m t)
  | .map k v => .map (subst m k) (subst m v)
  | .set t => .set (subst m t)
  | .tuple ts => .tuple (substList m ts)
  | .optional t => .optional (subst m t)
  | .result t => .result (subst m t)
  | .custom n => .custom ((lookup m n).getD n)
def substList (m : Mappings) : TSList → TSList
  | .nil => .nil
  | .cons t ts => .cons (subst m t) (substList m ts)
end

mutual
/-- does a mapped name occur anywhere in the structure? -/
def mentions (m : Mappings) : TS → Bool
  | .prim _ => false
  | .array t | .set t | .optional t | .result t => mentions m t
  | .map k v => mentions m k || mentions m v
  | .tuple ts => mentionsList m ts
  | .custom n => (lookup m n).isSome
def mentionsList (m : Mappings) : TSList → Bool
  | .nil => false
  | .cons t ts => mentions m t || mentionsList m ts
end

theorem lookup_nil (n : Str) : lookup [] n = none := rfl

mutual
/-- **TypeScript renderer**: mapping = substitution, at every nesting depth and every constructor position -/
theorem C18_ts_subst (m : Mappings) : ∀ (t : TS), visitTs m t = visitTs [] (subst m t)
  | .prim p => by simp [visitTs, subst]
  | .array t => by simp [visitTs, subst, C18_ts_subst m t]
  | .set t => by simp [visitTs, subst, C18_ts_subst m t]
  | .map k v => by simp [visitTs, subst, C18_ts_subst m k, C18_ts_subst m v]
  | .tuple ts => by
    cases ts with
    | nil => simp [visitTs, subst, substList]
    | cons t rest => simp [visitTs, subst, substList, C18_ts_subst m t, C18_ts_substList m rest]
  | .optional t => by simp [visitTs, subst, C18_ts_subst m t]
  | .result t => by simp [visitTs, subst, C18_ts_subst m t]
  | .custom n => by simp [visitTs, subst, lookup_nil]
theorem C18_ts_substList (m : Mappings) : ∀ (ts : TSList), visitTsList m ts = visitTsList [] (substList m ts)
  | .nil => by simp [visitTsList, substList]
  | .cons t ts => by simp [visitTsList, substList, C18_ts_subst m t, C18_ts_substList m ts]
end

mutual
/-- **nothing else**: a structure that mentions no mapped name renders exactly as without the table
    (TypeScript renderer) -/
theorem C18_ts_unaffected (m : Mappings) : ∀ (t : TS), mentions m t = false → visitTs m t = visitTs [] t
  | .prim p, _ => by simp [visitTs]
  | .array t, h => by simp only [mentions] at h; simp [visitTs, C18_ts_unaffected m t h]
  | .set t, h => by simp only [mentions] at h; simp [visitTs, C18_ts_unaffected m t h]
  | .map k v, h => by
    simp only [mentions, Bool.or_eq_false_iff] at h
    simp [visitTs, C18_ts_unaffected m k h.1, C18_ts_unaffected m v h.2]
  | .tuple ts, h => by
    cases ts with
    | nil => simp [visitTs]
    | cons t rest =>
      simp only [mentions, mentionsList, Bool.or_eq_false_iff] at h
      simp [visitTs, C18_ts_unaffected m t h.1, C18_ts_unaffectedList m rest h.2]
  | .optional t, h => by simp only [mentions] at h; simp [visitTs, C18_ts_unaffected m t h]
  | .result t, h => by simp only [mentions] at h; simp [visitTs, C18_ts_unaffected m t h]
  | .custom n, h => by
    simp only [mentions, Option.isSome_eq_false_iff, Option.isNone_iff_eq_none] at h
    simp [visitTs, h, lookup_nil]
theorem C18_ts_unaffectedList (m : Mappings) : ∀ (ts : TSList), mentionsList m ts = false →
    visitTsList m ts = visitTsList [] ts
  | .nil, _ => by simp [visitTsList]
  | .cons t ts, h => by
    simp only [mentionsList, Bool.or_eq_false_iff] at h
    simp [visitTsList, C18_ts_unaffected m t h.1, C18_ts_unaffectedList m ts h.2]
end

mutual
/-- **Zod schema builder**: a mapped name is rendered as the schema of its target and never as
    `<Name>Schema`; unmapped structures are untouched -/
theorem C18_zod_unaffected (m : Mappings) (v : Option Validator) : ∀ (t : TS) (s k : Bool), mentions m t = false →
    renderType m v t s k = renderType [] v t s k
  | .prim p, s, k, _ => by simp [renderType]
  | .array t, s, k, h => by simp only [mentions] at h; simp [renderType, C18_zod_unaffected m v t true false h]
  | .set t, s, k, h => by simp only [mentions] at h; simp [renderType, C18_zod_unaffected m v t true false h]
  | .map a b, s, k, h => by
    simp only [mentions, Bool.or_eq_false_iff] at h
    simp [renderType, C18_zod_unaffected m v a true true h.1, C18_zod_unaffected m v b true false h.2]
  | .tuple ts, s, k, h => by
    cases ts with
    | nil => simp [renderType]
    | cons t rest =>
      simp only [mentions, mentionsList, Bool.or_eq_false_iff] at h
      simp [renderType, C18_zod_unaffected m v t true false h.1, C18_zod_unaffectedList m v rest h.2]
  | .optional t, s, k, h => by simp only [mentions] at h; simp [renderType, C18_zod_unaffected m v t false k h]
  | .result t, s, k, h => by simp only [mentions] at h; simp [renderType, C18_zod_unaffected m v t true false h]
  | .custom n, s, k, h => by
    simp only [mentions, Option.isSome_eq_false_iff, Option.isNone_iff_eq_none] at h
    simp [renderType, zodCustom, h, lookup_nil]
theorem C18_zod_unaffectedList (m : Mappings) (v : Option Validator) : ∀ (ts : TSList), mentionsList m ts = false →
    renderTypeList m v ts = renderTypeList [] v ts
  | .nil, _ => by simp [renderTypeList]
  | .cons t ts, h => by
    simp only [mentionsList, Bool.or_eq_false_iff] at h
    simp [renderTypeList, C18_zod_unaffected m v t true false h.1, C18_zod_unaffectedList m v ts h.2]
end

/-- a mapped name is never emitted as a schema reference: its rendering is the schema of the target -/
theorem C18_zod_mapped (m : Mappings) (v : Option Validator) (n tgt : Str) (s k : Bool) (h : lookup m n = some tgt) :
    renderType m v (.custom n) s k = zodMapped tgt := by
  simp [renderType, zodCustom, h]

/-- a generic key such as `DateTime<Utc>` survives the resolver as one custom name, so the table applies -/
theorem C18_generic_key :
    parseTS 30 cl!"Option<DateTime<Utc>>" = .optional (.custom cl!"DateTime<Utc>") ∧
    visitTs [(cl!"DateTime<Utc>", cl!"string")] (parseTS 30 cl!"Vec<DateTime<Utc>>") = cl!"string[]" ∧
    buildSchema [(cl!"Uuid", cl!"string")] (parseTS 30 cl!"HashMap<Uuid, Vec<Uuid>>") none
      = cl!"z.record(z.string(), z.array(z.string()))" := by
  decide +kernel

end TG.C18
