import Typegen.Zod
/-! # C10 — Zod schemas describe the same structure as the plain TypeScript declarations

`Z.tsShape t` / `Z.zodShape t`: the structure described by the plain rendering (`visit_type`) and by the
schema builder (`render_type`) of one `TypeStructure`.  `tsShape` is tied to the C05 denotation
(`shapeOfTs (tsOf [] t) = tsShape t`), the texts are tied to the shapes at run time by the two parsers
(`parseTsTy`, `parseZod`) applied to the real output. -/
namespace TG.C10
open L V T Z

/-! ## the two renderers make the same structural choice everywhere except `Set` and `Result` -/
mutual
theorem shapes_agree : ∀ t : TS, noSetNoResult t = true → zodShape t = tsShape t
  | .prim _, _ => rfl
  | .custom _, _ => rfl
  | .array t, h => by simp only [zodShape, tsShape, shapes_agree t (by simpa [noSetNoResult] using h)]
  | .optional t, h => by simp only [zodShape, tsShape, shapes_agree t (by simpa [noSetNoResult] using h)]
  | .set _, h => by simp [noSetNoResult] at h
  | .result _, h => by simp [noSetNoResult] at h
  | .map k v, h => by
    have h' : noSetNoResult k = true ∧ noSetNoResult v = true := by simpa [noSetNoResult] using h
    simp only [zodShape, tsShape, shapes_agree k h'.1, shapes_agree v h'.2]
  | .tuple .nil, _ => rfl
  | .tuple (.cons t r), h => by
    have h' : noSetNoResult t = true ∧ noSetNoResults r = true := by simpa [noSetNoResult, noSetNoResults] using h
    simp only [zodShape, tsShape, shapes_agree t h'.1, shapes_agrees r h'.2]
theorem shapes_agrees : ∀ ts : TSList, noSetNoResults ts = true → zodShapes ts = tsShapes ts
  | .nil, _ => rfl
  | .cons t r, h => by
    have h' : noSetNoResult t = true ∧ noSetNoResults r = true := by simpa [noSetNoResults] using h
    simp only [zodShapes, tsShapes, shapes_agree t h'.1, shapes_agrees r h'.2]
end

/-- **C10 (partial), per key**: for every type structure without `HashSet`/`BTreeSet` and without `Result`
    the schema and the declaration describe the same shape — arrays for sequences, records for maps, tuples,
    references for project types, `Option` omittable — at any nesting depth. -/
theorem C10_shapes_agree_partial (t : TS) (h : noSetNoResult t = true) : zodShape t = tsShape t :=
  shapes_agree t h

/-! ## acceptance of JSON values -/
inductive JV where
  | null | bool (b : Bool) | num (n : Int) | str (s : Str)
  | arr (vs : List JV) | obj (kvs : List (Str × JV))

/-- `Acc env s v`: the JSON value `v` has shape `s` (`env` decides references to project types).
    There is no rule for `Shape.set`: a JSON value is never a JavaScript `Set`. -/
inductive Acc (env : Str → JV → Prop) : Shape → JV → Prop where
  | str (s) : Acc env .str (.str s)
  | num (n) : Acc env .num (.num n)
  | bool (b) : Acc env .bool (.bool b)
  | void : Acc env .void .null
  | unknown (v) : Acc env .unknown v
  | arr {s vs} : (∀ v ∈ vs, Acc env s v) → Acc env (.arr s) (.arr vs)
  | record {k s kvs} : (∀ kv ∈ kvs, Acc env s kv.2) → Acc env (.record k s) (.obj kvs)
  | tupNil : Acc env (.tup .nil) (.arr [])
  | tupCons {s ss v vs} : Acc env s v → Acc env (.tup ss) (.arr vs) → Acc env (.tup (.cons s ss)) (.arr (v :: vs))
  | omitNull {s} : Acc env (.omittable s) .null
  | omitSome {s v} : Acc env s v → Acc env (.omittable s) v
  | ref {n v} : env n v → Acc env (.ref n) v
  | altHead {s ss v} : Acc env s v → Acc env (.alt (.cons s ss)) v
  | altTail {s ss v} : Acc env (.alt ss) v → Acc env (.alt (.cons s ss)) v
  | errObj {v} : Acc env .errObj (.obj [(cl!"error", .str v)])

theorem acc_mkOmit {env s v} : Acc env (mkOmit s) v ↔ (v = .null ∨ Acc env s v) := by
  cases s <;> simp only [mkOmit]
  all_goals first
    | (constructor
       · intro h; cases h with
         | omitNull => exact .inl rfl
         | omitSome h => exact .inr h
       · intro h; cases h with
         | inl h => subst h; exact .omitNull
         | inr h => exact .omitSome h)
    | skip
  -- s itself omittable: idempotent
  constructor
  · intro h; exact .inr h
  · intro h; cases h with
    | inl h => subst h; exact .omitNull
    | inr h => exact h

mutual
/-- every value of the declared type is accepted by the schema, `Result` included, when no set occurs -/
theorem accepts : ∀ (env) (t : TS), noSet t = true → ∀ v, Acc env (tsShape t) v → Acc env (zodShape t) v
  | _, .prim _, _, _, h => h
  | _, .custom _, _, _, h => h
  | env, .array t, hn, v, h => by
    simp only [tsShape, zodShape] at h ⊢
    cases h with
    | arr hv => exact .arr fun x hx => accepts env t (by simpa [noSet] using hn) x (hv x hx)
  | _, .set _, hn, _, _ => by simp [noSet] at hn
  | env, .map k val, hn, v, h => by
    simp only [tsShape, zodShape] at h ⊢
    have hn' : noSet k = true ∧ noSet val = true := by simpa [noSet] using hn
    cases h with
    | record hv => exact .record fun x hx => accepts env val hn'.2 _ (hv x hx)
  | _, .tuple .nil, _, _, h => h
  | env, .tuple (.cons t r), hn, v, h => by
    have hn' : noSet t = true ∧ noSets r = true := by simpa [noSet, noSets] using hn
    simp only [tsShape, zodShape] at h ⊢
    cases h with
    | tupCons h1 h2 => exact .tupCons (accepts env t hn'.1 _ h1) (acceptsTup env r hn'.2 _ h2)
  | env, .optional t, hn, v, h => by
    simp only [tsShape, zodShape] at h ⊢
    rw [acc_mkOmit] at h ⊢
    cases h with
    | inl h => exact .inl h
    | inr h => exact .inr (accepts env t (by simpa [noSet] using hn) v h)
  | env, .result t, hn, v, h => by
    simp only [tsShape, zodShape] at h ⊢
    exact .altHead (accepts env t (by simpa [noSet] using hn) v h)
theorem acceptsTup : ∀ (env) (ts : TSList), noSets ts = true → ∀ v, Acc env (.tup (tsShapes ts)) v → Acc env (.tup (zodShapes ts)) v
  | _, .nil, _, _, h => h
  | env, .cons t r, hn, v, h => by
    have hn' : noSet t = true ∧ noSets r = true := by simpa [noSets] using hn
    simp only [tsShapes, zodShapes] at h ⊢
    cases h with
    | tupCons h1 h2 => exact .tupCons (accepts env t hn'.1 _ h1) (acceptsTup env r hn'.2 _ h2)
end

/-- **C10, consequence clause (partial: no sets)**: a JSON value of the declared TypeScript type is never
    rejected by the schema for structural reasons — for every type structure without `HashSet`/`BTreeSet`,
    `Result` included (the union's first alternative accepts it). -/
theorem C10_never_rejected_partial (env : Str → JV → Prop) (t : TS) (h : noSet t = true) (v : JV)
    (hv : Acc env (tsShape t) v) : Acc env (zodShape t) v :=
  accepts env t h v hv

/-- **K10a** (the full statement is false on sets): the schema of a `HashSet<T>`/`BTreeSet<T>` (`z.set`) accepts
    *no* JSON value, while the declaration (`T[]`) accepts every array of `T`s. -/
theorem K10a_set_rejects_everything (env : Str → JV → Prop) (t : TS) (v : JV) : ¬ Acc env (zodShape (.set t)) v := by
  intro h; simp only [zodShape] at h; cases h

theorem K10a_set_witness (env : Str → JV → Prop) :
    Acc env (tsShape (.set (.prim cl!"string"))) (.arr [.str cl!"a"]) ∧
    ¬ Acc env (zodShape (.set (.prim cl!"string"))) (.arr [.str cl!"a"]) := by
  refine ⟨?_, K10a_set_rejects_everything env _ _⟩
  have : tsShape (.set (.prim cl!"string")) = .arr .str := by decide +kernel
  rw [this]
  exact .arr fun v hv => by
    have : v = .str cl!"a" := by simpa using hv
    subst this; exact .str _

/-- **K10b**: the shape of a `Result<T, E>` differs (a union with an error object on the schema side, `T` on the
    declaration side) — every value of `T` is still accepted (`C10_never_rejected_partial`). -/
theorem K10b_result_witness :
    zodShape (.result (.prim cl!"string")) ≠ tsShape (.result (.prim cl!"string")) := by decide +kernel

/-! ## the declaration side is the C05 denotation -/
/-! ## the declaration side is the C05 denotation -/
def nulls : Nat → TsTyList
  | 0 => .nil
  | k+1 => .cons tNull (nulls k)

theorem shape_tNull : shapeOfTs tNull = .ref cl!"null" := by decide +kernel

theorem members_nulls (k : Nat) : unionMembers (nulls k) = List.replicate k (.ref cl!"null") := by
  induction k with
  | zero => rfl
  | succ k ih => simp only [nulls, unionMembers, ih, shape_tNull, List.replicate_succ]

theorem append_nulls (k : Nat) : (nulls k).append (.cons tNull .nil) = nulls (k + 1) := by
  induction k with
  | zero => rfl
  | succ k ih => simp only [nulls, TsTyList.append, ih]

theorem mkOmit_idem (s : Shape) : mkOmit (mkOmit s) = mkOmit s := by cases s <;> rfl
theorem mkOmit_ne_ref (s : Shape) (n : Str) : mkOmit s ≠ .ref n := by cases s <;> simp [mkOmit]

theorem shape_union_nulls (y : TsTy) (k : Nat) (h : shapeOfTs y ≠ .ref cl!"null") :
    shapeOfTs (.union (.cons y (nulls (k + 1)))) = mkOmit (shapeOfTs y) := by
  simp only [shapeOfTs, unionMembers, members_nulls]
  simp [List.filter_cons, h, List.filter_replicate]

/-- the shape of the image of `tsOf`: a non-union whose shape is not `null`, or `y | null | … | null` -/
def Good (x : TsTy) : Prop :=
  (isUnion x = false ∧ shapeOfTs x ≠ .ref cl!"null") ∨
  (∃ y k, x = .union (.cons y (nulls (k + 1))) ∧ isUnion y = false ∧ shapeOfTs y ≠ .ref cl!"null")

theorem mkOpt_good (x : TsTy) (h : Good x) : Good (mkOpt x) ∧ shapeOfTs (mkOpt x) = mkOmit (shapeOfTs x) := by
  rcases h with ⟨hu, hs⟩ | ⟨y, k, rfl, hu, hs⟩
  · have e : mkOpt x = .union (.cons x (nulls 1)) := by
      cases x <;> first | rfl | (simp [isUnion] at hu)
    rw [e]
    exact ⟨.inr ⟨x, 0, rfl, hu, hs⟩, shape_union_nulls x 0 hs⟩
  · have e : mkOpt (.union (.cons y (nulls (k + 1)))) = .union (.cons y (nulls (k + 2))) := by
      simp only [mkOpt, TsTyList.append, append_nulls]
    rw [e, shape_union_nulls y (k + 1) hs, shape_union_nulls y k hs, mkOmit_idem]
    exact ⟨.inr ⟨y, k + 1, rfl, hu, hs⟩, rfl⟩

theorem good_shape_ne_null (x : TsTy) (h : Good x) : shapeOfTs x ≠ .ref cl!"null" := by
  rcases h with ⟨_, hs⟩ | ⟨y, k, rfl, _, hs⟩
  · exact hs
  · rw [shape_union_nulls y k hs]; exact mkOmit_ne_ref _ _

theorem prim_ne_null (p : Str) (h : (primShape p).isSome = true) (d : Shape) : (primShape p).getD d ≠ .ref cl!"null" := by
  revert h; unfold primShape; repeat' split
  all_goals simp

mutual
theorem denote_shape : ∀ t : TS, namesOk t = true → Good (tsOf [] t) ∧ shapeOfTs (tsOf [] t) = tsShape t
  | .prim p, h => by
    have hp : (primShape p).isSome = true := by simpa [namesOk] using h
    refine ⟨.inl ⟨rfl, ?_⟩, ?_⟩
    · simp only [tsOf, shapeOfTs]; exact prim_ne_null p hp _
    · simp only [tsOf, shapeOfTs, tsShape]
      cases hq : primShape p with
      | none => simp [hq] at hp
      | some s => rfl
  | .custom n, h => by
    have hn : (primShape n).isNone = true ∧ n ≠ cl!"null" := by simpa [namesOk] using h
    have hq : primShape n = none := by simpa using hn.1
    refine ⟨.inl ⟨rfl, ?_⟩, ?_⟩
    · simp only [tsOf, lookup, List.find?, shapeOfTs, hq, Option.getD]; simpa using hn.2
    · simp only [tsOf, lookup, List.find?, shapeOfTs, hq, Option.getD, tsShape]
  | .array t, h => by
    have ih := denote_shape t (by simpa [namesOk] using h)
    exact ⟨.inl ⟨rfl, by simp [tsOf, shapeOfTs]⟩, by simp only [tsOf, shapeOfTs, tsShape, ih.2]⟩
  | .set t, h => by
    have ih := denote_shape t (by simpa [namesOk] using h)
    exact ⟨.inl ⟨rfl, by simp [tsOf, shapeOfTs]⟩, by simp only [tsOf, shapeOfTs, tsShape, ih.2]⟩
  | .map k v, h => by
    have h' : namesOk k = true ∧ namesOk v = true := by simpa [namesOk] using h
    have ik := denote_shape k h'.1
    have iv := denote_shape v h'.2
    refine ⟨.inl ⟨rfl, by simp [tsOf, shapeOfTs]⟩, ?_⟩
    simp [tsOf, shapeOfTs, tsShape, ik.2, iv.2]
  | .tuple .nil, _ => ⟨.inl ⟨rfl, by decide +kernel⟩, by decide +kernel⟩
  | .tuple (.cons t r), h => by
    have h' : namesOk t = true ∧ namesOkL r = true := by simpa [namesOk, namesOkL] using h
    have it := denote_shape t h'.1
    have ir := denote_shapes r h'.2
    exact ⟨.inl ⟨rfl, by simp [tsOf, shapeOfTs]⟩, by simp only [tsOf, shapeOfTs, shapesOfTs, tsShape, it.2, ir]⟩
  | .optional t, h => by
    have ih := denote_shape t (by simpa [namesOk] using h)
    have g := mkOpt_good _ ih.1
    exact ⟨g.1, by simp only [tsOf, tsShape, g.2, ih.2]⟩
  | .result t, h => by
    have ih := denote_shape t (by simpa [namesOk] using h)
    exact ⟨ih.1, by simp only [tsOf, tsShape, ih.2]⟩
theorem denote_shapes : ∀ ts : TSList, namesOkL ts = true → shapesOfTs (tsOfList [] ts) = tsShapes ts
  | .nil, _ => rfl
  | .cons t r, h => by
    have h' : namesOk t = true ∧ namesOkL r = true := by simpa [namesOkL] using h
    simp only [tsOfList, shapesOfTs, tsShapes, (denote_shape t h'.1).2, denote_shapes r h'.2]
end

/-- the shape read off the C05 denotation (`tsOf`, whose canonical print *is* the emitted text by
    `C05_L2_render`) is `tsShape` -/
theorem C10_declaration_is_denotation (t : TS) (h : namesOk t = true) : shapeOfTs (tsOf [] t) = tsShape t :=
  (denote_shape t h).2

/-- **C10 (partial)**: schema shape = shape of the denotation of the declaration -/
theorem C10_partial (t : TS) (hn : namesOk t = true) (h : noSetNoResult t = true) :
    zodShape t = shapeOfTs (tsOf [] t) := by
  rw [C10_declaration_is_denotation t hn, shapes_agree t h]

/-! ## the schema side is the text of `render_type` -/
mutual
/-- canonical text of a schema expression -/
def printZ : ZE → Str
  | .call path _ args => joinWith ['.'] path ++ ['('] ++ joinWith sComma (printZs args) ++ [')']
  | .ref n => n
  | .arr es => ['['] ++ joinWith sComma (printZs es) ++ [']']
  | .objErr => cl!"{ error: z.string() }"
  | .other => []
  | .method recv m args => printZ recv ++ ['.'] ++ m ++ ['('] ++ joinWith sComma (printZs args) ++ [')']
def printZs : ZEs → List Str
  | .nil => []
  | .cons e es => printZ e :: printZs es
end

def zPrim (p : Str) (isKey : Bool) : ZE :=
  if p = cl!"string" then .call [cl!"z", cl!"string"] none .nil
  else if p = cl!"number" then (if isKey then .call [cl!"z", cl!"number"] none .nil else .call [cl!"z", cl!"coerce", cl!"number"] none .nil)
  else if p = cl!"boolean" then .call [cl!"z", cl!"coerce", cl!"boolean"] none .nil
  else .call [cl!"z", cl!"void"] none .nil

mutual
/-- the expression `ZodSchemaBuilder::render_type` builds (no validator, no mapping table) -/
def zodAst : TS → Bool → ZE
  | .optional t, k => .method (zodAst t k) cl!"optional" .nil
  | .prim p, k => zPrim p k
  | .array t, _ => .call [cl!"z", cl!"array"] none (.cons (zodAst t false) .nil)
  | .map k v, _ => .call [cl!"z", cl!"record"] none (.cons (zodAst k true) (.cons (zodAst v false) .nil))
  | .set t, _ => .call [cl!"z", cl!"set"] none (.cons (zodAst t false) .nil)
  | .tuple ts, _ =>
    match ts with
    | .nil => .call [cl!"z", cl!"void"] none .nil
    | .cons t r => .call [cl!"z", cl!"tuple"] none (.cons (.arr (.cons (zodAst t false) (zodAsts r))) .nil)
  | .result t, _ => .call [cl!"z", cl!"union"] none
      (.cons (.arr (.cons (zodAst t false) (.cons (.call [cl!"z", cl!"object"] none (.cons .objErr .nil)) .nil))) .nil)
  | .custom n, _ => .ref (n ++ cl!"Schema")
def zodAsts : TSList → ZEs
  | .nil => .nil
  | .cons t ts => .cons (zodAst t false) (zodAsts ts)
end

theorem renderPrimitive_none (p : Str) (skip k : Bool) (h : (primShape p).isSome = true) (hu : p ≠ cl!"unknown") :
    renderPrimitive p none skip k = printZ (zPrim p k) := by
  unfold primShape at h
  by_cases h1 : p = cl!"string"
  · subst h1; cases skip <;> cases k <;> decide +kernel
  · by_cases h2 : p = cl!"number"
    · subst h2; cases skip <;> cases k <;> decide +kernel
    · by_cases h3 : p = cl!"boolean"
      · subst h3; cases skip <;> cases k <;> decide +kernel
      · by_cases h4 : p = cl!"void"
        · subst h4; cases skip <;> cases k <;> decide +kernel
        · simp [h1, h2, h3, h4, hu] at h

theorem applyLength_none (s : Str) (skip : Bool) : applyLength s none skip = s := by
  unfold applyLength; cases skip <;> simp

mutual
def noUnknown : TS → Bool
  | .prim p => p ≠ cl!"unknown"
  | .custom _ => true
  | .array t | .set t | .optional t | .result t => noUnknown t
  | .map k v => noUnknown k && noUnknown v
  | .tuple ts => noUnknownL ts
def noUnknownL : TSList → Bool
  | .nil => true
  | .cons t ts => noUnknown t && noUnknownL ts
end

theorem lookup_nil (n : Str) : lookup [] n = none := rfl

mutual
theorem render_eq_print : ∀ (t : TS) (skip k : Bool), namesOk t = true → noUnknown t = true →
    renderType [] none t skip k = printZ (zodAst t k)
  | .optional t, skip, k, h, hu => by
    simp only [renderType, zodAst, printZ, printZs, joinWith]
    rw [render_eq_print t false k (by simpa [namesOk] using h) (by simpa [noUnknown] using hu)]
    simp
  | .prim p, skip, k, h, hu => by
    simp only [renderType, zodAst]
    exact renderPrimitive_none p skip k (by simpa [namesOk] using h) (by simpa [noUnknown] using hu)
  | .array t, skip, k, h, hu => by
    simp only [renderType, zodAst, printZ, printZs, joinWith, applyLength_none]
    rw [render_eq_print t true false (by simpa [namesOk] using h) (by simpa [noUnknown] using hu)]
    simp
  | .set t, skip, k, h, hu => by
    simp only [renderType, zodAst, printZ, printZs, joinWith]
    rw [render_eq_print t true false (by simpa [namesOk] using h) (by simpa [noUnknown] using hu)]
    simp
  | .map a b, skip, k, h, hu => by
    have h' : namesOk a = true ∧ namesOk b = true := by simpa [namesOk] using h
    have hu' : noUnknown a = true ∧ noUnknown b = true := by simpa [noUnknown] using hu
    simp only [renderType, zodAst, printZ, printZs, joinWith]
    rw [render_eq_print a true true h'.1 hu'.1, render_eq_print b true false h'.2 hu'.2]
    simp [sComma]
  | .tuple .nil, _, _, _, _ => by simp only [renderType, zodAst, printZ, printZs, joinWith]; decide +kernel
  | .tuple (.cons t r), skip, k, h, hu => by
    have h' : namesOk t = true ∧ namesOkL r = true := by simpa [namesOk, namesOkL] using h
    have hu' : noUnknown t = true ∧ noUnknownL r = true := by simpa [noUnknown, noUnknownL] using hu
    simp only [renderType, zodAst, printZ, printZs]
    rw [render_eq_print t true false h'.1 hu'.1, renders_eq_prints r h'.2 hu'.2]
    simp [joinWith]
  | .result t, skip, k, h, hu => by
    simp only [renderType, zodAst, printZ, printZs, joinWith]
    rw [render_eq_print t true false (by simpa [namesOk] using h) (by simpa [noUnknown] using hu)]
    simp [sComma]
  | .custom n, _, _, _, _ => by
    simp only [renderType, zodCustom, lookup_nil, zodAst, printZ]
theorem renders_eq_prints : ∀ (ts : TSList), namesOkL ts = true → noUnknownL ts = true →
    renderTypeList [] none ts = printZs (zodAsts ts)
  | .nil, _, _ => rfl
  | .cons t r, h, hu => by
    have h' : namesOk t = true ∧ namesOkL r = true := by simpa [namesOkL] using h
    have hu' : noUnknown t = true ∧ noUnknownL r = true := by simpa [noUnknownL] using hu
    simp only [renderTypeList, zodAsts, printZs, render_eq_print t true false h'.1 hu'.1, renders_eq_prints r h'.2 hu'.2]
end

theorem stripSchema_append (n : Str) : stripSchema (n ++ cl!"Schema") = n := by
  have h : A.startsWith (n ++ cl!"Schema").reverse cl!"amehcS" = true := by
    rw [List.reverse_append]
    exact A.startsWith_append _ _
  unfold stripSchema
  rw [if_pos h]
  simp

theorem shape_zPrim (p : Str) (k : Bool) (h : (primShape p).isSome = true) (hu : p ≠ cl!"unknown") :
    shapeOfZ (zPrim p k) = (primShape p).getD .unknown := by
  unfold primShape at h
  by_cases h1 : p = cl!"string"
  · subst h1; cases k <;> decide +kernel
  · by_cases h2 : p = cl!"number"
    · subst h2; cases k <;> decide +kernel
    · by_cases h3 : p = cl!"boolean"
      · subst h3; cases k <;> decide +kernel
      · by_cases h4 : p = cl!"void"
        · subst h4; cases k <;> decide +kernel
        · simp [h1, h2, h3, h4, hu] at h

theorem sh_optional (e : ZE) : shapeOfZ (.method e cl!"optional" .nil) = mkOmit (shapeOfZ e) := by
  rw [shapeOfZ]; simp
theorem sh_array (e : ZE) : shapeOfZ (.call [cl!"z", cl!"array"] none (.cons e .nil)) = .arr (shapeOfZ e) := by
  rw [shapeOfZ]; simp
theorem sh_set (e : ZE) : shapeOfZ (.call [cl!"z", cl!"set"] none (.cons e .nil)) = .set (shapeOfZ e) := by
  rw [shapeOfZ]; simp
theorem sh_record (a b : ZE) : shapeOfZ (.call [cl!"z", cl!"record"] none (.cons a (.cons b .nil))) = .record (shapeOfZ a) (shapeOfZ b) := by
  rw [shapeOfZ]; simp
theorem sh_tuple (es : ZEs) : shapeOfZ (.call [cl!"z", cl!"tuple"] none (.cons (.arr es) .nil)) = .tup (shapesOfZ es) := by
  rw [shapeOfZ]; simp
theorem sh_union (es : ZEs) : shapeOfZ (.call [cl!"z", cl!"union"] none (.cons (.arr es) .nil)) = .alt (shapesOfZ es) := by
  rw [shapeOfZ]; simp
theorem sh_errobj : shapeOfZ (.call [cl!"z", cl!"object"] none (.cons .objErr .nil)) = .errObj := by decide +kernel
theorem sh_void : shapeOfZ (.call [cl!"z", cl!"void"] none .nil) = .void := by decide +kernel
theorem sh_ref (n : Str) : shapeOfZ (.ref n) = .ref (stripSchema n) := by rw [shapeOfZ]

mutual
theorem shape_zodAst : ∀ (t : TS) (k : Bool), namesOk t = true → noUnknown t = true → shapeOfZ (zodAst t k) = zodShape t
  | .optional t, k, h, hu => by
    simp only [zodAst, zodShape, sh_optional, shape_zodAst t k (by simpa [namesOk] using h) (by simpa [noUnknown] using hu)]
  | .prim p, k, h, hu => by
    simp only [zodAst, zodShape]
    exact shape_zPrim p k (by simpa [namesOk] using h) (by simpa [noUnknown] using hu)
  | .array t, _, h, hu => by
    simp only [zodAst, zodShape, sh_array, shape_zodAst t false (by simpa [namesOk] using h) (by simpa [noUnknown] using hu)]
  | .set t, _, h, hu => by
    simp only [zodAst, zodShape, sh_set, shape_zodAst t false (by simpa [namesOk] using h) (by simpa [noUnknown] using hu)]
  | .map a b, _, h, hu => by
    have h' : namesOk a = true ∧ namesOk b = true := by simpa [namesOk] using h
    have hu' : noUnknown a = true ∧ noUnknown b = true := by simpa [noUnknown] using hu
    simp only [zodAst, zodShape, sh_record, shape_zodAst a true h'.1 hu'.1, shape_zodAst b false h'.2 hu'.2]
  | .tuple .nil, _, _, _ => by simp only [zodAst, zodShape, sh_void]
  | .tuple (.cons t r), _, h, hu => by
    have h' : namesOk t = true ∧ namesOkL r = true := by simpa [namesOk, namesOkL] using h
    have hu' : noUnknown t = true ∧ noUnknownL r = true := by simpa [noUnknown, noUnknownL] using hu
    simp only [zodAst, zodShape, sh_tuple, shapesOfZ, shape_zodAst t false h'.1 hu'.1, shape_zodAsts r h'.2 hu'.2]
  | .result t, _, h, hu => by
    simp only [zodAst, zodShape, sh_union, shapesOfZ, sh_errobj,
      shape_zodAst t false (by simpa [namesOk] using h) (by simpa [noUnknown] using hu)]
  | .custom n, _, _, _ => by
    simp only [zodAst, zodShape, sh_ref, stripSchema_append]
theorem shape_zodAsts : ∀ (ts : TSList), namesOkL ts = true → noUnknownL ts = true → shapesOfZ (zodAsts ts) = zodShapes ts
  | .nil, _, _ => rfl
  | .cons t r, h, hu => by
    have h' : namesOk t = true ∧ namesOkL r = true := by simpa [namesOkL] using h
    have hu' : noUnknown t = true ∧ noUnknownL r = true := by simpa [noUnknownL] using hu
    simp only [zodAsts, shapesOfZ, zodShapes, shape_zodAst t false h'.1 hu'.1, shape_zodAsts r h'.2 hu'.2]
end

/-- **C10, schema side**: the text `render_type` emits (no validator, no mapping table) is the canonical print of an
    expression whose shape is `zodShape` — the analogue of `C05_L2_render` + `C10_declaration_is_denotation` -/
theorem C10_schema_is_render (t : TS) (skip k : Bool) (h : namesOk t = true) (hu : noUnknown t = true) :
    renderType [] none t skip k = printZ (zodAst t k) ∧ shapeOfZ (zodAst t k) = zodShape t :=
  ⟨render_eq_print t skip k h hu, shape_zodAst t k h hu⟩

/-- **C10 (partial), both sides tied to the rendered texts**: for every type structure with well-formed names, no set
    and no Result, the parameter / field schema text is the print of an expression, the declaration text is the print
    of a type (C05), and the two have the same shape. -/
theorem C10_texts_same_shape_partial (t : TS) (skip k : Bool) (h : namesOk t = true) (hu : noUnknown t = true)
    (hs : noSetNoResult t = true) (hp : precSafe t = true) :
    renderType [] none t skip k = printZ (zodAst t k) ∧ visitTs [] t = printSpec (tsOf [] t) ∧
    shapeOfZ (zodAst t k) = shapeOfTs (tsOf [] t) :=
  ⟨render_eq_print t skip k h hu, visit_eq_print [] t hp,
   by rw [shape_zodAst t k h hu, C10_declaration_is_denotation t h, shapes_agree t hs]⟩


/-! non-vacuity: a nested type meeting the hypotheses, with its two texts parsed to the same shape -/
def exT : TS := .map (.prim cl!"string") (.array (.tuple (.cons (.custom cl!"User") (.cons (.optional (.prim cl!"number")) .nil))))
example : noSetNoResult exT = true ∧ noSet exT = true ∧ namesOk exT = true ∧ noUnknown exT = true ∧ precSafe exT = true := by decide +kernel
theorem C10_example_texts :
    (parseZod (buildSchema [] exT none)).map shapeOfZ = some (zodShape exT) ∧
    (parseTsTy (visitTs [] exT)).map shapeOfTs = some (tsShape exT) ∧
    (parseZod (buildParamSchema [] exT)).map shapeOfZ = some (tsShape exT) := by decide +kernel

end TG.C10
