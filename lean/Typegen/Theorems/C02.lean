import Typegen.Theorems.C07
/-! # C02 — generated modules are closed: every name resolves, none is declared twice

Proved here over the generation model: the index re-exports exactly the files written by the same run; the
struct declarations carry pairwise distinct names; a command's wrapper refers to `types.<T>Params` exactly
when that declaration is emitted; in Zod mode every struct schema comes with its inferred alias (enums
included, fix af54852).  Closedness of the *type references* follows from C07's closure and is checked on
the real files by the run-time oracles (`c02_types_closed`, `c02_types_refs_resolve`). -/
namespace TG.C02
open Pj An Gn

/-- index.ts re-exports exactly the files written before it by the same run, in write order -/
theorem C02_index_reexports (cfg : Config) (a : Analysis) :
    (generate cfg a).index.map (·.name) =
      [cl!"types", cl!"commands"] ++ (if a.events.isEmpty then [] else [cl!"events"]) := by
  simp only [generate, indexFile, writtenBeforeIndex, List.map_map]
  cases h : a.events.isEmpty <;> simp <;> decide +kernel

/-- the events module exists iff it is re-exported -/
theorem C02_events_written_iff_reexported (cfg : Config) (a : Analysis) :
    (generate cfg a).events.isSome = ((generate cfg a).index.map (·.name)).contains cl!"events" := by
  rw [C02_index_reexports]
  simp only [generate]
  cases h : a.events.isEmpty <;> simp <;> decide +kernel

theorem findStruct_name {all : List SInfo} {n : Str} {s : SInfo} (h : findStruct all n = some s) : s.name = n := by
  unfold findStruct at h
  have := List.find?_some h
  simpa using this

theorem insertBy_perm {α : Type} (key : α → Str) (x : α) : ∀ (l : List α), (An.insertBy key x l).Perm (x :: l)
  | [] => List.Perm.refl _
  | y :: ys => by
    unfold An.insertBy
    split
    · exact List.Perm.refl _
    · exact ((insertBy_perm key x ys).cons y).trans (List.Perm.swap x y ys)

theorem sortBy_perm {α : Type} (key : α → Str) : ∀ (l : List α), (An.sortBy key l).Perm l
  | [] => List.Perm.refl _
  | x :: xs => (insertBy_perm key x _).trans ((sortBy_perm key xs).cons x)

theorem filterMap_find_names (all : List SInfo) : ∀ (ns : List Str), ns.Nodup →
    ((ns.filterMap (findStruct all)).map (·.name)).Nodup
  | [], _ => by simp
  | n :: rest, h => by
    obtain ⟨hn, hr⟩ := List.nodup_cons.mp h
    simp only [List.filterMap_cons]
    cases hf : findStruct all n with
    | none => exact filterMap_find_names all rest hr
    | some s =>
      simp only [List.map_cons]
      apply List.nodup_cons.mpr
      refine ⟨?_, filterMap_find_names all rest hr⟩
      intro hmem
      obtain ⟨t, ht, htn⟩ := List.mem_map.mp hmem
      obtain ⟨m, hm, hfm⟩ := List.mem_filterMap.mp ht
      have e1 := findStruct_name hfm
      have e2 := findStruct_name hf
      have : m = n := by rw [← e1, htn, e2]
      exact hn (this ▸ hm)

/-- no struct or enum is declared twice in plain mode: the declared names are pairwise distinct -/
theorem C02_struct_names_distinct (a : Analysis) : ((structsSortedByName a).map (·.name)).Nodup := by
  unfold structsSortedByName
  have hp := (sortBy_perm (fun (s : SInfo) => s.name) ((usedNames a).filterMap (findStruct a.structs))).map (·.name)
  exact (List.Perm.nodup_iff hp).mpr (filterMap_find_names a.structs _ (TG.C07.C07_declared_once a))

/-- the declared names are the used names: each one declared, none invented -/
theorem C02_declared_names (a : Analysis) (n : Str) :
    n ∈ (structsSortedByName a).map (·.name) ↔ n ∈ usedNames a := by
  unfold structsSortedByName
  rw [((sortBy_perm (fun (s : SInfo) => s.name) _).map (·.name)).mem_iff]
  constructor
  · intro h
    obtain ⟨t, ht, htn⟩ := List.mem_map.mp h
    obtain ⟨m, hm, hfm⟩ := List.mem_filterMap.mp ht
    rw [← htn, findStruct_name hfm]; exact hm
  · intro h
    have hd := TG.C07.C07_declared_are_serde_types a n h
    obtain ⟨s, hs⟩ := Option.isSome_iff_exists.mp hd
    exact List.mem_map.mpr ⟨s, List.mem_filterMap.mpr ⟨n, h, hs⟩, findStruct_name hs⟩

/-- a wrapper takes `types.<T>Params` exactly when the types module declares `<T>Params` (plain mode) -/
theorem C02_params_decl_iff (cfg : Config) (c : CInfo) :
    (tsParamsDecl cfg c).isSome = hasParamsDecl c ∧
    ∀ d, tsParamsDecl cfg c = some d → d.name = typeName c ++ cl!"Params" := by
  unfold tsParamsDecl
  cases h : hasParamsDecl c <;> simp

/-- Zod mode: every struct and every enum schema is followed by its inferred type alias of the plain name -/
theorem C02_zod_alias_for_every_schema (cfg : Config) (s : SInfo) :
    (zodStructDecl cfg s).map (·.name) = [s.name ++ cl!"Schema", s.name] := by
  unfold zodStructDecl
  split <;> simp [zodEnumDecl, zodObjectDecl]

end TG.C02
