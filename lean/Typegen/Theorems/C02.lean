import Typegen.Theorems.C07
/-! # C02 — generated modules are closed: every name resolves, none is declared twice

Proved here over the generation model: the index re-exports exactly the files written by the same run; the
struct declarations carry pairwise distinct names; a command's wrapper refers to `types.<T>Params` exactly
when that declaration is emitted; in Zod mode every struct schema comes with its inferred alias (enums
included, fix af54852).  Closedness of the *type references* follows from C07's closure and is checked on
the real files by the run-time oracles (`c02_types_closed`, `c02_types_refs_resolve`). -/
namespace TG.C02
open Pj An Gn

/-- index.ts re-exports exactly the files written before it by the same run, in write order -/
theorem C02_index_reexports (cfg : Config) (a : Analysis) :
    (generate cfg a).index.map (·.name) =
      [cl!"types", cl!"commands"] ++ (if a.events.isEmpty then [] else [cl!"events"]) := by
  simp only [generate, indexFile, writtenBeforeIndex, List.map_map]
  cases h : a.events.isEmpty <;> simp <;> decide +kernel

/-- the events module exists iff it is re-exported -/
theorem C02_events_written_iff_reexported (cfg : Config) (a : Analysis) :
    (generate cfg a).events.isSome = ((generate cfg a).index.map (·.name)).contains cl!"events" := by
  rw [C02_index_reexports]
  simp only [generate]
  cases h : a.events.isEmpty <;> simp <;> decide +kernel

theorem findStruct_name {all : List SInfo} {n : Str} {s : SInfo} (h : findStruct all n = some s) : s.name = n := by
  unfold findStruct at h
  have := List.find?_some h
  simpa using this

theorem insertBy_perm {α : Type} (key : α → Str) (x : α) : ∀ (l : List α), (An.insertBy key x l).Perm (x :: l)
  | [] => List.Perm.refl _
  | y :: ys => by
    unfold An.insertBy
    split
    · exact List.Perm.refl _
    · exact ((insertBy_perm key x ys).cons y).trans (List.Perm.swap x y ys)

theorem sortBy_perm {α : Type} (key : α → Str) : ∀ (l : List α), (An.sortBy key l).Perm l
  | [] => List.Perm.refl _
  | x :: xs => (insertBy_perm key x _).trans ((sortBy_perm key xs).cons x)

theorem filterMap_find_names (all : List SInfo) : ∀ (ns : List Str), ns.Nodup →
    ((ns.filterMap (findStruct all)).map (·.name)).Nodup
  | [], _ => by simp
  | n :: rest, h => by
    obtain ⟨hn, hr⟩ := List.nodup_cons.mp h
    simp only [List.filterMap_cons]
    cases hf : findStruct all n with
    | none => exact filterMap_find_names all rest hr
    | some s =>
      simp only [List.map_cons]
      apply List.nodup_cons.mpr
      refine ⟨?_, filterMap_find_names all rest hr⟩
      intro hmem
      obtain ⟨t, ht, htn⟩ := List.mem_map.mp hmem
      obtain ⟨m, hm, hfm⟩ := List.mem_filterMap.mp ht
      have e1 := findStruct_name hfm
      have e2 := findStruct_name hf
      have : m = n := by rw [← e1, htn, e2]
      exact hn (this ▸ hm)

/-- no struct or enum is declared twice in plain mode: the declared names are pairwise distinct -/
theorem C02_struct_names_distinct (a : Analysis) : ((structsSortedByName a).map (·.name)).Nodup := by
  unfold structsSortedByName
  have hp := (sortBy_perm (fun (s : SInfo) => s.name) ((usedNames a).filterMap (findStruct a.structs))).map (·.name)
  exact (List.Perm.nodup_iff hp).mpr (filterMap_find_names a.structs _ (TG.C07.C07_declared_once a))

/-- the declared names are the used names: each one declared, none invented -/
theorem C02_declared_names (a : Analysis) (n : Str) :
    n ∈ (structsSortedByName a).map (·.name) ↔ n ∈ usedNames a := by
  unfold structsSortedByName
  rw [((sortBy_perm (fun (s : SInfo) => s.name) _).map (·.name)).mem_iff]
  constructor
  · intro h
    obtain ⟨t, ht, htn⟩ := List.mem_map.mp h
    obtain ⟨m, hm, hfm⟩ := List.mem_filterMap.mp ht
    rw [← htn, findStruct_name hfm]; exact hm
  · intro h
    have hd := TG.C07.C07_declared_are_serde_types a n h
    obtain ⟨s, hs⟩ := Option.isSome_iff_exists.mp hd
    exact List.mem_map.mpr ⟨s, List.mem_filterMap.mpr ⟨n, h, hs⟩, findStruct_name hs⟩

/-- a wrapper takes `types.<T>Params` exactly when the types module declares `<T>Params` (plain mode) -/
theorem C02_params_decl_iff (cfg : Config) (c : CInfo) :
    (tsParamsDecl cfg c).isSome = hasParamsDecl c ∧
    ∀ d, tsParamsDecl cfg c = some d → d.name = typeName c ++ cl!"Params" := by
  unfold tsParamsDecl
  cases h : hasParamsDecl c <;> simp

/-- Zod mode: every struct and every enum schema is followed by its inferred type alias of the plain name -/
theorem C02_zod_alias_for_every_schema (cfg : Config) (s : SInfo) :
    (zodStructDecl cfg s).map (·.name) = [s.name ++ cl!"Schema", s.name] := by
  unfold zodStructDecl
  split <;> simp [zodEnumDecl, zodObjectDecl]


/-! ## closedness: every project type referred to is declared (corollaries of the C07 closure theorems) -/
open TG.C07 V L

/-- hypothesis of the statement of C02: every named type that is not mapped is a discovered serde type -/
def AllDefined (cfg : Config) (a : Analysis) : Prop :=
  (∀ n ∈ seeds a, lookup cfg.mappings n = none → (findStruct a.structs n).isSome = true) ∧
  (∀ s ∈ a.structs, ∀ n ∈ refsOfS s, lookup cfg.mappings n = none → (findStruct a.structs n).isSome = true)

theorem mem_refsOf {cfg : Config} {t : TS} {r : Str} (h : r ∈ refsOf cfg t) : r ∈ customs t ∧ lookup cfg.mappings r = none := by
  unfold refsOf at h
  have := List.mem_filter.mp h
  exact ⟨this.1, by simpa using this.2⟩

/-- **C02 (plain mode), parameter declarations are closed**: every project type a `…Params` interface refers to is
    declared in `types.ts` -/
theorem C02_params_refs_declared (cfg : Config) (a : Analysis) (hd : AllDefined cfg a) (c : CInfo) (hc : c ∈ a.commands)
    (d : Decl) (h : tsParamsDecl cfg c = some d) : ∀ r ∈ d.refs, r ∈ usedNames a := by
  intro r hr
  unfold tsParamsDecl at h
  split at h
  · exact absurd h (by simp)
  · simp only [Option.some.injEq] at h
    subst h
    simp only at hr
    have hr' := List.mem_eraseDups.mp hr
    have hseed : r ∈ seeds a ∧ lookup cfg.mappings r = none := by
      rcases List.mem_append.mp hr' with h1 | h1
      · obtain ⟨p, hp, hrp⟩ := List.mem_flatMap.mp h1
        have := mem_refsOf hrp
        refine ⟨?_, this.2⟩
        unfold seeds
        apply List.mem_append_left
        apply List.mem_flatMap.mpr
        exact ⟨c, hc, List.mem_append_left _ (List.mem_append_left _ (List.mem_flatMap.mpr ⟨p, hp, this.1⟩))⟩
      · unfold channelRefs at h1
        obtain ⟨ch, hch, hrc⟩ := List.mem_flatMap.mp h1
        have := mem_refsOf hrc
        refine ⟨?_, this.2⟩
        unfold seeds
        apply List.mem_append_left
        apply List.mem_flatMap.mpr
        exact ⟨c, hc, List.mem_append_right _ (List.mem_flatMap.mpr ⟨ch, hch, this.1⟩)⟩
    exact C07_seeds_declared a r hseed.1 (hd.1 r hseed.1 hseed.2)

/-- return types: every `types.X` a wrapper refers to is declared -/
theorem C02_return_refs_declared (cfg : Config) (a : Analysis) (hd : AllDefined cfg a) (c : CInfo) (hc : c ∈ a.commands) :
    ∀ r ∈ (tsCommandDecl cfg c).refs, r ∈ usedNames a := by
  intro r hr
  have := mem_refsOf (cfg := cfg) hr
  have hseed : r ∈ seeds a := by
    unfold seeds
    apply List.mem_append_left
    apply List.mem_flatMap.mpr
    exact ⟨c, hc, List.mem_append_left _ (List.mem_append_right _ this.1)⟩
  exact C07_seeds_declared a r hseed (hd.1 r hseed this.2)

/-- event payloads -/
theorem C02_event_refs_declared (cfg : Config) (a : Analysis) (hd : AllDefined cfg a) (e : EInfo) (he : e ∈ a.events) :
    ∀ r ∈ (eventDecl cfg e).refs, r ∈ usedNames a := by
  intro r hr
  have := mem_refsOf (cfg := cfg) hr
  have hseed : r ∈ seeds a := by
    unfold seeds
    apply List.mem_append_right
    exact List.mem_flatMap.mpr ⟨e, he, this.1⟩
  exact C07_seeds_declared a r hseed (hd.1 r hseed this.2)

/-- **C02 (plain mode), struct declarations are closed**: every project type a declared interface refers to in a field
    is itself declared -/
theorem C02_struct_refs_declared (cfg : Config) (a : Analysis) (hd : AllDefined cfg a) (s : SInfo)
    (hs : s ∈ structsSortedByName a) : ∀ r ∈ (tsStructDecl cfg s).refs, r ∈ usedNames a := by
  intro r hr
  -- s is the struct found under a used name
  unfold structsSortedByName at hs
  have hs' := (sortBy_perm (fun (s : SInfo) => s.name) _).mem_iff.mp hs
  obtain ⟨n, hn, hfind⟩ := List.mem_filterMap.mp hs'
  have hmem : s ∈ a.structs := List.mem_of_find?_eq_some hfind
  unfold tsStructDecl at hr
  split at hr
  · simp at hr
  · simp only at hr
    have hr' := List.mem_eraseDups.mp hr
    obtain ⟨f, hf, hrf⟩ := List.mem_flatMap.mp hr'
    have := mem_refsOf hrf
    have hin : r ∈ refsOfS s := List.mem_flatMap.mpr ⟨f, hf, this.1⟩
    have hreach : Reach a.structs (seeds a) r := Reach.field s (C07_declared_reachable a n hn) hfind hin
    exact C07_reachable_declared a r hreach (hd.2 s hmem r hin this.2)

/-- **C02 (Zod mode)**: every `XSchema` constant an object schema mentions belongs to a declared struct -/
theorem C02_zod_struct_schema_refs (cfg : Config) (a : Analysis) (hd : AllDefined cfg a) (s : SInfo) (n : Str)
    (hn : n ∈ usedNames a) (hfind : findStruct a.structs n = some s) :
    ∀ r ∈ (s.fields.flatMap fun f => schemaRefs cfg (tsOfStr f.rustType)), ∃ m ∈ usedNames a, r = m ++ cl!"Schema" := by
  intro r hr
  obtain ⟨f, hf, hrf⟩ := List.mem_flatMap.mp hr
  unfold schemaRefs at hrf
  obtain ⟨m, hm, rfl⟩ := List.mem_map.mp hrf
  have := mem_refsOf hm
  have hin : m ∈ refsOfS s := List.mem_flatMap.mpr ⟨f, hf, this.1⟩
  have hmem : s ∈ a.structs := List.mem_of_find?_eq_some hfind
  have hreach : Reach a.structs (seeds a) m := Reach.field s (C07_declared_reachable a n hn) hfind hin
  exact ⟨m, C07_reachable_declared a m hreach (hd.2 s hmem m hin this.2), rfl⟩

/-- … and every `XSchema` a parameter schema mentions -/
theorem C02_zod_param_schema_refs (cfg : Config) (a : Analysis) (hd : AllDefined cfg a) (c : CInfo) (hc : c ∈ a.commands)
    (d : Decl) (h : zodParamSchema cfg c = some d) : ∀ r ∈ d.refs, ∃ m ∈ usedNames a, r = m ++ cl!"Schema" := by
  intro r hr
  unfold zodParamSchema at h
  split at h
  · exact absurd h (by simp)
  · simp only [Option.some.injEq] at h
    subst h
    simp only at hr
    obtain ⟨p, hp, hrp⟩ := List.mem_flatMap.mp (List.mem_eraseDups.mp hr)
    unfold schemaRefs at hrp
    obtain ⟨m, hm, rfl⟩ := List.mem_map.mp hrp
    have := mem_refsOf hm
    have hseed : m ∈ seeds a := by
      unfold seeds
      apply List.mem_append_left
      apply List.mem_flatMap.mpr
      exact ⟨c, hc, List.mem_append_left _ (List.mem_append_left _ (List.mem_flatMap.mpr ⟨p, hp, this.1⟩))⟩
    exact ⟨m, C07_seeds_declared a m hseed (hd.1 m hseed this.2), rfl⟩


end TG.C02
