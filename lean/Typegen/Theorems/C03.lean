import Typegen.ProjectSpec
import Typegen.FileFilter
import Typegen.TablesExpected
/-! # C03 — exactly one wrapper per discovered command, invoking exactly its Rust name

Model: `An.analyze` (file filter, sorted file order, `fileCommands`) and `Gn.tsCommandsFile` /
`Gn.zodCommandsFile` (one `func` declaration per command).  The text of every declaration is compared
with the real commands.ts on every correspondence run. -/
namespace TG.C03
open Pj An Gn

/-- the wrappers of the plain-mode commands module are exactly one declaration per analysed command,
    in order, named by the camelCase of the Rust name -/
theorem C03_ts_wrappers (cfg : Config) (a : Analysis) :
    (tsCommandsFile cfg a).filter (fun d => d.kind = .func) = a.commands.map (tsCommandDecl cfg) := by
  simp only [tsCommandsFile, List.filter_append, List.filter_cons, invokeImport, typesImport]
  simp only [List.filter_nil, List.nil_append]
  have : ∀ l : List CInfo, (l.map (tsCommandDecl cfg)).filter (fun d => d.kind = .func) = l.map (tsCommandDecl cfg) := by
    intro l
    induction l with
    | nil => rfl
    | cons c cs ih => simp [List.filter_cons, tsCommandDecl, ih]
  simpa using this a.commands

theorem C03_zod_wrappers (cfg : Config) (a : Analysis) :
    (zodCommandsFile cfg a).filter (fun d => d.kind = .func) = a.commands.map (zodCommandDecl cfg) := by
  simp only [zodCommandsFile, List.filter_append, List.filter_cons, invokeImport, typesImport, hooksDecl]
  simp only [List.filter_nil, List.nil_append]
  have : ∀ l : List CInfo, (l.map (zodCommandDecl cfg)).filter (fun d => d.kind = .func) = l.map (zodCommandDecl cfg) := by
    intro l
    induction l with
    | nil => rfl
    | cons c cs ih => simp [List.filter_cons, zodCommandDecl, ih]
  simpa using this a.commands

/-- each wrapper is named by the camelCase of the Rust function name (both modes) -/
theorem C03_wrapper_name (cfg : Config) (c : CInfo) :
    (tsCommandDecl cfg c).name = N.computeFunctionName c.name ∧ (zodCommandDecl cfg c).name = N.computeFunctionName c.name :=
  ⟨rfl, rfl⟩

/-- the commands are those of the selected files, file by file in sorted path order -/
theorem C03_commands_of_selected (p : Project) :
    (analyze p).commands =
      (sortedFiles (p.files.filter (fileSelected p.absRoot))).flatMap fun f => fileCommands f.relPath f.items := rfl

theorem insertFile_perm (f : File) : ∀ (l : List File), (insertFile f l).Perm (f :: l)
  | [] => List.Perm.refl _
  | g :: gs => by
    unfold insertFile
    split
    · exact List.Perm.refl _
    · exact ((insertFile_perm f gs).cons g).trans (List.Perm.swap f g gs)

/-- sorting only reorders: every selected file is processed exactly once, whatever the directory
    enumeration order -/
theorem C03_sorted_perm : ∀ (l : List File), (sortedFiles l).Perm l
  | [] => List.Perm.refl _
  | f :: fs => (insertFile_perm f _).trans ((C03_sorted_perm fs).cons f)

/-- a file that is not selected — it does not parse, is not `.rs`, or lies under `target/` / `.git/` —
    changes nothing: the analysis of the project with and without it are equal -/
theorem C03_unselected_file_isolated (p : Project) (f : File) (h : fileSelected p.absRoot f = false) :
    analyze { p with files := f :: p.files } = analyze p := by
  simp only [analyze, List.filter_cons, h, Bool.false_eq_true, if_false]

/-- an unparsable file is never selected -/
theorem C03_unparsable_not_selected (root : Str) (f : File) (h : f.parses = false) : fileSelected root f = false := by
  simp [fileSelected, h]

/-- a function is a command iff it carries an attribute whose path is `tauri::command` or `command`
    (arguments, position among other attributes, visibility and asyncness are irrelevant) -/
theorem C03_command_attribute (f : FnItem) :
    isTauriCommand f = f.attrs.any (fun a => a.path = [cl!"tauri", cl!"command"] || a.path = [cl!"command"]) := rfl

/-- K03a witness: a project whose absolute path has a `target` component is skipped entirely -/
theorem K03a_witness :
    fileSelected cl!"/home/u/target/app/src-tauri" { relPath := cl!"lib.rs", parses := true, items := [] } = false ∧
    Sp.specSelected { relPath := cl!"lib.rs", parses := true, items := [] } = true := by decide +kernel

example : fileSelected cl!"/home/u/app/src-tauri" { relPath := cl!"a/b/cmd.rs", parses := true, items := [] } = true ∧
    fileSelected cl!"/home/u/app/src-tauri" { relPath := cl!"target/debug/x.rs", parses := true, items := [] } = false ∧
    fileSelected cl!"/home/u/app/src-tauri" { relPath := cl!"targets/x.rs", parses := true, items := [] } = true ∧
    fileSelected cl!"/home/u/app/src-tauri" { relPath := cl!"notes.txt", parses := true, items := [] } = false := by decide +kernel


/-! ## the file filter is the statement's, for clean project paths; the source's decision tables -/

/-- for a project path none of whose components is `target` / `.git`, the tool's substring test on the full path
    selects exactly the files of the statement (`.rs`, parses, no `target` / `.git` directory component below the
    project path) — K03a is exactly the failure of the hypothesis -/
theorem C03_filter_is_statement (root : Str) (f : Pj.File) (h : Sp.rootUnclean root = false) :
    An.fileSelected root f = Sp.specSelected f := An.C03_filter_is_spec root f h

/-- **C03 (full, clean project paths)**: the discovered commands are, up to order, exactly the top-level functions
    with a command attribute in the statement's files -/
theorem C03_commands_exactly_statement (p : Pj.Project) (h : Sp.rootUnclean p.absRoot = false) :
    ((An.analyze p).commands.map (·.name)).Perm ((Sp.specCommands p).map (·.2.name)) :=
  An.C03_commands_exactly_spec p h

/-- the literals of `is_tauri_command` and of the file walk, re-read from the source on this run, are the ones the
    model (`isTauriCommand`, `fileSelected`) was written against -/
theorem C03_source_table_command_attribute : Exp.litsOf "is_tauri_command" = Exp.isTauriCommand := by decide
theorem C03_source_table_file_walk : Exp.litsOf "parse_and_cache_all_files" = Exp.parseAndCacheAllFiles := by decide

end TG.C03
