import Typegen.Topo
import Typegen.Kahn
import Typegen.Order
/-! # C20 — dependency ordering routines are correct on every graph

Property theorems only; the model is `D.visit`/`D.topoSort` (mirror of
`TypeDependencyGraph::topological_sort_types`/`topological_visit`) and `K.kahn` (mirror of
`DependencyResolver::resolve_build_order`).  Every list order (= every `HashSet`/`HashMap` iteration
order of the Rust code) is a universally quantified parameter. -/
namespace TG.C20

/-- The type-ordering routine: no duplicates, every requested type present, closed under dependencies,
    every direct dependency before its dependent unless the dependency reaches the dependent back
    (common cycle).  For all graphs `deps`, all request lists, all orders. -/
theorem C20_topo_edge_order {α : Type} [DecidableEq α] (deps : α → List α) (fuel : Nat) (types : List α)
    (hex : (D.topoSort deps fuel types).exhausted = false) :
    let out := (D.topoSort deps fuel types).sorted
    out.Nodup ∧ (∀ t ∈ types, t ∈ out) ∧
    (∀ u ∈ out, ∀ v ∈ deps u, v ∈ out) ∧
    (∀ u ∈ out, ∀ v ∈ deps u, ¬ D.Reaches deps v u → out.idxOf v < out.idxOf u) :=
  D.topo_edge_order deps fuel types hex

/-- The output is exactly the set of requested types and their transitive dependencies. -/
theorem C20_topo_set {α : Type} [DecidableEq α] (deps : α → List α) (fuel : Nat) (types : List α)
    (hex : (D.topoSort deps fuel types).exhausted = false) (x : α) :
    x ∈ (D.topoSort deps fuel types).sorted ↔ ∃ t ∈ types, D.Reaches deps t x :=
  D.topo_set deps fuel types hex x

/-- Termination on every (also cyclic) graph: with fuel `|U|+1`, `U` any finite dependency-closed
    universe containing the request, the fuel is never exhausted, so the fuel is not a bound. -/
theorem C20_topo_terminates {α : Type} [DecidableEq α] (deps : α → List α) (U : List α)
    (hU : ∀ x ∈ U, ∀ y ∈ deps x, y ∈ U) (types : List α) (ht : ∀ t ∈ types, t ∈ U) :
    (D.topoSort deps (U.length + 1) types).exhausted = false :=
  D.topo_fuel_ok deps U hU types ht

/-- Corollary for acyclic graphs: every *transitive* dependency precedes. -/
theorem C20_topo_acyclic_transitive {α : Type} [DecidableEq α] (deps : α → List α) (fuel : Nat)
    (types : List α) (hex : (D.topoSort deps fuel types).exhausted = false)
    (hac : ∀ a b, b ∈ deps a → ¬ D.Reaches deps b a)
    (u v : α) (hu : u ∈ (D.topoSort deps fuel types).sorted) (hv : v ∈ deps u) :
    (D.topoSort deps fuel types).sorted.idxOf v < (D.topoSort deps fuel types).sorted.idxOf u :=
  (D.topo_edge_order deps fuel types hex).2.2.2 u hu v hv (hac u v hv)

/-- The build-order resolver: a successful result is a duplicate-free listing of exactly the nodes
    with every dependency before its dependent (multi-edges and self-loops included). -/
theorem C20_kahn_valid {α : Type} [DecidableEq α] (nodes : List α) (edges : List (K.Edge α))
    (hN : nodes.Nodup) (hE : ∀ e ∈ edges, e.1 ∈ nodes ∧ e.2 ∈ nodes) (l : List α)
    (h : K.kahn nodes edges = some l) :
    l.Nodup ∧ (∀ x, x ∈ l ↔ x ∈ nodes) ∧ ∀ e ∈ edges, l.idxOf e.2 < l.idxOf e.1 :=
  K.kahn_valid nodes edges hN hE l h

/-- … and it succeeds exactly when the graph is acyclic (otherwise: circular dependency). -/
theorem C20_kahn_ok_iff {α : Type} [DecidableEq α] (nodes : List α) (edges : List (K.Edge α))
    (hN : nodes.Nodup) (hE : ∀ e ∈ edges, e.1 ∈ nodes ∧ e.2 ∈ nodes) :
    (K.kahn nodes edges).isSome ↔ K.Acyclic edges :=
  K.kahn_ok_iff nodes edges hN hE

/-- the routine as it is now (fix dcbafc3): requested names and every dependency set are visited in sorted
    order.  The order theorem holds for it as an instance (sorting neither adds nor drops names), and the
    result no longer depends on the hash iteration orders at all (C13_zod_order_invariant). -/
theorem C20_sorted_instance (deps : Str → List Str) (fuel : Nat) (types : List Str)
    (hex : (D.topoSort (fun n => O.sortNames (deps n)) fuel (O.sortNames types)).exhausted = false) :
    let out := (D.topoSort (fun n => O.sortNames (deps n)) fuel (O.sortNames types)).sorted
    out.Nodup ∧ (∀ t ∈ types, t ∈ out) ∧ (∀ u ∈ out, ∀ v ∈ deps u, v ∈ out) ∧
    (∀ u ∈ out, ∀ v ∈ deps u, ¬ D.Reaches (fun n => O.sortNames (deps n)) v u →
      @List.idxOf Str instBEqOfDecidableEq v out < @List.idxOf Str instBEqOfDecidableEq u out) := by
  obtain ⟨h1, h2, h3, h4⟩ := D.topo_edge_order (fun n => O.sortNames (deps n)) fuel (O.sortNames types) hex
  exact ⟨h1, fun t ht => h2 t (O.sortNames_mem.mpr ht), fun u hu v hv => h3 u hu v (O.sortNames_mem.mpr hv),
    fun u hu v hv hr => h4 u hu v (O.sortNames_mem.mpr hv) hr⟩

/-! Non-vacuity: the hypotheses are met by concrete non-trivial inputs, and the reading chosen for
    "every dependency before its dependents" (direct edges, up to common cycles) is the only one a DFS
    with a cycle cut can satisfy: on `a→x, x→a, a→w` the transitive reading fails. -/
def exDeps : Nat → List Nat
  | 0 => [1, 2]   -- a → x, a → w
  | 1 => [0]      -- x → a
  | _ => []
example : (D.topoSort exDeps 4 [0]).exhausted = false := by decide +kernel
theorem C20_cycle_witness : (D.topoSort exDeps 4 [0]).sorted = [1, 2, 0] := by decide +kernel
example : K.kahn [0, 1, 2] [(0, 1), (1, 2), (0, 2), (0, 2)] = some [2, 1, 0] := by decide +kernel
example : K.kahn [0, 1, 2] [(0, 1), (1, 0)] = none := by decide +kernel
example : K.kahn [0] [(0, 0)] = none := by decide +kernel

end TG.C20
