import Typegen.RunTheorems
import Typegen.BuildPath
import Typegen.Theorems.C08
/-! # C14 — re-running with nothing changed rewrites nothing; --force always regenerates -/
namespace TG.C14
open R

/-- after a complete successful run (from any state, forced or not), a second non-forced run with
    unchanged sources and configuration executes no filesystem operation: the state is returned as is -/
theorem C14_rerun_noop {Src Cfg Key Content : Type} [DecidableEq Key]
    (S : Sys Src Cfg Key Content) (src : Src) (cfg : Cfg) (o : Out Key Content) (forced : Bool)
    (hd : NamesDistinct (S.gen src cfg)) :
    let o1 := (run S src cfg forced none o).2.2
    (run S src cfg false none o1).2.1 ≠ .generated ∧ (run S src cfg false none o1).2.2 = o1 :=
  run_idem S src cfg o forced hd

/-- … and so does every further one (any number of repetitions) -/
theorem C14_rerun_noop_iter {Src Cfg Key Content : Type} [DecidableEq Key]
    (S : Sys Src Cfg Key Content) (src : Src) (cfg : Cfg) (o : Out Key Content) (forced : Bool)
    (hd : NamesDistinct (S.gen src cfg)) (n : Nat) :
    let o1 := (run S src cfg forced none o).2.2
    (exec S { src := src, cfg := cfg, out := o1 } (List.replicate n (.run false none))).out = o1 := by
  intro o1
  induction n with
  | zero => rfl
  | succ n ih =>
    rw [List.replicate_succ', exec, List.foldl_append]
    show (step S (exec S _ _) (.run false none)).out = o1
    have h1 : (exec S { src := src, cfg := cfg, out := o1 } (List.replicate n (Step.run false none))) =
        { src := src, cfg := cfg, out := o1 } := by
      have hsrc : ∀ (m : Nat) (w : World Src Cfg Key Content),
          (exec S w (List.replicate m (Step.run false none))).src = w.src ∧
          (exec S w (List.replicate m (Step.run false none))).cfg = w.cfg := by
        intro m
        induction m with
        | zero => intro w; exact ⟨rfl, rfl⟩
        | succ m ihm => intro w; rw [List.replicate_succ, exec, List.foldl_cons]; exact ihm _
      obtain ⟨a, b⟩ := hsrc n { src := src, cfg := cfg, out := o1 }
      cases hw : exec S { src := src, cfg := cfg, out := o1 } (List.replicate n (Step.run false none)) with
      | mk s c ou =>
        rw [hw] at a b ih
        simp only at a b ih
        rw [a, b, ih]
    rw [h1]
    exact (run_idem S src cfg o forced hd).2

/-- a forced run never takes the cache shortcut, whatever the cache state (absent, matching,
    mismatching, corrupt): it executes the whole plan -/
theorem C14_force_regenerates {Src Cfg Key Content : Type} [DecidableEq Key]
    (S : Sys Src Cfg Key Content) (src : Src) (cfg : Cfg) (o : Out Key Content) (hne : S.empty src = false) :
    (run S src cfg true none o).2.1 = .generated ∧
    (run S src cfg true none o).2.2 = applyOps o (plan S src cfg) :=
  run_forced S src cfg o hne

/-- effective force = command-line flag ∨ configuration value (`if force { config.force = Some(true) }`,
    `should_force = force.unwrap_or(false)`): the flag prevails, the file can only add -/
def effectiveForce (flag : Bool) (cfgForce : Option Bool) : Bool :=
  (if flag then some true else cfgForce).getD false

theorem C14_force_flag_or_config (flag : Bool) (cfgForce : Option Bool) :
    effectiveForce flag cfgForce = (flag || cfgForce.getD false) := by
  cases flag <;> cases cfgForce <;> rfl

/-- the modelled tool: after a complete run on any project and configuration, any number of further non-forced runs
    execute no filesystem operation -/
theorem C14_rerun_noop_concrete (src : Pj.Project) (cfg : Gn.Config) (o : Out (KS.View × Gn.Config) Str) (forced : Bool) (n : Nat) :
    let o1 := (run TG.C08.concreteSys src cfg forced none o).2.2
    (exec TG.C08.concreteSys { src := src, cfg := cfg, out := o1 } (List.replicate n (.run false none))).out = o1 :=
  C14_rerun_noop_iter TG.C08.concreteSys src cfg o forced (TG.C08.concrete_namesDistinct src cfg) n

/-! ## the build-script path -/

/-- the clean-up after a cache hit removes nothing that is there: every name keeps its content, the record stays -/
theorem C14_build_cleanup_noop_on_hit {Key Content : Type} [DecidableEq Key] (isGen : Name → Bool) (present : List Name)
    (o : Out Key Content) (n : Name) :
    (finalize isGen present (present.filter fun m => (o.files m).isSome) o).files n = o.files n ∧
    (finalize isGen present (present.filter fun m => (o.files m).isSome) o).cache = o.cache := by
  refine ⟨?_, finalize_cache _ _ _ _⟩
  by_cases hv : n ∈ present.filter (fun m => isGen m && !((present.filter fun m => (o.files m).isSome).contains m))
  · -- a victim is a listed name that does not exist: removing it changes nothing
    have hcond := (List.mem_filter.mp hv).2
    have hpres := (List.mem_filter.mp hv).1
    simp only [Bool.and_eq_true, Bool.not_eq_true'] at hcond
    have hnone : o.files n = none := by
      cases hf : o.files n with
      | none => rfl
      | some c =>
        have : (present.filter fun m => (o.files m).isSome).contains n = true := by
          simp only [List.contains_iff_mem, List.mem_filter]
          exact ⟨hpres, by simp [hf]⟩
        rw [this] at hcond
        exact absurd hcond.2 (by decide)
    rw [hnone]
    unfold finalize
    exact removes_mem n _ o hv
  · unfold finalize
    exact removes_frame n _ o hv

/-- **C14 on the build-script path**: after a complete successful run a second non-forced run with unchanged sources and
    configuration is a cache hit, and run plus clean-up leave every name with the content it had, and the record as it was -/
theorem C14_build_rerun_noop {Src Cfg Key Content : Type} [DecidableEq Key]
    (S : Sys Src Cfg Key Content) (isGen : Name → Bool) (present : List Name) (src : Src) (cfg : Cfg) (o : Out Key Content)
    (hup : upToDate S src cfg false o = true) (hne : S.empty src = false) (n : Name) :
    (runBuild S isGen present src cfg false none o).2.1 = .upToDate ∧
    (runBuild S isGen present src cfg false none o).2.2.files n = o.files n ∧
    (runBuild S isGen present src cfg false none o).2.2.cache = o.cache := by
  have hr : run S src cfg false none o = (.ok, .upToDate, o) := by
    unfold run; simp [hne, hup]
  unfold runBuild
  simp only [hr, if_true, keptOf]
  refine ⟨?_, (C14_build_cleanup_noop_on_hit isGen present o n).1, (C14_build_cleanup_noop_on_hit isGen present o n).2⟩
  trivial

end TG.C14
