import Typegen.ProjectSpec
import Typegen.Walker
import Typegen.TablesExpected
/-! # C12 — one correctly named, correctly subscribed listener per emitted event -/
namespace TG.C12
open Pj An Gn N

def dedupStep (acc : List EInfo) (e : EInfo) : List EInfo :=
  if acc.any (fun k => k.name = e.name) then acc else acc ++ [e]

theorem dedup_nodup : ∀ (l acc : List EInfo), (acc.map (·.name)).Nodup → ((l.foldl dedupStep acc).map (·.name)).Nodup
  | [], acc, h => h
  | e :: rest, acc, h => by
    simp only [List.foldl_cons]
    apply dedup_nodup rest
    unfold dedupStep
    split
    · exact h
    · next hany =>
      rw [List.map_append, List.map_cons, List.map_nil]
      apply List.nodup_append.mpr
      refine ⟨h, by simp, ?_⟩
      intro x hx y hy
      simp only [List.mem_singleton] at hy
      subst hy
      intro hxy
      apply hany
      obtain ⟨k, hk, hkn⟩ := List.mem_map.mp hx
      exact List.any_eq_true.mpr ⟨k, hk, by simp [hkn, hxy]⟩

theorem dedup_names : ∀ (l acc : List EInfo) (n : Str),
    n ∈ (l.foldl dedupStep acc).map (·.name) ↔ n ∈ acc.map (·.name) ∨ n ∈ l.map (·.name)
  | [], acc, n => by simp
  | e :: rest, acc, n => by
    simp only [List.foldl_cons]
    rw [dedup_names rest]
    unfold dedupStep
    split
    · next hany =>
      obtain ⟨k, hk, hkn⟩ := List.any_eq_true.mp hany
      have hkn' : k.name = e.name := by simpa using hkn
      constructor
      · rintro (h | h)
        · exact .inl h
        · exact .inr (by simp [h])
      · rintro (h | h)
        · exact .inl h
        · simp only [List.map_cons, List.mem_cons] at h
          rcases h with h | h
          · left; exact List.mem_map.mpr ⟨k, hk, by rw [hkn', h]⟩
          · exact .inr h
    · simp only [List.map_append, List.map_cons, List.map_nil, List.mem_append, List.mem_cons, List.not_mem_nil, or_false]
      constructor
      · rintro ((h | h) | h)
        · exact .inl h
        · exact .inr (.inl h)
        · exact .inr (.inr h)
      · rintro (h | h | h)
        · exact .inl (.inl h)
        · exact .inl (.inr h)
        · exact .inr h

/-- **one listener per distinct event name**: the analysed events have pairwise distinct names … -/
theorem C12_one_per_name (p : Project) : ((analyze p).events.map (·.name)).Nodup := by
  show ((List.foldl dedupStep [] _).map (·.name)).Nodup
  exact dedup_nodup _ [] (by simp)

/-- … and they are exactly the names of the emit calls found in the selected files -/
theorem C12_names_exact (p : Project) (n : Str) :
    n ∈ (analyze p).events.map (·.name) ↔
    n ∈ ((sortedFiles (p.files.filter (fileSelected p.absRoot))).flatMap fun f => fileEvents f.relPath f.items).map (·.name) := by
  show n ∈ (List.foldl dedupStep [] _).map (·.name) ↔ _
  rw [dedup_names]
  simp

/-- **the walker is exact on the documented placements**: the event names collected from a file are the syntactic
    occurrences `An.occSs` of `emit` / `emit_to` calls (string-literal name, receiver recognised by `isEmitter`) in every
    top-level function — as a statement, as the initialiser of a `let` of any pattern, under `?` / `.await`, as receiver or
    argument of a method call, inside blocks, `if`, `match` and loops at any nesting — in source order, and nothing else.
    The symbol table threaded through the walk has no influence on *which* events are found. -/
theorem C12_walker_exact (file : Str) (items : List Pj.Item) :
    (fileEvents file items).map (·.name) = (fnItems items).flatMap fun f => occSs f.body :=
  fileEvents_names file items

/-- hence the listeners' names are exactly the documented occurrences in the selected files -/
theorem C12_names_are_occurrences (p : Project) (n : Str) :
    n ∈ (analyze p).events.map (·.name) ↔
    n ∈ (sortedFiles (p.files.filter (fileSelected p.absRoot))).flatMap fun f => (fnItems f.items).flatMap fun fn => occSs fn.body := by
  rw [C12_names_exact]
  simp only [List.map_flatMap, C12_walker_exact]

/-- non-vacuity: an emit in the initialiser of an annotated `let`, one under `?` inside an `else` block, one as the
    argument of a closure call (not a documented placement: not found) -/
example :
    occSs (.cons (.letS none (some (cl!"sent", .path .nil)) (some (.mcall (.path [cl!"app"]) cl!"emit" (.cons (.lit cl!"str" cl!"job-progress") (.cons (.path [cl!"u"]) .nil)))))
          (.cons (.expr (.ifE .nil (.cons (.block (.cons (.expr (.try (.mcall (.path [cl!"window"]) cl!"emit_to"
              (.cons (.lit cl!"str" cl!"main") (.cons (.lit cl!"str" cl!"job-finished") (.cons (.lit cl!"bool" cl!"true") .nil)))))) .nil)) .nil)))
          (.cons (.expr (.call (.path [cl!"spawn"]) (.cons (.other (.cons (.mcall (.path [cl!"app"]) cl!"emit" (.cons (.lit cl!"str" cl!"hidden") (.cons (.lit cl!"int" cl!"1") .nil))) .nil)) .nil)))
          .nil)))
      = [cl!"job-progress", cl!"job-finished"] := by decide +kernel

/-- the events module has exactly one listener declaration per analysed event, subscribed to exactly its name
    (`listen<…>('name', …)`), named `on` + PascalCase of the name -/
theorem C12_listeners (cfg : Config) (a : Analysis) :
    (eventsFile cfg a).filter (fun d => d.kind = .func) = a.events.map (eventDecl cfg) := by
  simp only [eventsFile, List.filter_append, List.filter_cons, typesImport]
  simp only [List.filter_nil, List.nil_append]
  have : ∀ l : List EInfo, (l.map (eventDecl cfg)).filter (fun d => d.kind = .func) = l.map (eventDecl cfg) := by
    intro l
    induction l with
    | nil => rfl
    | cons c cs ih => simp [List.filter_cons, eventDecl, ih]
  simpa using this a.events

theorem C12_listener_name (cfg : Config) (e : EInfo) : (eventDecl cfg e).name = eventFunctionName e.name := rfl

/-- with no events, no events module is written and none is re-exported -/
theorem C12_no_events (cfg : Config) (a : Analysis) (h : a.events = []) :
    (generate cfg a).events = none ∧ (generate cfg a).index.map (·.name) = [cl!"types", cl!"commands"] := by
  simp only [generate, h, List.isEmpty_nil, if_true, indexFile, writtenBeforeIndex, List.append_nil, List.map_cons, List.map_nil]
  refine ⟨trivial, ?_⟩
  decide +kernel

/-- K12b / K12c witnesses: `:` and `/` survive into the function name; `a-b` and `a_b` collide -/
theorem K12b_witness : eventFunctionName cl!"user:login/now" = cl!"onUser:login/now" := by decide +kernel
theorem K12c_witness : eventFunctionName cl!"ev-a" = eventFunctionName cl!"ev_a" := by decide +kernel


/-- the method names the event walker looks for, re-read from the source on this run -/
theorem C12_source_table_emit_methods :
    Exp.litsOf "handle_method_call" = Exp.handleMethodCall ∧ Exp.litsOf "extract_emit_event" = Exp.extractEmitEvent := by decide

end TG.C12
