import Typegen.ProjectSpec
import Typegen.Theorems.C20
/-! # C09 — in Zod mode no schema is read before it is defined

The struct schemas are emitted in the order `Gn.zodOrder` (filtered to the used structs): the DFS of C20
over the *sorted* used names with the recorded, sorted dependency sets; parameter schemas and aliases follow.
For every internal iteration order this is the same list (C13), and by the order theorem of C20 every
recorded dependency comes first unless it lies on a common cycle. -/
namespace TG.C09
open Pj An Gn

def depsOf (a : Analysis) : Str → List Str :=
  fun n => ((a.deps.find? fun d => d.1 = n).map (·.2)).getD []

def univ (a : Analysis) : List Str := (usedNames a ++ a.deps.flatMap fun d => d.1 :: d.2).eraseDups

theorem zodOrder_eq (a : Analysis) :
    zodOrder a = (D.topoSort (depsOf a) ((univ a).length + 1) (O.sortNames (usedNames a))).sorted := rfl

theorem deps_closed (a : Analysis) : ∀ x ∈ univ a, ∀ y ∈ depsOf a x, y ∈ univ a := by
  intro x _ y hy
  unfold depsOf at hy
  unfold univ
  apply List.mem_eraseDups.mpr
  apply List.mem_append_right
  cases hf : a.deps.find? (fun d => d.1 = x) with
  | none => rw [hf] at hy; simp at hy
  | some d =>
    rw [hf] at hy
    simp only [Option.map_some, Option.getD_some] at hy
    have hd : d ∈ a.deps := List.mem_of_find?_eq_some hf
    exact List.mem_flatMap.mpr ⟨d, hd, List.mem_cons_of_mem _ hy⟩

/-- the DFS never runs out of fuel: the fuel of the model is not a bound -/
theorem C09_fuel_ok (a : Analysis) :
    (D.topoSort (depsOf a) ((univ a).length + 1) (O.sortNames (usedNames a))).exhausted = false := by
  apply D.topo_fuel_ok (depsOf a) (univ a) (deps_closed a)
  intro t ht
  have : t ∈ usedNames a := O.sortNames_mem.mp ht
  exact List.mem_eraseDups.mpr (List.mem_append_left _ this)

/-- **definition before use among struct schemas**: whenever schema `u` is emitted and `v` is one of its
    recorded dependencies, `v` comes earlier in the order — unless `v` depends back on `u` (a cycle) -/
theorem C09_dependency_first (a : Analysis) (u v : Str) (hu : u ∈ zodOrder a) (hv : v ∈ depsOf a u)
    (hacyclic : ¬ D.Reaches (depsOf a) v u) :
    @List.idxOf Str instBEqOfDecidableEq v (zodOrder a) < @List.idxOf Str instBEqOfDecidableEq u (zodOrder a) := by
  rw [zodOrder_eq] at hu ⊢
  exact (D.topo_edge_order (depsOf a) _ _ (C09_fuel_ok a)).2.2.2 u hu v hv hacyclic

/-- every used struct gets its schema, exactly once -/
theorem C09_every_used_struct_emitted (a : Analysis) :
    (zodOrder a).Nodup ∧ ∀ n ∈ usedNames a, n ∈ zodOrder a := by
  rw [zodOrder_eq]
  have h := D.topo_edge_order (depsOf a) _ _ (C09_fuel_ok a)
  exact ⟨h.1, fun n hn => h.2.1 n (O.sortNames_mem.mpr hn)⟩

/-- parameter schemas and type aliases come after *all* struct and enum schemas: the types module is the
    concatenation imports ++ struct schemas ++ parameter schemas ++ aliases -/
theorem C09_params_after_structs (cfg : Config) (a : Analysis) :
    ∃ pre structs, zodTypesFile cfg a = pre ++ structs ++ a.commands.filterMap (zodParamSchema cfg) ++ a.commands.filterMap (zodParamsAlias cfg) ∧
      (∀ d ∈ pre, d.kind = .importD) ∧
      structs = ((zodOrder a).filterMap fun n => if (usedNames a).contains n then findStruct a.structs n else none).flatMap (zodStructDecl cfg) := by
  refine ⟨_, _, rfl, ?_, rfl⟩
  intro d hd
  simp only [List.mem_append, List.mem_singleton] at hd
  rcases hd with h | h
  · rw [h]
  · split at h
    · simp only [List.mem_singleton] at h; rw [h]
    · simp at h

/-- the order is independent of every hash iteration order: it is a function of the *sets* only (C13) -/
theorem C09_order_is_sorted_dfs (a : Analysis) :
    zodOrder a = (D.topoSort (depsOf a) ((univ a).length + 1) (O.sortNames (usedNames a))).sorted := rfl

end TG.C09
