import Typegen.Bytes
import Typegen.Generate
/-! # C15 — no input makes analysis or generation panic; files that do not parse are isolated

What a Lean model can carry of this property:
* **index arithmetic**: Rust slices panic on offsets that are out of range or inside a multi-byte character.
  `B.from?` / `B.slice?` model that; `parse_rename` (the one scanner with computed offsets and a loop) is
  modelled with Rust's byte offsets and proved to *refine* the character-level model used by C06: it never
  panics, for every token string.  The arithmetic before fix 1fa3690 is kept as `parseRenameOldB` with a
  kernel-checked panic witness.
* **fixed-offset slicing of type strings** (`&s[7..s.len() - 1]` under `starts_with("Option<") && ends_with('>')`).
* **isolation**: in the analysis model the result does not depend on files that do not parse.
The rest of the statement (syn, tera, walkdir, the stack) lives in the runtime and is covered by the corpus /
fuzz correspondence runs only: see DESIGN.md. -/
namespace TG.C15
open A SA B

theorem blen_kwRename : blen kwRename = 6 := by decide
theorem blen_kwAll : blen kwAll = 4 := by decide
theorem len_kwRename : kwRename.length = 6 := by decide
theorem len_kwAll : kwAll.length = 4 := by decide

theorem parseRenameB_refines (fuel : Nat) (tokens : Str) (k : Nat) (hk : k ≤ tokens.length) :
    parseRenameB fuel tokens (blen (tokens.take k)) = some (parseRenameFrom fuel (tokens.drop k)) := by
  induction fuel generalizing k with
  | zero => rfl
  | succ fuel ih =>
    unfold parseRenameB parseRenameFrom
    rw [from?_take tokens k hk]
    simp only
    cases hf : findB kwRename (tokens.drop k) with
    | none => simp [findB_none _ _ hf]
    | some pos =>
      obtain ⟨p, hp, hpos, hple, hsw⟩ := findB_some _ _ _ hf
      subst hpos
      simp only [hp]
      -- the byte offset after "rename"
      have hsw' : startsWith (tokens.drop (k + p)) kwRename = true := by rw [← List.drop_drop]; exact hsw
      have hkp : k + p ≤ tokens.length := by simp at hple; omega
      have e1 : blen (tokens.take k) + blen ((tokens.drop k).take p) = blen (tokens.take (k + p)) := by
        rw [blen_take_add]
      have hpast := from?_past tokens kwRename (k + p) hkp hsw'
      rw [blen_kwRename, len_kwRename] at hpast
      rw [e1, hpast.1]
      have eafter : List.drop (p + 6) (List.drop k tokens) = List.drop (k + p + 6) tokens := by
        rw [List.drop_drop, Nat.add_assoc]
      simp only [eafter]
      generalize hafter : List.drop (k + p + 6) tokens = after
      obtain ⟨j, hj, htrim⟩ := trimStartWs_suffix after
      by_cases hall : startsWith (trimStartWs after) kwAll = true
      · simp only [hall, if_true]
        -- new search start = byte offset of character index k+p+6+j+4
        have hsw2 : startsWith (tokens.drop (k + p + 6 + j)) kwAll = true := by
          rw [← List.drop_drop, hafter, ← htrim]; exact hall
        have hle2 : k + p + 6 + j ≤ tokens.length := by
          have : after.length = tokens.length - (k + p + 6) := by rw [← hafter]; simp
          omega
        have hpast2 := from?_past tokens kwAll (k + p + 6 + j) hle2 hsw2
        rw [blen_kwAll, len_kwAll] at hpast2
        have eb : blen after - blen (trimStartWs after) = blen (after.take j) := by
          rw [htrim, blen_drop after j]; omega
        have el : after.length - (trimStartWs after).length = j := by
          rw [htrim]; simp; omega
        have estart : blen (tokens.take (k + p)) + 6 + (blen after - blen (trimStartWs after)) + 4
            = blen (tokens.take (k + p + 6 + j + 4)) := by
          have t1 : (tokens.drop (k + p + 6 + j)).take 4 = kwAll := by simpa [len_kwAll] using startsWith_take hsw2
          have t2 : (tokens.drop (k + p)).take 6 = kwRename := by simpa [len_kwRename] using startsWith_take hsw'
          rw [eb, blen_take_add tokens (k + p + 6 + j) 4, t1, blen_kwAll, blen_take_add tokens (k + p + 6) j, hafter,
              blen_take_add tokens (k + p) 6, t2, blen_kwRename]
        rw [estart, ih (k + p + 6 + j + 4) hpast2.2, el]
        congr 2
        rw [List.drop_drop]; congr 1; omega
      · simp only [hall, Bool.false_eq_true, if_false]
        rw [findCh_eq]
        cases he : findB ['='] after with
        | none => simp [findB_none _ _ he]
        | some eq =>
          obtain ⟨e, hfe, heq, hele, hesw⟩ := findB_some _ _ _ he
          subst heq
          have hpe := from?_past after ['='] e hele hesw
          have hb : blen ['='] = 1 := by decide
          simp only [hb, List.length_singleton] at hpe
          simp only [hfe, hpe.1, firstQuotedB_eq, firstQuoted_trim]


/-- **C15 / parse_rename**: for every token string the byte-offset implementation performs no out-of-range or
    mid-character slice, and computes exactly the character-level model (`SA.parseRename`, compared with the real
    function on every correspondence case). -/
theorem C15_parse_rename_never_panics (tokens : Str) :
    parseRenameB (tokens.length + 1) tokens 0 = some (parseRename tokens) := by
  have := parseRenameB_refines (tokens.length + 1) tokens 0 (Nat.zero_le _)
  simpa [parseRename] using this

/-- the pre-fix arithmetic (`search_start = abs_pos + 10`) panics on valid Rust source:
    `#[serde(alias = "rename\u{3000}\u{3000}_all", rename = "x")]` -/
def oldWitness : Str := cl!"alias = \"rename　　_all\" , rename = \"x\""
theorem C15_old_offset_panics : parseRenameOldB (oldWitness.length + 1) oldWitness 0 = none := by decide +kernel
theorem C15_fixed_offset_ok : parseRenameB (oldWitness.length + 1) oldWitness 0 = some (some cl!"x") := by decide +kernel

/-! ## fixed-offset slicing: `&s[p.len() .. s.len() - 1]` under `starts_with(p) && ends_with(c)` -/
theorem decompose {s p : Str} {c : Char} (h1 : startsWith s p = true) (h2 : s.getLast? = some c)
    (h3 : p.getLast? ≠ some c) : ∃ m, s = p ++ m ++ [c] := by
  have ht := startsWith_take h1
  have hs : s = p ++ s.drop p.length := by
    have := (List.take_append_drop p.length s).symm
    rwa [ht] at this
  have hne : s.drop p.length ≠ [] := by
    intro hd
    rw [hd, List.append_nil] at hs
    rw [hs] at h2; exact h3 h2
  obtain ⟨m, x, hm⟩ : ∃ m x, s.drop p.length = m ++ [x] :=
    ⟨_, _, (List.dropLast_concat_getLast hne).symm⟩
  rw [hm] at hs
  have : x = c := by
    rw [hs] at h2
    simpa [List.getLast?_append] using h2
  subst this
  exact ⟨m, by rw [hs, List.append_assoc]⟩

/-- the slice `extract_option_inner_type` & co. take is in range, on character boundaries, and is the text
    between the prefix and the closing `>` — for *every* string passing the guard -/
theorem C15_inner_slice_safe (s p : Str) (c : Char) (hc : c.utf8Size = 1)
    (h1 : startsWith s p = true) (h2 : s.getLast? = some c) (h3 : p.getLast? ≠ some c) :
    slice? s (blen p) (blen s - 1) = some (L.inner p.length s) := by
  obtain ⟨m, rfl⟩ := decompose h1 h2 h3
  have e1 : blen (p ++ m ++ [c]) - 1 = blen p + blen m := by
    simp [blen_append, hc]
  have hf : from? (p ++ m ++ [c]) (blen p) = some (m ++ [c]) := by
    have := from?_take (p ++ m ++ [c]) p.length (by simp)
    simpa [List.append_assoc] using this
  have ht : to? (m ++ [c]) (blen m) = some m := by
    have := to?_take (m ++ [c]) m.length (by simp)
    simpa using this
  have hle : blen p ≤ blen (p ++ m ++ [c]) - 1 := by rw [e1]; omega
  have e2 : blen (p ++ m ++ [c]) - 1 - blen p = blen m := by rw [e1]; omega
  have hi : L.inner p.length (p ++ m ++ [c]) = m := by simp [L.inner, List.append_assoc]
  rw [hi]
  unfold slice?
  rw [if_pos hle, hf, e2]
  exact ht

/-- instances used by `type_resolver.rs`: the prefixes end in `<`, the suffix is `>` (one byte) -/
example : ('>' : Char).utf8Size = 1 ∧ L.kwOption.getLast? ≠ some '>' ∧ L.kwVec.getLast? ≠ some '>' ∧
    L.kwResult.getLast? ≠ some '>' ∧ L.kwHashMap.getLast? ≠ some '>' ∧ L.kwBTreeMap.getLast? ≠ some '>' ∧
    L.kwHashSet.getLast? ≠ some '>' ∧ L.kwBTreeSet.getLast? ≠ some '>' := by decide

/-! ## isolation of files that do not parse -/
open Pj An

theorem filter_selected_parses (root : Str) (l : List File) :
    l.filter (fileSelected root) = (l.filter (·.parses)).filter (fileSelected root) := by
  rw [List.filter_filter]
  congr 1
  funext f
  simp only [fileSelected]
  cases f.parses <;> simp

/-- **C15 / isolation**: two projects with the same root whose *parsing* files are the same (in the same
    relative order) have the same analysis — whatever the non-parsing files are, wherever they sit. -/
theorem C15_unparsable_isolated (p p' : Project) (hr : p'.absRoot = p.absRoot)
    (hf : p'.files.filter (·.parses) = p.files.filter (·.parses)) : analyze p' = analyze p := by
  unfold analyze
  rw [filter_selected_parses p'.absRoot, filter_selected_parses p.absRoot, hr, hf]

/-- … and therefore the same four generated files in both modes -/
theorem C15_unparsable_isolated_output (cfg : Gn.Config) (p p' : Project) (hr : p'.absRoot = p.absRoot)
    (hf : p'.files.filter (·.parses) = p.files.filter (·.parses)) :
    Gn.generate cfg (analyze p') = Gn.generate cfg (analyze p) := by
  rw [C15_unparsable_isolated p p' hr hf]

/-- non-vacuity: adding a file that does not parse in front of, or behind, a project -/
example (p : Project) (bad : File) (hb : bad.parses = false) :
    analyze { p with files := bad :: p.files ++ [bad] } = analyze p :=
  C15_unparsable_isolated p _ rfl (by simp [List.filter_cons, hb])


/-! ## `parse_message_from_content` -/

/-- **C15 / parse_message_from_content** (after fix f278ab8): for every content string no slice is out of range or
    inside a character, and the result is the character-level model's (`VP.parseMessage`, compared with the real
    parser on every C11 / attrfuzz case) -/
theorem C15_parse_message_never_panics (content : Str) :
    parseMessageB content = some (VP.parseMessage content) := parseMessageB_refines content

/-- the loop before the fix (`chars().enumerate()`: a character count used as a byte offset) panics on `"é"` -/
theorem C15_old_message_loop_panics : parseMessageOldB cl!"min = 1 , message = \"é\"" = none := by decide +kernel

end TG.C15
