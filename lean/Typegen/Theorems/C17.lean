import Typegen.RunTheorems
import Typegen.BuildPath
import Typegen.Theorems.C08
/-! # C17 — a failed run is never remembered as up to date

The plan of a regenerating run is `removeCache :: writes ++ [writeCache key]`: the record is invalidated
before the first write and re-created only after the last.  A fault makes one operation fail (nothing
after it is executed); a crash point is a prefix of the plan. -/
namespace TG.C17
open R

/-- at no point of a run — after any number of executed operations — does the cache record vouch for
    files that are not current: `Inv` holds after every prefix (crash points) -/
theorem C17_every_prefix {Src Cfg Key Content : Type} [DecidableEq Key]
    (S : Sys Src Cfg Key Content) (src : Src) (cfg : Cfg) (o : Out Key Content)
    (keySound : ∀ s c s' c', S.key s c = S.key s' c' → S.gen s c = S.gen s' c')
    (hd : NamesDistinct (S.gen src cfg)) (hI : Inv S o) (k : Nat) :
    Inv S (crashed S src cfg k o) :=
  inv_prefix S src cfg o keySound hd hI k

/-- a fault at the output path (op 0) or at any binding file reports failure; if anything was executed
    no cache record is left, and a fault at op 0 leaves the directory untouched -/
theorem C17_fault_reported {Src Cfg Key Content : Type} [DecidableEq Key]
    (S : Sys Src Cfg Key Content) (src : Src) (cfg : Cfg) (o : Out Key Content) (forced : Bool)
    (i : Nat) (hne : S.empty src = false) (hup : upToDate S src cfg forced o = false)
    (hi : i ≤ (S.gen src cfg).length) :
    (run S src cfg forced (some i) o).1 = .err ∧
    (1 ≤ i → (run S src cfg forced (some i) o).2.2.cache = none) ∧
    (i = 0 → (run S src cfg forced (some i) o).2.2 = o) :=
  run_fault S src cfg o forced i hne hup hi

/-- recovery: after *any* history (faults, crashes, edits and reverts included), once the obstacle is
    gone the next successful run ends with every file of a fresh generation in place -/
theorem C17_recovery {Src Cfg Key Content : Type} [DecidableEq Key]
    (S : Sys Src Cfg Key Content)
    (keySound : ∀ s c s' c', S.key s c = S.key s' c' → S.gen s c = S.gen s' c')
    (hd : ∀ s c, NamesDistinct (S.gen s c))
    (w0 : World Src Cfg Key Content) (hI : Inv S w0.out) (h : List (Step Src Cfg)) :
    let w := exec S w0 h
    S.empty w.src = false → (run S w.src w.cfg false none w.out).1 = .ok →
    Current (run S w.src w.cfg false none w.out).2.2 (S.gen w.src w.cfg) := by
  intro w hne hok
  exact run_ok_current S w.src w.cfg w.out false none (exec_inv S keySound hd w0 h hI) (hd _ _) hne hok

/-- and that recovery run does regenerate whenever the failed run had executed anything: the record is gone -/
theorem C17_recovery_regenerates {Src Cfg Key Content : Type} [DecidableEq Key]
    (S : Sys Src Cfg Key Content) (src : Src) (cfg : Cfg) (o : Out Key Content)
    (hne : S.empty src = false) (hc : o.cache = none) :
    (run S src cfg false none o).2.1 = .generated := by
  simp [run, hne, upToDate, hc]

/-! non-vacuity: a concrete system, the revert history of the design (run, edit, faulty run, revert, run) -/
def exS : Sys Nat Unit Nat Nat where
  key := fun s _ => s
  gen := fun s _ => [("types.ts", s), ("commands.ts", s + 100), ("index.ts", 7)]
  empty := fun _ => false
def exHist : List (Step Nat Unit) := [.run false none, .setSrc 1, .run false (some 2), .setSrc 0, .run false none]
example : ((exec exS { src := 0, cfg := (), out := { files := fun _ => none, cache := none } } exHist).out.files "types.ts",
           (exec exS { src := 0, cfg := (), out := { files := fun _ => none, cache := none } } exHist).out.files "commands.ts",
           (exec exS { src := 0, cfg := (), out := { files := fun _ => none, cache := none } } exHist).out.cache)
    = (some 0, some 100, some 0) := by decide +kernel

/-! ## the modelled tool itself (analysis model + generator model behind the run model): no hypothesis about the key -/
open TG.C08 in
/-- every crash point of a run of the modelled tool leaves a directory whose cache record vouches only for files that are
    current or missing -/
theorem C17_every_prefix_concrete (src : Pj.Project) (cfg : Gn.Config) (o : Out (KS.View × Gn.Config) Str)
    (hI : Inv concreteSys o) (k : Nat) : Inv concreteSys (crashed concreteSys src cfg k o) :=
  C17_every_prefix concreteSys src cfg o concrete_keySound (concrete_namesDistinct src cfg) hI k

open TG.C08 in
/-- recovery for the modelled tool: after any history (faulty runs included) from an empty output directory, the next
    successful non-forced run ends with every file of a fresh generation in place -/
theorem C17_recovery_concrete (src : Pj.Project) (cfg : Gn.Config) (h : List (Step Pj.Project Gn.Config)) :
    let w := exec concreteSys { src := src, cfg := cfg, out := { files := fun _ => none, cache := none } } h
    concreteSys.empty w.src = false → (run concreteSys w.src w.cfg false none w.out).1 = .ok →
    Current (run concreteSys w.src w.cfg false none w.out).2.2 (concreteSys.gen w.src w.cfg) :=
  C17_recovery concreteSys concrete_keySound concrete_namesDistinct _ (inv_empty concreteSys) h

/-! ## the build-script path -/

/-- a build-script run whose clean-up fails after the files were written (a stale generated-looking file that cannot be
    removed) reports failure and leaves no record behind: whatever the sources, the next non-forced run is no cache hit -/
theorem C17_build_cleanup_failure_not_remembered {Src Cfg Key Content : Type} [DecidableEq Key]
    (S : Sys Src Cfg Key Content) (isGen : Name → Bool) (present : List Name) (src : Src) (cfg : Cfg)
    (forced : Bool) (fault : Option Nat) (o : Out Key Content)
    (hok : (runBuild S isGen present src cfg forced fault o).1 = .ok)
    (hcmd : (runBuild S isGen present src cfg forced fault o).2.1 ≠ .noCommands) :
    (runBuildF S isGen present true src cfg forced fault o).1 = .err ∧
    (runBuildF S isGen present true src cfg forced fault o).2.2.cache = none ∧
    ∀ src' cfg', upToDate S src' cfg' false (runBuildF S isGen present true src cfg forced fault o).2.2 = false :=
  runBuildF_cleanup_failure S isGen present src cfg forced fault o hok hcmd

/-- a fault inside the run proper is reported by the build-script path exactly as by the CLI path (no clean-up follows) -/
theorem C17_build_fault_as_cli {Src Cfg Key Content : Type} [DecidableEq Key]
    (S : Sys Src Cfg Key Content) (isGen : Name → Bool) (present : List Name) (cf : Bool) (src : Src) (cfg : Cfg)
    (forced : Bool) (fault : Option Nat) (o : Out Key Content) (h : (run S src cfg forced fault o).1 = .err) :
    runBuildF S isGen present cf src cfg forced fault o = run S src cfg forced fault o := by
  have hb : runBuild S isGen present src cfg forced fault o = run S src cfg forced fault o := by
    unfold runBuild; simp [h]
  unfold runBuildF
  simp [hb, h]

/-- **recovery over histories that mix the two entry points**: after any history of edits, deletions, record losses,
    command-line runs, build-script runs (forced or not, with any fault, with or without a failing clean-up) and crashes
    from a state satisfying the invariant, the next successful non-forced command-line run ends with every file of a fresh
    generation in place: one directory, one record, whoever wrote it -/
theorem C17_mixed_history_recovery {Src Cfg Key Content : Type} [DecidableEq Key]
    (S : Sys Src Cfg Key Content) (isGen : Name → Bool)
    (keySound : ∀ s c s' c', S.key s c = S.key s' c' → S.gen s c = S.gen s' c')
    (hd : ∀ s c, NamesDistinct (S.gen s c))
    (w0 : World Src Cfg Key Content) (hI : Inv S w0.out) (h : List (MStep Src Cfg)) :
    let w := mexec S isGen w0 h
    S.empty w.src = false → (run S w.src w.cfg false none w.out).1 = .ok →
    Current (run S w.src w.cfg false none w.out).2.2 (S.gen w.src w.cfg) := by
  intro w hne hok
  exact run_ok_current S w.src w.cfg w.out false none (mexec_inv S isGen keySound hd w0 h hI) (hd _ _) hne hok

open TG.C08 in
/-- … for the modelled tool, from an empty output directory, with no hypothesis about the key -/
theorem C17_mixed_history_recovery_concrete (isGen : Name → Bool) (src : Pj.Project) (cfg : Gn.Config)
    (h : List (MStep Pj.Project Gn.Config)) :
    let w := mexec concreteSys isGen { src := src, cfg := cfg, out := { files := fun _ => none, cache := none } } h
    concreteSys.empty w.src = false → (run concreteSys w.src w.cfg false none w.out).1 = .ok →
    Current (run concreteSys w.src w.cfg false none w.out).2.2 (concreteSys.gen w.src w.cfg) :=
  C17_mixed_history_recovery concreteSys isGen concrete_keySound concrete_namesDistinct _ (inv_empty concreteSys) h

end TG.C17
