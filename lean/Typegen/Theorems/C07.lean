import Typegen.ProjectSpec
import Typegen.TablesExpected
/-! # C07 — types.ts declares exactly the serde types reachable from the public surface

`Gn.usedNames` mirrors `TypeCollector::collect_used_types` + `add_event_types`: seeds are the custom
names of parameter / return / channel / event-payload type structures, closed under the field types of
known structs by the worklist `Gn.nested`, then restricted to discovered serde types. -/
namespace TG.C07
open Pj An Gn L

/-- every emitted name is a discovered serde type: nothing undefined, nothing non-serde is declared -/
theorem C07_declared_are_serde_types (a : Analysis) (n : Str) (h : n ∈ usedNames a) :
    (findStruct a.structs n).isSome = true := by
  unfold usedNames at h
  simp only at h
  have := List.mem_eraseDups.mp h
  exact (List.mem_filter.mp this).2

theorem nodup_eraseDups {α : Type} [BEq α] [LawfulBEq α] : ∀ (l : List α), l.eraseDups.Nodup
  | [] => by simp
  | a :: as => by
    rw [List.eraseDups_cons]
    apply List.nodup_cons.mpr
    constructor
    · intro h
      have := (List.mem_filter.mp (List.mem_eraseDups.mp h)).2
      simp at this
    · exact nodup_eraseDups (as.filter (fun b => b != a))
termination_by l => l.length
decreasing_by
  simp only [List.length_cons]
  have := List.length_filter_le (fun b => b != a) as
  omega

/-- each type is declared exactly once -/
theorem C07_declared_once (a : Analysis) : (usedNames a).Nodup := by
  unfold usedNames
  exact nodup_eraseDups _

/-- the worklist only ever grows the set of seen names … -/
theorem nested_mono (all : List SInfo) : ∀ (fuel : Nat) (todo seen : List Str) (x : Str),
    x ∈ seen → x ∈ nested all fuel todo seen
  | 0, _, _, _, h => by simpa [nested] using h
  | _+1, [], _, _, h => by simpa [nested] using h
  | fuel+1, n :: todo, seen, x, h => by
    unfold nested
    split
    · exact nested_mono all fuel todo seen x h
    · exact nested_mono all fuel _ _ x (List.mem_append_left _ h)

/-- … and only with names reachable from it: every name it adds is referenced by a field of a struct that
    was already seen (soundness of the closure, any fuel) -/
inductive Reach (all : List SInfo) (seeds : List Str) : Str → Prop
  | seed {x} : x ∈ seeds → Reach all seeds x
  | field {x y} (s : SInfo) : Reach all seeds x → findStruct all x = some s →
      y ∈ (s.fields.flatMap fun f => customs (tsOfStr f.rustType)) → Reach all seeds y

theorem nested_sound (all : List SInfo) (seeds : List Str) : ∀ (fuel : Nat) (todo seen : List Str),
    (∀ x ∈ seen, Reach all seeds x) → (∀ x ∈ todo, Reach all seeds x) →
    ∀ x ∈ nested all fuel todo seen, Reach all seeds x
  | 0, _, _, hs, _ => by simpa [nested] using hs
  | _+1, [], _, hs, _ => by simpa [nested] using hs
  | fuel+1, n :: todo, seen, hs, ht => by
    unfold nested
    split
    · exact nested_sound all seeds fuel todo seen hs (fun x hx => ht x (List.mem_cons_of_mem _ hx))
    · next s hfind =>
      have hn : Reach all seeds n := ht n (by simp)
      have hfresh : ∀ y ∈ ((s.fields.flatMap fun f => customs (tsOfStr f.rustType)).eraseDups.filter
          fun r => !seen.contains r && (findStruct all r).isSome).eraseDups, Reach all seeds y := by
        intro y hy
        have h1 := List.mem_eraseDups.mp hy
        have h2 := (List.mem_filter.mp h1).1
        exact Reach.field s hn hfind (List.mem_eraseDups.mp h2)
      apply nested_sound all seeds fuel
      · intro x hx
        rcases List.mem_append.mp hx with h | h
        · exact hs x h
        · exact hfresh x h
      · intro x hx
        rcases List.mem_append.mp hx with h | h
        · exact hfresh x h
        · exact ht x (List.mem_cons_of_mem _ h)

/-- the seeds of the public surface: customs of parameter, return and channel types of commands, and of
    event payloads -/
def seeds (a : Analysis) : List Str :=
  (a.commands.flatMap fun c =>
    (c.params.flatMap fun p => customs (tsOfStr p.rustType)) ++ customs (tsOfStr c.ret) ++
    (c.channels.flatMap fun ch => customs (tsOfStr ch.msgType))) ++
  (a.events.flatMap fun e => customs (tsOfStr e.payload))

/-- **C07 (soundness half)**: everything declared is reachable from the public surface through field
    types, and is a discovered serde type -/
theorem C07_declared_reachable (a : Analysis) (n : Str) (h : n ∈ usedNames a) : Reach a.structs (seeds a) n := by
  unfold usedNames at h
  simp only at h
  have h1 := (List.mem_filter.mp (List.mem_eraseDups.mp h)).1
  rcases List.mem_append.mp h1 with h2 | h2
  · refine nested_sound a.structs (seeds a) _ _ _ ?_ ?_ n h2 <;>
    · intro x hx
      refine Reach.seed ?_
      unfold seeds
      exact List.mem_append_left _ (List.mem_eraseDups.mp hx)
  · refine nested_sound a.structs (seeds a) _ _ _ ?_ ?_ n h2 <;>
    · intro x hx
      refine Reach.seed ?_
      unfold seeds
      exact List.mem_append_right _ (List.mem_eraseDups.mp hx)

/-- every seed that is a discovered serde type is declared (depth 0 of the completeness half) -/
theorem C07_seeds_declared (a : Analysis) (n : Str) (hs : n ∈ seeds a) (hd : (findStruct a.structs n).isSome = true) :
    n ∈ usedNames a := by
  unfold usedNames
  simp only
  apply List.mem_eraseDups.mpr
  apply List.mem_filter.mpr
  refine ⟨?_, hd⟩
  unfold seeds at hs
  rcases List.mem_append.mp hs with h | h
  · exact List.mem_append_left _ (nested_mono _ _ _ _ _ (List.mem_eraseDups.mpr h))
  · exact List.mem_append_right _ (nested_mono _ _ _ _ _ (List.mem_eraseDups.mpr h))

/-- K07b witness: a comma-bearing ok-type yields junk names instead of the real ones (kernel-evaluated) -/
theorem K07b_witness : harvest 50 cl!"Result<HashMap<String, Foo>, String>" = [cl!"Foo>, String"] := by decide +kernel
/-- K07c witness: the derive test is a substring test -/
theorem K07c_witness :
    shouldInclude [{ path := [cl!"derive"], isList := true, tokens := cl!"MySerializeLike", metaTokens := cl!"derive (MySerializeLike)" }] = true ∧
    Sp.specDerivesSerde [{ path := [cl!"derive"], isList := true, tokens := cl!"MySerializeLike", metaTokens := cl!"derive (MySerializeLike)" }] = false := by
  decide +kernel


/-- the literals of `StructParser::should_include` (what counts as a serde type), re-read from the source on this run -/
theorem C07_source_table_derive : Exp.litsOf "should_include" = Exp.shouldInclude := by decide

end TG.C07
