import Typegen.ProjectSpec
import Typegen.TablesExpected
import Typegen.Discovery
/-! # C07 — types.ts declares exactly the serde types reachable from the public surface

`Gn.usedNames` mirrors `TypeCollector::collect_used_types` + `add_event_types`: seeds are the custom
names of parameter / return / channel / event-payload type structures, closed under the field types of
known structs by the worklist `Gn.nested`, then restricted to discovered serde types. -/
namespace TG.C07
open Pj An Gn L

/-- every emitted name is a discovered serde type: nothing undefined, nothing non-serde is declared -/
theorem C07_declared_are_serde_types (a : Analysis) (n : Str) (h : n ∈ usedNames a) :
    (findStruct a.structs n).isSome = true := by
  unfold usedNames at h
  simp only at h
  have := List.mem_eraseDups.mp h
  exact (List.mem_filter.mp this).2

theorem nodup_eraseDups {α : Type} [BEq α] [LawfulBEq α] : ∀ (l : List α), l.eraseDups.Nodup
  | [] => by simp
  | a :: as => by
    rw [List.eraseDups_cons]
    apply List.nodup_cons.mpr
    constructor
    · intro h
      have := (List.mem_filter.mp (List.mem_eraseDups.mp h)).2
      simp at this
    · exact nodup_eraseDups (as.filter (fun b => b != a))
termination_by l => l.length
decreasing_by
  simp only [List.length_cons]
  have := List.length_filter_le (fun b => b != a) as
  omega

/-- each type is declared exactly once -/
theorem C07_declared_once (a : Analysis) : (usedNames a).Nodup := by
  unfold usedNames
  exact nodup_eraseDups _

/-- the worklist only ever grows the set of seen names … -/
theorem nested_mono (all : List SInfo) : ∀ (fuel : Nat) (todo seen : List Str) (x : Str),
    x ∈ seen → x ∈ nested all fuel todo seen
  | 0, _, _, _, h => by simpa [nested] using h
  | _+1, [], _, _, h => by simpa [nested] using h
  | fuel+1, n :: todo, seen, x, h => by
    unfold nested
    split
    · exact nested_mono all fuel todo seen x h
    · exact nested_mono all fuel _ _ x (List.mem_append_left _ h)

/-- … and only with names reachable from it: every name it adds is referenced by a field of a struct that
    was already seen (soundness of the closure, any fuel) -/
inductive Reach (all : List SInfo) (seeds : List Str) : Str → Prop
  | seed {x} : x ∈ seeds → Reach all seeds x
  | field {x y} (s : SInfo) : Reach all seeds x → findStruct all x = some s →
      y ∈ (s.fields.flatMap fun f => customs (tsOfStr f.rustType)) → Reach all seeds y

theorem nested_sound (all : List SInfo) (seeds : List Str) : ∀ (fuel : Nat) (todo seen : List Str),
    (∀ x ∈ seen, Reach all seeds x) → (∀ x ∈ todo, Reach all seeds x) →
    ∀ x ∈ nested all fuel todo seen, Reach all seeds x
  | 0, _, _, hs, _ => by simpa [nested] using hs
  | _+1, [], _, hs, _ => by simpa [nested] using hs
  | fuel+1, n :: todo, seen, hs, ht => by
    unfold nested
    split
    · exact nested_sound all seeds fuel todo seen hs (fun x hx => ht x (List.mem_cons_of_mem _ hx))
    · next s hfind =>
      have hn : Reach all seeds n := ht n (by simp)
      have hfresh : ∀ y ∈ ((s.fields.flatMap fun f => customs (tsOfStr f.rustType)).eraseDups.filter
          fun r => !seen.contains r && (findStruct all r).isSome).eraseDups, Reach all seeds y := by
        intro y hy
        have h1 := List.mem_eraseDups.mp hy
        have h2 := (List.mem_filter.mp h1).1
        exact Reach.field s hn hfind (List.mem_eraseDups.mp h2)
      apply nested_sound all seeds fuel
      · intro x hx
        rcases List.mem_append.mp hx with h | h
        · exact hs x h
        · exact hfresh x h
      · intro x hx
        rcases List.mem_append.mp hx with h | h
        · exact hfresh x h
        · exact ht x (List.mem_cons_of_mem _ h)

/-- the seeds of the public surface: customs of parameter, return and channel types of commands, and of
    event payloads -/
def seeds (a : Analysis) : List Str :=
  (a.commands.flatMap fun c =>
    (c.params.flatMap fun p => customs (tsOfStr p.rustType)) ++ customs (tsOfStr c.ret) ++
    (c.channels.flatMap fun ch => customs (tsOfStr ch.msgType))) ++
  (a.events.flatMap fun e => customs (tsOfStr e.payload))

/-- **C07 (soundness half)**: everything declared is reachable from the public surface through field
    types, and is a discovered serde type -/
theorem C07_declared_reachable (a : Analysis) (n : Str) (h : n ∈ usedNames a) : Reach a.structs (seeds a) n := by
  unfold usedNames at h
  simp only at h
  have h1 := (List.mem_filter.mp (List.mem_eraseDups.mp h)).1
  rcases List.mem_append.mp h1 with h2 | h2
  · refine nested_sound a.structs (seeds a) _ _ _ ?_ ?_ n h2 <;>
    · intro x hx
      refine Reach.seed ?_
      unfold seeds
      exact List.mem_append_left _ (List.mem_eraseDups.mp hx)
  · refine nested_sound a.structs (seeds a) _ _ _ ?_ ?_ n h2 <;>
    · intro x hx
      refine Reach.seed ?_
      unfold seeds
      exact List.mem_append_right _ (List.mem_eraseDups.mp hx)

/-- every seed that is a discovered serde type is declared (depth 0 of the completeness half) -/
theorem C07_seeds_declared (a : Analysis) (n : Str) (hs : n ∈ seeds a) (hd : (findStruct a.structs n).isSome = true) :
    n ∈ usedNames a := by
  unfold usedNames
  simp only
  apply List.mem_eraseDups.mpr
  apply List.mem_filter.mpr
  refine ⟨?_, hd⟩
  unfold seeds at hs
  rcases List.mem_append.mp hs with h | h
  · exact List.mem_append_left _ (nested_mono _ _ _ _ _ (List.mem_eraseDups.mpr h))
  · exact List.mem_append_right _ (nested_mono _ _ _ _ _ (List.mem_eraseDups.mpr h))

/-- K07b witness: a comma-bearing ok-type yields junk names instead of the real ones (kernel-evaluated) -/
theorem K07b_witness : harvest 50 cl!"Result<HashMap<String, Foo>, String>" = [cl!"Foo>, String"] := by decide +kernel
/-- K07e witness: a type name that does not start with an upper-case letter is never harvested -/
theorem K07e_witness : harvest 30 cl!"Vec<snake_type>" = [] ∧ harvest 30 cl!"Vec<SnakeType>" = [cl!"SnakeType"] := by decide +kernel
/-- K07c witness: the derive test is a substring test -/
theorem K07c_witness :
    shouldInclude [{ path := [cl!"derive"], isList := true, tokens := cl!"MySerializeLike", metaTokens := cl!"derive (MySerializeLike)" }] = true ∧
    Sp.specDerivesSerde [{ path := [cl!"derive"], isList := true, tokens := cl!"MySerializeLike", metaTokens := cl!"derive (MySerializeLike)" }] = false := by
  decide +kernel


/-- the literals of `StructParser::should_include` (what counts as a serde type), re-read from the source on this run -/
theorem C07_source_table_derive : Exp.litsOf "should_include" = Exp.shouldInclude := by decide


/-! ## completeness of the worklist closure -/

def refsOfS (s : SInfo) : List Str := s.fields.flatMap fun f => customs (tsOfStr f.rustType)

def Closed (all : List SInfo) (R : List Str) : Prop :=
  ∀ x ∈ R, ∀ s, findStruct all x = some s → ∀ y ∈ refsOfS s, (findStruct all y).isSome = true → y ∈ R

def Inv (all : List SInfo) (todo seen : List Str) : Prop :=
  ∀ x ∈ seen, x ∉ todo → ∀ s, findStruct all x = some s → ∀ y ∈ refsOfS s, (findStruct all y).isSome = true → y ∈ seen

/-- struct names not yet seen -/
def unseen (all : List SInfo) (seen : List Str) : List Str :=
  ((all.map (·.name)).eraseDups).filter fun n => !seen.contains n

theorem filter_sub_len {A B : List Str} (hA : A.Nodup) (hB : B.Nodup) (hsub : ∀ b ∈ B, b ∈ A) :
    (A.filter fun x => !B.contains x).length + B.length ≤ A.length := by
  induction A generalizing B with
  | nil =>
    cases B with
    | nil => simp
    | cons b _ => exact absurd (hsub b (by simp)) (by simp)
  | cons a A' ih =>
    have hA' := (List.nodup_cons.mp hA)
    by_cases ha : a ∈ B
    · have hB' : (B.erase a).Nodup := hB.erase a
      have hsub' : ∀ b ∈ B.erase a, b ∈ A' := by
        intro b hb
        have hbB := List.mem_of_mem_erase hb
        have hne : b ≠ a := by
          intro e; subst e
          exact (List.Nodup.not_mem_erase hB) hb
        rcases List.mem_cons.mp (hsub b hbB) with h | h
        · exact absurd h hne
        · exact h
      have e : (A'.filter fun x => !B.contains x) = (A'.filter fun x => !(B.erase a).contains x) := by
        apply List.filter_congr
        intro x hx
        have hxa : x ≠ a := fun e => hA'.1 (e ▸ hx)
        simp [List.mem_erase_of_ne hxa]
      have hlen : B.length = (B.erase a).length + 1 := by
        rw [List.length_erase_of_mem ha]
        have : 0 < B.length := List.length_pos_of_mem ha
        omega
      have := ih hA'.2 hB' hsub'
      have hf : (List.filter (fun x => !B.contains x) (a :: A')) = List.filter (fun x => !B.contains x) A' := by
        simp [List.filter_cons, ha]
      rw [hf, e, hlen]
      simp only [List.length_cons]
      omega
    · have hsub' : ∀ b ∈ B, b ∈ A' := by
        intro b hb
        rcases List.mem_cons.mp (hsub b hb) with h | h
        · exact absurd (h ▸ hb) ha
        · exact h
      have := ih hA'.2 hB hsub'
      have hf : (List.filter (fun x => !B.contains x) (a :: A')) = a :: List.filter (fun x => !B.contains x) A' := by
        simp [List.filter_cons, ha]
      rw [hf]
      simp only [List.length_cons]
      omega

theorem unseen_nodup (all : List SInfo) (seen : List Str) : (unseen all seen).Nodup :=
  (nodup_eraseDups _).filter _

theorem findStruct_mem_names {all : List SInfo} {y : Str} (h : (findStruct all y).isSome = true) :
    y ∈ (all.map (·.name)).eraseDups := by
  apply List.mem_eraseDups.mpr
  cases hf : findStruct all y with
  | none => simp [hf] at h
  | some s =>
    have hm := List.mem_of_find?_eq_some hf
    have hn : s.name = y := by simpa using List.find?_some hf
    exact List.mem_map.mpr ⟨s, hm, hn⟩

/-- pushing `fresh` (distinct unseen struct names) shrinks the unseen set by at least `|fresh|` -/
theorem unseen_shrinks (all : List SInfo) (seen fresh : List Str) (hn : fresh.Nodup)
    (hf : ∀ y ∈ fresh, y ∉ seen ∧ (findStruct all y).isSome = true) :
    (unseen all (seen ++ fresh)).length + fresh.length ≤ (unseen all seen).length := by
  have e : unseen all (seen ++ fresh) = (unseen all seen).filter fun x => !fresh.contains x := by
    unfold unseen
    rw [List.filter_filter]
    apply List.filter_congr
    intro x _
    simp [List.mem_append, not_or, Bool.and_comm]
  rw [e]
  apply filter_sub_len (unseen_nodup all seen) hn
  intro b hb
  have := hf b hb
  unfold unseen
  apply List.mem_filter.mpr
  exact ⟨findStruct_mem_names this.2, by simpa using this.1⟩

/-- **completeness of the worklist**: with enough fuel the result is closed under "field type of a known struct" -/
theorem nested_closed (all : List SInfo) : ∀ (fuel : Nat) (todo seen : List Str),
    todo.length + (unseen all seen).length ≤ fuel → Inv all todo seen → Closed all (nested all fuel todo seen)
  | 0, todo, seen, hm, hinv => by
    have : todo = [] := by
      cases todo with
      | nil => rfl
      | cons _ _ => simp at hm
    subst this
    simp only [nested]
    intro x hx s hs y hy hys
    exact hinv x hx (by simp) s hs y hy hys
  | _+1, [], seen, _, hinv => by
    simp only [nested]
    intro x hx s hs y hy hys
    exact hinv x hx (by simp) s hs y hy hys
  | fuel+1, n :: todo, seen, hm, hinv => by
    unfold nested
    split
    · next hnone =>
      apply nested_closed all fuel todo seen (by simp at hm; omega)
      intro x hx hxt s hs y hy hys
      by_cases hxn : x = n
      · subst hxn; rw [hnone] at hs; exact absurd hs (by simp)
      · exact hinv x hx (by simp [hxn, hxt]) s hs y hy hys
    · next s hsome =>
      simp only
      -- the fresh names
      generalize hfr : ((s.fields.flatMap fun f => customs (tsOfStr f.rustType)).eraseDups.filter
          fun r => !seen.contains r && (findStruct all r).isSome).eraseDups = fresh
      have hfn : fresh.Nodup := by rw [← hfr]; exact nodup_eraseDups _
      have hfp : ∀ y ∈ fresh, y ∉ seen ∧ (findStruct all y).isSome = true := by
        intro y hy
        rw [← hfr] at hy
        have h1 := (List.mem_filter.mp (List.mem_eraseDups.mp hy)).2
        simpa using h1
      have hfm : ∀ y ∈ refsOfS s, (findStruct all y).isSome = true → y ∈ seen ∨ y ∈ fresh := by
        intro y hy hys
        by_cases hseen : y ∈ seen
        · exact .inl hseen
        · refine .inr ?_
          rw [← hfr]
          apply List.mem_eraseDups.mpr
          apply List.mem_filter.mpr
          exact ⟨List.mem_eraseDups.mpr hy, by simp [hseen, hys]⟩
      have hsh := unseen_shrinks all seen fresh hfn hfp
      apply nested_closed all fuel (fresh ++ todo) (seen ++ fresh)
      · simp at hm ⊢; omega
      · intro x hx hxt s' hs' y hy hys
        have hxf : x ∉ fresh := fun h => hxt (List.mem_append_left _ h)
        have hxtodo : x ∉ todo := fun h => hxt (List.mem_append_right _ h)
        have hxs : x ∈ seen := by
          rcases List.mem_append.mp hx with h | h
          · exact h
          · exact absurd h hxf
        by_cases hxn : x = n
        · subst hxn
          rw [hsome] at hs'
          cases hs'
          rcases hfm y hy hys with h | h
          · exact List.mem_append_left _ h
          · exact List.mem_append_right _ h
        · exact List.mem_append_left _ (hinv x hxs (by simp [hxn, hxtodo]) s' hs' y hy hys)

theorem eraseDups_length_le : ∀ (l : List Str), l.eraseDups.length ≤ l.length
  | [] => by simp
  | a :: l => by
    rw [List.eraseDups_cons]
    have := eraseDups_length_le (l.filter fun b => !b == a)
    have h2 := List.length_filter_le (fun b => !b == a) l
    simp only [List.length_cons]
    omega
termination_by l => l.length
decreasing_by
  simp only [List.length_cons]
  have := List.length_filter_le (fun b => !b == a) l
  omega

theorem unseen_le (all : List SInfo) (seen : List Str) : (unseen all seen).length ≤ all.length := by
  unfold unseen
  calc _ ≤ ((all.map (·.name)).eraseDups).length := List.length_filter_le _ _
    _ ≤ (all.map (·.name)).length := eraseDups_length_le _
    _ = all.length := by simp

/-- the closure started from `seeds` (as in `usedNames`) is closed and contains the seeds -/
theorem nested_from_seeds_closed (all : List SInfo) (seeds : List Str) :
    Closed all (nested all (all.length * (all.length + 1) + seeds.length + 1) seeds seeds) := by
  apply nested_closed
  · have := unseen_le all seeds
    have : all.length ≤ all.length * (all.length + 1) := by
      cases all.length with
      | zero => simp
      | succ k => exact Nat.le_mul_of_pos_right _ (by omega)
    omega
  · intro x hx hxt; exact absurd hx hxt

theorem reach_split (all : List SInfo) (A B : List Str) {x : Str} (h : Reach all (A ++ B) x) :
    Reach all A x ∨ Reach all B x := by
  induction h with
  | seed hx =>
    rcases List.mem_append.mp hx with h | h
    · exact .inl (.seed h)
    · exact .inr (.seed h)
  | field s _ hf hy ih =>
    rcases ih with h | h
    · exact .inl (.field s h hf hy)
    · exact .inr (.field s h hf hy)

theorem reach_in_closed (all : List SInfo) (S R : List Str) (hc : Closed all R) (hs : ∀ x ∈ S, x ∈ R) {x : Str}
    (h : Reach all S x) (hd : (findStruct all x).isSome = true) : x ∈ R := by
  induction h with
  | seed hx => exact hs _ hx
  | field s _ hf hy ih =>
    have hx := ih (by simp [hf])
    exact hc _ hx s hf _ hy hd

/-- **C07 (completeness half)**: every discovered serde type that is reachable from the public surface through
    field types is declared — the worklist closure with the fuel the generator's model uses is complete -/
theorem C07_reachable_declared (a : Analysis) (n : Str) (hr : Reach a.structs (seeds a) n)
    (hd : (findStruct a.structs n).isSome = true) : n ∈ usedNames a := by
  unfold usedNames
  simp only
  apply List.mem_eraseDups.mpr
  apply List.mem_filter.mpr
  refine ⟨?_, hd⟩
  unfold seeds at hr
  rcases reach_split _ _ _ hr with h | h
  · apply List.mem_append_left
    refine reach_in_closed a.structs _ _ (nested_from_seeds_closed a.structs _) ?_ h hd
    intro x hx
    exact nested_mono _ _ _ _ _ (List.mem_eraseDups.mpr hx)
  · apply List.mem_append_right
    refine reach_in_closed a.structs _ _ (nested_from_seeds_closed a.structs _) ?_ h hd
    intro x hx
    exact nested_mono _ _ _ _ _ (List.mem_eraseDups.mpr hx)

/-- **C07**: declared = reachable ∩ discovered serde types (model level) -/
theorem C07_declared_iff (a : Analysis) (n : Str) :
    n ∈ usedNames a ↔ (Reach a.structs (seeds a) n ∧ (findStruct a.structs n).isSome = true) := by
  constructor
  · intro h
    refine ⟨C07_declared_reachable a n h, ?_⟩
    unfold usedNames at h
    exact (List.mem_filter.mp (List.mem_eraseDups.mp h)).2
  · intro ⟨hr, hd⟩; exact C07_reachable_declared a n hr hd




/-! ## completeness of the *analysis'* type discovery -/

/-- **C07 at analysis level**: every name harvested from the public surface (parameter, return, channel and event payload
    types) or from a field of an already discovered type, for which the selected files hold a definition the extractor
    accepts, is discovered: the lazy resolution is a fixed point, with the fuel the model uses.  (What remains tied by
    the oracle only: that *harvesting* a type string yields its identifiers — proved for well-formed comma-safe strings
    in Appendix F / `L.H1`, false on the K07b class — and that the derive test is the token-aware one, K07c.) -/
theorem C07_discovery_closed (p : Pj.Project) : DS.ClosedR (DS.aFiles p) (DS.aSeeds p) (DS.aResolved p) :=
  DS.C07_discovery_closed p

/-- the discovered structs of the analysis are exactly the resolved list (sorted) -/
theorem C07_structs_are_resolved (p : Pj.Project) :
    (An.analyze p).structs = (An.sortBy (fun (d : An.SInfo × List Str) => d.1.name) (DS.aResolved p)).map (·.1) :=
  DS.structs_of_resolved p

end TG.C07
