import Typegen.Config
/-! # C19 — configuration is preserved, round-trips, and obeys flag > file > default -/
namespace TG.C19
open Cf

/-- the inserted key reads back the inserted value -/
theorem lookup_insert_same : ∀ (kvs : List (String × J)) (k : String) (v : J), lookup (insertKV kvs k v) k = some v
  | [], k, v => by simp [insertKV, lookup]
  | p :: rest, k, v => by
    unfold insertKV
    split
    · simp [lookup]
    · next h => simp [lookup, h, lookup_insert_same rest k v]

/-- inserting a key leaves every other key's value untouched -/
theorem lookup_insert_other : ∀ (kvs : List (String × J)) (k k' : String) (v : J), k' ≠ k →
    lookup (insertKV kvs k v) k' = lookup kvs k'
  | [], k, k', v, h => by simp [insertKV, lookup, Ne.symm h]
  | p :: rest, k, k', v, h => by
    unfold insertKV
    split
    · next hp =>
      have : p.1 ≠ k' := by rw [hp]; exact Ne.symm h
      simp [lookup, Ne.symm h, this]
    · next hp =>
      by_cases hk : p.1 = k'
      · simp [lookup, hk]
      · simp [lookup, hk, lookup_insert_other rest k k' v h]

/-- **preservation (top level)**: writing the settings leaves the value of every top-level key other than
    `plugins` exactly as it was, for every object document -/
theorem C19_save_preserves_top (kvs : List (String × J)) (s : Settings) (out : J)
    (h : saveToTauri (.obj kvs) s = .ok out) (k : String) (hk : k ≠ "plugins") :
    out.get k = (J.obj kvs).get k := by
  unfold saveToTauri at h
  simp only at h
  split at h
  · simp only [Except.ok.injEq] at h
    subst h
    exact lookup_insert_other kvs "plugins" k _ hk
  · cases h

/-- **preservation (inside `plugins`)**: every other plugin's entry is untouched -/
theorem C19_save_preserves_plugins (kvs : List (String × J)) (s : Settings) (out : J)
    (h : saveToTauri (.obj kvs) s = .ok out) (k : String) (hk : k ≠ "typegen") :
    (out.get "plugins").bind (·.get k) = ((J.obj kvs).get "plugins").bind (·.get k) := by
  unfold saveToTauri at h
  simp only at h
  split at h
  · next pl hpl =>
    simp only [Except.ok.injEq] at h
    subst h
    simp only [J.get, lookup_insert_same, Option.bind_some, lookup_insert_other pl "typegen" k _ hk]
    cases hl : lookup kvs "plugins" with
    | none =>
      rw [hl] at hpl
      simp only [Option.getD_none, J.obj.injEq] at hpl
      subst hpl
      simp [lookup]
    | some pv =>
      rw [hl] at hpl
      simp only [Option.getD_some] at hpl
      subst hpl
      simp [J.get]
  · cases h

/-- **read back**: the document written by `save` contains exactly the written block -/
theorem C19_load_after_save (kvs : List (String × J)) (s : Settings) (out : J)
    (h : saveToTauri (.obj kvs) s = .ok out) :
    (out.get "plugins").bind (·.get "typegen") = some (typegenBlock s) := by
  unfold saveToTauri at h
  simp only at h
  split at h
  · simp only [Except.ok.injEq] at h
    subst h
    simp [J.get, lookup_insert_same]
  · cases h

/-- reading the written block: every scalar setting is the written one -/
theorem C19_read_block_scalars (s : Settings) (doc : J)
    (h : (doc.get "plugins").bind (·.get "typegen") = some (typegenBlock s)) :
    ∃ r, readTypegen doc = some r ∧ r.projectPath = s.projectPath ∧ r.outputPath = s.outputPath ∧
      r.validationLibrary = s.validationLibrary ∧ r.verbose = s.verbose ∧ r.visualizeDeps = s.visualizeDeps ∧
      r.includePrivate = s.includePrivate ∧ r.force = s.force := by
  unfold readTypegen
  rw [h]
  refine ⟨_, rfl, ?_, ?_, ?_, ?_, ?_, ?_, ?_⟩ <;> simp [typegenBlock, J.get, lookup, J.asStr, J.asBool]

/-- **precedence**: each of project path, output path and validation library is the flag when given, else
    the file's value when a file block was read, else the default; verbosity / visualisation / force are
    flag ∨ file -/
theorem C19_precedence (fl : Flags) (file : Option Settings) :
    (effective fl file).projectPath = (fl.projectPath.getD ((file.getD defaults).projectPath)) ∧
    (effective fl file).outputPath = (fl.outputPath.getD ((file.getD defaults).outputPath)) ∧
    (effective fl file).validationLibrary = (fl.validationLibrary.getD ((file.getD defaults).validationLibrary)) ∧
    (effective fl file).verbose = (fl.verbose || (file.getD defaults).verbose) ∧
    (effective fl file).force = (fl.force || (file.getD defaults).force) := by
  simp [effective]

/-- **reject first**: an unsupported library or a missing project path in the *effective* settings is an
    error (and `resolve` performs no write: it is a pure function of its inputs) -/
theorem C19_reject_invalid (ex : String → Bool) (fl : Flags) (doc : Option J)
    (h : let s := effective fl (doc.bind readTypegen)
         (s.validationLibrary ≠ "zod" ∧ s.validationLibrary ≠ "none") ∨ ex s.projectPath = false) :
    ∃ e, resolve ex fl doc = .error e := by
  simp only at h
  unfold resolve validate
  rcases h with ⟨h1, h2⟩ | h
  · have : ((effective fl (doc.bind readTypegen)).validationLibrary != "zod" &&
        (effective fl (doc.bind readTypegen)).validationLibrary != "none") = true := by simp [h1, h2]
    simp only [this, if_true]; exact ⟨_, rfl⟩
  · by_cases hl : ((effective fl (doc.bind readTypegen)).validationLibrary != "zod" &&
        (effective fl (doc.bind readTypegen)).validationLibrary != "none") = true
    · simp only [hl, if_true]; exact ⟨_, rfl⟩
    · simp only [hl, Bool.false_eq_true, if_false, h, Bool.not_false, if_true]; exact ⟨_, rfl⟩

/-! non-vacuity -/
def exDoc : J := .obj [("productName", .str "demo"), ("build", .obj [("devPath", .str "../dist")]),
  ("plugins", .obj [("shell", .obj [("open", .bool true)]), ("typegen", .obj [("outputPath", .str "old")])])]
example : ∃ out, saveToTauri exDoc defaults = .ok out := ⟨_, rfl⟩
example : (readTypegen exDoc).map (·.outputPath) = some "old" := by decide +kernel

/-! ## which document is read -/

/-- places without a readable document are passed over -/
theorem C19_discover_skips (pre : List Place) (h : ∀ pl ∈ pre, pl = .absent ∨ pl = .unreadable) (rest : List Place) :
    discover (pre ++ rest) = discover rest := by
  induction pre with
  | nil => rfl
  | cons pl ps ih =>
    have ih := ih (fun x hx => h x (List.mem_cons_of_mem _ hx))
    rcases h pl List.mem_cons_self with rfl | rfl <;> simpa [discover] using ih

/-- **the first readable document decides**: with a typegen block its settings are the file settings, whatever the later
    places hold; without one the defaults are, whatever the later places hold -/
theorem C19_discover_first_readable (pre : List Place) (h : ∀ pl ∈ pre, pl = .absent ∨ pl = .unreadable) (j : J) (rest : List Place) :
    (discover (pre ++ .doc j :: rest)).bind readTypegen = readTypegen j := by
  rw [C19_discover_skips pre h]
  simp only [discover]
  cases hr : readTypegen j with
  | none => rfl
  | some st => simp [hr]

/-- **precedence with discovery**: flag over the discovered document over default, for every arrangement of the places -/
theorem C19_precedence_discovered (ex : String → Bool) (fl : Flags) (pre : List Place)
    (h : ∀ pl ∈ pre, pl = .absent ∨ pl = .unreadable) (j : J) (rest : List Place) (s : Settings)
    (hr : resolveDiscovered ex fl (pre ++ .doc j :: rest) = .ok s) :
    s = effective fl (readTypegen j) := by
  unfold resolveDiscovered resolve at hr
  rw [C19_discover_first_readable pre h j rest] at hr
  simp only [] at hr
  cases hv : validate ex (effective fl (readTypegen j)) with
  | ok u => rw [hv] at hr; cases hr; rfl
  | error e => rw [hv] at hr; cases hr

/-- no readable document anywhere: flags over defaults -/
theorem C19_no_document (ex : String → Bool) (fl : Flags) (places : List Place)
    (h : ∀ pl ∈ places, pl = .absent ∨ pl = .unreadable) :
    resolveDiscovered ex fl places = resolve ex fl none := by
  unfold resolveDiscovered
  have := C19_discover_skips places h []
  rw [List.append_nil] at this
  rw [this]; rfl

end TG.C19
