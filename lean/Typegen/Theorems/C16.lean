import Typegen.RunLemmas
import Typegen.Generated.Tables
import Typegen.Theorems.C08
/-! # C16 — only the tool's own files in the output directory are ever written or removed

In the run model every filesystem operation is an `R.Op` whose target is a *name inside the configured
output directory* (`format!("{}/{}", output_path, filename)`, `output_dir.join(name)`: modelled by
construction, validated by before/after snapshots of the whole sandbox).  What remains to prove is that
every name the tool can write or remove is one of the reserved generated names of the statement.  The
name tables are **extracted from the source on every run** (`Gen.*`). -/
namespace TG.C16

/-- the reserved names of the property statement -/
def specLiterals : List String :=
  ["types.ts", "types.d.ts", "commands.ts", "commands.d.ts", "events.ts", "events.d.ts", "index.ts", "index.d.ts",
   "schemas.ts", "schemas.d.ts", "models.ts", "models.d.ts", "bindings.ts", "bindings.d.ts",
   ".typecache", "dependency-graph.txt", "dependency-graph.dot"]

def hasPrefix (p s : List Char) : Bool :=
  match p, s with
  | [], _ => true
  | _ :: _, [] => false
  | a :: p', b :: s' => a == b && hasPrefix p' s'

def hasInfix (p : List Char) : List Char → Bool
  | [] => p.isEmpty
  | c :: cs => hasPrefix p (c :: cs) || hasInfix p cs

def specReserved (n : String) : Bool :=
  specLiterals.contains n || hasPrefix "generated_".toList n.toList || hasInfix "_generated".toList n.toList

/-- `OutputManager::is_generated_file` as extracted (without the per-run managed set, which only ever holds
    names the run itself wrote) -/
def isGeneratedFile (n : String) : Bool :=
  Gen.generatedLiterals.contains n ||
  Gen.generatedPrefixes.any (fun p => hasPrefix p.toList n.toList) ||
  Gen.generatedInfixes.any (fun p => hasInfix p.toList n.toList) ||
  Gen.generatedSuffixes.any (fun p => hasPrefix p.toList.reverse n.toList.reverse)

/-- every file name the generators, the visualisation, the cache and the write probe use is reserved -/
theorem C16_written_names_reserved :
    (Gen.writtenFiles ++ Gen.vizFiles ++ Gen.cacheFile ++ Gen.writeProbe).all specReserved = true := by
  decide +kernel

/-- the shape of the extracted cleanup predicate: literal names within the reserved literals, the only
    prefix pattern is `generated_`, the only infix pattern `_generated`, no suffix pattern -/
theorem C16_cleanup_table :
    Gen.generatedLiterals.all (fun n => specLiterals.contains n) = true ∧
    Gen.generatedPrefixes = ["generated_"] ∧ Gen.generatedInfixes = ["_generated"] ∧ Gen.generatedSuffixes = [] := by
  decide +kernel

/-- hence, for **every** file name, what cleanup may remove is reserved -/
theorem C16_cleanup_only_reserved (n : String) (h : isGeneratedFile n = true) : specReserved n = true := by
  obtain ⟨hl, hp, hi, hs⟩ := C16_cleanup_table
  unfold isGeneratedFile at h
  rw [hp, hi, hs] at h
  simp only [List.any_cons, List.any_nil, Bool.or_false, Bool.or_eq_true] at h
  unfold specReserved
  simp only [Bool.or_eq_true]
  rcases h with (h | h) | h
  · left; left
    have := List.all_eq_true.mp hl n (by simpa using h)
    exact this
  · left; right; exact h
  · right; exact h

/-- in the run model every operation of every plan targets a name of the generator's file list or the
    cache record: nothing else is written or removed by `run`, for any sources, configuration, fault -/
theorem C16_plan_targets {Src Cfg Key Content : Type} (S : R.Sys Src Cfg Key Content) (src : Src) (cfg : Cfg)
    (op : R.Op Key Content) (h : op ∈ R.plan S src cfg) :
    op = .removeCache ∨ op = .writeCache (S.key src cfg) ∨ ∃ p ∈ S.gen src cfg, op = .write p.1 p.2 := by
  simp only [R.plan, List.mem_cons, List.mem_append, List.mem_map, List.not_mem_nil, or_false] at h
  rcases h with (h | ⟨p, hp, rfl⟩) | h
  · exact .inl h
  · exact .inr (.inr ⟨p, hp, rfl⟩)
  · exact .inr (.inl h)

/-- the modelled tool (analysis model + generator model behind the run model): every write of every plan, for every
    project and configuration, targets one of four reserved names -/
theorem C16_concrete_writes_reserved (src : Pj.Project) (cfg : Gn.Config)
    (op : R.Op (KS.View × Gn.Config) Str) (h : op ∈ R.plan TG.C08.concreteSys src cfg) :
    op = .removeCache ∨ op = .writeCache (TG.C08.concreteSys.key src cfg) ∨
    ∃ n c, op = .write n c ∧ n ∈ ["types.ts", "commands.ts", "events.ts", "index.ts"] ∧ specReserved n = true := by
  rcases C16_plan_targets _ src cfg op h with h | h | ⟨p, hp, rfl⟩
  · exact .inl h
  · exact .inr (.inl h)
  · refine .inr (.inr ⟨p.1, p.2, rfl, ?_⟩)
    simp only [TG.C08.concreteSys] at hp
    generalize (Gn.generate cfg (An.analyze src)).events = ev at hp
    cases ev with
    | none =>
      simp only [List.cons_append, List.nil_append, List.append_nil, List.mem_cons, List.not_mem_nil, or_false] at hp
      rcases hp with rfl | rfl | rfl <;> (constructor <;> (simp only []; decide +kernel))
    | some e =>
      simp only [List.cons_append, List.nil_append, List.mem_cons, List.not_mem_nil, or_false] at hp
      rcases hp with rfl | rfl | rfl | rfl <;> (constructor <;> (simp only []; decide +kernel))

/-! non-vacuity / near misses -/
example : specReserved "notes.ts" = false ∧ specReserved "types.tsx" = false ∧ specReserved ".write_test" = false ∧
    specReserved "mytypes.ts" = false ∧ specReserved "x_generated.md" = true ∧ specReserved "generated_old.ts" = true := by
  decide +kernel

end TG.C16
