import Typegen.RunLemmas
import Typegen.BuildPath
import Typegen.Generated.Tables
import Typegen.Theorems.C08
/-! # C16 — only the tool's own files in the output directory are ever written or removed

In the run model every filesystem operation is an `R.Op` whose target is a *name inside the configured
output directory* (`format!("{}/{}", output_path, filename)`, `output_dir.join(name)`: modelled by
construction, validated by before/after snapshots of the whole sandbox).  What remains to prove is that
every name the tool can write or remove is one of the reserved generated names of the statement.  The
name tables are **extracted from the source on every run** (`Gen.*`). -/
namespace TG.C16

/-- the reserved names of the property statement -/
def specLiterals : List String :=
  ["types.ts", "types.d.ts", "commands.ts", "commands.d.ts", "events.ts", "events.d.ts", "index.ts", "index.d.ts",
   "schemas.ts", "schemas.d.ts", "models.ts", "models.d.ts", "bindings.ts", "bindings.d.ts",
   ".typecache", "dependency-graph.txt", "dependency-graph.dot"]

def hasPrefix (p s : List Char) : Bool :=
  match p, s with
  | [], _ => true
  | _ :: _, [] => false
  | a :: p', b :: s' => a == b && hasPrefix p' s'

def hasInfix (p : List Char) : List Char → Bool
  | [] => p.isEmpty
  | c :: cs => hasPrefix p (c :: cs) || hasInfix p cs

def specReserved (n : String) : Bool :=
  specLiterals.contains n || hasPrefix "generated_".toList n.toList || hasInfix "_generated".toList n.toList

/-- `OutputManager::is_generated_file` as extracted (without the per-run managed set, which only ever holds
    names the run itself wrote) -/
def isGeneratedFile (n : String) : Bool :=
  Gen.generatedLiterals.contains n ||
  Gen.generatedPrefixes.any (fun p => hasPrefix p.toList n.toList) ||
  Gen.generatedInfixes.any (fun p => hasInfix p.toList n.toList) ||
  Gen.generatedSuffixes.any (fun p => hasPrefix p.toList.reverse n.toList.reverse)

/-- every file name the generators, the visualisation, the cache and the write probe use is reserved -/
theorem C16_written_names_reserved :
    (Gen.writtenFiles ++ Gen.vizFiles ++ Gen.cacheFile ++ Gen.writeProbe).all specReserved = true := by
  decide +kernel

/-- the shape of the extracted cleanup predicate: literal names within the reserved literals, the only
    prefix pattern is `generated_`, the only infix pattern `_generated`, no suffix pattern -/
theorem C16_cleanup_table :
    Gen.generatedLiterals.all (fun n => specLiterals.contains n) = true ∧
    Gen.generatedPrefixes = ["generated_"] ∧ Gen.generatedInfixes = ["_generated"] ∧ Gen.generatedSuffixes = [] := by
  decide +kernel

/-- hence, for **every** file name, what cleanup may remove is reserved -/
theorem C16_cleanup_only_reserved (n : String) (h : isGeneratedFile n = true) : specReserved n = true := by
  obtain ⟨hl, hp, hi, hs⟩ := C16_cleanup_table
  unfold isGeneratedFile at h
  rw [hp, hi, hs] at h
  simp only [List.any_cons, List.any_nil, Bool.or_false, Bool.or_eq_true] at h
  unfold specReserved
  simp only [Bool.or_eq_true]
  rcases h with (h | h) | h
  · left; left
    have := List.all_eq_true.mp hl n (by simpa using h)
    exact this
  · left; right; exact h
  · right; exact h

/-- in the run model every operation of every plan targets a name of the generator's file list or the
    cache record: nothing else is written or removed by `run`, for any sources, configuration, fault -/
theorem C16_plan_targets {Src Cfg Key Content : Type} (S : R.Sys Src Cfg Key Content) (src : Src) (cfg : Cfg)
    (op : R.Op Key Content) (h : op ∈ R.plan S src cfg) :
    op = .removeCache ∨ op = .writeCache (S.key src cfg) ∨ ∃ p ∈ S.gen src cfg, op = .write p.1 p.2 := by
  simp only [R.plan, List.mem_cons, List.mem_append, List.mem_map, List.not_mem_nil, or_false] at h
  rcases h with (h | ⟨p, hp, rfl⟩) | h
  · exact .inl h
  · exact .inr (.inr ⟨p, hp, rfl⟩)
  · exact .inr (.inl h)

/-- the modelled tool (analysis model + generator model behind the run model): every write of every plan, for every
    project and configuration, targets one of four reserved names -/
theorem C16_concrete_writes_reserved (src : Pj.Project) (cfg : Gn.Config)
    (op : R.Op (KS.View × Gn.Config) Str) (h : op ∈ R.plan TG.C08.concreteSys src cfg) :
    op = .removeCache ∨ op = .writeCache (TG.C08.concreteSys.key src cfg) ∨
    ∃ n c, op = .write n c ∧ n ∈ ["types.ts", "commands.ts", "events.ts", "index.ts"] ∧ specReserved n = true := by
  rcases C16_plan_targets _ src cfg op h with h | h | ⟨p, hp, rfl⟩
  · exact .inl h
  · exact .inr (.inl h)
  · refine .inr (.inr ⟨p.1, p.2, rfl, ?_⟩)
    simp only [TG.C08.concreteSys] at hp
    generalize (Gn.generate cfg (An.analyze src)).events = ev at hp
    cases ev with
    | none =>
      simp only [List.cons_append, List.nil_append, List.append_nil, List.mem_cons, List.not_mem_nil, or_false] at hp
      rcases hp with rfl | rfl | rfl <;> (constructor <;> (simp only []; decide +kernel))
    | some e =>
      simp only [List.cons_append, List.nil_append, List.mem_cons, List.not_mem_nil, or_false] at hp
      rcases hp with rfl | rfl | rfl | rfl <;> (constructor <;> (simp only []; decide +kernel))

/-! ## the frame of a whole history -/

/-- one step of a history: a run with its own sources, configuration, force flag, fault position, or a crash after
    `k` operations of a regenerating run -/
inductive Step (Src Cfg : Type) where
  | run (src : Src) (cfg : Cfg) (forced : Bool) (fault : Option Nat)
  | crash (src : Src) (cfg : Cfg) (k : Nat)

def history {Src Cfg Key Content : Type} [DecidableEq Key] (S : R.Sys Src Cfg Key Content) (o : R.Out Key Content) :
    List (Step Src Cfg) → R.Out Key Content
  | [] => o
  | .run src cfg forced fault :: rest => history S (R.run S src cfg forced fault o).2.2 rest
  | .crash src cfg k :: rest => history S (R.crashed S src cfg k o) rest

theorem applyOps_frame {Key Content : Type} (n : R.Name) (ops : List (R.Op Key Content)) (o : R.Out Key Content)
    (h : ∀ op ∈ ops, ∀ m c, op = .write m c → m ≠ n) (hr : ∀ op ∈ ops, ∀ m, op ≠ .remove m) :
    (R.applyOps o ops).files n = o.files n := by
  unfold R.applyOps
  induction ops generalizing o with
  | nil => rfl
  | cons op rest ih =>
    simp only [List.foldl_cons]
    rw [ih _ (fun op' h' => h op' (List.mem_cons_of_mem _ h')) (fun op' h' => hr op' (List.mem_cons_of_mem _ h'))]
    cases op with
    | write m c =>
      have : m ≠ n := h _ (List.mem_cons_self) m c rfl
      simp [R.applyOp, Ne.symm this]
    | remove m => exact absurd rfl (hr _ (List.mem_cons_self) m)
    | writeCache k => rfl
    | removeCache => rfl

theorem plan_frame {Src Cfg Key Content : Type} (S : R.Sys Src Cfg Key Content) (src : Src) (cfg : Cfg) (n : R.Name)
    (hn : n ∉ (S.gen src cfg).map (·.1)) (ops : List (R.Op Key Content)) (hsub : ∀ op ∈ ops, op ∈ R.plan S src cfg)
    (o : R.Out Key Content) : (R.applyOps o ops).files n = o.files n := by
  apply applyOps_frame
  · intro op hop m c he
    rcases C16_plan_targets S src cfg op (hsub op hop) with h | h | ⟨p, hp, h⟩
    · rw [h] at he; cases he
    · rw [h] at he; cases he
    · rw [h] at he
      cases he
      intro hmn
      exact hn (List.mem_map.mpr ⟨p, hp, hmn⟩)
  · intro op hop m he
    rcases C16_plan_targets S src cfg op (hsub op hop) with h | h | ⟨p, _, h⟩ <;> (rw [h] at he; cases he)

/-- **C16 over every history**: a name that no generation ever writes keeps its content (or its absence) through any
    sequence of runs — forced or not, failing at any operation, killed after any number of operations, with sources and
    configuration changing from step to step -/
theorem C16_history_frame {Src Cfg Key Content : Type} [DecidableEq Key] (S : R.Sys Src Cfg Key Content) (n : R.Name)
    (hn : ∀ src cfg, n ∉ (S.gen src cfg).map (·.1)) (steps : List (Step Src Cfg)) (o : R.Out Key Content) :
    (history S o steps).files n = o.files n := by
  induction steps generalizing o with
  | nil => rfl
  | cons st rest ih =>
    cases st with
    | run src cfg forced fault =>
      simp only [history]
      rw [ih]
      unfold R.run
      split
      · rfl
      · split
        · rfl
        · have hex : ∀ op ∈ R.executed (R.plan S src cfg) fault, op ∈ R.plan S src cfg := by
            intro op hop
            cases fault with
            | none => exact hop
            | some i => exact List.mem_of_mem_take hop
          have := plan_frame S src cfg n (hn src cfg) _ hex o
          cases fault with
          | none => exact this
          | some i => simp only []; split <;> exact this
    | crash src cfg k =>
      simp only [history]
      rw [ih]
      exact plan_frame S src cfg n (hn src cfg) _ (fun op hop => List.mem_of_mem_take hop) o

/-- the modelled tool: whatever is in the output directory under a name other than the four binding files — the user's
    `notes.ts`, `README.md`, a `types.tsx` — is never created, changed or removed by any history of runs -/
theorem C16_concrete_history_frame (n : R.Name) (hn : n ∉ ["types.ts", "commands.ts", "events.ts", "index.ts"])
    (steps : List (Step Pj.Project Gn.Config)) (o : R.Out (KS.View × Gn.Config) Str) :
    (history TG.C08.concreteSys o steps).files n = o.files n := by
  apply C16_history_frame
  intro src cfg hmem
  obtain ⟨p, hp, rfl⟩ := List.mem_map.mp hmem
  have := C16_concrete_writes_reserved src cfg (.write p.1 p.2)
    (by unfold R.plan; exact List.mem_cons_of_mem _ (List.mem_append_left _ (List.mem_map.mpr ⟨p, hp, rfl⟩)))
  rcases this with h | h | ⟨m, c, he, hm, _⟩
  · cases h
  · cases h
  · cases he
    exact hn hm

example : "notes.ts" ∉ ["types.ts", "commands.ts", "events.ts", "index.ts"] := by decide

/-! ## the build-script path: the clean-up after a successful run -/

/-- one step of a build-script history -/
def buildHistory {Src Cfg Key Content : Type} [DecidableEq Key] (S : R.Sys Src Cfg Key Content) (isGen : R.Name → Bool)
    (present : List R.Name) (o : R.Out Key Content) : List (Step Src Cfg) → R.Out Key Content
  | [] => o
  | .run src cfg forced fault :: rest => buildHistory S isGen present (R.runBuild S isGen present src cfg forced fault o).2.2 rest
  | .crash src cfg k :: rest => buildHistory S isGen present (R.crashed S src cfg k o) rest

/-- **C16 on the build-script path, every history**: a name that no generation writes and that the output manager does
    not regard as generated keeps its content through any sequence of build-script runs — whatever the directory listing
    shows, whichever runs fail or are killed -/
theorem C16_build_history_frame {Src Cfg Key Content : Type} [DecidableEq Key] (S : R.Sys Src Cfg Key Content)
    (isGen : R.Name → Bool) (present : List R.Name) (n : R.Name)
    (hn : ∀ src cfg, n ∉ (S.gen src cfg).map (·.1)) (hg : isGen n = false)
    (steps : List (Step Src Cfg)) (o : R.Out Key Content) :
    (buildHistory S isGen present o steps).files n = o.files n := by
  induction steps generalizing o with
  | nil => rfl
  | cons st rest ih =>
    cases st with
    | run src cfg forced fault =>
      simp only [buildHistory]
      rw [ih]
      have hrun : (R.run S src cfg forced fault o).2.2.files n = o.files n :=
        C16_history_frame S n hn [.run src cfg forced fault] o
      unfold R.runBuild
      simp only []
      split
      · simp only []
        rw [R.finalize_frame_notGen isGen present _ _ n hg]
        exact hrun
      · exact hrun
    | crash src cfg k =>
      simp only [buildHistory]
      rw [ih]
      exact C16_history_frame S n hn [.crash src cfg k] o

/-- the modelled tool with the output manager's name test as extracted from the source on this run: a file whose name is
    not reserved — `notes.ts`, `README.md`, `types.tsx`, `.gitkeep` — survives every build-script history untouched -/
theorem C16_concrete_build_history_frame (n : R.Name) (hn : specReserved n = false) (present : List R.Name)
    (steps : List (Step Pj.Project Gn.Config)) (o : R.Out (KS.View × Gn.Config) Str) :
    (buildHistory TG.C08.concreteSys isGeneratedFile present o steps).files n = o.files n := by
  apply C16_build_history_frame
  · intro src cfg hmem
    obtain ⟨p, hp, rfl⟩ := List.mem_map.mp hmem
    have := C16_concrete_writes_reserved src cfg (.write p.1 p.2)
      (by unfold R.plan; exact List.mem_cons_of_mem _ (List.mem_append_left _ (List.mem_map.mpr ⟨p, hp, rfl⟩)))
    rcases this with h | h | ⟨m, c, he, _, hres⟩
    · cases h
    · cases h
    · cases he
      rw [hn] at hres; cases hres
  · cases hg : isGeneratedFile n with
    | false => rfl
    | true => rw [C16_cleanup_only_reserved n hg] at hn; cases hn

/-- the clean-up never removes what the run just wrote, nor the cache record -/
theorem C16_cleanup_keeps_written {Src Cfg Key Content : Type} [DecidableEq Key] (S : R.Sys Src Cfg Key Content)
    (isGen : R.Name → Bool) (present : List R.Name) (src : Src) (cfg : Cfg) (o : R.Out Key Content) (n : R.Name)
    (h : n ∈ (S.gen src cfg).map (·.1)) :
    (R.finalize isGen present (R.keptOf S src cfg .generated present o) o).files n = o.files n ∧
    (R.finalize isGen present (R.keptOf S src cfg .generated present o) o).cache = o.cache :=
  ⟨R.finalize_frame_kept isGen present _ o n h, R.finalize_cache isGen present _ o⟩

/-! non-vacuity / near misses -/
example : specReserved "notes.ts" = false ∧ specReserved "types.tsx" = false ∧ specReserved ".write_test" = false ∧
    specReserved "mytypes.ts" = false ∧ specReserved "x_generated.md" = true ∧ specReserved "generated_old.ts" = true := by
  decide +kernel

end TG.C16
