import Typegen.RunTheorems
import Typegen.Generated.Tables
import Typegen.KeySound
/-! # C08 — the cache never leaves stale bindings: success means output is current

`R.run` mirrors `run_generate` / `generate_bindings` (cache decision, invalidate-first, write order,
cache record last).  The invariant `R.Inv` is independent of the current sources, hence preserved by
every edit.  Key soundness (`key x = key y → gen x = gen y`) is the hypothesis that connects the model to
the hash structs of src/build/generation_cache.rs; its table-level obligation is `C08_hashedFields_cover`
over the field lists **extracted from the source on every run**. -/
namespace TG.C08
open R

/-- whenever a run reports success, every file a forced generation would write is present and identical -/
theorem C08_ok_means_current {Src Cfg Key Content : Type} [DecidableEq Key]
    (S : Sys Src Cfg Key Content) (src : Src) (cfg : Cfg) (o : Out Key Content)
    (forced : Bool) (fault : Option Nat)
    (hI : Inv S o) (hd : NamesDistinct (S.gen src cfg)) (hne : S.empty src = false)
    (hok : (run S src cfg forced fault o).1 = .ok) :
    Current (run S src cfg forced fault o).2.2 (S.gen src cfg) :=
  run_ok_current S src cfg o forced fault hI hd hne hok

/-- the invariant survives every history: edits of sources and configuration, loss of generated files,
    loss/corruption of the cache, runs (forced or not, with any single fault), crashes at any point -/
theorem C08_history_invariant {Src Cfg Key Content : Type} [DecidableEq Key]
    (S : Sys Src Cfg Key Content)
    (keySound : ∀ s c s' c', S.key s c = S.key s' c' → S.gen s c = S.gen s' c')
    (hd : ∀ s c, NamesDistinct (S.gen s c))
    (w : World Src Cfg Key Content) (h : List (Step Src Cfg)) (hI : Inv S w.out) :
    Inv S (exec S w h).out :=
  exec_inv S keySound hd w h hI

/-- the full statement: after any history from an empty output directory, a successful run leaves the
    output current -/
theorem C08 {Src Cfg Key Content : Type} [DecidableEq Key]
    (S : Sys Src Cfg Key Content)
    (keySound : ∀ s c s' c', S.key s c = S.key s' c' → S.gen s c = S.gen s' c')
    (hd : ∀ s c, NamesDistinct (S.gen s c))
    (src : Src) (cfg : Cfg) (h : List (Step Src Cfg)) (forced : Bool) (fault : Option Nat) :
    let w := exec S { src := src, cfg := cfg, out := { files := fun _ => none, cache := none } } h
    S.empty w.src = false → (run S w.src w.cfg forced fault w.out).1 = .ok →
    Current (run S w.src w.cfg forced fault w.out).2.2 (S.gen w.src w.cfg) := by
  intro w hne hok
  exact run_ok_current S w.src w.cfg w.out forced fault
    (exec_inv S keySound hd _ h (inv_empty S)) (hd _ _) hne hok

/-- the loss of a generated file defeats the cache: the up-to-date shortcut requires every file to exist -/
theorem C08_missing_file_regenerates {Src Cfg Key Content : Type} [DecidableEq Key]
    (S : Sys Src Cfg Key Content) (src : Src) (cfg : Cfg) (o : Out Key Content)
    (p : Name × Content) (hp : p ∈ S.gen src cfg) (hmiss : o.files p.1 = none) :
    upToDate S src cfg false o = false := by
  simp only [upToDate, Bool.not_false, Bool.true_and, Bool.and_eq_false_iff]
  right
  simp only [allExist, List.all_eq_false]
  exact ⟨p, hp, by simp [hmiss]⟩

/-! ## key coverage: the fields every output-affecting edit class needs in the hash -/

/-- (hash struct, field) pairs that must flow into the cache key, one per output-affecting edit class of
    the property statement -/
def requiredFields : List (String × String) := [
  ("CommandHashData", "name"), ("CommandHashData", "return_type"), ("CommandHashData", "parameters"),
  ("CommandHashData", "channels"), ("CommandHashData", "serde_rename_all"),
  ("CommandHashData", "line_number"),   -- printed by the dependency visualisation (fix aa6995a)
  ("ParameterHashData", "name"), ("ParameterHashData", "rust_type"), ("ParameterHashData", "serde_rename"),
  ("ChannelHashData", "parameter_name"), ("ChannelHashData", "message_type"),
  ("StructHashData", "name"), ("StructHashData", "is_enum"), ("StructHashData", "fields"),
  ("StructHashData", "serde_rename_all"),
  ("FieldHashData", "name"), ("FieldHashData", "rust_type"), ("FieldHashData", "is_optional"),
  ("FieldHashData", "serde_rename"), ("FieldHashData", "validator_attributes"),
  ("EventHashData", "event_name"), ("EventHashData", "payload_type"),
  ("ConfigHashData", "validation_library"), ("ConfigHashData", "type_mappings"),
  ("ConfigHashData", "default_parameter_case"), ("ConfigHashData", "default_field_case"),
  ("ConfigHashData", "visualize_deps")]

def hashed (p : String × String) : Bool :=
  Gen.hashStructs.any fun s => s.1 == p.1 && s.2.contains p.2

/-- what is missing from the key on the tree the check was built against (empty = full coverage) -/
def missingFields : List (String × String) := requiredFields.filter (fun p => !hashed p)

/-- **table obligation** (re-checked on every run against the field lists extracted from
    src/build/generation_cache.rs): every field an output-affecting edit class needs is hashed.
    Removing a field from a `*HashData` struct makes this theorem fail to build. -/
theorem C08_hashedFields_cover : missingFields = [] := by decide +kernel

/-- key soundness of the aspect instantiation used by the correspondence: when every aspect is hashed,
    equal keys give equal generations (the abstract form of `key_determines_view`) -/
theorem C08_keySound_projection {A : Type} (proj : A → List Nat) (gen : List Nat → List (R.Name × List Nat))
    (a b : A) (h : proj a = proj b) : gen (proj a) = gen (proj b) := by rw [h]

/-! ## the concrete system: the model's analysis and generators behind the run model -/

deriving instance DecidableEq for Gn.Config

/-- the run model instantiated with the analysis model (`An.analyze`), the generator model (`Gn.generate`) and the
    hashed view as key (`KS.viewOf`: one component per `*HashData` list of generation_cache.rs) -/
def concreteSys : Sys Pj.Project Gn.Config (KS.View × Gn.Config) Str where
  key p c := (KS.viewOf (An.analyze p), c)
  gen p c :=
    let o := Gn.generate c (An.analyze p)
    [("types.ts", Gn.fileText o.types), ("commands.ts", Gn.fileText o.commands)] ++
    (match o.events with | some e => [("events.ts", Gn.fileText e)] | none => []) ++
    [("index.ts", Gn.fileText o.index)]
  empty p := (An.analyze p).commands.isEmpty

theorem concrete_keySound (s : Pj.Project) (c : Gn.Config) (s' : Pj.Project) (c' : Gn.Config)
    (h : concreteSys.key s c = concreteSys.key s' c') : concreteSys.gen s c = concreteSys.gen s' c' := by
  simp only [concreteSys, Prod.mk.injEq] at h
  simp only [concreteSys]
  rw [KS.keySound c c' s s' h.1 h.2]

theorem concrete_namesDistinct (s : Pj.Project) (c : Gn.Config) : NamesDistinct (concreteSys.gen s c) := by
  simp only [concreteSys, NamesDistinct]
  cases (Gn.generate c (An.analyze s)).events <;> simp

/-- **C08 for the modelled tool, no hypothesis left about the key**: after any history of edits, deletions, cache
    losses, runs, faults and crashes from an empty output directory, a run of the modelled tool (analysis model +
    generator model + run model) that reports success leaves every file of a forced generation in place with that
    content.  The remaining assumptions are outside the model: the hash function is injective on the view, and the
    real analysis / generators agree with the model (the correspondence, run on every check). -/
theorem C08_concrete (src : Pj.Project) (cfg : Gn.Config) (h : List (Step Pj.Project Gn.Config))
    (forced : Bool) (fault : Option Nat) :
    let w := exec concreteSys { src := src, cfg := cfg, out := { files := fun _ => none, cache := none } } h
    concreteSys.empty w.src = false → (run concreteSys w.src w.cfg forced fault w.out).1 = .ok →
    Current (run concreteSys w.src w.cfg forced fault w.out).2.2 (concreteSys.gen w.src w.cfg) :=
  C08 concreteSys concrete_keySound concrete_namesDistinct src cfg h forced fault

/-- the two things an analysis carries beyond the hashed view do not reach the output: the file an event was found in
    is never read, the dependency sets are a function of the discovered types -/
theorem C08_generation_reads_only_the_view (cfg : Gn.Config) (p : Pj.Project) :
    Gn.generate cfg (An.analyze p) = Gn.generate cfg (KS.ofView (KS.viewOf (An.analyze p))) :=
  KS.generate_of_view cfg p

/-- every component of the model's view is recorded by the hash structs of the tree this build ran against.  The view
    leaves out what no generator reads (`KS.generate_norm`, `KS.generate_erase`: the file of a command or event, `async`,
    field visibility), so dropping one of *those* from the hash does not break this obligation. -/
def viewFields : List (String × String) := [
  ("CommandHashData", "name"), ("CommandHashData", "parameters"), ("CommandHashData", "return_type"), ("CommandHashData", "channels"),
  ("CommandHashData", "serde_rename_all"),
  ("ParameterHashData", "name"), ("ParameterHashData", "rust_type"), ("ParameterHashData", "is_optional"),
  ("ParameterHashData", "serde_rename"),
  ("ChannelHashData", "parameter_name"), ("ChannelHashData", "message_type"),
  ("StructHashData", "name"), ("StructHashData", "is_enum"), ("StructHashData", "fields"), ("StructHashData", "serde_rename_all"),
  ("FieldHashData", "name"), ("FieldHashData", "rust_type"), ("FieldHashData", "is_optional"),
  ("FieldHashData", "serde_rename"), ("FieldHashData", "validator_attributes"),
  ("EventHashData", "event_name"), ("EventHashData", "payload_type"),
  ("ConfigHashData", "validation_library"), ("ConfigHashData", "type_mappings"),
  ("ConfigHashData", "default_parameter_case"), ("ConfigHashData", "default_field_case")]

theorem C08_view_is_hashed : viewFields.all hashed = true := by decide +kernel

end TG.C08
