import Typegen.Basic
import Typegen.Names
/-! Model of `SerdeParser::{parse_rename_all, parse_rename, parse_field_serde_attrs,
    parse_struct_serde_attrs}`: substring scanners over the `Display` text of the attribute's token
    stream.  Indices are character indices (exact for ASCII token strings; non-ASCII is covered by the
    byte-level reasoning of C15). -/
namespace SA
open A N

def findCh (c : Char) : Str → Option Nat
  | [] => none
  | x :: xs => if x = c then some 0 else (findCh c xs).map (· + 1)

/-- Rust's `char::is_whitespace` (Unicode `White_Space`): what `trim_start` / `trim` strip -/
def isWs (c : Char) : Bool :=
  let n := c.toNat
  (9 ≤ n && n ≤ 13) || n = 0x20 || n = 0x85 || n = 0xA0 || n = 0x1680 || (0x2000 ≤ n && n ≤ 0x200A) ||
  n = 0x2028 || n = 0x2029 || n = 0x202F || n = 0x205F || n = 0x3000
def trimStartWs : Str → Str
  | [] => []
  | c :: cs => if isWs c then trimStartWs cs else c :: cs

/-- text between the first two `"` of `s` -/
def firstQuoted (s : Str) : Option Str :=
  match findCh '"' s with
  | none => none
  | some q1 =>
    let rest := s.drop (q1 + 1)
    match findCh '"' rest with
    | none => none
    | some q2 => some (rest.take q2)

def kwRenameAll : Str := ['r','e','n','a','m','e','_','a','l','l']
def kwRename : Str := ['r','e','n','a','m','e']
def kwAll : Str := ['_','a','l','l']

/-- `parse_rename_all` up to the rule lookup: the quoted value after the first `=` after the first
    `rename_all` -/
def renameAllValue (tokens : Str) : Option Str :=
  match findSub kwRenameAll tokens with
  | none => none
  | some start =>
    let tail := tokens.drop start
    match findCh '=' tail with
    | none => none
    | some eq => firstQuoted (tail.drop (eq + 1))

def parseRenameAll (tokens : Str) : Option Rule :=
  match renameAllValue tokens with
  | none => none
  | some v => ruleOfStr v

/-- `parse_rename`: first `rename` not followed by `_all`; fuel = length bounds the `while` loop -/
def parseRenameFrom : Nat → Str → Option Str
  | 0, _ => none
  | fuel+1, tokens =>
    match findSub kwRename tokens with
    | none => none
    | some pos =>
      let after := tokens.drop (pos + 6)
      if startsWith (trimStartWs after) kwAll then
        parseRenameFrom fuel (tokens.drop (pos + 6 + (after.length - (trimStartWs after).length) + 4))
      else
        match findCh '=' after with
        | none => none
        | some eq => firstQuoted (after.drop (eq + 1))

def parseRename (tokens : Str) : Option Str := parseRenameFrom (tokens.length + 1) tokens

structure FieldAttrs where
  rename : Option Str
  skip : Bool
  deriving DecidableEq, Repr

/-- `parse_field_serde_attrs` over the token strings of the `#[serde(..)]` attributes, in order -/
def parseFieldAttrs (attrs : List Str) : FieldAttrs :=
  attrs.foldl (fun acc t =>
    { rename := match parseRename t with | some r => some r | none => acc.rename,
      skip := acc.skip || skipFlag t }) { rename := none, skip := false }

/-- `parse_struct_serde_attrs` -/
def parseStructAttrs (attrs : List Str) : Option Rule :=
  attrs.foldl (fun acc t => match parseRenameAll t with | some r => some r | none => acc) none

end SA
