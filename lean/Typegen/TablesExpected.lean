import Typegen.Generated.Tables
/-! The decision tables of `/repo`'s source as the hand-written model assumes them.  `tgh extract` re-reads the
    string literals of the named functions from the source on every run (`Gen.fnLits`); the theorems
    `Cxx_source_table_*` state that what was read is what the model was written against.  A changed table
    breaks the build of the theorem: the model is then no longer known to describe the code. -/
namespace Exp

def litsOf (fn : String) : List String :=
  match Gen.fnLits.find? (·.1 == fn) with
  | some p => p.2
  | none => ["<function not found in the source>"]

/-- `CommandParser::is_tauri_parameter_type`: `tauri::X` (two segments), `tauri::ipc::X`, bare last segments -/
def isTauriParameterType : List String :=
  ["tauri", "AppHandle", "Window", "WebviewWindow", "State", "Manager", "Channel", "ipc", "Request", "Channel",
   "AppHandle", "WebviewWindow", "Channel", "State", "Window"]
/-- `CommandParser::is_tauri_command` -/
def isTauriCommand : List String := ["tauri", "command", "command"]
/-- `StructParser::should_include` -/
def shouldInclude : List String := ["derive", "Serialize", "Deserialize"]
/-- `AstCache::parse_and_cache_all_files` (literals outside the logging macros) -/
def parseAndCacheAllFiles : List String := ["rs", "/target/", "/.git/"]
/-- `EventParser::handle_method_call` -/
def handleMethodCall : List String := ["emit", "emit_to"]
/-- `EventParser::extract_emit_event` -/
def extractEmitEvent : List String := ["emit_to", "()"]

end Exp
