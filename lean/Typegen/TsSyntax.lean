import Typegen.Scan
/-! Recogniser for the TypeScript subset the tool emits (definition of "parses as a TypeScript module" for
    C01; a deliberate sub-grammar: accept ⇒ valid TypeScript).  Works on the token list of `Sc.tokens`.

```
module   ::= stmt*
stmt     ::= import | reexport | interface | typeAlias | constDecl | function
import   ::= 'import' ( '*' 'as' id | 'type'? '{' importSpec (',' importSpec)* '}' ) 'from' str ';'
reexport ::= 'export' '*' 'from' str ';'
interface::= 'export' 'interface' id typeParams? ('extends' type)? '{' member* '}'
member   ::= (id | str) '?'? ':' type ';'  |  '[' id ':' type ']' ':' type ';'
typeAlias::= 'export' 'type' id '=' type ';'
constDecl::= 'export' 'const' id '=' expr ';'
function ::= 'export' 'async' 'function' id '(' params? ')' ':' type block
type     ::= union ;  union ::= postfix ('|' postfix)* ;  postfix ::= primary ('[' ']')*
primary  ::= '(' params? ')' '=>' type | '(' type ')' | '[' type (',' type)* ']' | str | 'typeof' qname
           | qname ('<' type (',' type)* '>')?
expr     ::= postfixExpr ;  postfixExpr ::= atom ( '.' id | '<' type,* '>' | '(' args? ')' )*
atom     ::= id | str | num | '[' args? ']' | '{' (prop (',' prop)* ','?)? '}' | '(' arrow ')' | arrow
```
Function bodies (fixed template text) are accepted as balanced token sequences without bad tokens. -/
namespace Sx
open Sc T

abbrev P (α : Type) := List Tok → Option (α × List Tok)

def tokId (s : Str) : List Tok → Option (List Tok)
  | .id x :: r => if x = s then some r else none
  | _ => none
def tokP (c : Char) : List Tok → Option (List Tok)
  | .p x :: r => if x = c then some r else none
  | _ => none

def isKeywordName (s : Str) : Bool := jsReserved.contains s

/-- qualified name `a.b.c` -/
def qname : Nat → List Tok → Option (List Tok)
  | 0, _ => none
  | f+1, .id _ :: .p '.' :: r => qname f r
  | _+1, .id _ :: r => some r
  | _, _ => none

mutual
def pType : Nat → List Tok → Option (List Tok)
  | 0, _ => none
  | f+1, ts =>
    match pPostfix f ts with
    | none => none
    | some r => pUnionTail f r
def pUnionTail : Nat → List Tok → Option (List Tok)
  | 0, _ => none
  | f+1, .p '|' :: r =>
    match pPostfix f r with
    | none => none
    | some r2 => pUnionTail f r2
  | _+1, r => some r
def pPostfix : Nat → List Tok → Option (List Tok)
  | 0, _ => none
  | f+1, ts =>
    match pPrimary f ts with
    | none => none
    | some r => pArr f r
def pArr : Nat → List Tok → Option (List Tok)
  | 0, _ => none
  | f+1, .p '[' :: .p ']' :: r => pArr f r
  | _+1, r => some r
def pPrimary : Nat → List Tok → Option (List Tok)
  | 0, _ => none
  | f+1, .p '(' :: r =>
    -- function type `(a: T, b: U) => R` or parenthesised type
    match r with
    | .p ')' :: .arrow :: r2 => pType f r2
    | .id _ :: .p ':' :: _ =>
      match pParams f r with
      | some (.p ')' :: .arrow :: r2) => pType f r2
      | _ => none
    | _ =>
      match pType f r with
      | some (.p ')' :: r2) => some r2
      | _ => none
  | f+1, .p '[' :: r =>
    match pTypeList f r with
    | some (.p ']' :: r2) => some r2
    | _ => none
  | _+1, .str _ :: r => some r
  | f+1, .id x :: r =>
    if x = cl!"typeof" then qname (r.length + 1) r
    else if isKeywordName x && x ≠ cl!"void" && x ≠ cl!"null" then none
    else
      match qname ((Tok.id x :: r).length + 1) (.id x :: r) with
      | none => none
      | some (.p '<' :: r2) =>
        match pTypeList f r2 with
        | some (.p '>' :: r3) => some r3
        | _ => none
      | some r2 => some r2
  | _+1, _ => none
def pTypeList : Nat → List Tok → Option (List Tok)
  | 0, _ => none
  | f+1, ts =>
    match pType f ts with
    | none => none
    | some (.p ',' :: r) => pTypeList f r
    | some r => some r
/-- `name[?]: Type (, name[?]: Type)*` -/
def pParams : Nat → List Tok → Option (List Tok)
  | 0, _ => none
  | f+1, .id n :: r =>
    if isKeywordName n then none else
    let r1 := match r with | .p '?' :: x => x | x => x
    match r1 with
    | .p ':' :: r2 =>
      match pType f r2 with
      | some (.p ',' :: r3) => pParams f r3
      | some r3 => some r3
      | none => none
    | _ => none
  | _+1, _ => none
end

def typeFuel (ts : List Tok) : Nat := 4 * ts.length + 8

/-- balanced brackets, no bad token -/
def balanced : List Tok → List Char → Bool
  | [], st => st.isEmpty
  | .bad _ :: _, _ => false
  | .p '(' :: r, st => balanced r (')' :: st)
  | .p '[' :: r, st => balanced r (']' :: st)
  | .p '{' :: r, st => balanced r ('}' :: st)
  | .p ')' :: r, st => match st with | ')' :: s => balanced r s | _ => false
  | .p ']' :: r, st => match st with | ']' :: s => balanced r s | _ => false
  | .p '}' :: r, st => match st with | '}' :: s => balanced r s | _ => false
  | _ :: r, st => balanced r st

mutual
/-- expressions of `export const N = …;` (zod schema expressions) -/
def pExpr : Nat → List Tok → Option (List Tok)
  | 0, _ => none
  | f+1, ts =>
    match pAtom f ts with
    | none => none
    | some r => pSuffix f r
def pSuffix : Nat → List Tok → Option (List Tok)
  | 0, _ => none
  | f+1, .p '.' :: .id _ :: r => pSuffix f r
  | f+1, .p '<' :: r =>
    match pTypeList f r with
    | some (.p '>' :: r2) => pSuffix f r2
    | _ => none
  | f+1, .p '(' :: .p ')' :: r => pSuffix f r
  | f+1, .p '(' :: r =>
    match pArgs f r with
    | some (.p ')' :: r2) => pSuffix f r2
    | _ => none
  | _+1, r => some r
def pAtom : Nat → List Tok → Option (List Tok)
  | 0, _ => none
  | _+1, .str _ :: r => some r
  | _+1, .num _ :: r => some r
  | f+1, .p '[' :: r =>
    match r with
    | .p ']' :: r2 => some r2
    | _ => match pArgs f r with
      | some (.p ']' :: r2) => some r2
      | _ => none
  | f+1, .p '{' :: r =>
    match r with
    | .p '}' :: r2 => some r2
    | _ => match pProps f r with
      | some (.p '}' :: r2) => some r2
      | _ => none
  | f+1, .p '(' :: .id _ :: .p ')' :: .arrow :: r => pExpr f r      -- `(val) => true`
  | _+1, .id x :: r => if isKeywordName x && x ≠ cl!"true" && x ≠ cl!"false" && x ≠ cl!"null" then none else some r
  | _+1, _ => none
def pArgs : Nat → List Tok → Option (List Tok)
  | 0, _ => none
  | f+1, ts =>
    match pExpr f ts with
    | none => none
    | some (.p ',' :: r) => pArgs f r
    | some r => some r
/-- object literal properties `key: expr` with optional trailing comma; keys are identifiers or strings -/
def pProps : Nat → List Tok → Option (List Tok)
  | 0, _ => none
  | f+1, ts =>
    let afterKey : Option (List Tok) := match ts with
      | .id _ :: .p ':' :: r => some r
      | .str _ :: .p ':' :: r => some r
      | _ => none
    match afterKey with
    | none => none
    | some r =>
      match pExpr f r with
      | none => none
      | some (.p ',' :: .p '}' :: r2) => some (.p '}' :: r2)
      | some (.p ',' :: r2) => pProps f r2
      | some r2 => some r2
end

/-- interface members -/
def pMembers : Nat → List Tok → Option (List Tok)
  | 0, _ => none
  | _+1, .p '}' :: r => some (.p '}' :: r)
  | f+1, .p '[' :: .id _ :: .p ':' :: r =>
    match pType (typeFuel r) r with
    | some (.p ']' :: .p ':' :: r2) =>
      match pType (typeFuel r2) r2 with
      | some (.p ';' :: r3) => pMembers f r3
      | _ => none
    | _ => none
  | f+1, ts =>
    let afterKey : Option (List Tok) := match ts with
      | .id _ :: r => some r
      | .str _ :: r => some r
      | _ => none
    match afterKey with
    | none => none
    | some r =>
      let r1 := match r with | .p '?' :: x => x | x => x
      match r1 with
      | .p ':' :: r2 =>
        match pType (typeFuel r2) r2 with
        | some (.p ';' :: r3) => pMembers f r3
        | _ => none
      | _ => none

def pImportSpecs : Nat → List Tok → Option (List Tok)
  | 0, _ => none
  | f+1, ts =>
    let r0 : List Tok := match ts with | .id t :: (.id n :: r) => if t = cl!"type" then Tok.id n :: r else ts | _ => ts
    match r0 with
    | .id _ :: .p ',' :: r => pImportSpecs f r
    | .id _ :: r => some r
    | _ => none

/-- one top-level statement -/
def stmtOk (st : List Tok) : Bool :=
  match st with
  | .id a :: rest =>
    if a = cl!"import" then
      match rest with
      | .p '*' :: .id as_ :: .id n :: .id fr :: .str _ :: .p ';' :: [] => as_ = cl!"as" && fr = cl!"from" && !isKeywordName n
      | .id ty :: .p '{' :: r =>
        if ty = cl!"type" then
          match pImportSpecs (r.length + 1) r with
          | some (.p '}' :: .id fr :: .str _ :: .p ';' :: []) => fr = cl!"from"
          | _ => false
        else false
      | .p '{' :: r =>
        match pImportSpecs (r.length + 1) r with
        | some (.p '}' :: .id fr :: .str _ :: .p ';' :: []) => fr = cl!"from"
        | _ => false
      | _ => false
    else if a = cl!"export" then
      match rest with
      | .p '*' :: .id fr :: .str _ :: .p ';' :: [] => fr = cl!"from"
      | .id k :: .id n :: r =>
        if k = cl!"interface" then
          !isKeywordName n &&
          (let r1 := match r with | .p '<' :: .id _ :: .p '>' :: x => x | x => x
           let r2 : Option (List Tok) := match r1 with
             | .id ex :: x => if ex = cl!"extends" then pType (typeFuel x) x else none
             | x => some x
           match r2 with
           | some (.p '{' :: body) =>
             (match pMembers (body.length + 1) body with
              | some (.p '}' :: []) => true
              | _ => false)
           | _ => false)
        else if k = cl!"type" then
          !isKeywordName n &&
          (match r with
           | .p '=' :: x => (match pType (typeFuel x) x with | some (.p ';' :: []) => true | _ => false)
           | _ => false)
        else if k = cl!"const" then
          !isKeywordName n &&
          (match r with
           | .p '=' :: x => (match pExpr (typeFuel x) x with | some (.p ';' :: []) => true | _ => false)
           | _ => false)
        else if k = cl!"async" && n = cl!"function" then
          match r with
          | .id fname :: .p '(' :: x =>
            !isKeywordName fname &&
            (let afterParams : Option (List Tok) := match x with
               | .p ')' :: y => some y
               | _ => match pParams (typeFuel x) x with
                 | some (.p ')' :: y) => some y
                 | _ => none
             match afterParams with
             | some (.p ':' :: y) =>
               (match pType (typeFuel y) y with
                | some (.p '{' :: body) => balanced (.p '{' :: body) []
                | _ => false)
             | _ => false)
          | _ => false
        else false
      | _ => false
    else false
  | _ => false

/-- **the recogniser**: the text tokenises without stray characters or unterminated literals and every
    top-level statement is one of the accepted forms -/
def parsesAsModule (text : Str) : Bool :=
  let ts := tokens text
  !hasBad ts && (statements ts).all stmtOk

/-- first statement (as token count index) that is rejected, for replays -/
def firstBadStmt (text : Str) : Option Nat :=
  let ts := tokens text
  if hasBad ts then some 0 else
  ((statements ts).zipIdx.find? fun (s, _) => !stmtOk s).map (·.2)

end Sx
