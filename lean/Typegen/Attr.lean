import Typegen.Basic
/-! Probe: `SerdeParser::parse_field_serde_attrs` on token strings — substring search lemmas and
    correctness on a fragment of serde's field attribute grammar. -/
namespace A

def startsWith : Str → Str → Bool
  | _, [] => true
  | [], _ :: _ => false
  | a :: s, b :: p => a == b && startsWith s p

/-- Rust `str::find(&str)` (byte offset = char offset on ASCII token text) -/
def findSub (pat : Str) : Str → Option Nat
  | [] => if pat = [] then some 0 else none
  | c :: cs => if startsWith (c :: cs) pat then some 0 else (findSub pat cs).map (· + 1)

def containsSub (pat s : Str) : Bool := (findSub pat s).isSome

theorem startsWith_append (p s : Str) : startsWith (p ++ s) p = true := by
  induction p with
  | nil => cases s <;> simp [startsWith]
  | cons a p ih => simp [startsWith, ih]

/-- if `s` starts with `p` then `p` is a prefix in the list sense -/
theorem startsWith_iff {s p : Str} : startsWith s p = true ↔ ∃ t, s = p ++ t := by
  induction p generalizing s with
  | nil => simp [startsWith]
  | cons b p ih =>
    cases s with
    | nil => simp [startsWith]
    | cons a s =>
      simp only [startsWith, Bool.and_eq_true, beq_iff_eq, ih, List.cons_append, List.cons.injEq]
      constructor
      · rintro ⟨rfl, t, rfl⟩; exact ⟨t, rfl, rfl⟩
      · rintro ⟨t, rfl, rfl⟩; exact ⟨rfl, t, rfl⟩

theorem findSub_none_iff {pat s : Str} : findSub pat s = none ↔ ∀ a b, s ≠ a ++ pat ++ b := by
  induction s with
  | nil =>
    simp only [findSub]
    by_cases hp : pat = []
    · simp [hp]
    · simp only [hp, if_false, true_iff]
      intro a b h
      have := congrArg List.length h
      simp at this
      exact hp (List.eq_nil_of_length_eq_zero (by omega))
  | cons c cs ih =>
    simp only [findSub]
    by_cases hs : startsWith (c :: cs) pat = true
    · simp only [hs, if_true]
      obtain ⟨t, ht⟩ := startsWith_iff.mp hs
      constructor
      · intro h; cases h
      · intro h; exact absurd (by simpa using ht) (h [] t)
    · simp only [hs, if_false, Option.map_eq_none_iff, ih, Bool.false_eq_true]
      constructor
      · intro h a b heq
        cases a with
        | nil =>
          apply hs; exact startsWith_iff.mpr ⟨b, by simpa using heq⟩
        | cons x a =>
          simp only [List.cons_append, List.cons.injEq] at heq
          exact h a b heq.2
      · intro h a b heq
        exact h (c :: a) b (by simp [heq])

/-- a space-free, non-empty pattern cannot straddle a space -/
theorem no_straddle (pat a b : Str) (hsp : ' ' ∉ pat) (hne : pat ≠ []) :
    findSub pat (a ++ ' ' :: b) = none ↔ findSub pat a = none ∧ findSub pat b = none := by
  simp only [findSub_none_iff]
  constructor
  · intro h
    constructor
    · intro x y hxy; exact h x (y ++ ' ' :: b) (by simp [hxy])
    · intro x y hxy; exact h (a ++ ' ' :: x) y (by simp [hxy])
  · intro ⟨ha, hb⟩ x y hxy
    -- where does the space fall?  |a| vs |x| and |x ++ pat|
    have hlen := congrArg List.length hxy
    simp only [List.length_append, List.length_cons] at hlen
    by_cases h1 : x.length + pat.length ≤ a.length
    · -- occurrence entirely inside a
      have hx : x ++ pat <+: a := by
        have hp1 : x ++ pat <+: x ++ pat ++ y := List.prefix_append _ _
        have hp2 : a <+: a ++ ' ' :: b := List.prefix_append _ _
        rw [hxy] at hp2
        exact List.prefix_of_prefix_length_le hp1 hp2 (by simpa using h1)
      obtain ⟨t, ht⟩ := hx
      exact ha x t ht.symm
    · by_cases h2 : a.length < x.length
      · -- occurrence entirely inside b
        have hp2 : a ++ [' '] <+: x := by
          have h3 : a ++ [' '] <+: a ++ ' ' :: b := by
            rw [show a ++ ' ' :: b = (a ++ [' ']) ++ b by simp]; exact List.prefix_append _ _
          have h4 : x <+: a ++ ' ' :: b := by rw [hxy, List.append_assoc]; exact List.prefix_append _ _
          exact List.prefix_of_prefix_length_le h3 h4 (by simp; omega)
        obtain ⟨t, ht⟩ := hp2
        apply hb t y
        have : a ++ ' ' :: b = a ++ ' ' :: (t ++ pat ++ y) := by
          rw [hxy, ← ht]; simp
        have h5 := List.append_cancel_left this
        simpa using h5
      · -- the space lies inside the occurrence: contradiction
        exfalso
        apply hsp
        have hidx : (a ++ ' ' :: b)[a.length]? = some ' ' := by simp
        rw [hxy] at hidx
        have hlt : a.length < x.length + pat.length := by omega
        have hge : x.length ≤ a.length := by omega
        rw [List.append_assoc, List.getElem?_append_right hge, List.getElem?_append_left (by omega)] at hidx
        exact List.mem_of_getElem? hidx

end A

namespace A

/-- proc_macro2 prints a token stream with single spaces between tokens (no `Joint` puncts here) -/
def joinSp : List Str → Str
  | [] => []
  | [t] => t
  | t :: u :: rest => t ++ ' ' :: joinSp (u :: rest)

/-- a space-free pattern occurs in the printed stream iff it occurs inside one token -/
theorem contains_joinSp (pat : Str) (hsp : ' ' ∉ pat) (hne : pat ≠ []) :
    ∀ (toks : List Str), containsSub pat (joinSp toks) = toks.any (containsSub pat)
  | [] => by
    simp [joinSp, containsSub, findSub, hne]
  | [t] => by simp [joinSp]
  | t :: u :: rest => by
    have ih := contains_joinSp pat hsp hne (u :: rest)
    simp only [joinSp, List.any_cons] at ih ⊢
    rw [← ih]
    -- Bool-level restatement of `no_straddle`
    have ns := no_straddle pat t (joinSp (u :: rest)) hsp hne
    simp only [containsSub]
    cases h1 : findSub pat (t ++ ' ' :: joinSp (u :: rest)) with
    | none =>
      obtain ⟨a, b⟩ := ns.mp h1
      simp [a, b]
    | some k =>
      cases h2 : findSub pat t with
      | some _ => simp
      | none =>
        cases h3 : findSub pat (joinSp (u :: rest)) with
        | some _ => simp
        | none => rw [ns.mpr ⟨h2, h3⟩] at h1; cases h1

def kwSkip : Str := ['s','k','i','p']
def kwSkipSer : Str := ['s','k','i','p','_','s','e','r','i','a','l','i','z','i','n','g']

/-- `tokens_str.contains("skip") && !tokens_str.contains("skip_serializing")` -/
def skipFlag (tokens : Str) : Bool := containsSub kwSkip tokens && !containsSub kwSkipSer tokens

/-- the `skip` decision depends only on which single tokens mention the two words -/
theorem skipFlag_tokens (toks : List Str) :
    skipFlag (joinSp toks) = (toks.any (containsSub kwSkip) && !toks.any (containsSub kwSkipSer)) := by
  unfold skipFlag
  rw [contains_joinSp kwSkip (by decide) (by decide), contains_joinSp kwSkipSer (by decide) (by decide)]

/-- K06b witnesses, on the real token strings -/
example : skipFlag "default = \"skip_me\"".toList = true := by decide +kernel
example : skipFlag "rename = \"skip\"".toList = true := by decide +kernel
example : skipFlag "skip_deserializing".toList = true := by decide +kernel
example : skipFlag "skip , skip_serializing_if = \"Option::is_none\"".toList = false := by decide +kernel
example : skipFlag "skip_serializing_if = \"Option::is_none\"".toList = false := by decide +kernel

end A
