import Typegen.Basic
import Typegen.HeckDefs
import Typegen.Attr
/-! Model of the naming layer: `serde_rename_rule::RenameRule::{from_rename_all_str, apply_to_field,
    apply_to_variant}` (vendored serde-rename-rule 0.2.3, a copy of serde_derive's `case.rs`) and
    `NamingContext::{compute_field_name, compute_parameter_name, compute_function_name,
    compute_type_name, event_name_to_function}`.  `none` = the Rust code panics. -/
namespace N

inductive Rule where
  | lower | upper | pascal | camel | snake | screamingSnake | kebab | screamingKebab
  deriving DecidableEq, Repr

def allRules : List Rule := [.lower, .upper, .pascal, .camel, .snake, .screamingSnake, .kebab, .screamingKebab]

def ruleName : Rule → Str
  | .lower => cl!"lowercase" | .upper => cl!"UPPERCASE" | .pascal => cl!"PascalCase"
  | .camel => cl!"camelCase" | .snake => cl!"snake_case"
  | .screamingSnake => cl!"SCREAMING_SNAKE_CASE" | .kebab => cl!"kebab-case"
  | .screamingKebab => cl!"SCREAMING-KEBAB-CASE"

/-- `RenameRule::from_rename_all_str` -/
def ruleOfStr (s : Str) : Option Rule := allRules.find? (fun r => ruleName r == s)

def upc := H.upc
def lowc := H.lowc
def isUpperAscii (c : Char) : Bool := 'A' ≤ c ∧ c ≤ 'Z'
def isAscii (c : Char) : Bool := c.toNat < 128
def replaceUs (s : Str) : Str := s.map (fun c => if c = '_' then '-' else c)

/-- `apply_to_field`; `none` = panic (`pascal[..1]` on an empty string or inside a multi-byte character) -/
def applyField : Rule → Str → Option Str
  | .lower, f | .snake, f => some f
  | .upper, f | .screamingSnake, f => some (f.map upc)
  | .pascal, f => some (H.pascalGo true f)
  | .camel, f =>
    match H.pascalGo true f with
    | [] => none
    | c :: cs => if isAscii c then some (lowc c :: cs) else none
  | .kebab, f => some (replaceUs f)
  | .screamingKebab, f => some (replaceUs (f.map upc))

/-- `apply_to_variant`'s snake_case: `_` before every upper-case char except at index 0, lower-cased.
    (`char::is_uppercase` is modelled on ASCII.) -/
def snakeOfVariant : Bool → Str → Str
  | _, [] => []
  | first, c :: cs =>
    if !first && isUpperAscii c then '_' :: lowc c :: snakeOfVariant false cs
    else lowc c :: snakeOfVariant false cs

/-- `apply_to_variant` (what serde uses for enum variants) -/
def applyVariant : Rule → Str → Option Str
  | .pascal, v => some v
  | .lower, v => some (v.map lowc)
  | .upper, v => some (v.map upc)
  | .camel, v =>
    match v with
    | [] => none
    | c :: cs => if isAscii c then some (lowc c :: cs) else none
  | .snake, v => some (snakeOfVariant true v)
  | .screamingSnake, v => some ((snakeOfVariant true v).map upc)
  | .kebab, v => some (replaceUs (snakeOfVariant true v))
  | .screamingKebab, v => some (replaceUs ((snakeOfVariant true v).map upc))

/-- `NamingContext::apply_naming_convention`: the vendored rule, except that camelCase lower-cases the
    first *character* of the PascalCase form and keeps the original name when that form is empty
    (the guard of fix de6a196; before it the `none` cases of `applyField` were panics) -/
def applyFieldTool : Rule → Str → Str
  | .camel, f =>
    match H.pascalGo true f with
    | [] => f
    | c :: cs => lowc c :: cs
  | .lower, f | .snake, f => f
  | .upper, f | .screamingSnake, f => f.map upc
  | .pascal, f => H.pascalGo true f
  | .kebab, f => replaceUs f
  | .screamingKebab, f => replaceUs (f.map upc)

/-- `compute_field_name` / `compute_parameter_name` (identical bodies, different config default) -/
def computeName (name : Str) (rename : Option Str) (ruleAll : Option Rule) (defaultCase : Str) : Str :=
  match rename with
  | some r => r
  | none =>
    match ruleAll with
    | some rule => applyFieldTool rule name
    | none => applyFieldTool ((ruleOfStr defaultCase).getD .camel) name

def computeFunctionName (name : Str) : Str := applyFieldTool .camel name
def computeTypeName (name : Str) : Str := applyFieldTool .pascal name

/-- `event_name_to_function`: `on` + PascalCase of the name with `-` replaced by `_` -/
def eventFunctionName (ev : Str) : Str :=
  ['o', 'n'] ++ H.pascalGo true (ev.map (fun c => if c = '-' then '_' else c))

/-- wherever the vendored rule is defined the tool computes the same name -/
theorem applyFieldTool_eq {r : Rule} {f x : Str} (h : applyField r f = some x) : applyFieldTool r f = x := by
  cases r <;> simp only [applyField, applyFieldTool, Option.some.injEq] at h ⊢ <;> try exact h
  · -- camel
    cases hp : H.pascalGo true f with
    | nil => rw [hp] at h; cases h
    | cons c cs =>
      rw [hp] at h
      simp only at h ⊢
      split at h
      · exact Option.some.inj h
      · cases h

/-! ### serde's wire names (specification) -/
inductive Kind where | field | variant
  deriving DecidableEq, Repr

/-- serde_derive: an explicit `rename` wins; otherwise the container's `rename_all` with the rule for the
    kind of item; otherwise the Rust identifier -/
def serdeName (k : Kind) (ruleAll : Option Rule) (rename : Option Str) (ident : Str) : Option Str :=
  match rename with
  | some r => some r
  | none =>
    match ruleAll with
    | none => some ident
    | some rule => match k with
      | .field => applyField rule ident
      | .variant => applyVariant rule ident

/-- an idiomatic variant identifier: `[A-Z]` first, no `_` -/
def isUpperCamel (s : Str) : Bool :=
  match s with
  | [] => false
  | c :: _ => isUpperAscii c && !s.contains '_'

end N
