import Typegen.Basic
namespace S

/-- Rust `str::split(',')` -/
def splitOn (c : Char) : Str → List Str
  | [] => [[]]
  | x :: xs =>
    if x = c then [] :: splitOn c xs
    else match splitOn c xs with
      | [] => [[x]]
      | h :: t => (x :: h) :: t

theorem splitOn_ne_nil (c : Char) (s : Str) : splitOn c s ≠ [] := by
  induction s with
  | nil => simp [splitOn]
  | cons x xs ih =>
    unfold splitOn; split
    · simp
    · split <;> simp

theorem splitOn_free (c : Char) (a : Str) (h : c ∉ a) : splitOn c a = [a] := by
  induction a with
  | nil => simp [splitOn]
  | cons x xs ih =>
    have hx : x ≠ c := fun e => h (e ▸ List.mem_cons_self)
    have hxs : c ∉ xs := fun m => h (List.mem_cons_of_mem _ m)
    simp [splitOn, hx, ih hxs]

theorem splitOn_app (c : Char) (a rest : Str) (h : c ∉ a) :
    splitOn c (a ++ c :: rest) = a :: splitOn c rest := by
  induction a with
  | nil => simp [splitOn]
  | cons x xs ih =>
    have hx : x ≠ c := fun e => h (e ▸ List.mem_cons_self)
    have hxs : c ∉ xs := fun m => h (List.mem_cons_of_mem _ m)
    simp [splitOn, hx, ih hxs]

/-- `types.join(", ")` -/
def joinComma : List Str → Str
  | [] => []
  | [a] => a
  | a :: b :: rest => a ++ [',', ' '] ++ joinComma (b :: rest)

/-- ASCII-space trim is enough for type strings (no other whitespace can occur) -/
def trimStart : Str → Str
  | ' ' :: xs => trimStart xs
  | xs => xs
def trim (s : Str) : Str := (trimStart (trimStart s).reverse).reverse

def Clean (a : Str) : Prop := ',' ∉ a ∧ ' ' ∉ a ∧ a ≠ []

theorem trimStart_clean (a : Str) (h : ' ' ∉ a) : trimStart a = a := by
  cases a with
  | nil => rfl
  | cons x xs =>
    have : x ≠ ' ' := fun e => h (e ▸ List.mem_cons_self)
    unfold trimStart; split
    · rename_i heq; simp at heq; exact absurd heq.1 this
    · rfl

theorem trim_clean (a : Str) (h : ' ' ∉ a) : trim a = a := by
  unfold trim
  rw [trimStart_clean a h, trimStart_clean a.reverse (by simpa using h)]; simp

theorem trim_sp_clean (a : Str) (h : ' ' ∉ a) : trim (' ' :: a) = a := by
  unfold trim
  have : trimStart (' ' :: a) = a := by
    show trimStart a = a
    exact trimStart_clean a h
  rw [this, trimStart_clean a.reverse (by simpa using h)]; simp

/-- tuple branch of `extract_tuple_types`: split on every comma, trim each piece -/
theorem split_join (parts : List Str) (hp : ∀ p ∈ parts, Clean p) (hne : parts ≠ []) :
    (splitOn ',' (joinComma parts)).map trim = parts := by
  induction parts with
  | nil => exact absurd rfl hne
  | cons a rest ih =>
    have ha := hp a (by simp)
    cases rest with
    | nil => simp [joinComma, splitOn_free ',' a ha.1, trim_clean a ha.2.1]
    | cons b rest' =>
      have hrest : ∀ p ∈ b :: rest', Clean p := fun p h => hp p (List.mem_cons_of_mem _ h)
      have ih' := ih hrest (by simp)
      simp only [joinComma, List.append_assoc, List.cons_append, List.nil_append]
      rw [splitOn_app ',' a _ ha.1]
      simp only [List.map_cons, trim_clean a ha.2.1, List.cons.injEq, true_and]
      -- the remainder starts with a space: pieces are `" " ++ b`, then as in ih
      have hb := hrest b (by simp)
      cases rest' with
      | nil =>
        simp only [joinComma] at ih' ⊢
        have hb' : ',' ∉ (' ' :: b) := by
          intro h; simp at h; exact hb.1 h
        rw [splitOn_free ',' (' ' :: b) hb']
        simp [trim_sp_clean b hb.2.1]
      | cons c rest'' =>
        simp only [joinComma, List.append_assoc, List.cons_append, List.nil_append] at ih' ⊢
        have hb' : ',' ∉ (' ' :: b) := by
          intro h; simp at h; exact hb.1 h
        rw [show (' ' :: (b ++ ',' :: ' ' :: joinComma (c :: rest''))) = (' ' :: b) ++ ',' :: (' ' :: joinComma (c :: rest'')) by simp]
        rw [splitOn_app ',' (' ' :: b) _ hb']
        rw [splitOn_app ',' b _ hb.1] at ih'
        simp only [List.map_cons, trim_sp_clean b hb.2.1, List.cons.injEq, true_and] at ih' ⊢
        simpa [trim_clean b hb.2.1] using ih'

end S
