import Typegen.Zod
import Typegen.Order
/-! C10 at file level: the declarations of a generated `types.ts` (either mode) read into a common form —
    object declarations (name, keys, shape per key) and literal enumerations. -/
namespace ZF
open L T Z

structure Decls where
  objs : List (Str × List (Str × Option Shape)) := []
  enums : List (Str × List Str) := []

def stripSuffix (suf s : Str) : Str := if A.startsWith s.reverse suf.reverse then s.take (s.length - suf.length) else s
def dropLastIf (c : Char) (s : Str) : Str := if s.getLast? = some c then s.dropLast else s

/-- string literals of a text, in order -/
def literals : Nat → Str → List Str
  | 0, _ => []
  | _, [] => []
  | f+1, '"' :: r => match P.lexBody r with
    | some (v, r2) => v :: literals f r2
    | none => []
  | f+1, _ :: r => literals f r

def addMember (objs : List (Str × List (Str × Option Shape))) (n : Str) (m : Str × Option Shape) :=
  if objs.any (·.1 = n) then objs.map fun o => if o.1 = n then (o.1, o.2 ++ [m]) else o
  else objs ++ [(n, [m])]
def addObj (objs : List (Str × List (Str × Option Shape))) (n : Str) :=
  if objs.any (·.1 = n) then objs else objs ++ [(n, [])]

/-- one member line `key?: type;` (TypeScript syntax) or `key: expr,` (schema syntax) -/
def memberOf (zodSyntax : Bool) (line : Str) : Option (Str × Option Shape) :=
  let t := trim line
  match t with
  | [] => none
  | '[' :: _ => none                                  -- index signature
  | _ =>
    let key0 := t.takeWhile (· ≠ ':')
    let rest := trim ((t.dropWhile (· ≠ ':')).drop 1)
    let opt := key0.getLast? = some '?'
    let key := dropLastIf '?' key0
    if zodSyntax then
      let e := dropLastIf ',' rest
      some (key, (parseZod e).map shapeOfZ)
    else
      let e := dropLastIf ';' rest
      some (key, (parseTsTy e).map fun ty => if opt then mkOmit (shapeOfTs ty) else shapeOfTs ty)

/-- split at commas outside brackets and string literals -/
def splitTopCommas : Nat → Nat → Str → Str → List Str
  | 0, _, cur, _ => [cur.reverse]
  | _, _, cur, [] => if (trim cur.reverse).isEmpty then [] else [cur.reverse]
  | f+1, d, cur, c :: r =>
    if c = '"' then
      match P.lexBody r with
      | some (_, r2) => splitTopCommas f d ((('"' :: r.take (r.length - r2.length))).reverse ++ cur) r2
      | none => [(cur.reverse ++ c :: r)]
    else if c = '(' || c = '[' || c = '{' || c = '<' then splitTopCommas f (d + 1) (c :: cur) r
    else if c = ')' || c = ']' || c = '}' || c = '>' then
      -- `=>` of `(val) => true` is not a closer
      if c = '>' && cur.head? = some '=' then splitTopCommas f d (c :: cur) r
      else splitTopCommas f (d - 1) (c :: cur) r
    else if c = ',' && d = 0 then cur.reverse :: splitTopCommas f d [] r
    else splitTopCommas f d (c :: cur) r

def membersOfBody (body : Str) : List (Str × Option Shape) :=
  (splitTopCommas (body.length + 1) 0 [] body).filterMap fun m => memberOf true (m.map fun c => if c = '\n' then ' ' else c)

/-- state: the open declaration (name, schema syntax?, accumulated schema body) -/
def scan : List Str → Option (Str × Bool × Str) → Decls → Decls
  | [], _, d => d
  | line :: rest, cur, d =>
    let t := trim line
    match cur with
    | some (n, z, body) =>
      if A.startsWith t cl!"}" then
        let d := if z then (membersOfBody body).foldl (fun d m => { d with objs := addMember d.objs n m }) d else d
        scan rest none d
      else if z then scan rest (some (n, z, body ++ line ++ ['\n'])) d
      else match memberOf false line with
        | some m => scan rest cur { d with objs := addMember d.objs n m }
        | none => scan rest cur d
    | none =>
      if A.startsWith t cl!"export interface " then
        let n := (t.drop 17).takeWhile fun c => isIdChar c
        scan rest (some (n, false, [])) { d with objs := addObj d.objs n }
      else if A.startsWith t cl!"export const " then
        let n := stripSuffix cl!"Schema" ((t.drop 13).takeWhile fun c => isIdChar c)
        if A.containsSub cl!"= z.object({" t then
          if A.containsSub cl!"});" t then scan rest none { d with objs := addObj d.objs n }
          else scan rest (some (n, true, [])) { d with objs := addObj d.objs n }
        else if A.containsSub cl!"= z.enum(" t then
          scan rest none { d with enums := d.enums ++ [(n, literals (t.length + 1) t)] }
        else scan rest none d
      else if A.startsWith t cl!"export type " then
        let n := (t.drop 12).takeWhile fun c => isIdChar c
        if A.containsSub cl!"z.infer<" t then scan rest none d
        else scan rest none { d with enums := d.enums ++ [(n, literals (t.length + 1) t)] }
      else scan rest none d

def declsOf (text : Str) : Decls := scan (S.splitOn '\n' text) none {}

def hooksName : Str := cl!"CommandHooks"

structure Cmp where
  names : Bool
  keys : Bool
  shapes : Bool
  shapesModKnown : Bool
  enums : Bool

def sortS (l : List Str) : List Str := O.sortNames l

/-- compare the plain-mode file with the Zod-mode file -/
def compare (tsText zodText : Str) : Cmp :=
  let a := declsOf tsText
  let b := declsOf zodText
  let ao := a.objs.filter (·.1 ≠ hooksName)
  let bo := b.objs.filter (·.1 ≠ hooksName)
  let names := sortS (ao.map (·.1)) == sortS (bo.map (·.1)) && sortS (a.enums.map (·.1)) == sortS (b.enums.map (·.1))
  let keys := ao.all fun (n, ms) =>
    match bo.find? (·.1 = n) with
    | some (_, ms2) => sortS (ms.map (·.1)) == sortS (ms2.map (·.1))
    | none => false
  let shapes := ao.all fun (n, ms) =>
    match bo.find? (·.1 = n) with
    | some (_, ms2) => ms.all fun (k, s) =>
        match ms2.find? (·.1 = k) with
        | some (_, s2) => s.isSome && s == s2
        | none => false
    | none => false
  let shapesModKnown := ao.all fun (n, ms) =>
    match bo.find? (·.1 = n) with
    | some (_, ms2) => ms.all fun (k, s) =>
        match ms2.find? (·.1 = k) with
        | some (_, s2) => s.isSome && s == s2.map normKnown
        | none => false
    | none => false
  let enums := a.enums.all fun (n, ls) =>
    match b.enums.find? (·.1 = n) with
    | some (_, ls2) => ls == ls2
    | none => false
  { names, keys, shapes, shapesModKnown, enums }

end ZF
