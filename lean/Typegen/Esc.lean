import Typegen.Basic
namespace P

/-- one `str::replace(char, &str)` -/
def replaceCh (c : Char) (r : Str) : Str → Str
  | [] => []
  | x :: xs => if x = c then r ++ replaceCh c r xs else x :: replaceCh c r xs

/-- `escape_js_string` / `escape_for_js` / the `escape_js` filter: five sequential replaces, backslash first -/
def escapeJs (s : Str) : Str :=
  replaceCh '\t' ['\\','t'] (replaceCh '\r' ['\\','r'] (replaceCh '\n' ['\\','n']
    (replaceCh '"' ['\\','"'] (replaceCh '\\' ['\\','\\'] s))))

/-- one-pass escaper (what the five replaces amount to) -/
def escOne : Str → Str
  | [] => []
  | x :: xs =>
    (if x = '\\' then ['\\','\\'] else if x = '"' then ['\\','"'] else if x = '\n' then ['\\','n']
     else if x = '\r' then ['\\','r'] else if x = '\t' then ['\\','t'] else [x]) ++ escOne xs

/-- body of a JS double-quoted string literal: escapes `\\ \" \n \r \t \'`, any other character except a raw
    `"`, `\`, LF, CR; returns the decoded value and what follows the closing quote -/
def lexBody : Str → Option (Str × Str)
  | [] => none
  | '"' :: rest => some ([], rest)
  | '\\' :: c :: rest =>
    let d : Option Char :=
      if c = '\\' then some '\\' else if c = '"' then some '"' else if c = 'n' then some '\n'
      else if c = 'r' then some '\r' else if c = 't' then some '\t' else if c = '\'' then some '\'' else none
    match d, lexBody rest with
    | some ch, some (v, r) => some (ch :: v, r)
    | _, _ => none
  | ['\\'] => none
  | c :: rest =>
    if c = '\n' ∨ c = '\r' then none else
    match lexBody rest with
    | some (v, r) => some (c :: v, r)
    | none => none

def lexJsString : Str → Option (Str × Str)
  | '"' :: rest => lexBody rest
  | _ => none

theorem lexBody_escOne (s rest : Str) : lexBody (escOne s ++ '"' :: rest) = some (s, rest) := by
  induction s with
  | nil => simp [escOne, lexBody]
  | cons x xs ih =>
    simp only [escOne]
    by_cases h1 : x = '\\'
    · subst h1; simp [lexBody, ih]
    by_cases h2 : x = '"'
    · subst h2; simp [lexBody, ih]
    by_cases h3 : x = '\n'
    · subst h3; simp [lexBody, ih]
    by_cases h4 : x = '\r'
    · subst h4; simp [lexBody, ih]
    by_cases h5 : x = '\t'
    · subst h5; simp [lexBody, ih]
    · simp only [h1, h2, h3, h4, h5, if_false, List.cons_append, List.nil_append]
      unfold lexBody
      split
      · simp at *
      · rename_i heq; simp at heq; exact absurd heq.1 h2
      · rename_i heq; simp at heq; exact absurd heq.1 h1
      · rename_i heq; simp at heq
      · rename_i heq
        simp only [List.cons.injEq] at heq
        obtain ⟨e1, e2⟩ := heq
        subst e1; subst e2
        simp [h3, h4, ih]

/-- the five sequential replaces equal the one-pass escaper -/
theorem escapeJs_eq (s : Str) : escapeJs s = escOne s := by
  induction s with
  | nil => simp [escapeJs, escOne, replaceCh]
  | cons x xs ih =>
    unfold escapeJs at ih ⊢
    simp only [escOne]
    by_cases h1 : x = '\\'
    · subst h1; simp [replaceCh, ← ih]
    by_cases h2 : x = '"'
    · subst h2; simp [replaceCh, ← ih]
    by_cases h3 : x = '\n'
    · subst h3; simp [replaceCh, ← ih]
    by_cases h4 : x = '\r'
    · subst h4; simp [replaceCh, ← ih]
    by_cases h5 : x = '\t'
    · subst h5; simp [replaceCh, ← ih]
    · simp [replaceCh, h1, h2, h3, h4, h5, ← ih]

/-- C01.1 / C11 `escape_exact`: for every string, the emitted literal lexes back to exactly that string -/
theorem jsString_roundtrip (s rest : Str) :
    lexJsString ('"' :: escapeJs s ++ '"' :: rest) = some (s, rest) := by
  simp [lexJsString, escapeJs_eq, lexBody_escOne]

end P
