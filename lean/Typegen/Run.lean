/-! Model of one generation run as a *plan of filesystem operations* on the output directory
    (`run_generate` in src/bin/cargo-tauri-typegen.rs, `BuildSystem::generate_bindings` +
    `OutputManager::finalize_generation` in src/build), abstract in sources, configuration, cache key and
    generator.  Every write/remove is one `Op`; a fault makes exactly one op fail, a crash point is a
    prefix of the plan.  Mirrors the tree *with* the invalidate-first and existence-check fixes. -/
namespace R

abbrev Name := String

variable {Src Cfg Key Content : Type}

/-- the output directory as the tool sees it: regular files by name, and what `.typecache` vouches for
    (`none`: absent, unreadable, not JSON, or another version — all treated alike by `needs_regeneration`) -/
structure Out (Key Content : Type) where
  files : Name → Option Content
  cache : Option Key

inductive Op (Key Content : Type) where
  | write (n : Name) (c : Content)
  | remove (n : Name)
  | writeCache (k : Key)
  | removeCache

def applyOp (o : Out Key Content) : Op Key Content → Out Key Content
  | .write n c => { o with files := fun x => if x = n then some c else o.files x }
  | .remove n => { o with files := fun x => if x = n then none else o.files x }
  | .writeCache k => { o with cache := some k }
  | .removeCache => { o with cache := none }

def applyOps (o : Out Key Content) (ops : List (Op Key Content)) : Out Key Content := ops.foldl applyOp o

structure Sys (Src Cfg Key Content : Type) where
  key : Src → Cfg → Key
  /-- the files a forced generation writes, in write order (types, commands, [events], index, [dependency-graph.*]) -/
  gen : Src → Cfg → List (Name × Content)
  /-- no commands found: nothing is generated -/
  empty : Src → Bool

def allExist (o : Out Key Content) (fs : List (Name × Content)) : Bool :=
  fs.all fun p => (o.files p.1).isSome

/-- the plan of a regenerating run: invalidate the cache record, write every file, record the cache -/
def plan (S : Sys Src Cfg Key Content) (src : Src) (cfg : Cfg) : List (Op Key Content) :=
  .removeCache :: ((S.gen src cfg).map fun p => Op.write p.1 p.2) ++ [.writeCache (S.key src cfg)]

inductive Res | ok | err deriving DecidableEq, Repr

inductive Action | noCommands | upToDate | generated | failed deriving DecidableEq, Repr

/-- which ops of the plan are executed when op number `i` fails: those before it -/
def executed (ops : List (Op Key Content)) (fault : Option Nat) : List (Op Key Content) :=
  match fault with
  | none => ops
  | some i => ops.take i

variable [DecidableEq Key]

/-- the cache decision (`GenerationCache::needs_regeneration` + existence check): skip iff not forced,
    the record equals the current key and every file generation would write exists -/
def upToDate (S : Sys Src Cfg Key Content) (src : Src) (cfg : Cfg) (forced : Bool) (o : Out Key Content) : Bool :=
  !forced && o.cache == some (S.key src cfg) && allExist o (S.gen src cfg)

/-- one CLI `generate` run after configuration has been resolved and validated.
    `fault = some i`: op `i` of the plan fails (`i = 0`: the invalidation, `1..n`: a binding file,
    `n+1`: the cache record, which is only a warning). -/
def run (S : Sys Src Cfg Key Content) (src : Src) (cfg : Cfg) (forced : Bool) (fault : Option Nat)
    (o : Out Key Content) : Res × Action × Out Key Content :=
  if S.empty src then (.ok, .noCommands, o)
  else if upToDate S src cfg forced o then (.ok, .upToDate, o)
  else
    let ops := plan S src cfg
    let o' := applyOps o (executed ops fault)
    match fault with
    | none => (.ok, .generated, o')
    | some i => if i < ops.length - 1 then (.err, .failed, o') else (.ok, .generated, o')

/-- a crash after `k` ops of a regenerating run -/
def crashed (S : Sys Src Cfg Key Content) (src : Src) (cfg : Cfg) (k : Nat) (o : Out Key Content) : Out Key Content :=
  applyOps o ((plan S src cfg).take k)

/-! ### the invariant -/

/-- every file `gen` would write is present with that content -/
def Current (o : Out Key Content) (fs : List (Name × Content)) : Prop :=
  ∀ p ∈ fs, o.files p.1 = some p.2

/-- present-and-right or missing -/
def CurrentOrMissing (o : Out Key Content) (fs : List (Name × Content)) : Prop :=
  ∀ p ∈ fs, o.files p.1 = some p.2 ∨ o.files p.1 = none

/-- **CacheInv**: whatever sources and configuration the cache record vouches for, the files a generation
    from them writes are present-and-identical or missing.  It does not mention the *current* sources, so
    every source or configuration edit preserves it trivially. -/
def Inv (S : Sys Src Cfg Key Content) (o : Out Key Content) : Prop :=
  ∀ s c, o.cache = some (S.key s c) → CurrentOrMissing o (S.gen s c)

def NamesDistinct (fs : List (Name × Content)) : Prop := (fs.map (·.1)).Nodup

end R
