import Typegen.TsTyLemmas
/-! `parse ∘ print = id` for the TypeScript type grammar: the recogniser `T.parseTsTy` reads the canonical printer's
    output back exactly (all canonical types, any depth), and the denotation of every type structure with identifier
    names is canonical.  Consequence: the text the plain renderer emits parses to its denotation. -/
namespace PP
open L V T

/-- a plain identifier: non-empty, starts with an identifier-start character, identifier characters throughout -/
def IdentOk (n : Str) : Prop := ∃ c cs, n = c :: cs ∧ isIdStart c = true ∧ ∀ x ∈ c :: cs, isIdChar x = true

/-- what may follow a name: nothing, or a character that is neither an identifier character nor `.` -/
def NoCont (rest : Str) : Prop := ∀ c r, rest = c :: r → isIdChar c = false ∧ c ≠ '.'

theorem takeIdent_all : ∀ (n rest : Str), (∀ x ∈ n, isIdChar x = true) → (∀ c r, rest = c :: r → isIdChar c = false) →
    takeIdent (n ++ rest) = (n, rest)
  | [], rest, _, hr => by
    cases rest with
    | nil => rfl
    | cons c r => simp [takeIdent, (hr c r rfl)]
  | x :: xs, rest, hn, hr => by
    have hx := hn x (by simp)
    have ih := takeIdent_all xs rest (fun y hy => hn y (List.mem_cons_of_mem _ hy)) hr
    simp [takeIdent, hx, ih]

/-- dotted names -/
inductive QNameOk : Str → Prop
  | one {n} : IdentOk n → QNameOk n
  | dot {a b} : IdentOk a → QNameOk b → QNameOk (a ++ '.' :: b)

def dots (n : Str) : Nat := (n.filter (· = '.')).length

theorem takeQName_ok : ∀ {n : Str}, QNameOk n → ∀ (rest : Str) (fuel : Nat), NoCont rest → dots n < fuel →
    takeQName fuel (n ++ rest) = some (n, rest) := by
  intro n h
  induction h with
  | one hi =>
    intro rest fuel hr hf
    obtain ⟨c, cs, rfl, hs, hall⟩ := hi
    cases fuel with
    | zero => exact absurd hf (by simp)
    | succ f =>
      have ht := takeIdent_all (c :: cs) rest hall (fun d r e => (hr d r e).1)
      simp only [List.cons_append] at ht ⊢
      simp only [takeQName, hs, if_true, ht]
      cases rest with
      | nil => rfl
      | cons d r =>
        have := (hr d r rfl).2
        simp [this]
  | dot hi hb ih =>
    intro rest fuel hr hf
    rename_i a b
    obtain ⟨c, cs, rfl, hs, hall⟩ := hi
    cases fuel with
    | zero => exact absurd hf (by simp)
    | succ f =>
      have hdot : isIdChar '.' = false := by decide
      have ht := takeIdent_all (c :: cs) ('.' :: b ++ rest) hall (fun d r e => by
        have : d = '.' := by simpa using (List.cons.inj e).1.symm
        subst this; exact hdot)
      have hd : dots b < f := by
        have : dots ((c :: cs) ++ '.' :: b) = dots (c :: cs) + (1 + dots b) := by
          unfold dots
          rw [List.filter_append, List.length_append]
          simp [List.filter_cons]; omega
        omega
      have ih' := ih rest f hr hd
      simp only [List.cons_append, List.append_assoc] at ht ih' ⊢
      simp only [takeQName, hs, if_true, ht, ih']
      simp

end PP

namespace PP
open L V T

mutual
inductive Canon : TsTy → Prop
  | name {n} : QNameOk n → Canon (.name n)
  | arr {t} : Canon t → Canon (.arr t)
  | union {a b rest} : CanonL (.cons a (.cons b rest)) → NoUnionL (.cons a (.cons b rest)) → Canon (.union (.cons a (.cons b rest)))
  | tuple {a rest} : CanonL (.cons a rest) → Canon (.tuple (.cons a rest))
  | app {f a rest} : QNameOk f → CanonL (.cons a rest) → Canon (.app f (.cons a rest))
inductive CanonL : TsTyList → Prop
  | nil : CanonL .nil
  | cons {t ts} : Canon t → CanonL ts → CanonL (.cons t ts)
inductive NoUnionL : TsTyList → Prop
  | nil : NoUnionL .nil
  | cons {t ts} : isUnion t = false → NoUnionL ts → NoUnionL (.cons t ts)
end

/-- what may follow a postfix type: nothing or one of ` `, `,`, `>`, `]`, `)` -/
def Fol (rest : Str) : Prop := rest = [] ∨ ∃ c r, rest = c :: r ∧ (c = ' ' ∨ c = ',' ∨ c = '>' ∨ c = ']' ∨ c = ')')
/-- what may follow a whole union: nothing or one of `,`, `>`, `]`, `)` -/
def UFol (rest : Str) : Prop := rest = [] ∨ ∃ c r, rest = c :: r ∧ (c = ',' ∨ c = '>' ∨ c = ']' ∨ c = ')')

theorem UFol.fol {rest : Str} (h : UFol rest) : Fol rest := by
  rcases h with h | ⟨c, r, e, hc⟩
  · exact .inl h
  · exact .inr ⟨c, r, e, by rcases hc with h | h | h | h <;> simp [h]⟩

theorem Fol.noCont {rest : Str} (h : Fol rest) : NoCont rest := by
  intro c r e
  rcases h with h | ⟨d, r', e', hd⟩
  · rw [h] at e; cases e
  · rw [e'] at e; cases e
    rcases hd with h | h | h | h | h <;> subst h <;> decide

def brackets : Nat → Str
  | 0 => []
  | k+1 => '[' :: ']' :: brackets k

def arrN : Nat → TsTy → TsTy
  | 0, t => t
  | k+1, t => arrN k (.arr t)

theorem pArrSuffix_ok : ∀ (k : Nat) (t : TsTy) (rest : Str) (f : Nat), Fol rest → k + 1 ≤ f →
    pArrSuffix f t (brackets k ++ rest) = some (arrN k t, rest)
  | 0, t, rest, f, hf, hk => by
    cases f with
    | zero => omega
    | succ f =>
      simp only [brackets, List.nil_append, pArrSuffix, arrN]
      rcases hf with h | ⟨c, r, e, hc⟩
      · subst h; rfl
      · subst e
        rcases hc with h | h | h | h | h <;> subst h <;> rfl
  | k+1, t, rest, f, hf, hk => by
    cases f with
    | zero => omega
    | succ f =>
      simp only [brackets, List.cons_append, pArrSuffix, arrN]
      exact pArrSuffix_ok k (.arr t) rest f hf (by omega)

end PP

namespace PP
open L V T

mutual
def size : TsTy → Nat
  | .name _ => 1
  | .arr t => 1 + size t
  | .union ts => 1 + sizeL ts
  | .tuple ts => 1 + sizeL ts
  | .app _ args => 1 + sizeL args
def sizeL : TsTyList → Nat
  | .nil => 0
  | .cons t ts => 1 + size t + sizeL ts
end

/-- the operand form under `[]`: a union is parenthesised -/
def primForm (t : TsTy) : Str := if isUnion t then ['('] ++ printSpec t ++ [')'] else printSpec t

theorem print_arr (t : TsTy) : printSpec (.arr t) = primForm t ++ sArr := by
  simp only [printSpec, primForm]; split <;> simp

theorem idStart_facts {c : Char} (h : isIdStart c = true) : c ≠ '(' ∧ c ≠ '[' ∧ c ≠ ' ' := by
  refine ⟨?_, ?_, ?_⟩ <;> (intro e; subst e; revert h; decide)

theorem qname_head {n : Str} (h : QNameOk n) : ∃ c r, n = c :: r ∧ isIdStart c = true := by
  cases h with
  | one hi => obtain ⟨c, cs, e, hs, _⟩ := hi; exact ⟨c, cs, e, hs⟩
  | dot hi _ => obtain ⟨c, cs, e, hs, _⟩ := hi; exact ⟨c, _, by rw [e]; rfl, hs⟩

/-- the print of a canonical type starts with a character that is not a blank -/
theorem print_head : ∀ (t : TsTy), Canon t → ∃ c r, printSpec t = c :: r ∧ c ≠ ' '
  | .name n, h => by
    cases h with
    | name hq => obtain ⟨c, r, e, hs⟩ := qname_head hq; exact ⟨c, r, by simp [printSpec, e], (idStart_facts hs).2.2⟩
  | .arr t, h => by
    cases h with
    | arr ht =>
      rw [print_arr]
      unfold primForm
      split
      · exact ⟨'(', printSpec t ++ [')'] ++ sArr, by simp, by decide⟩
      · obtain ⟨c, r, e, hc⟩ := print_head t ht
        exact ⟨c, r ++ sArr, by simp [e], hc⟩
  | .union ts, h => by
    cases h with
    | union hc _ =>
      cases hc with
      | cons ha hb =>
        obtain ⟨c, r, e, hne⟩ := print_head _ ha
        cases hb with
        | cons hb' _ =>
          rename_i a b rest _ _
          refine ⟨c, r ++ [' ', '|', ' '] ++ joinWith [' ', '|', ' '] (printSpec b :: printList rest), ?_, hne⟩
          simp only [printSpec, printList, joinWith, e]
          simp
  | .tuple ts, h => ⟨'[', joinWith sComma (printList ts) ++ [']'], by simp [printSpec], by decide⟩
  | .app f args, h => by
    cases h with
    | app hq _ => obtain ⟨c, r, e, hs⟩ := qname_head hq; exact ⟨c, _, by simp [printSpec, e]; rfl, (idStart_facts hs).2.2⟩

theorem skipWs_print (t : TsTy) (h : Canon t) (x : Str) : skipWs (printSpec t ++ x) = printSpec t ++ x := by
  obtain ⟨c, r, e, hc⟩ := print_head t h
  rw [e]
  cases hcc : decide (c = ' ') with
  | true => exact absurd (of_decide_eq_true hcc) hc
  | false =>
    simp only [List.cons_append]
    unfold skipWs
    split
    · next heq => simp at heq; exact absurd heq.1 hc
    · rfl

end PP

namespace PP
open L V T

def tailStr : TsTyList → Str
  | .nil => []
  | .cons m ms => [' ', '|', ' '] ++ printSpec m ++ tailStr ms

def mkU (l : List TsTy) : TsTy :=
  match l with
  | [t] => t
  | ts => .union (TsTyList.ofList ts)

theorem ofList_toList : ∀ (ts : TsTyList), TsTyList.ofList ts.toList = ts
  | .nil => rfl
  | .cons t ts => by simp [TsTyList.toList, TsTyList.ofList, ofList_toList ts]

theorem join_union : ∀ (ms : TsTyList) (a : TsTy),
    joinWith [' ', '|', ' '] (printList (.cons a ms)) = printSpec a ++ tailStr ms
  | .nil, a => by simp [printList, joinWith, tailStr]
  | .cons b more, a => by
    have := join_union more b
    simp only [printList] at this
    simp only [printList, joinWith, tailStr, this]
    simp

theorem fol_tail (ms : TsTyList) (rest : Str) (h : UFol rest) : Fol (tailStr ms ++ rest) := by
  cases ms with
  | nil => simpa [tailStr] using h.fol
  | cons m more => exact .inr ⟨' ', '|' :: ' ' :: (printSpec m ++ (tailStr more ++ rest)), by simp [tailStr], .inl rfl⟩

theorem skipWs_ufol {rest : Str} (h : UFol rest) : skipWs rest = rest ∧ ∀ r, rest ≠ '|' :: r := by
  rcases h with h | ⟨c, r, e, hc⟩
  · subst h; exact ⟨rfl, by simp⟩
  · subst e
    rcases hc with h | h | h | h <;> subst h <;> exact ⟨rfl, by simp⟩

end PP

namespace PP
open L V T

theorem dots_le (n : Str) : dots n ≤ n.length := List.length_filter_le _ _

theorem noCont_brackets (k : Nat) {rest : Str} (h : Fol rest) : NoCont (brackets k ++ rest) := by
  cases k with
  | zero => simpa [brackets] using h.noCont
  | succ k =>
    intro c r e
    simp only [brackets, List.cons_append] at e
    cases e
    exact ⟨by decide, by decide⟩

/-- parsing a name (the third arm of `pPrimary`) -/
theorem prim_name {n : Str} (hq : QNameOk n) (tl : Str) (f : Nat) (hn : NoCont tl) (hlt : ∀ r, tl ≠ '<' :: r) :
    pPrimary (f + 1) (n ++ tl) = some (.name n, tl) := by
  obtain ⟨c, r, e, hs⟩ := qname_head hq
  have hf := idStart_facts hs
  have hq' := takeQName_ok hq tl ((n ++ tl).length + 1) hn (by have := dots_le n; simp; omega)
  subst e
  simp only [List.cons_append] at hq' ⊢
  unfold pPrimary
  split
  · next heq => simp at heq; exact absurd heq.1 hf.1
  · next heq => simp at heq; exact absurd heq.1 hf.2.1
  · simp only [List.length_cons] at hq' ⊢
    rw [hq']
    cases tl with
    | nil => rfl
    | cons d r' =>
      have hd : d ≠ '<' := fun e => hlt r' (by rw [e])
      simp only

end PP

namespace PP
open L V T

def LFol (rest : Str) : Prop := ∃ c r, rest = c :: r ∧ (c = '>' ∨ c = ']')
theorem LFol.ufol {rest : Str} (h : LFol rest) : UFol rest := by
  obtain ⟨c, r, e, hc⟩ := h
  exact .inr ⟨c, r, e, by rcases hc with h | h <;> simp [h]⟩

theorem fol_not_lt {rest : Str} (k : Nat) (h : Fol rest) : ∀ r, brackets k ++ rest ≠ '<' :: r := by
  intro r e
  cases k with
  | zero =>
    simp only [brackets, List.nil_append] at e
    rcases h with h | ⟨c, r', e', hc⟩
    · rw [h] at e; cases e
    · rw [e'] at e; cases e
      rcases hc with h | h | h | h | h <;> cases h
  | succ k => simp [brackets] at e

theorem brackets_succ (k : Nat) : brackets 1 ++ brackets k = brackets (k + 1) := by
  induction k with
  | zero => rfl
  | succ k ih => simp only [brackets, List.cons_append, List.nil_append] at ih ⊢

theorem print_len_pos (t : TsTy) (h : Canon t) : 1 ≤ (printSpec t).length := by
  obtain ⟨c, r, e, _⟩ := print_head t h; rw [e]; simp

theorem join_skip (a : TsTy) (more : TsTyList) (h : CanonL (.cons a more)) (x : Str) :
    skipWs (joinWith sComma (printList (.cons a more)) ++ x) = joinWith sComma (printList (.cons a more)) ++ x := by
  cases h with
  | cons ha _ =>
    cases more with
    | nil => simpa [printList, joinWith] using skipWs_print a ha x
    | cons b rest =>
      have := skipWs_print a ha (sComma ++ joinWith sComma (printList (.cons b rest)) ++ x)
      simpa [printList, joinWith, List.append_assoc] using this

/-- parsing `g<args>` (the third arm of `pPrimary`) given the argument list parses -/
theorem prim_app {g : Str} (hq : QNameOk g) (body tl : Str) (f : Nat) (args : List TsTy)
    (hl : pList f (skipWs body) = some (args, '>' :: tl)) :
    pPrimary (f + 1) (g ++ '<' :: body) = some (.app g (TsTyList.ofList args), tl) := by
  obtain ⟨c, r, e, hs⟩ := qname_head hq
  have hf := idStart_facts hs
  have hn : NoCont ('<' :: body) := by
    intro d r' e'; cases e'; exact ⟨by decide, by decide⟩
  have hq' := takeQName_ok hq ('<' :: body) ((g ++ '<' :: body).length + 1) hn (by have := dots_le g; simp; omega)
  subst e
  simp only [List.cons_append] at hq' ⊢
  unfold pPrimary
  split
  · next heq => simp at heq; exact absurd heq.1 hf.1
  · next heq => simp at heq; exact absurd heq.1 hf.2.1
  · simp only [List.length_cons] at hq' ⊢
    rw [hq']
    simp only [hl]
    have : skipWs ('>' :: tl) = '>' :: tl := by simp [skipWs]
    rw [this]
    rfl


/-- `pUnion` on a non-union type, given the postfix parser handles it -/
theorem union_nonunion (t : TsTy) (h : Canon t) (hnu : isUnion t = false) (rest : Str) (f : Nat) (hfol : UFol rest)
    (hf : 4 * (printSpec t).length + 3 ≤ f)
    (hpost : ∀ (k : Nat) (r : Str) (g : Nat), Fol r → 4 * (primForm t).length + k + 2 ≤ g →
      pPostfix g (primForm t ++ brackets k ++ r) = some (arrN k t, r)) :
    pUnion f (printSpec t ++ rest) = some (t, rest) := by
  obtain ⟨f1, rfl⟩ : ∃ f1, f = f1 + 1 + 1 := ⟨f - 2, by omega⟩
  have hpf : primForm t = printSpec t := by simp [primForm, hnu]
  have h1 := hpost 0 rest (f1 + 1) hfol.fol (by rw [hpf]; omega)
  rw [hpf] at h1
  simp only [brackets, List.append_nil, arrN] at h1
  have hs := skipWs_ufol hfol
  unfold pUnion
  rw [h1]
  simp only
  unfold pUnionTail
  rw [hs.1]
  split
  · exact absurd rfl (hs.2 _)
  · rfl

def measP (t : TsTy) : Nat × Nat := (size t, if isUnion t then 1 else 0)
def measU (t : TsTy) : Nat × Nat := (size t, if isUnion t then 0 else 1)

theorem size_pos (t : TsTy) : 1 ≤ size t := by cases t <;> simp [size] <;> omega

mutual
theorem post_ok : ∀ (t : TsTy), Canon t → ∀ (k : Nat) (rest : Str) (f : Nat), Fol rest →
    4 * (primForm t).length + k + 2 ≤ f →
    pPostfix f (primForm t ++ brackets k ++ rest) = some (arrN k t, rest)
  | .name n, h, k, rest, f, hfol, hf => by
    cases h with
    | name hq =>
      obtain ⟨c, r, e, hs⟩ := qname_head hq
      have hpf : primForm (.name n) = n := by simp [primForm, isUnion, printSpec]
      rw [hpf] at hf ⊢
      obtain ⟨f1, rfl⟩ : ∃ f1, f = f1 + 1 + 1 := ⟨f - 2, by subst e; simp at hf; omega⟩
      have hne : skipWs (n ++ brackets k ++ rest) = n ++ brackets k ++ rest := by
        subst e
        have := (idStart_facts hs).2.2
        simp only [List.cons_append]
        unfold skipWs
        split
        · next heq => simp at heq; exact absurd heq.1 this
        · rfl
      have hp := prim_name hq (brackets k ++ rest) f1 (noCont_brackets k hfol) (fol_not_lt k hfol)
      unfold pPostfix
      rw [hne, List.append_assoc, hp]
      exact pArrSuffix_ok k (.name n) rest (f1 + 1) hfol (by subst e; simp at hf; omega)
  | .arr t, h, k, rest, f, hfol, hf => by
    cases h with
    | arr ht =>
      have e : primForm (.arr t) = primForm t ++ brackets 1 := by
        simp only [primForm, isUnion, Bool.false_eq_true, if_false, print_arr, brackets, sArr]
      have e2 : primForm t ++ brackets 1 ++ brackets k ++ rest = primForm t ++ brackets (k + 1) ++ rest := by
        simp [List.append_assoc, ← brackets_succ k]
      rw [e] at hf ⊢
      rw [e2]
      have := post_ok t ht (k + 1) rest f hfol (by simp [brackets] at hf; omega)
      rw [this]; rfl
  | .union ts, h, k, rest, f, hfol, hf => by
    have hpf : primForm (.union ts) = ['('] ++ printSpec (.union ts) ++ [')'] := by simp [primForm, isUnion]
    rw [hpf] at hf ⊢
    obtain ⟨f1, rfl⟩ : ∃ f1, f = f1 + 1 + 1 := ⟨f - 2, by simp at hf; omega⟩
    have hu := union_ok (.union ts) h ([')'] ++ brackets k ++ rest) f1
      (.inr ⟨')', brackets k ++ rest, by simp, by simp⟩) (by simp at hf ⊢; omega)
    have hsk := skipWs_print (.union ts) h ([')'] ++ brackets k ++ rest)
    unfold pPostfix
    have h1 : skipWs (['('] ++ printSpec (.union ts) ++ [')'] ++ brackets k ++ rest) =
        '(' :: (printSpec (.union ts) ++ ([')'] ++ brackets k ++ rest)) := by
      simp [skipWs]
    rw [h1]
    unfold pPrimary
    simp only
    rw [hsk, hu]
    simp only [List.cons_append, List.nil_append, skipWs]
    exact pArrSuffix_ok k (.union ts) rest (f1 + 1) hfol (by simp at hf; omega)
  | .tuple .nil, h, _, _, _, _, _ => by cases h
  | .tuple (.cons a more), h, k, rest, f, hfol, hf => by
    cases h with
    | tuple hc =>
      have hpf : primForm (.tuple (.cons a more)) = ['['] ++ joinWith sComma (printList (.cons a more)) ++ [']'] := by
        simp [primForm, isUnion, printSpec]
      rw [hpf] at hf ⊢
      obtain ⟨f1, rfl⟩ : ∃ f1, f = f1 + 1 + 1 := ⟨f - 2, by simp at hf; omega⟩
      have hl := list_ok a more hc ([']'] ++ brackets k ++ rest) f1 ⟨']', brackets k ++ rest, by simp, .inr rfl⟩
        (by simp at hf ⊢; omega)
      unfold pPostfix
      have h1 : skipWs (['['] ++ joinWith sComma (printList (.cons a more)) ++ [']'] ++ brackets k ++ rest) =
          '[' :: (joinWith sComma (printList (.cons a more)) ++ ([']'] ++ brackets k ++ rest)) := by
        simp [skipWs]
      rw [h1]
      unfold pPrimary
      simp only
      rw [join_skip a more hc _, hl]
      simp only [List.cons_append, List.nil_append, skipWs, ofList_toList]
      exact pArrSuffix_ok k _ rest (f1 + 1) hfol (by simp at hf; omega)
  | .app _ .nil, h, _, _, _, _, _ => by cases h
  | .app g (.cons a more), h, k, rest, f, hfol, hf => by
    cases h with
    | app hq hc =>
      have hpf : primForm (.app g (.cons a more)) = g ++ ['<'] ++ joinWith sComma (printList (.cons a more)) ++ ['>'] := by
        simp [primForm, isUnion, printSpec]
      rw [hpf] at hf ⊢
      obtain ⟨f1, rfl⟩ : ∃ f1, f = f1 + 1 + 1 := ⟨f - 2, by simp at hf; omega⟩
      have hl := list_ok a more hc (['>'] ++ brackets k ++ rest) f1 ⟨'>', brackets k ++ rest, by simp, .inl rfl⟩
        (by simp at hf ⊢; omega)
      obtain ⟨c, r, e, hs⟩ := qname_head hq
      have hne : ∀ y, skipWs (g ++ y) = g ++ y := by
        intro y; subst e
        have := (idStart_facts hs).2.2
        simp only [List.cons_append]
        unfold skipWs
        split
        · next heq => simp at heq; exact absurd heq.1 this
        · rfl
      have hbody : g ++ ['<'] ++ joinWith sComma (printList (.cons a more)) ++ ['>'] ++ brackets k ++ rest =
          g ++ '<' :: (joinWith sComma (printList (.cons a more)) ++ (['>'] ++ brackets k ++ rest)) := by simp
      unfold pPostfix
      rw [hbody, hne]
      have hp := prim_app hq (joinWith sComma (printList (.cons a more)) ++ (['>'] ++ brackets k ++ rest)) (brackets k ++ rest) f1
        (TsTyList.cons a more).toList (by rw [join_skip a more hc _, hl]; simp)
      rw [hp]
      simp only [ofList_toList]
      exact pArrSuffix_ok k _ rest (f1 + 1) hfol (by simp at hf; omega)
termination_by t => 2 * size t + (if isUnion t then 1 else 0)
decreasing_by
  all_goals simp_wf
  all_goals (try simp only [size, sizeL, isUnion])
  all_goals first
    | omega
    | (split <;> first | omega | (simp; done) | (simp; omega))
    | (simp; done)
    | (simp; omega)
theorem union_ok : ∀ (t : TsTy), Canon t → ∀ (rest : Str) (f : Nat), UFol rest → 4 * (printSpec t).length + 3 ≤ f →
    pUnion f (printSpec t ++ rest) = some (t, rest)
  | .union .nil, h, _, _, _, _ => by cases h
  | .union (.cons _ .nil), h, _, _, _, _ => by cases h
  | .union (.cons a (.cons b more)), h, rest, f, hfol, hf => by
    cases h with
    | union hc hn =>
      obtain ⟨f1, rfl⟩ : ∃ f1, f = f1 + 1 := ⟨f - 1, by omega⟩
      cases hc with
      | cons ha hcl =>
        cases hn with
        | cons hna hnl =>
          have hp : printSpec (.union (.cons a (.cons b more))) = printSpec a ++ tailStr (.cons b more) := by
            simp only [printSpec]; exact join_union (.cons b more) a
          rw [hp] at hf ⊢
          have hpa : primForm a = printSpec a := by simp [primForm, hna]
          have h1 := post_ok a ha 0 (tailStr (.cons b more) ++ rest) f1 (fol_tail _ rest hfol)
            (by rw [hpa]; simp at hf ⊢; omega)
          rw [hpa] at h1
          simp only [brackets, List.append_nil, arrN] at h1
          have h2 := tail_ok (.cons b more) hcl hnl [a] rest f1 hfol (by have := print_len_pos a ha; simp at hf ⊢; omega)
          unfold pUnion
          rw [List.append_assoc, h1]
          simp only
          rw [h2]
          simp [mkU, TsTyList.toList, TsTyList.ofList, ofList_toList]
  | .name n, h, rest, f, hfol, hf => union_nonunion (.name n) h rfl rest f hfol hf
      (fun k r g hf' hb => post_ok (.name n) h k r g hf' hb)
  | .arr t, h, rest, f, hfol, hf => union_nonunion (.arr t) h rfl rest f hfol hf
      (fun k r g hf' hb => post_ok (.arr t) h k r g hf' hb)
  | .tuple ts, h, rest, f, hfol, hf => union_nonunion (.tuple ts) h rfl rest f hfol hf
      (fun k r g hf' hb => post_ok (.tuple ts) h k r g hf' hb)
  | .app g args, h, rest, f, hfol, hf => union_nonunion (.app g args) h rfl rest f hfol hf
      (fun k r g' hf' hb => post_ok (.app g args) h k r g' hf' hb)
termination_by t => 2 * size t + (if isUnion t then 0 else 1)
decreasing_by
  all_goals simp_wf
  all_goals (try simp only [size, sizeL, isUnion])
  all_goals first
    | omega
    | (split <;> first | omega | (simp; done) | (simp; omega))
    | (simp; done)
    | (simp; omega)
theorem tail_ok : ∀ (ms : TsTyList), CanonL ms → NoUnionL ms → ∀ (acc : List TsTy) (rest : Str) (f : Nat), UFol rest →
    4 * (tailStr ms).length + 1 ≤ f →
    pUnionTail f acc (tailStr ms ++ rest) = some (mkU (acc ++ ms.toList), rest)
  | .nil, _, _, acc, rest, f, hfol, hf => by
    obtain ⟨f1, rfl⟩ : ∃ f1, f = f1 + 1 := ⟨f - 1, by omega⟩
    have hs := skipWs_ufol hfol
    simp only [tailStr, List.nil_append, TsTyList.toList, List.append_nil]
    unfold pUnionTail
    rw [hs.1]
    split
    · exact absurd rfl (hs.2 _)
    · unfold mkU; split <;> simp_all
  | .cons m ms, hc, hn, acc, rest, f, hfol, hf => by
    obtain ⟨f1, rfl⟩ : ∃ f1, f = f1 + 1 := ⟨f - 1, by omega⟩
    cases hc with
    | cons hm hcl =>
      cases hn with
      | cons hnm hnl =>
        have hpm : primForm m = printSpec m := by simp [primForm, hnm]
        have h1 := post_ok m hm 0 (tailStr ms ++ rest) f1 (fol_tail _ rest hfol)
          (by rw [hpm]; simp [tailStr] at hf ⊢; omega)
        rw [hpm] at h1
        simp only [brackets, List.append_nil, arrN] at h1
        have h2 := tail_ok ms hcl hnl (acc ++ [m]) rest f1 hfol (by simp [tailStr] at hf ⊢; omega)
        have hs : skipWs (tailStr (.cons m ms) ++ rest) = '|' :: ' ' :: (printSpec m ++ (tailStr ms ++ rest)) := by
          simp [tailStr, skipWs]
        have hs2 : skipWs (' ' :: (printSpec m ++ (tailStr ms ++ rest))) = printSpec m ++ (tailStr ms ++ rest) := by
          have := skipWs_print m hm (tailStr ms ++ rest)
          simpa [skipWs] using this
        unfold pUnionTail
        rw [hs]
        simp only
        rw [hs2, h1]
        simp only
        rw [h2]
        simp [TsTyList.toList, List.append_assoc]
termination_by ms => 2 * sizeL ms
decreasing_by
  all_goals simp_wf
  all_goals (try simp only [size, sizeL, isUnion])
  all_goals first
    | omega
    | (split <;> first | omega | (simp; done) | (simp; omega))
    | (simp; done)
    | (simp; omega)
theorem list_ok : ∀ (a : TsTy) (more : TsTyList), CanonL (.cons a more) → ∀ (rest : Str) (f : Nat), LFol rest →
    4 * (joinWith sComma (printList (.cons a more))).length + 4 ≤ f →
    pList f (joinWith sComma (printList (.cons a more)) ++ rest) = some ((TsTyList.cons a more).toList, rest)
  | a, .nil, h, rest, f, hfol, hf => by
    obtain ⟨f1, rfl⟩ : ∃ f1, f = f1 + 1 := ⟨f - 1, by omega⟩
    cases h with
    | cons ha _ =>
      have hu := union_ok a ha rest f1 hfol.ufol (by simp [printList, joinWith] at hf ⊢; omega)
      simp only [printList, joinWith]
      unfold pList
      rw [hu]
      obtain ⟨c, r, e, hc⟩ := hfol
      subst e
      rcases hc with h | h <;> subst h <;> simp [skipWs, TsTyList.toList]
  | a, .cons b more, h, rest, f, hfol, hf => by
    obtain ⟨f1, rfl⟩ : ∃ f1, f = f1 + 1 := ⟨f - 1, by omega⟩
    cases h with
    | cons ha hcl =>
      have hj : joinWith sComma (printList (.cons a (.cons b more))) =
          printSpec a ++ sComma ++ joinWith sComma (printList (.cons b more)) := by
        simp [printList, joinWith]
      rw [hj] at hf ⊢
      have hu := union_ok a ha (sComma ++ (joinWith sComma (printList (.cons b more)) ++ rest)) f1
        (.inr ⟨',', ' ' :: (joinWith sComma (printList (.cons b more)) ++ rest), by simp [sComma], .inl rfl⟩)
        (by simp at hf ⊢; omega)
      have hl := list_ok b more hcl rest f1 hfol (by have := print_len_pos a ha; simp [sComma] at hf ⊢; omega)
      have hsk := join_skip b more hcl rest
      unfold pList
      rw [List.append_assoc, List.append_assoc, hu]
      generalize joinWith sComma (printList (.cons b more)) = J at hl hsk ⊢
      have hs1 : skipWs (sComma ++ (J ++ rest)) = ',' :: ' ' :: (J ++ rest) := by simp [sComma, skipWs]
      have hs2 : skipWs (' ' :: (J ++ rest)) = J ++ rest := by simpa [skipWs] using hsk
      simp only [hs1, hs2, hl]
      simp [TsTyList.toList]
termination_by a more => 2 * (1 + size a + sizeL more)
decreasing_by
  all_goals simp_wf
  all_goals (try simp only [size, sizeL, isUnion])
  all_goals first
    | omega
    | (split <;> first | omega | (simp; done) | (simp; omega))
    | (simp; done)
    | (simp; omega)
end

end PP

namespace PP
open L V T

/-- **parse ∘ print = id** on canonical TypeScript types: the recogniser used by the C05 / C10 oracles reads the
    canonical printer's output back exactly, at any depth -/
theorem parse_print (t : TsTy) (h : Canon t) : parseTsTy (printSpec t) = some t := by
  unfold parseTsTy
  have hs := skipWs_print t h []
  simp only [List.append_nil] at hs
  have hu := union_ok t h [] (4 * (printSpec t).length + 8) (.inl rfl) (by omega)
  simp only [List.append_nil] at hu
  rw [hs, hu]
  simp [skipWs]

end PP

namespace PP
open L V T

mutual
/-- every primitive / custom name of the structure is a plain identifier -/
def identNames : TS → Prop
  | .prim p => IdentOk p
  | .custom n => IdentOk n
  | .array t | .set t | .optional t | .result t => identNames t
  | .map k v => identNames k ∧ identNames v
  | .tuple ts => identNamesL ts
def identNamesL : TSList → Prop
  | .nil => True
  | .cons t ts => identNames t ∧ identNamesL ts
end

theorem identOk_null : IdentOk cl!"null" := ⟨'n', cl!"ull", rfl, by decide, by decide⟩
theorem identOk_void : IdentOk sVoid := ⟨'v', cl!"oid", rfl, by decide, by decide⟩
theorem identOk_record : IdentOk cl!"Record" := ⟨'R', cl!"ecord", rfl, by decide, by decide⟩

theorem canonL_append : ∀ (a b : TsTyList), CanonL a → CanonL b → CanonL (a.append b)
  | .nil, b, _, hb => by simpa [TsTyList.append] using hb
  | .cons t ts, b, ha, hb => by
    cases ha with
    | cons ht hts => exact .cons ht (canonL_append ts b hts hb)

theorem noUnionL_append : ∀ (a b : TsTyList), NoUnionL a → NoUnionL b → NoUnionL (a.append b)
  | .nil, b, _, hb => by simpa [TsTyList.append] using hb
  | .cons t ts, b, ha, hb => by
    cases ha with
    | cons ht hts => exact .cons ht (noUnionL_append ts b hts hb)

theorem canon_null : Canon tNull := .name (.one identOk_null)

theorem canon_mkOpt (t : TsTy) (h : Canon t) : Canon (mkOpt t) := by
  cases h with
  | name hq => exact .union (.cons (.name hq) (.cons canon_null .nil)) (.cons rfl (.cons rfl .nil))
  | arr ht => exact .union (.cons (.arr ht) (.cons canon_null .nil)) (.cons rfl (.cons rfl .nil))
  | tuple hc => exact .union (.cons (.tuple hc) (.cons canon_null .nil)) (.cons rfl (.cons rfl .nil))
  | app hq hc => exact .union (.cons (.app hq hc) (.cons canon_null .nil)) (.cons rfl (.cons rfl .nil))
  | union hc hn =>
    rename_i a b rest
    have h1 := canonL_append _ (.cons tNull .nil) hc (.cons canon_null .nil)
    have h2 := noUnionL_append _ (.cons tNull .nil) hn (.cons rfl .nil)
    simp only [mkOpt, TsTyList.append] at h1 h2 ⊢
    exact .union h1 h2

mutual
theorem canon_tsOf : ∀ (t : TS), identNames t → Canon (tsOf [] t)
  | .prim p, h => .name (.one h)
  | .custom n, h => by
    simp only [tsOf]
    exact .name (.one h)
  | .array t, h => .arr (canon_tsOf t h)
  | .set t, h => .arr (canon_tsOf t h)
  | .map k v, h => .app (.one identOk_record) (.cons (canon_tsOf k h.1) (.cons (canon_tsOf v h.2) .nil))
  | .tuple .nil, _ => .name (.one identOk_void)
  | .tuple (.cons t r), h => .tuple (.cons (canon_tsOf t h.1) (canonL_tsOf r h.2))
  | .optional t, h => canon_mkOpt _ (canon_tsOf t h)
  | .result t, h => canon_tsOf t h
theorem canonL_tsOf : ∀ (ts : TSList), identNamesL ts → CanonL (tsOfList [] ts)
  | .nil, _ => .nil
  | .cons t r, h => .cons (canon_tsOf t h.1) (canonL_tsOf r h.2)
end

/-- **C05, text level**: without an `Option` directly under an array, the text the plain renderer emits for a
    structure parses — by the TypeScript type grammar of `parseTsTy` — to exactly the denotation `tsOf`:
    `parse (render t) = some (denote t)`, at any depth -/
theorem render_parses_to_denotation (t : TS) (hn : identNames t) (hp : precSafe t = true) :
    parseTsTy (visitTs [] t) = some (tsOf [] t) := by
  rw [visit_eq_print [] t hp]
  exact parse_print _ (canon_tsOf t hn)

end PP
