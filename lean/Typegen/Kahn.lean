namespace K
variable {α : Type} [DecidableEq α]

/-- edges are `(from, to)`: `from` uses `to`, so `to` must come first -/
abbrev Edge (α : Type) := α × α

/-- `in_degree[from] += 1` per dependency -/
def indeg0 : List (Edge α) → α → Nat
  | [], _ => 0
  | e :: es, a => (if e.1 = a then 1 else 0) + indeg0 es a
/-- `adjacency[to].push(from)` in dependency order -/
def adjOf : List (Edge α) → α → List α
  | [], _ => []
  | e :: es, n => if e.2 = n then e.1 :: adjOf es n else adjOf es n

structure KSt (α : Type) where
  deg : α → Nat
  queue : List α
  result : List α

/-- `*degree -= 1; if *degree == 0 { queue.push_back(adjacent) }` -/
def relax (s : KSt α) (a : α) : KSt α :=
  let d := s.deg a - 1
  { s with deg := fun x => if x = a then d else s.deg x,
           queue := if d = 0 then s.queue ++ [a] else s.queue }

def loop (edges : List (Edge α)) : Nat → KSt α → KSt α
  | 0, s => s
  | f+1, s =>
    match s.queue with
    | [] => s
    | n :: q => loop edges f ((adjOf edges n).foldl relax { s with queue := q, result := s.result ++ [n] })

def init (nodes : List α) (edges : List (Edge α)) : KSt α :=
  { deg := indeg0 edges, queue := nodes.filter (fun n => indeg0 edges n = 0), result := [] }

def kahn (nodes : List α) (edges : List (Edge α)) : Option (List α) :=
  let s := loop edges (nodes.length + 1) (init nodes edges)
  if s.result.length = nodes.length then some s.result else none

/-- number of `a`'s outgoing edges whose target is not yet output -/
def pend : List (Edge α) → List α → α → Nat
  | [], _, _ => 0
  | e :: es, res, a => (if e.1 = a ∧ e.2 ∉ res then 1 else 0) + pend es res a

structure Inv (nodes : List α) (edges : List (Edge α)) (s : KSt α) : Prop where
  resNodup : s.result.Nodup
  qNodup : s.queue.Nodup
  qDisj : ∀ x ∈ s.queue, x ∉ s.result
  qNodes : ∀ x ∈ s.queue, x ∈ nodes
  resNodes : ∀ x ∈ s.result, x ∈ nodes
  degOk : ∀ a, s.deg a = pend edges s.result a
  qZero : ∀ x ∈ s.queue, s.deg x = 0
  order : ∀ e ∈ edges, e.1 ∈ s.result → e.2 ∈ s.result ∧ s.result.idxOf e.2 < s.result.idxOf e.1
  complete : ∀ a ∈ nodes, s.deg a = 0 → a ∈ s.queue ∨ a ∈ s.result

/-- invariant inside the relaxation loop for node `n` (already appended), `rem` = adjacents still to relax -/
structure InvIn (nodes : List α) (edges : List (Edge α)) (n : α) (rem : List α) (s : KSt α) : Prop where
  resNodup : s.result.Nodup
  qNodup : s.queue.Nodup
  qDisj : ∀ x ∈ s.queue, x ∉ s.result
  qNodes : ∀ x ∈ s.queue, x ∈ nodes
  resNodes : ∀ x ∈ s.result, x ∈ nodes
  degOk : ∀ a, s.deg a = pend edges s.result a + rem.count a
  qZero : ∀ x ∈ s.queue, s.deg x = 0
  order : ∀ e ∈ edges, e.1 ∈ s.result → e.2 ∈ s.result ∧ s.result.idxOf e.2 < s.result.idxOf e.1
  complete : ∀ a ∈ nodes, s.deg a = 0 → a ∈ s.queue ∨ a ∈ s.result
  remNodes : ∀ x ∈ rem, x ∈ nodes
  remNotRes : ∀ x ∈ rem, x ∉ s.result

end K

namespace K
variable {α : Type} [DecidableEq α]

theorem idx_app_mem {l : List α} {a b : α} (h : a ∈ l) : (l ++ [b]).idxOf a = l.idxOf a := by
  rw [List.idxOf_append]; simp [h]
theorem idx_app_new {l : List α} {b : α} (h : b ∉ l) : (l ++ [b]).idxOf b = l.length := by
  rw [List.idxOf_append]; simp [h]

theorem relax_step (nodes : List α) (edges : List (Edge α)) (n a : α) (rem : List α) (s : KSt α)
    (h : InvIn nodes edges n (a :: rem) s) : InvIn nodes edges n rem (relax s a) := by
  have hdeg : s.deg a = pend edges s.result a + 1 + rem.count a := by
    rw [h.degOk a]; simp; omega
  have hpos : 1 ≤ s.deg a := by omega
  have ha_notq : a ∉ s.queue := fun hq => by have := h.qZero a hq; omega
  have ha_notres : a ∉ s.result := h.remNotRes a (by simp)
  have ha_nodes : a ∈ nodes := h.remNodes a (by simp)
  have hdegx : ∀ x, (relax s a).deg x = pend edges s.result x + rem.count x := by
    intro x
    simp only [relax]
    by_cases hx : x = a
    · subst hx; simp; omega
    · simp only [hx, if_false]
      rw [h.degOk x, List.count_cons]; simp [Ne.symm hx]
  by_cases hd : s.deg a - 1 = 0
  · -- a is pushed
    have hq : (relax s a).queue = s.queue ++ [a] := by simp [relax, hd]
    exact {
      resNodup := h.resNodup
      qNodup := by
        rw [hq, List.nodup_append]
        refine ⟨h.qNodup, by simp, ?_⟩
        intro x hx y hy; simp at hy; subst hy; intro e; subst e; exact ha_notq hx
      qDisj := by
        intro x hx; rw [hq] at hx; simp only [List.mem_append, List.mem_singleton] at hx
        rcases hx with hx | rfl
        · exact h.qDisj x hx
        · exact ha_notres
      qNodes := by
        intro x hx; rw [hq] at hx; simp only [List.mem_append, List.mem_singleton] at hx
        rcases hx with hx | rfl
        · exact h.qNodes x hx
        · exact ha_nodes
      resNodes := h.resNodes
      degOk := hdegx
      qZero := by
        intro x hx; rw [hq] at hx; simp only [List.mem_append, List.mem_singleton] at hx
        rcases hx with hx | rfl
        · have hxa : x ≠ a := fun e => ha_notq (e ▸ hx)
          simp only [relax, hxa, if_false]; exact h.qZero x hx
        · simp [relax, hd]
      order := h.order
      complete := by
        intro b hb hb0
        rw [hq]
        by_cases hba : b = a
        · left; simp [hba]
        · simp only [relax, hba, if_false] at hb0
          rcases h.complete b hb hb0 with h1 | h1
          · left; exact List.mem_append_left _ h1
          · right; exact h1
      remNodes := fun x hx => h.remNodes x (List.mem_cons_of_mem _ hx)
      remNotRes := fun x hx => h.remNotRes x (List.mem_cons_of_mem _ hx) }
  · have hq : (relax s a).queue = s.queue := by simp [relax, hd]
    exact {
      resNodup := h.resNodup
      qNodup := by rw [hq]; exact h.qNodup
      qDisj := by intro x hx; rw [hq] at hx; exact h.qDisj x hx
      qNodes := by intro x hx; rw [hq] at hx; exact h.qNodes x hx
      resNodes := h.resNodes
      degOk := hdegx
      qZero := by
        intro x hx; rw [hq] at hx
        have hxa : x ≠ a := fun e => ha_notq (e ▸ hx)
        simp only [relax, hxa, if_false]; exact h.qZero x hx
      order := h.order
      complete := by
        intro b hb hb0
        rw [hq]
        by_cases hba : b = a
        · subst hba; simp [relax] at hb0; exact absurd hb0 hd
        · simp only [relax, hba, if_false] at hb0
          exact h.complete b hb hb0
      remNodes := fun x hx => h.remNodes x (List.mem_cons_of_mem _ hx)
      remNotRes := fun x hx => h.remNotRes x (List.mem_cons_of_mem _ hx) }

theorem relax_fold (nodes : List α) (edges : List (Edge α)) (n : α) :
    ∀ (rem : List α) (s : KSt α), InvIn nodes edges n rem s → InvIn nodes edges n [] (rem.foldl relax s) := by
  intro rem
  induction rem with
  | nil => intro s h; exact h
  | cons a rem ih => intro s h; exact ih _ (relax_step nodes edges n a rem s h)

theorem relax_fold_result (rem : List α) (s : KSt α) : (rem.foldl relax s).result = s.result := by
  induction rem generalizing s with
  | nil => rfl
  | cons a rem ih => simp only [List.foldl_cons]; rw [ih]; rfl

end K

namespace K
variable {α : Type} [DecidableEq α]

theorem pend_split (edges : List (Edge α)) (res : List α) (n a : α) (hn : n ∉ res) :
    pend edges res a = pend edges (res ++ [n]) a + (adjOf edges n).count a := by
  induction edges with
  | nil => simp [pend, adjOf]
  | cons e es ih =>
    simp only [pend, adjOf]
    by_cases h2 : e.2 = n
    · by_cases h1 : e.1 = a
      · simp [h1, h2, hn, ih]; omega
      · have h1' : ¬ (a = e.1) := fun h => h1 h.symm
        simp [h1, h1', h2, ih, List.count_cons]
    · by_cases h1 : e.1 = a
      · by_cases h3 : e.2 ∈ res
        · simp [h1, h2, h3, ih]
        · simp [h1, h2, h3, ih]; omega
      · simp [h1, h2, ih]

theorem pend_zero_iff (edges : List (Edge α)) (res : List α) (a : α) :
    pend edges res a = 0 ↔ ∀ e ∈ edges, e.1 = a → e.2 ∈ res := by
  induction edges with
  | nil => simp [pend]
  | cons e es ih =>
    simp only [pend, List.mem_cons, forall_eq_or_imp]
    by_cases h : e.1 = a ∧ e.2 ∉ res
    · rw [if_pos h]
      constructor
      · intro h0; omega
      · intro h1; exact absurd (h1.1 h.1) h.2
    · rw [if_neg h, Nat.zero_add, ih]
      constructor
      · intro h1; refine ⟨?_, h1⟩
        intro h1a; by_cases hr : e.2 ∈ res
        · exact hr
        · exact absurd ⟨h1a, hr⟩ h
      · intro h1; exact h1.2

theorem mem_adjOf {edges : List (Edge α)} {n x : α} : x ∈ adjOf edges n ↔ (x, n) ∈ edges := by
  induction edges with
  | nil => simp [adjOf]
  | cons e es ih =>
    simp only [adjOf, List.mem_cons]
    by_cases h2 : e.2 = n
    · simp only [h2, if_true, List.mem_cons, ih]
      constructor
      · rintro (h | h)
        · left; cases e; simp_all
        · right; exact h
      · rintro (h | h)
        · left; cases e; simp_all
        · right; exact h
    · simp only [h2, if_false, ih]
      constructor
      · intro h; right; exact h
      · rintro (h | h)
        · cases e; simp_all
        · exact h

theorem indeg0_eq_pend (edges : List (Edge α)) (a : α) : indeg0 edges a = pend edges [] a := by
  induction edges with
  | nil => rfl
  | cons e es ih => simp [indeg0, pend, ih]

theorem outer_step (nodes : List α) (edges : List (Edge α))
    (hE : ∀ e ∈ edges, e.1 ∈ nodes ∧ e.2 ∈ nodes)
    (s : KSt α) (n : α) (q : List α) (hq : s.queue = n :: q) (h : Inv nodes edges s) :
    InvIn nodes edges n (adjOf edges n) { s with queue := q, result := s.result ++ [n] } := by
  have hn_q : n ∈ s.queue := by rw [hq]; simp
  have hn_res : n ∉ s.result := h.qDisj n hn_q
  have hn_deg : s.deg n = 0 := h.qZero n hn_q
  have hn_pend : ∀ e ∈ edges, e.1 = n → e.2 ∈ s.result :=
    (pend_zero_iff edges s.result n).mp (by rw [← h.degOk n]; exact hn_deg)
  have hqn : (n :: q).Nodup := hq ▸ h.qNodup
  exact {
    resNodup := by
      show (s.result ++ [n]).Nodup
      rw [List.nodup_append]
      refine ⟨h.resNodup, by simp, ?_⟩
      intro x hx y hy; simp at hy; subst hy; intro e; subst e; exact hn_res hx
    qNodup := (List.nodup_cons.mp hqn).2
    qDisj := by
      intro x hx
      show x ∉ s.result ++ [n]
      simp only [List.mem_append, List.mem_singleton, not_or]
      refine ⟨h.qDisj x (by rw [hq]; exact List.mem_cons_of_mem _ hx), ?_⟩
      intro e; subst e; exact (List.nodup_cons.mp hqn).1 hx
    qNodes := fun x hx => h.qNodes x (by rw [hq]; exact List.mem_cons_of_mem _ hx)
    resNodes := by
      intro x hx
      have hx' : x ∈ s.result ++ [n] := hx
      simp only [List.mem_append, List.mem_singleton] at hx'
      rcases hx' with hx' | rfl
      · exact h.resNodes x hx'
      · exact h.qNodes x hn_q
    degOk := by
      intro a
      show s.deg a = pend edges (s.result ++ [n]) a + (adjOf edges n).count a
      rw [h.degOk a]; exact pend_split edges s.result n a hn_res
    qZero := fun x hx => h.qZero x (by rw [hq]; exact List.mem_cons_of_mem _ hx)
    order := by
      intro e he h1
      have h1' : e.1 ∈ s.result ++ [n] := h1
      show e.2 ∈ s.result ++ [n] ∧ (s.result ++ [n]).idxOf e.2 < (s.result ++ [n]).idxOf e.1
      simp only [List.mem_append, List.mem_singleton] at h1'
      rcases h1' with h1' | h1'
      · obtain ⟨m, lt⟩ := h.order e he h1'
        exact ⟨List.mem_append_left _ m, by rw [idx_app_mem m, idx_app_mem h1']; exact lt⟩
      · have m := hn_pend e he h1'
        refine ⟨List.mem_append_left _ m, ?_⟩
        rw [idx_app_mem m, h1', idx_app_new hn_res]
        exact List.idxOf_lt_length_of_mem m
    complete := by
      intro a ha h0
      rcases h.complete a ha h0 with h1 | h1
      · rw [hq] at h1
        simp only [List.mem_cons] at h1
        rcases h1 with rfl | h1
        · right; show a ∈ s.result ++ [a]; simp
        · left; exact h1
      · right; exact List.mem_append_left _ h1
    remNodes := by
      intro x hx
      exact (hE _ (mem_adjOf.mp hx)).1
    remNotRes := by
      intro x hx
      have he := mem_adjOf.mp hx
      show x ∉ s.result ++ [n]
      simp only [List.mem_append, List.mem_singleton, not_or]
      constructor
      · intro hxr
        exact hn_res (h.order (x, n) he hxr).1
      · intro e; subst e
        exact hn_res (hn_pend (x, x) he rfl) }

theorem inner_done (nodes : List α) (edges : List (Edge α)) (n : α) (s : KSt α)
    (h : InvIn nodes edges n [] s) : Inv nodes edges s :=
  { resNodup := h.resNodup, qNodup := h.qNodup, qDisj := h.qDisj, qNodes := h.qNodes, resNodes := h.resNodes
    degOk := by intro a; simpa using h.degOk a
    qZero := h.qZero, order := h.order, complete := h.complete }

theorem loop_inv (nodes : List α) (edges : List (Edge α)) (hE : ∀ e ∈ edges, e.1 ∈ nodes ∧ e.2 ∈ nodes) :
    ∀ (f : Nat) (s : KSt α), Inv nodes edges s → Inv nodes edges (loop edges f s) := by
  intro f
  induction f with
  | zero => intro s h; exact h
  | succ f ih =>
    intro s h
    unfold loop
    split
    · exact h
    · next n q hq =>
      apply ih
      exact inner_done nodes edges n _ (relax_fold nodes edges n _ _ (outer_step nodes edges hE s n q hq h))

theorem init_inv (nodes : List α) (edges : List (Edge α)) (hN : nodes.Nodup) :
    Inv nodes edges (init nodes edges) :=
  { resNodup := by simp [init]
    qNodup := by simp only [init]; exact hN.filter _
    qDisj := by intro x _; simp [init]
    qNodes := by intro x hx; simp only [init, List.mem_filter] at hx; exact hx.1
    resNodes := by intro x hx; simp [init] at hx
    degOk := by intro a; simp [init, indeg0_eq_pend]
    qZero := by intro x hx; simp only [init, List.mem_filter, decide_eq_true_eq] at hx ⊢; exact hx.2
    order := by intro e _ h; simp [init] at h
    complete := by
      intro a ha h0; left
      simp only [init, List.mem_filter, decide_eq_true_eq] at h0 ⊢; exact ⟨ha, h0⟩ }

end K

namespace K
variable {α : Type} [DecidableEq α]

theorem nodup_subset_length {l U : List α} (hn : l.Nodup) (hs : ∀ x ∈ l, x ∈ U) : l.length ≤ U.length := by
  induction l generalizing U with
  | nil => simp
  | cons a l ih =>
    have ha : a ∈ U := hs a (by simp)
    have hn' := List.nodup_cons.mp hn
    have : l.length ≤ (U.erase a).length := by
      apply ih hn'.2
      intro x hx
      have hxa : x ≠ a := fun e => hn'.1 (e ▸ hx)
      exact (List.mem_erase_of_ne hxa).mpr (hs x (List.mem_cons_of_mem _ hx))
    rw [List.length_erase_of_mem ha] at this
    have hpos : 0 < U.length := List.length_pos_of_mem ha
    simp only [List.length_cons]; omega

/-- a duplicate-free sublist-by-membership of the same length contains everything -/
theorem nodup_full {l U : List α} (hn : l.Nodup) (hs : ∀ x ∈ l, x ∈ U) (hlen : l.length = U.length) :
    ∀ m ∈ U, m ∈ l := by
  intro m hm
  by_cases h : m ∈ l
  · exact h
  · have : l.length ≤ (U.erase m).length := by
      apply nodup_subset_length hn
      intro x hx
      have hxm : x ≠ m := fun e => h (e ▸ hx)
      exact (List.mem_erase_of_ne hxm).mpr (hs x hx)
    rw [List.length_erase_of_mem hm] at this
    have hpos : 0 < U.length := List.length_pos_of_mem hm
    omega

/-- non-empty dependency path `a → … → b` (a uses … uses b) -/
inductive Plus (edges : List (Edge α)) : α → α → Prop
  | single {a b} : (a, b) ∈ edges → Plus edges a b
  | step {a b c} : (a, b) ∈ edges → Plus edges b c → Plus edges a c

def Acyclic (edges : List (Edge α)) : Prop := ∀ a, ¬ Plus edges a a

/-- C20 (Kahn half, soundness): a successful result is a duplicate-free listing of exactly the nodes
    in which every dependency (`to`) precedes its dependent (`from`). -/
theorem kahn_valid (nodes : List α) (edges : List (Edge α)) (hN : nodes.Nodup)
    (hE : ∀ e ∈ edges, e.1 ∈ nodes ∧ e.2 ∈ nodes) (l : List α) (h : kahn nodes edges = some l) :
    l.Nodup ∧ (∀ x, x ∈ l ↔ x ∈ nodes) ∧ ∀ e ∈ edges, l.idxOf e.2 < l.idxOf e.1 := by
  unfold kahn at h
  simp only at h
  split at h
  · next hlen =>
    simp only [Option.some.injEq] at h
    have hI := loop_inv nodes edges hE (nodes.length + 1) _ (init_inv nodes edges hN)
    generalize loop edges (nodes.length + 1) (init nodes edges) = s at h hI hlen
    subst h
    have hall := nodup_full hI.resNodup hI.resNodes hlen
    refine ⟨hI.resNodup, fun x => ⟨hI.resNodes x, hall x⟩, ?_⟩
    intro e he
    exact (hI.order e he (hall _ (hE e he).1)).2
  · exact absurd h (by simp)

theorem plus_idx (edges : List (Edge α)) (l : List α) (ho : ∀ e ∈ edges, l.idxOf e.2 < l.idxOf e.1)
    {a b : α} (h : Plus edges a b) : l.idxOf b < l.idxOf a := by
  induction h with
  | single he => exact ho _ he
  | step he _ ih => have := ho _ he; simp only at this; omega

/-- C20: a cycle (incl. a self-loop) is always reported -/
theorem kahn_ok_acyclic (nodes : List α) (edges : List (Edge α)) (hN : nodes.Nodup)
    (hE : ∀ e ∈ edges, e.1 ∈ nodes ∧ e.2 ∈ nodes) (l : List α) (h : kahn nodes edges = some l) :
    Acyclic edges := by
  intro a hp
  have := plus_idx edges l (kahn_valid nodes edges hN hE l h).2.2 hp
  omega

end K

namespace K
variable {α : Type} [DecidableEq α]

theorem loop_queue_empty (nodes : List α) (edges : List (Edge α)) (hE : ∀ e ∈ edges, e.1 ∈ nodes ∧ e.2 ∈ nodes) :
    ∀ (f : Nat) (s : KSt α), Inv nodes edges s → nodes.length < f + s.result.length →
      (loop edges f s).queue = [] := by
  intro f
  induction f with
  | zero =>
    intro s h hlt
    have := nodup_subset_length h.resNodup h.resNodes
    omega
  | succ f ih =>
    intro s h hlt
    unfold loop
    split
    · next hq => exact hq
    · next n q hq =>
      have hin := relax_fold nodes edges n _ _ (outer_step nodes edges hE s n q hq h)
      apply ih _ (inner_done nodes edges n _ hin)
      rw [relax_fold_result]
      simp only [List.length_append, List.length_cons, List.length_nil]
      omega

/-- consecutive elements are dependency edges -/
def IsWalk (edges : List (Edge α)) : List α → Prop
  | [] => True
  | [_] => True
  | a :: b :: rest => (a, b) ∈ edges ∧ IsWalk edges (b :: rest)

theorem walk_reach (edges : List (Edge α)) : ∀ (w : List α) (b x : α),
    IsWalk edges (b :: w) → x ∈ w → Plus edges b x
  | [], _, _, _, hx => by simp at hx
  | c :: rest, b, x, hw, hx => by
    simp only [List.mem_cons] at hx
    rcases hx with rfl | hx
    · exact .single hw.1
    · exact .step hw.1 (walk_reach edges rest c x hw.2 hx)

theorem walk_nodup (edges : List (Edge α)) (hA : Acyclic edges) :
    ∀ (w : List α), IsWalk edges w → w.Nodup
  | [], _ => by simp
  | [a], _ => by simp
  | a :: b :: rest, hw => by
    have ih := walk_nodup edges hA (b :: rest) hw.2
    refine List.nodup_cons.mpr ⟨?_, ih⟩
    intro ha
    simp only [List.mem_cons] at ha
    rcases ha with rfl | ha
    · exact hA _ (.single hw.1)
    · exact hA a (.step hw.1 (walk_reach edges rest b a hw.2 ha))

/-- if every node of `S` has a dependency inside `S`, walks of any length stay inside `S` -/
theorem long_walk (edges : List (Edge α)) (S : α → Prop)
    (hsucc : ∀ m, S m → ∃ y, (m, y) ∈ edges ∧ S y) :
    ∀ (k : Nat) (m : α), S m → ∃ w, IsWalk edges (m :: w) ∧ w.length = k ∧ ∀ x ∈ w, S x := by
  intro k
  induction k with
  | zero => intro m _; exact ⟨[], trivial, rfl, by simp⟩
  | succ k ih =>
    intro m hm
    obtain ⟨y, hy, hSy⟩ := hsucc m hm
    obtain ⟨w, hw, hl, hS⟩ := ih y hSy
    refine ⟨y :: w, ⟨hy, hw⟩, by simp [hl], ?_⟩
    intro x hx
    simp only [List.mem_cons] at hx
    rcases hx with rfl | hx
    · exact hSy
    · exact hS x hx

/-- C20 (Kahn half, completeness): on an acyclic graph every node is output -/
theorem kahn_acyclic_ok (nodes : List α) (edges : List (Edge α)) (hN : nodes.Nodup)
    (hE : ∀ e ∈ edges, e.1 ∈ nodes ∧ e.2 ∈ nodes) (hA : Acyclic edges) :
    ∃ l, kahn nodes edges = some l := by
  unfold kahn
  simp only
  have hI := loop_inv nodes edges hE (nodes.length + 1) _ (init_inv nodes edges hN)
  have hq := loop_queue_empty nodes edges hE (nodes.length + 1) _ (init_inv nodes edges hN)
    (by simp [init])
  generalize loop edges (nodes.length + 1) (init nodes edges) = s at hI hq
  by_cases hlen : s.result.length = nodes.length
  · exact ⟨s.result, by simp [hlen]⟩
  · exfalso
    -- some node is missing
    have hmiss : ∃ m, m ∈ nodes ∧ m ∉ s.result := by
      apply Classical.byContradiction
      intro hno
      have hall : ∀ m ∈ nodes, m ∈ s.result := by
        intro m hm
        apply Classical.byContradiction
        intro hmr; exact hno ⟨m, hm, hmr⟩
      have h1 := nodup_subset_length hN hall
      have h2 := nodup_subset_length hI.resNodup hI.resNodes
      omega
    obtain ⟨m, hm, hmr⟩ := hmiss
    let S : α → Prop := fun x => x ∈ nodes ∧ x ∉ s.result
    have hsucc : ∀ x, S x → ∃ y, (x, y) ∈ edges ∧ S y := by
      intro x ⟨hx, hxr⟩
      have hdeg : s.deg x ≠ 0 := by
        intro h0
        rcases hI.complete x hx h0 with h | h
        · rw [hq] at h; simp at h
        · exact hxr h
      rw [hI.degOk x] at hdeg
      have : ¬ ∀ e ∈ edges, e.1 = x → e.2 ∈ s.result := fun hh => hdeg ((pend_zero_iff edges s.result x).mpr hh)
      apply Classical.byContradiction
      intro hno
      apply this
      intro e he h1
      apply Classical.byContradiction
      intro h2
      apply hno
      refine ⟨e.2, ?_, (hE e he).2, h2⟩
      have : e = (x, e.2) := by cases e; simp_all
      rw [← this]; exact he
    obtain ⟨w, hw, hl, hS⟩ := long_walk edges S hsucc nodes.length m ⟨hm, hmr⟩
    have hnd := walk_nodup edges hA (m :: w) hw
    have hsub : ∀ x ∈ m :: w, x ∈ nodes := by
      intro x hx
      simp only [List.mem_cons] at hx
      rcases hx with rfl | hx
      · exact hm
      · exact (hS x hx).1
    have := nodup_subset_length hnd hsub
    simp only [List.length_cons] at this
    omega

/-- C20, Kahn half: success exactly on acyclic graphs -/
theorem kahn_ok_iff (nodes : List α) (edges : List (Edge α)) (hN : nodes.Nodup)
    (hE : ∀ e ∈ edges, e.1 ∈ nodes ∧ e.2 ∈ nodes) :
    (kahn nodes edges).isSome ↔ Acyclic edges := by
  constructor
  · intro h
    obtain ⟨l, hl⟩ := Option.isSome_iff_exists.mp h
    exact kahn_ok_acyclic nodes edges hN hE l hl
  · intro hA
    obtain ⟨l, hl⟩ := kahn_acyclic_ok nodes edges hN hE hA
    simp [hl]

end K
