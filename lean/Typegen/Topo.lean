namespace D
variable {α : Type} [DecidableEq α]

structure St (α : Type) where
  sorted : List α := []
  visited : List α := []
  visiting : List α := []
  exhausted : Bool := false

def visit (deps : α → List α) : Nat → α → St α → St α
  | 0, _, st => { st with exhausted := true }
  | fuel+1, n, st =>
    if n ∈ st.visiting then st
    else if n ∈ st.visited then st
    else
      let st1 : St α := { st with visiting := n :: st.visiting }
      let st2 := (deps n).foldl (fun s d => visit deps fuel d s) st1
      { st2 with visiting := st2.visiting.erase n, visited := n :: st2.visited, sorted := st2.sorted ++ [n] }

inductive Reaches (deps : α → List α) : α → α → Prop
  | refl (a) : Reaches deps a a
  | step {a b c} : b ∈ deps a → Reaches deps b c → Reaches deps a c

theorem Reaches.trans {deps : α → List α} {a b c : α} (h1 : Reaches deps a b) (h2 : Reaches deps b c) :
    Reaches deps a c := by
  induction h1 with
  | refl => exact h2
  | step hab _ ih => exact .step hab (ih h2)

theorem Reaches.single {deps : α → List α} {a b : α} (h : b ∈ deps a) : Reaches deps a b :=
  .step h (.refl b)

/-- every element of the stack reaches the head (stack head = node being visited);
    stated as: consecutive elements are dependency edges -/
def StackPath (deps : α → List α) : List α → Prop
  | [] => True
  | [_] => True
  | a :: b :: rest => a ∈ deps b ∧ StackPath deps (b :: rest)

theorem StackPath.reach_head {deps : α → List α} :
    ∀ {l : List α} {h x : α}, StackPath deps (h :: l) → x ∈ h :: l → Reaches deps x h
  | [], h, x, _, hx => by
    simp at hx; subst hx; exact .refl _
  | b :: rest, h, x, hp, hx => by
    simp only [List.mem_cons] at hx
    rcases hx with rfl | hx
    · exact .refl _
    · have hb : Reaches deps x b := StackPath.reach_head hp.2 (by simpa using hx)
      exact hb.trans (.single hp.1)

structure Inv (deps : α → List α) (st : St α) : Prop where
  vis_sorted : ∀ x, x ∈ st.visited ↔ x ∈ st.sorted
  nodup : st.sorted.Nodup
  disj : ∀ x, x ∈ st.visiting → x ∉ st.visited
  path : StackPath deps st.visiting
  stackNodup : st.visiting.Nodup
  closed : ∀ u ∈ st.sorted, ∀ v ∈ deps u, v ∈ st.visited ∨ v ∈ st.visiting
  order : ∀ u ∈ st.sorted, ∀ v ∈ deps u, (v ∈ st.sorted ∧ st.sorted.idxOf v < st.sorted.idxOf u) ∨ Reaches deps v u

end D

namespace D
variable {α : Type} [DecidableEq α]

theorem visit_sticky (deps : α → List α) : ∀ (fuel : Nat) (n : α) (st : St α),
    st.exhausted = true → (visit deps fuel n st).exhausted = true := by
  intro fuel
  induction fuel with
  | zero => intro n st h; simp [visit]
  | succ f ih =>
    intro n st h
    unfold visit
    split
    · exact h
    · split
      · exact h
      · simp only
        have : ∀ (ds : List α) (s : St α), s.exhausted = true →
            (ds.foldl (fun s d => visit deps f d s) s).exhausted = true := by
          intro ds
          induction ds with
          | nil => intro s hs; simpa using hs
          | cons d ds ihd => intro s hs; simp only [List.foldl_cons]; exact ihd _ (ih d s hs)
        exact this _ _ (by simpa using h)

/-- what one call of `visit` guarantees -/
structure Post (deps : α → List α) (n : α) (st st' : St α) : Prop where
  inv : Inv deps st'
  stack : st'.visiting = st.visiting
  pre : st.sorted <+: st'.sorted
  mono : ∀ x, x ∈ st.visited → x ∈ st'.visited
  done : n ∈ st.visiting ∨ n ∈ st'.visited

def Spec (deps : α → List α) (fuel : Nat) : Prop :=
  ∀ (n : α) (st : St α), Inv deps st →
    (∀ c rest, st.visiting = c :: rest → n ∈ deps c) →
    (visit deps fuel n st).exhausted = false →
    Post deps n st (visit deps fuel n st)

theorem fold_spec (deps : α → List α) (f : Nat) (hS : Spec deps f) :
    ∀ (ds : List α) (c : α) (rest : List α) (st : St α), Inv deps st → st.visiting = c :: rest →
      (∀ d ∈ ds, d ∈ deps c) →
      (ds.foldl (fun s d => visit deps f d s) st).exhausted = false →
      let st' := ds.foldl (fun s d => visit deps f d s) st
      Inv deps st' ∧ st'.visiting = st.visiting ∧ st.sorted <+: st'.sorted ∧
        (∀ x, x ∈ st.visited → x ∈ st'.visited) ∧ (∀ d ∈ ds, d ∈ st.visiting ∨ d ∈ st'.visited) := by
  intro ds
  induction ds with
  | nil =>
    intro c rest st hI _ _ _
    exact ⟨hI, rfl, List.prefix_refl _, fun _ h => h, by simp⟩
  | cons d ds ih =>
    intro c rest st hI hv hds hex
    simp only [List.foldl_cons] at hex ⊢
    have hd : d ∈ deps c := hds d (by simp)
    have hex1 : (visit deps f d st).exhausted = false := by
      cases h : (visit deps f d st).exhausted with
      | false => rfl
      | true =>
        have : ∀ (ds : List α) (s : St α), s.exhausted = true →
            (ds.foldl (fun s d => visit deps f d s) s).exhausted = true := by
          intro ds
          induction ds with
          | nil => intro s hs; simpa using hs
          | cons d ds ihd => intro s hs; simp only [List.foldl_cons]; exact ihd _ (visit_sticky deps f d s hs)
        rw [this ds _ h] at hex; exact absurd hex (by simp)
    have p := hS d st hI (by intro c' rest' h'; rw [hv] at h'; cases h'; exact hd) hex1
    have hv1 : (visit deps f d st).visiting = c :: rest := by rw [p.stack, hv]
    obtain ⟨i1, i2, i3, i4, i5⟩ := ih c rest _ p.inv hv1 (fun d' hd' => hds d' (by simp [hd'])) hex
    refine ⟨i1, by rw [i2, p.stack], p.pre.trans i3, fun x hx => i4 x (p.mono x hx), ?_⟩
    intro d' hd'
    simp only [List.mem_cons] at hd'
    rcases hd' with rfl | hd'
    · rcases p.done with h | h
      · exact .inl h
      · exact .inr (i4 _ h)
    · rcases i5 d' hd' with h | h
      · left; rw [p.stack] at h; exact h
      · exact .inr h
end D

namespace D
variable {α : Type} [DecidableEq α]

theorem idx_app_mem {l : List α} {a b : α} (h : a ∈ l) : (l ++ [b]).idxOf a = l.idxOf a := by
  rw [List.idxOf_append]; simp [h]
theorem idx_app_new {l : List α} {b : α} (h : b ∉ l) : (l ++ [b]).idxOf b = l.length := by
  rw [List.idxOf_append]; simp [h]

theorem spec_succ (deps : α → List α) (f : Nat) (hS : Spec deps f) : Spec deps (f+1) := by
  intro n st hI hpre hex
  unfold visit at hex ⊢
  split
  · next hmem => exact ⟨hI, rfl, List.prefix_refl _, fun _ h => h, .inl hmem⟩
  · next hnv =>
    split
    · next hvis => exact ⟨hI, rfl, List.prefix_refl _, fun _ h => h, .inr hvis⟩
    · next hnvis =>
      rw [if_neg hnv, if_neg hnvis] at hex
      simp only at hex ⊢
      -- state after pushing n
      let st1 : St α := { st with visiting := n :: st.visiting }
      have hI1 : Inv deps st1 := {
        vis_sorted := hI.vis_sorted
        nodup := hI.nodup
        disj := by
          intro x hx
          simp only [st1, List.mem_cons] at hx
          rcases hx with rfl | hx
          · exact hnvis
          · exact hI.disj x hx
        path := by
          show StackPath deps (n :: st.visiting)
          cases hv : st.visiting with
          | nil => trivial
          | cons c rest => exact ⟨hpre c rest hv, hv ▸ hI.path⟩
        stackNodup := by
          show (n :: st.visiting).Nodup
          exact List.nodup_cons.mpr ⟨hnv, hI.stackNodup⟩
        closed := by
          intro u hu v hv
          rcases hI.closed u hu v hv with h | h
          · exact .inl h
          · exact .inr (List.mem_cons_of_mem _ h)
        order := hI.order }
      obtain ⟨i1, i2, i3, i4, i5⟩ := fold_spec deps f hS (deps n) n st.visiting st1 hI1 rfl (fun d hd => hd) hex
      -- abbreviations
      generalize hst2 : (deps n).foldl (fun s d => visit deps f d s) st1 = st2 at i1 i2 i3 i4 i5 hex ⊢
      have hv2 : st2.visiting = n :: st.visiting := i2
      have hn_not_visited : n ∉ st2.visited := i1.disj n (by rw [hv2]; simp)
      have hn_not_sorted : n ∉ st2.sorted := fun h => hn_not_visited ((i1.vis_sorted n).mpr h)
      refine ⟨?_, ?_, ?_, ?_, ?_⟩
      · exact {
          vis_sorted := by
            intro x
            simp only [List.mem_cons, List.mem_append, List.not_mem_nil, or_false]
            rw [i1.vis_sorted x]
            constructor
            · rintro (h | h)
              · exact .inr h
              · exact .inl h
            · rintro (h | h)
              · exact .inr h
              · exact .inl h
          nodup := by
            show (st2.sorted ++ [n]).Nodup
            rw [List.nodup_append]
            refine ⟨i1.nodup, by simp, ?_⟩
            intro a ha b hb
            simp at hb; subst hb
            intro e; subst e; exact hn_not_sorted ha
          disj := by
            intro x hx
            simp only [hv2, List.erase_cons_head] at hx
            simp only [List.mem_cons, not_or]
            refine ⟨?_, i1.disj x (by rw [hv2]; exact List.mem_cons_of_mem _ hx)⟩
            intro e; subst e; exact hnv hx
          path := by
            simp only [hv2, List.erase_cons_head]; exact hI.path
          stackNodup := by
            simp only [hv2, List.erase_cons_head]; exact hI.stackNodup
          closed := by
            intro u hu v hv
            simp only [hv2, List.erase_cons_head, List.mem_cons]
            simp only [List.mem_append, List.mem_singleton] at hu
            have key : v ∈ st2.visited ∨ v ∈ n :: st.visiting := by
              rcases hu with hu | rfl
              · have := i1.closed u hu v hv; rw [hv2] at this; exact this
              · rcases i5 v hv with h | h
                · exact .inr h
                · exact .inl h
            rcases key with h | h
            · exact .inl (.inr h)
            · simp only [List.mem_cons] at h
              rcases h with rfl | h
              · exact .inl (.inl rfl)
              · exact .inr h
          order := by
            intro u hu v hv
            simp only [List.mem_append, List.mem_singleton] at hu
            rcases hu with hu | rfl
            · rcases i1.order u hu v hv with ⟨h1, h2⟩ | h
              · left
                refine ⟨List.mem_append_left _ h1, ?_⟩
                rw [idx_app_mem h1, idx_app_mem hu]; exact h2
              · exact .inr h
            · rcases i5 v hv with h | h
              · right
                exact StackPath.reach_head (hv2 ▸ i1.path) h
              · left
                have hs : v ∈ st2.sorted := (i1.vis_sorted v).mp h
                refine ⟨List.mem_append_left _ hs, ?_⟩
                rw [idx_app_mem hs, idx_app_new hn_not_sorted]
                exact List.idxOf_lt_length_of_mem hs }
      · simp only [hv2, List.erase_cons_head]
      · exact (i3.trans (List.prefix_append _ _))
      · intro x hx; exact List.mem_cons_of_mem _ (i4 x hx)
      · right; simp
end D

namespace D
variable {α : Type} [DecidableEq α]

theorem spec_all (deps : α → List α) : ∀ f, Spec deps f := by
  intro f
  induction f with
  | zero => intro n st _ _ hex; simp [visit] at hex
  | succ f ih => exact spec_succ deps f ih

def topoSort (deps : α → List α) (fuel : Nat) (types : List α) : St α :=
  types.foldl (fun s t => if t ∈ s.visited then s else visit deps fuel t s) {}

theorem inv_init (deps : α → List α) : Inv deps ({} : St α) :=
  { vis_sorted := by intro x; simp
    nodup := by simp
    disj := by intro x hx; simp at hx
    path := trivial
    stackNodup := by simp
    closed := by intro u hu; simp at hu
    order := by intro u hu; simp at hu }

theorem topo_fold (deps : α → List α) (fuel : Nat) :
    ∀ (types : List α) (st : St α), Inv deps st → st.visiting = [] →
      (types.foldl (fun s t => if t ∈ s.visited then s else visit deps fuel t s) st).exhausted = false →
      let st' := types.foldl (fun s t => if t ∈ s.visited then s else visit deps fuel t s) st
      Inv deps st' ∧ st'.visiting = [] ∧ (∀ x, x ∈ st.visited → x ∈ st'.visited) ∧ (∀ t ∈ types, t ∈ st'.visited) := by
  intro types
  induction types with
  | nil => intro st hI hv _; exact ⟨hI, hv, fun _ h => h, by simp⟩
  | cons t ts ih =>
    intro st hI hv hex
    simp only [List.foldl_cons] at hex ⊢
    by_cases ht : t ∈ st.visited
    · simp only [ht, if_true] at hex ⊢
      obtain ⟨a, b, c, d⟩ := ih st hI hv hex
      refine ⟨a, b, c, ?_⟩
      intro t' ht'
      simp only [List.mem_cons] at ht'
      rcases ht' with rfl | ht'
      · exact c _ ht
      · exact d t' ht'
    · simp only [ht, if_false] at hex ⊢
      have hex1 : (visit deps fuel t st).exhausted = false := by
        cases h : (visit deps fuel t st).exhausted with
        | false => rfl
        | true =>
          have : ∀ (ts : List α) (s : St α), s.exhausted = true →
              (ts.foldl (fun s t => if t ∈ s.visited then s else visit deps fuel t s) s).exhausted = true := by
            intro ts
            induction ts with
            | nil => intro s hs; simpa using hs
            | cons t ts iht =>
              intro s hs; simp only [List.foldl_cons]
              apply iht
              split
              · exact hs
              · exact visit_sticky deps fuel t s hs
          rw [this ts _ h] at hex; exact absurd hex (by simp)
      have p := spec_all deps fuel t st hI (by intro c rest h; rw [hv] at h; cases h) hex1
      obtain ⟨a, b, c, d⟩ := ih _ p.inv (by rw [p.stack, hv]) hex
      refine ⟨a, b, fun x hx => c x (p.mono x hx), ?_⟩
      intro t' ht'
      simp only [List.mem_cons] at ht'
      rcases ht' with rfl | ht'
      · rcases p.done with h | h
        · rw [hv] at h; simp at h
        · exact c _ h
      · exact d t' ht'

/-- C20 (DFS half): every direct dependency precedes its dependent unless they lie on a common cycle. -/
theorem topo_edge_order (deps : α → List α) (fuel : Nat) (types : List α)
    (hex : (topoSort deps fuel types).exhausted = false) :
    let out := (topoSort deps fuel types).sorted
    out.Nodup ∧ (∀ t ∈ types, t ∈ out) ∧
    (∀ u ∈ out, ∀ v ∈ deps u, v ∈ out) ∧
    (∀ u ∈ out, ∀ v ∈ deps u, ¬ Reaches deps v u → out.idxOf v < out.idxOf u) := by
  obtain ⟨hI, hv, _, hall⟩ := topo_fold deps fuel types {} (inv_init deps) rfl hex
  refine ⟨hI.nodup, fun t ht => (hI.vis_sorted t).mp (hall t ht), ?_, ?_⟩
  · intro u hu v hvd
    rcases hI.closed u hu v hvd with h | h
    · exact (hI.vis_sorted v).mp h
    · rw [hv] at h; simp at h
  · intro u hu v hvd hnr
    rcases hI.order u hu v hvd with ⟨_, h⟩ | h
    · exact h
    · exact absurd h hnr

end D

namespace D
variable {α : Type} [DecidableEq α]

/-- `visit` always restores the stack (no invariant needed) -/
theorem visit_visiting (deps : α → List α) : ∀ (fuel : Nat) (n : α) (st : St α),
    (visit deps fuel n st).visiting = st.visiting := by
  intro fuel
  induction fuel with
  | zero => intro n st; simp [visit]
  | succ f ih =>
    intro n st
    unfold visit
    split
    · rfl
    · split
      · rfl
      · simp only
        have : ∀ (ds : List α) (s : St α),
            (ds.foldl (fun s d => visit deps f d s) s).visiting = s.visiting := by
          intro ds
          induction ds with
          | nil => intro s; rfl
          | cons d ds ihd => intro s; simp only [List.foldl_cons]; rw [ihd, ih]
        rw [this]; simp

theorem nodup_subset_length {l U : List α} (hn : l.Nodup) (hs : ∀ x ∈ l, x ∈ U) : l.length ≤ U.length := by
  induction l generalizing U with
  | nil => simp
  | cons a l ih =>
    have ha : a ∈ U := hs a (by simp)
    have hn' := List.nodup_cons.mp hn
    have : l.length ≤ (U.erase a).length := by
      apply ih hn'.2
      intro x hx
      have hxa : x ≠ a := fun e => hn'.1 (e ▸ hx)
      exact (List.mem_erase_of_ne hxa).mpr (hs x (List.mem_cons_of_mem _ hx))
    rw [List.length_erase_of_mem ha] at this
    have hpos : 0 < U.length := List.length_pos_of_mem ha
    simp only [List.length_cons]; omega

theorem visit_fuel_ok (deps : α → List α) (U : List α) (hU : ∀ x ∈ U, ∀ y ∈ deps x, y ∈ U) :
    ∀ (fuel : Nat) (n : α) (st : St α), n ∈ U → (∀ x ∈ st.visiting, x ∈ U) → st.visiting.Nodup →
      U.length < fuel + st.visiting.length → st.exhausted = false →
      (visit deps fuel n st).exhausted = false := by
  intro fuel
  induction fuel with
  | zero =>
    intro n st _ hs hn hlt _
    have := nodup_subset_length hn hs
    omega
  | succ f ih =>
    intro n st hnU hs hn hlt hex
    unfold visit
    split
    · exact hex
    · next hnv =>
      split
      · exact hex
      · simp only
        have key : ∀ (ds : List α) (s : St α), (∀ d ∈ ds, d ∈ U) → s.visiting = n :: st.visiting →
            s.exhausted = false → (ds.foldl (fun s d => visit deps f d s) s).exhausted = false := by
          intro ds
          induction ds with
          | nil => intro s _ _ h; simpa using h
          | cons d ds ihd =>
            intro s hds hv he
            simp only [List.foldl_cons]
            apply ihd _ (fun d' hd' => hds d' (List.mem_cons_of_mem _ hd'))
            · rw [visit_visiting, hv]
            · apply ih d s (hds d (by simp))
              · intro x hx; rw [hv] at hx
                simp only [List.mem_cons] at hx
                rcases hx with rfl | hx
                · exact hnU
                · exact hs x hx
              · rw [hv]; exact List.nodup_cons.mpr ⟨hnv, hn⟩
              · rw [hv]; simp only [List.length_cons]; omega
              · exact he
        exact key (deps n) _ (fun d hd => hU n hnU d hd) rfl hex

/-- with fuel `|U|+1` the sort never runs out of fuel -/
theorem topo_fuel_ok (deps : α → List α) (U : List α) (hU : ∀ x ∈ U, ∀ y ∈ deps x, y ∈ U)
    (types : List α) (ht : ∀ t ∈ types, t ∈ U) :
    (topoSort deps (U.length + 1) types).exhausted = false := by
  unfold topoSort
  have : ∀ (ts : List α) (s : St α), (∀ t ∈ ts, t ∈ U) → s.visiting = [] → s.exhausted = false →
      (ts.foldl (fun s t => if t ∈ s.visited then s else visit deps (U.length + 1) t s) s).exhausted = false := by
    intro ts
    induction ts with
    | nil => intro s _ _ h; simpa using h
    | cons t ts ih =>
      intro s hts hv he
      simp only [List.foldl_cons]
      apply ih _ (fun t' ht' => hts t' (List.mem_cons_of_mem _ ht'))
      · split
        · exact hv
        · rw [visit_visiting, hv]
      · split
        · exact he
        · exact visit_fuel_ok deps U hU _ t s (hts t (by simp)) (by rw [hv]; simp) (by rw [hv]; simp)
            (by rw [hv]; simp) he
  exact this types {} ht rfl rfl

end D

namespace D
variable {α : Type} [DecidableEq α]

/-- everything `visit n` adds is reachable from `n` -/
theorem visit_reach (deps : α → List α) : ∀ (fuel : Nat) (n : α) (st : St α) (x : α),
    x ∈ (visit deps fuel n st).sorted → x ∈ st.sorted ∨ Reaches deps n x := by
  intro fuel
  induction fuel with
  | zero => intro n st x hx; simp [visit] at hx; exact .inl hx
  | succ f ih =>
    intro n st x hx
    unfold visit at hx
    split at hx
    · exact .inl hx
    · split at hx
      · exact .inl hx
      · simp only [List.mem_append, List.mem_singleton] at hx
        have key : ∀ (ds : List α) (s : St α), (∀ d ∈ ds, d ∈ deps n) →
            x ∈ (ds.foldl (fun s d => visit deps f d s) s).sorted → x ∈ s.sorted ∨ Reaches deps n x := by
          intro ds
          induction ds with
          | nil => intro s _ h; exact .inl h
          | cons d ds ihd =>
            intro s hds h
            simp only [List.foldl_cons] at h
            rcases ihd _ (fun d' hd' => hds d' (List.mem_cons_of_mem _ hd')) h with h1 | h1
            · rcases ih d s x h1 with h2 | h2
              · exact .inl h2
              · exact .inr (.step (hds d (by simp)) h2)
            · exact .inr h1
        rcases hx with hx | rfl
        · exact key (deps n) { st with visiting := n :: st.visiting } (fun d hd => hd) hx
        · exact .inr (.refl _)

/-- C20 (DFS half): the output is exactly the set reachable from the requested types -/
theorem topo_set (deps : α → List α) (fuel : Nat) (types : List α)
    (hex : (topoSort deps fuel types).exhausted = false) (x : α) :
    x ∈ (topoSort deps fuel types).sorted ↔ ∃ t ∈ types, Reaches deps t x := by
  constructor
  · unfold topoSort
    have : ∀ (ts : List α) (s : St α),
        x ∈ (ts.foldl (fun s t => if t ∈ s.visited then s else visit deps fuel t s) s).sorted →
        x ∈ s.sorted ∨ ∃ t ∈ ts, Reaches deps t x := by
      intro ts
      induction ts with
      | nil => intro s h; exact .inl h
      | cons t ts ih =>
        intro s h
        simp only [List.foldl_cons] at h
        rcases ih _ h with h1 | ⟨t', ht', hr⟩
        · split at h1
          · exact .inl h1
          · rcases visit_reach deps fuel t s x h1 with h2 | h2
            · exact .inl h2
            · exact .inr ⟨t, by simp, h2⟩
        · exact .inr ⟨t', List.mem_cons_of_mem _ ht', hr⟩
    intro h
    rcases this types {} h with h1 | h1
    · simp at h1
    · exact h1
  · rintro ⟨t, ht, hr⟩
    obtain ⟨_, hreq, hclosed, _⟩ := topo_edge_order deps fuel types hex
    have : ∀ a b, Reaches deps a b → a ∈ (topoSort deps fuel types).sorted → b ∈ (topoSort deps fuel types).sorted := by
      intro a b hab
      induction hab with
      | refl => intro h; exact h
      | step hstep _ ih => intro h; exact ih (hclosed _ h _ hstep)
    exact this t x hr (hreq t ht)

end D
