import Typegen.TsTy
/-! Tokeniser for the emitted TypeScript subset and simple extractors over token lists
    (exported names, invoke / listen literals, schema references).  Used by the run-time oracles on the
    *real* files and by the file recogniser of C01. -/
namespace Sc
open T

inductive Tok where
  | id (s : Str)
  | str (v : Str)          -- string literal, value with escapes resolved
  | num (s : Str)
  | p (c : Char)           -- single punctuation character
  | arrow                  -- `=>`
  | spread                 -- `...`
  | qdot                   -- `?.`
  | bad (c : Char)         -- something the emitted subset never contains (unterminated literal, stray char)
  deriving DecidableEq, Repr

def isPunct (c : Char) : Bool :=
  c ∈ ['{', '}', '(', ')', '[', ']', '<', '>', ';', ':', ',', '.', '=', '|', '?', '!', '*', '&']

/-- read a quoted literal body up to the closing quote `q`; returns (value, rest) -/
def lexQuoted (q : Char) : Str → Option (Str × Str)
  | [] => none
  | '\\' :: c :: rest =>
    let v : Char := if c = 'n' then '\n' else if c = 'r' then '\r' else if c = 't' then '\t' else c
    (lexQuoted q rest).map fun (s, r) => (v :: s, r)
  | '\n' :: _ => none
  | c :: rest => if c = q then some ([], rest) else (lexQuoted q rest).map fun (s, r) => (c :: s, r)

def skipLine : Str → Str
  | [] => []
  | '\n' :: r => r
  | _ :: r => skipLine r

def skipBlock : Str → Option Str
  | [] => none
  | '*' :: '/' :: r => some r
  | _ :: r => skipBlock r

def takeWhileS (f : Char → Bool) : Str → Str × Str
  | [] => ([], [])
  | c :: cs => if f c then let (a, b) := takeWhileS f cs; (c :: a, b) else ([], c :: cs)

/-- tokenise; fuel = length bounds the number of tokens -/
def lex : Nat → Str → List Tok
  | 0, _ => []
  | _, [] => []
  | f+1, c :: cs =>
    if c = ' ' || c = '\n' || c = '\t' || c = '\r' then lex f cs
    else if c = '/' then
      match cs with
      | '/' :: r => lex f (skipLine r)
      | '*' :: r => match skipBlock r with | some r2 => lex f r2 | none => [.bad '/']
      | _ => .bad '/' :: lex f cs
    else if c = '"' || c = '\'' then
      match lexQuoted c cs with
      | some (v, r) => .str v :: lex f r
      | none => [.bad c]
    else if isIdStart c then
      let (a, r) := takeWhileS isIdChar (c :: cs)
      .id a :: lex f r
    else if c.isDigit then
      let (a, r) := takeWhileS (fun x => x.isDigit || x = '.') (c :: cs)
      .num a :: lex f r
    else if c = '-' then
      match cs with
      | d :: _ => if d.isDigit then
          let (a, r) := takeWhileS (fun x => x.isDigit || x = '.') cs
          .num ('-' :: a) :: lex f r
        else .bad '-' :: lex f cs
      | [] => [.bad '-']
    else if c = '=' then
      match cs with
      | '>' :: r => .arrow :: lex f r
      | _ => .p '=' :: lex f cs
    else if c = '.' then
      match cs with
      | '.' :: '.' :: r => .spread :: lex f r
      | _ => .p '.' :: lex f cs
    else if c = '?' then
      match cs with
      | '.' :: r => .qdot :: lex f r
      | _ => .p '?' :: lex f cs
    else if isPunct c then .p c :: lex f cs
    else .bad c :: lex f cs

def tokens (s : Str) : List Tok := lex (s.length + 1) s

def hasBad (ts : List Tok) : Bool := ts.any fun t => match t with | .bad _ => true | _ => false

/-- names after `export <kw> [async function]` at any position (the emitted files only export at top level) -/
def exportedNames : List Tok → List (Str × Str)
  | [] => []
  | t :: rest =>
    let here : List (Str × Str) :=
      match t, rest with
      | .id e, .id k :: .id n :: more =>
        if e = cl!"export" then
          if k = cl!"async" && n = cl!"function" then
            match more with
            | .id fname :: _ => [(cl!"function", fname)]
            | _ => []
          else if k = cl!"interface" || k = cl!"type" || k = cl!"const" || k = cl!"function" then [(k, n)]
          else []
        else []
      | _, _ => []
    here ++ exportedNames rest

/-- every `export async function NAME` is immediately followed by `(` or `<`: the name is one identifier token -/
def functionHeadsOk : List Tok → Bool
  | [] => true
  | t :: rest =>
    (match t, rest with
     | .id e, .id k :: .id n :: .id _ :: more =>
       if e = cl!"export" && k = cl!"async" && n = cl!"function" then
         (match more with | .p '(' :: _ => true | .p '<' :: _ => true | _ => false)
       else true
     | .id e, .id k :: .id n :: more =>
       -- `export async function` followed by something that is not an identifier at all
       if e = cl!"export" && k = cl!"async" && n = cl!"function" then (match more with | .id _ :: _ => true | _ => false) else true
     | _, _ => true) && functionHeadsOk rest

/-- string literal that is the first argument of every call of `fname` (through an optional `<…>` type argument list) -/
def skipAngles : Nat → List Tok → List Tok
  | _, [] => []
  | 0, ts => ts
  | d+1, .p '>' :: r => if d = 0 then r else skipAngles d r
  | d+1, .p '<' :: r => skipAngles (d + 2) r
  | d+1, _ :: r => skipAngles (d + 1) r

def callLiterals (fname : Str) : List Tok → List Str
  | [] => []
  | t :: rest =>
    let here : List Str :=
      match t with
      | .id f =>
        if f = fname then
          let afterTy := match rest with | .p '<' :: r => skipAngles 1 r | r => r
          match afterTy with
          | .p '(' :: .str v :: _ => [v]
          | _ => []
        else []
      | _ => []
    here ++ callLiterals fname rest

/-- `types.X` references -/
def typesRefs : List Tok → List Str
  | [] => []
  | t :: rest =>
    (match t, rest with
     | .id a, .p '.' :: .id n :: _ => if a = cl!"types" then [n] else []
     | _, _ => []) ++ typesRefs rest

/-- `export * from './x';` targets -/
def reexports : List Tok → List Str
  | [] => []
  | t :: rest =>
    (match t, rest with
     | .id e, .p '*' :: .id f :: .str v :: _ => if e = cl!"export" && f = cl!"from" then [v] else []
     | _, _ => []) ++ reexports rest

/-- statements that end with their closing brace (no `;`): interface and function declarations -/
def blockTerminated (stmtRev : List Tok) : Bool :=
  match stmtRev.reverse with
  | .id e :: .id k :: _ => e = cl!"export" && (k = cl!"interface" || k = cl!"async" || k = cl!"function")
  | _ => false

/-- split a token list into top-level statements: a statement ends at a `;` at bracket depth 0, or at the `}`
    that returns to depth 0 for interface / function declarations -/
def splitTop : List Tok → Nat → List Tok → List (List Tok)
  | [], _, cur => if cur.isEmpty then [] else [cur.reverse]
  | t :: rest, d, cur =>
    match t with
    | .p '{' | .p '(' | .p '[' => splitTop rest (d + 1) (t :: cur)
    | .p '}' => if d = 1 && blockTerminated cur then (t :: cur).reverse :: splitTop rest 0 [] else splitTop rest (d - 1) (t :: cur)
    | .p ')' | .p ']' => splitTop rest (d - 1) (t :: cur)
    | .p ';' => if d = 0 then (if cur.isEmpty then splitTop rest 0 [] else (t :: cur).reverse :: splitTop rest 0 []) else splitTop rest d (t :: cur)
    | _ => splitTop rest d (t :: cur)

def statements (ts : List Tok) : List (List Tok) := splitTop ts 0 []

def idents (ts : List Tok) : List Str := ts.filterMap fun t => match t with | .id s => some s | _ => none

/-- tokens up to the `>` that closes an already opened `<` (depth 1); returns (inside, rest after `>`) -/
def takeAngles : Nat → List Tok → List Tok → Option (List Tok × List Tok)
  | _, _, [] => none
  | d, acc, .p '>' :: r => if d = 1 then some (acc.reverse, r) else takeAngles (d - 1) (.p '>' :: acc) r
  | d, acc, .p '<' :: r => takeAngles (d + 1) (.p '<' :: acc) r
  | d, acc, t :: r => takeAngles d (t :: acc) r

/-- `listen<TYPE>('name', …)`: the subscribed name with the tokens of its payload type -/
def listenTypes : List Tok → List (Str × List Tok)
  | [] => []
  | t :: rest =>
    (match t, rest with
     | .id f, .p '<' :: r =>
       if f = cl!"listen" then
         match takeAngles 1 [] r with
         | some (ty, .p '(' :: .str v :: _) => [(v, ty)]
         | _ => []
       else []
     | _, _ => []) ++ listenTypes rest

end Sc
