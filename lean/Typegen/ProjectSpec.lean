import Typegen.Generate
import Typegen.Scan
/-! Project-level specifications, computed from the IR independently of the string detours of the tool:
    which files count, which functions are commands, which parameters Tauri fills from the frontend,
    which types are serde-defined and reachable, which events are emitted. -/
namespace Sp
open Pj An L N V

/-- a file of the project per the statement of C03: `.rs`, parses, no `target` / `.git` directory
    component below the project path -/
def specSelected (f : File) : Bool :=
  let comps := splitPath f.relPath
  let name := comps.getLast?.getD []
  let ext := S.splitOn '.' name
  (ext.length ≥ 2 && ext.getLast? = some cl!"rs" && (ext.dropLast ≠ [[]] || ext.length > 2)) && f.parses &&
  !(comps.dropLast.any fun c => c = cl!"target" || c = cl!".git")

/-- the absolute project path itself has a `target` / `.git` component (finding K03a) -/
def rootUnclean (root : Str) : Bool :=
  (splitPath root).any fun c => c = cl!"target" || c = cl!".git"

def specCommands (p : Project) : List (Str × FnItem) :=
  (p.files.filter specSelected).flatMap fun f => (fnItems f.items).filterMap fun fn =>
    if isTauriCommand fn then some (f.relPath, fn) else none

/-- framework-injected parameter types of the statement of C04 -/
def specInjected : GTy → Bool
  | .path segs =>
    let l := segList segs
    let tauriQualified := match l.head? with | some (f, _, _) => f = cl!"tauri" && l.length ≥ 2 | none => false
    match l.getLast? with
    | none => false
    | some (id, k, a) =>
      id = cl!"AppHandle" || id = cl!"WebviewWindow" ||
      ((id = cl!"State" || id = cl!"Window") && (tauriQualified || !pathArgsEmpty k a)) ||
      (id = cl!"Request" && tauriQualified)
  | _ => false

/-- is the parameter a `Channel<T>` (bare or `tauri::`-qualified) with a type argument -/
def specChannel (t : GTy) : Bool := (channelMessageType t).isSome

/-- the keys the frontend has to supply for one command: (Rust name, optional?) -/
def specKeys (fn : FnItem) : List (Str × Bool) :=
  fn.params.filterMap fun p =>
    match p.patIdent with
    | none => none
    | some n => if specInjected p.ty then none else some (n, isOptionalType p.ty && !specChannel p.ty)

mutual
/-- all identifiers of a type tree, except the error arm of `Result<T, E>` -/
def tyIdents : GTy → List Str
  | .path segs => segsIdents segs
  | .ref t | .array t | .slice t => tyIdents t
  | .tuple ts => tysIdents ts
  | .other => []
def segsIdents : GSegs → List Str
  | .nil => []
  | .cons id _ args rest =>
    (if id = cl!"Result" then (match args with | .ty t _ => tyIdents t | _ => []) else id :: argsIdents args) ++ segsIdents rest
def argsIdents : GArgs → List Str
  | .nil => []
  | .ty t rest => tyIdents t ++ argsIdents rest
  | .other rest => argsIdents rest
def tysIdents : GTys → List Str
  | .nil => []
  | .cons t rest => tyIdents t ++ tysIdents rest
end

/-- token-aware derive test: some `derive(..)` lists a path whose last segment is Serialize / Deserialize -/
def specDerivesSerde (attrs : List Attr) : Bool :=
  attrs.any fun a => a.isList && isIdent a cl!"derive" &&
    ((S.splitOn ',' a.tokens).any fun part =>
      let segs := S.splitOn ':' (part.filter (· ≠ ' '))
      segs.getLast? = some cl!"Serialize" || segs.getLast? = some cl!"Deserialize")

/-- project-defined serde types of the documented shapes: (name, field types) -/
def specSerdeTypes (p : Project) : List (Str × List GTy) :=
  (p.files.filter specSelected).flatMap fun f => f.items.filterMap fun it =>
    match it with
    | .struct s =>
      if specDerivesSerde s.attrs && s.shape ≠ .tuple then
        some (s.name, if s.shape = .unit then [] else (s.fields.filter fun fl => !((serdeTokens fl.attrs).any fun t =>
          (S.splitOn ',' t).any fun part => (part.filter (· ≠ ' ')) = cl!"skip")).map (·.ty))
      else none
    | .enum e => if specDerivesSerde e.attrs then some (e.name, []) else none
    | _ => none

/-- spec events: the analyser's walk is the documented placement set; the specification is the set of
    *distinct* names -/
def specEventNames (p : Project) : List Str :=
  ((p.files.filter specSelected).flatMap fun f => (fileEvents f.relPath f.items).map (·.name)).eraseDups

/-- closure of a name set under the field types of the serde types (fuel = number of types + 1 rounds) -/
def reachClosure (defs : List (Str × List GTy)) : Nat → List Str → List Str
  | 0, seen => seen
  | fuel+1, seen =>
    let next := (seen.flatMap fun n =>
      match defs.find? (fun d => d.1 = n) with
      | some d => d.2.flatMap tyIdents
      | none => []).filter fun n => defs.any fun d => d.1 = n
    let merged := (seen ++ next).eraseDups
    if merged.length = seen.length then seen else reachClosure defs fuel merged

/-- the serde types reachable from the public surface (C07) -/
def specReachable (p : Project) : List Str :=
  let defs := specSerdeTypes p
  let cmds := specCommands p
  let fromCmds : List Str := cmds.flatMap fun (_, fn) =>
    (fn.params.flatMap fun prm =>
      if prm.patIdent.isNone || specInjected prm.ty then []
      else tyIdents prm.ty) ++
    (match fn.ret with | some t => tyIdents t | none => [])
  -- one listener per event name: the payload type of the first emit site in file order (sorted paths) counts
  let evs := ((sortedFiles (p.files.filter specSelected)).flatMap fun f => fileEvents f.relPath f.items).foldl
    (fun acc e => if acc.any (fun k => k.name = e.name) then acc else acc ++ [e]) []
  let fromEvents : List Str := evs.map (·.payload)
  let seeds := ((fromCmds ++ fromEvents).filter fun n => defs.any fun d => d.1 = n).eraseDups
  reachClosure defs (defs.length + 1) seeds

end Sp

namespace Sp
open Pj An L

mutual
/-- the README type language inside the generic trees (`none`: outside the supported language) -/
def toRTy : GTy → Option RTy
  | .ref t => (toRTy t).map .ref
  | .tuple ts =>
    match ts with
    | .nil => some .unit
    | .cons t rest => match toRTy t, toRTys rest with
      | some a, some r => some (.tup a r)
      | _, _ => none
  | .path (.cons id kind args .nil) =>
    match kind, args with
    | .none, _ => if primNames.contains id then some (.prim id) else some (.named id)
    | .angle, .ty a .nil =>
      match toRTy a with
      | none => none
      | some x =>
        if id = cl!"Option" then some (.opt x) else if id = cl!"Vec" then some (.vec x)
        else if id = cl!"HashSet" then some (.hset x) else if id = cl!"BTreeSet" then some (.bset x)
        else if id = cl!"Result" then some (.res1 x) else none
    | .angle, .ty a (.ty b .nil) =>
      match toRTy a, toRTy b with
      | some x, some y =>
        if id = cl!"HashMap" then some (.hmap x y) else if id = cl!"BTreeMap" then some (.bmap x y)
        else if id = cl!"Result" then some (.res2 x y) else none
      | _, _ => none
    | _, _ => none
  | _ => none
def toRTys : GTys → Option RTyList
  | .nil => some .nil
  | .cons t rest => match toRTy t, toRTys rest with
    | some a, some r => some (.cons a r)
    | _, _ => none
end

end Sp
