import Typegen.Visit
/-! Specification side of C05/C18/C10: the TypeScript type AST, the canonical printer (with the
    parentheses TypeScript needs), the meaning `denote` of a Rust type expression (README table, read
    compositionally), and a precedence-aware parser of TypeScript type expressions (the recogniser:
    `|` lowest, postfix `[]`, parentheses, generics, tuples, qualified names). -/
namespace T
open L V

mutual
inductive TsTy where
  | name (n : Str)                    -- string, number, User, types.User, null
  | arr (t : TsTy)
  | union (ts : TsTyList)             -- flattened by construction in `denote`
  | tuple (ts : TsTyList)
  | app (f : Str) (args : TsTyList)   -- Record<K, V>, Promise<T>, Channel<T>
  deriving DecidableEq
inductive TsTyList where
  | nil | cons (t : TsTy) (ts : TsTyList)
  deriving DecidableEq
end

def TsTyList.toList : TsTyList → List TsTy
  | .nil => []
  | .cons t ts => t :: ts.toList
def TsTyList.ofList : List TsTy → TsTyList
  | [] => .nil
  | t :: ts => .cons t (TsTyList.ofList ts)
def TsTyList.append : TsTyList → TsTyList → TsTyList
  | .nil, b => b
  | .cons t ts, b => .cons t (ts.append b)

def tNull : TsTy := .name ['n', 'u', 'l', 'l']

/-- `T | null`, flattening: a union operand is spliced in -/
def mkOpt (t : TsTy) : TsTy :=
  match t with
  | .union ts => .union (ts.append (.cons tNull .nil))
  | t => .union (.cons t (.cons tNull .nil))

def isUnion : TsTy → Bool
  | .union _ => true
  | _ => false

/-! ### canonical printer -/
mutual
def printSpec : TsTy → Str
  | .name n => n
  | .arr t => if isUnion t then ['('] ++ printSpec t ++ [')'] ++ sArr else printSpec t ++ sArr
  | .union ts => joinWith [' ', '|', ' '] (printList ts)
  | .tuple ts => ['['] ++ joinWith sComma (printList ts) ++ [']']
  | .app f args => f ++ ['<'] ++ joinWith sComma (printList args) ++ ['>']
def printList : TsTyList → List Str
  | .nil => []
  | .cons t ts => printSpec t :: printList ts
end

/-! ### meaning of a TypeStructure / Rust type (the README table) -/
mutual
/-- structure → TS type, with the type mappings applied to custom names -/
def tsOf (m : Mappings) : TS → TsTy
  | .prim p => .name p
  | .array t => .arr (tsOf m t)
  | .map k v => .app ['R','e','c','o','r','d'] (.cons (tsOf m k) (.cons (tsOf m v) .nil))
  | .set t => .arr (tsOf m t)
  | .tuple ts => match ts with
    | .nil => .name sVoid
    | .cons t rest => .tuple (.cons (tsOf m t) (tsOfList m rest))
  | .optional t => mkOpt (tsOf m t)
  | .result t => tsOf m t
  | .custom n => .name ((lookup m n).getD n)
def tsOfList (m : Mappings) : TSList → TsTyList
  | .nil => .nil
  | .cons t ts => .cons (tsOf m t) (tsOfList m ts)
end

/-- the specification: what a supported Rust type expression denotes (independent of the string detour) -/
def denote (m : Mappings) (r : RTy) : TsTy := tsOf m (structOf r)

/-! ### exclusion predicate `PrecSafe`: no `Optional` (through `Result`) directly under `Array`/`Set` -/
def topUnion : TS → Bool
  | .optional _ => true
  | .result t => topUnion t
  | _ => false

mutual
def precSafe : TS → Bool
  | .prim _ | .custom _ => true
  | .array t | .set t => !topUnion t && precSafe t
  | .map k v => precSafe k && precSafe v
  | .tuple ts => precSafeList ts
  | .optional t | .result t => precSafe t
def precSafeList : TSList → Bool
  | .nil => true
  | .cons t ts => precSafe t && precSafeList ts
end

/-! ### `types.`-qualification: what `add_types_prefix` is meant to do -/
def isBuiltinName (n : Str) : Bool :=
  n ∈ [cl!"void", cl!"string", cl!"number", cl!"boolean", cl!"any", cl!"unknown", cl!"null", cl!"undefined", cl!"never", cl!"object"]

mutual
/-- qualify every name that is not a TS built-in (mapped names have become built-ins already) -/
def qualify : TsTy → TsTy
  | .name n => if isBuiltinName n || startsWith n sTypes then .name n else .name (sTypes ++ n)
  | .arr t => .arr (qualify t)
  | .union ts => .union (qualifyList ts)
  | .tuple ts => .tuple (qualifyList ts)
  | .app f args => .app f (qualifyList args)
def qualifyList : TsTyList → TsTyList
  | .nil => .nil
  | .cons t ts => .cons (qualify t) (qualifyList ts)
end

/-! ### recogniser for TypeScript type expressions

Grammar (sub-grammar of TypeScript's `Type` production):
```
union   ::= postfix (' | ' postfix)*            -- UnionType
postfix ::= primary ('[]')*                     -- ArrayType
primary ::= '(' union ')'                       -- ParenthesizedType
          | '[' union (',' union)* ']'          -- TupleType
          | qname ('<' union (',' union)* '>')? -- TypeReference
qname   ::= ident ('.' ident)*
```
Whitespace is skipped between tokens.  Fuel-based, structurally recursive. -/
def isLetter (c : Char) : Bool := ('a' ≤ c ∧ c ≤ 'z') ∨ ('A' ≤ c ∧ c ≤ 'Z')
/-- beyond ASCII: the code points `char::is_alphabetic` accepts (an approximation of ECMAScript's `ID_Start` /
    `ID_Continue` that is exact on the scripts the generators use) -/
def isUniLetter (c : Char) : Bool := 128 ≤ c.toNat && L.inRanges Gen.alphaRanges c.toNat
def isDigitC (c : Char) : Bool := '0' ≤ c ∧ c ≤ '9'
/-- IdentifierStart / IdentifierPart of the ASCII identifiers the tool can emit -/
def isIdStart (c : Char) : Bool := isLetter c || c = '_' || c = '$' || isUniLetter c
def isIdChar (c : Char) : Bool := isLetter c || isDigitC c || c = '_' || c = '$' || isUniLetter c

/-- ECMAScript reserved words (+ strict-mode / module-code reserved identifiers) that are legal Rust identifiers
    or can arise from them -/
def jsReserved : List Str :=
  [cl!"break", cl!"case", cl!"catch", cl!"class", cl!"const", cl!"continue", cl!"debugger", cl!"default", cl!"delete",
   cl!"do", cl!"else", cl!"enum", cl!"export", cl!"extends", cl!"false", cl!"finally", cl!"for", cl!"function", cl!"if",
   cl!"import", cl!"in", cl!"instanceof", cl!"new", cl!"null", cl!"return", cl!"super", cl!"switch", cl!"this", cl!"throw",
   cl!"true", cl!"try", cl!"typeof", cl!"var", cl!"void", cl!"while", cl!"with", cl!"yield", cl!"let", cl!"static",
   cl!"implements", cl!"interface", cl!"package", cl!"private", cl!"protected", cl!"public", cl!"await", cl!"arguments", cl!"eval"]

/-- a legal TypeScript binding identifier (ASCII letters, digits, `_`, `$`; not starting with a digit; not reserved) -/
def isTsIdentName (s : Str) : Bool :=
  match s with
  | [] => false
  | c :: cs => isIdStart c && cs.all isIdChar && !jsReserved.contains s

def skipWs : Str → Str
  | ' ' :: s => skipWs s
  | s => s

def takeIdent : Str → Str × Str
  | [] => ([], [])
  | c :: cs => if isIdChar c then let (a, b) := takeIdent cs; (c :: a, b) else ([], c :: cs)

/-- `ident ('.' ident)*`, returned as one dotted name -/
def takeQName : Nat → Str → Option (Str × Str)
  | 0, _ => none
  | f+1, s =>
    match s with
    | c :: _ =>
      if isIdStart c then
        let (a, rest) := takeIdent s
        match rest with
        | '.' :: r2 =>
          match takeQName f r2 with
          | some (b, r3) => some (a ++ ['.'] ++ b, r3)
          | none => none
        | _ => some (a, rest)
      else none
    | [] => none

mutual
def pUnion : Nat → Str → Option (TsTy × Str)
  | 0, _ => none
  | f+1, s =>
    match pPostfix f s with
    | none => none
    | some (t, rest) => pUnionTail f [t] rest
/-- after one operand: more `| operand`; flattens into one union -/
def pUnionTail : Nat → List TsTy → Str → Option (TsTy × Str)
  | 0, _, _ => none
  | f+1, acc, s =>
    match skipWs s with
    | '|' :: r =>
      match pPostfix f (skipWs r) with
      | none => none
      | some (t, rest) => pUnionTail f (acc ++ [t]) rest
    | rest =>
      match acc with
      | [t] => some (t, rest)
      | ts => some (.union (TsTyList.ofList ts), rest)
def pPostfix : Nat → Str → Option (TsTy × Str)
  | 0, _ => none
  | f+1, s =>
    match pPrimary f (skipWs s) with
    | none => none
    | some (t, rest) => pArrSuffix f t rest
def pArrSuffix : Nat → TsTy → Str → Option (TsTy × Str)
  | 0, _, _ => none
  | f+1, t, s =>
    match s with
    | '[' :: ']' :: r => pArrSuffix f (.arr t) r
    | _ => some (t, s)
def pPrimary : Nat → Str → Option (TsTy × Str)
  | 0, _ => none
  | f+1, s =>
    match s with
    | '(' :: r =>
      match pUnion f (skipWs r) with
      | some (t, rest) =>
        match skipWs rest with
        | ')' :: r2 => some (t, r2)
        | _ => none
      | none => none
    | '[' :: r =>
      match pList f (skipWs r) with
      | some (ts, rest) =>
        match skipWs rest with
        | ']' :: r2 => some (.tuple (TsTyList.ofList ts), r2)
        | _ => none
      | none => none
    | _ =>
      match takeQName (s.length + 1) s with
      | none => none
      | some (n, rest) =>
        match rest with
        | '<' :: r =>
          match pList f (skipWs r) with
          | some (args, rest2) =>
            match skipWs rest2 with
            | '>' :: r3 => some (.app n (TsTyList.ofList args), r3)
            | _ => none
          | none => none
        | _ => some (.name n, rest)
/-- non-empty comma-separated list -/
def pList : Nat → Str → Option (List TsTy × Str)
  | 0, _ => none
  | f+1, s =>
    match pUnion f s with
    | none => none
    | some (t, rest) =>
      match skipWs rest with
      | ',' :: r =>
        match pList f (skipWs r) with
        | some (ts, rest2) => some (t :: ts, rest2)
        | none => none
      | rest' => some ([t], rest')
end

/-- whole-string parse -/
def parseTsTy (s : Str) : Option TsTy :=
  match pUnion (4 * s.length + 8) (skipWs s) with
  | some (t, rest) => if skipWs rest = [] then some t else none
  | none => none

/-! ### normal form used by the run-time oracle: unions flattened, duplicate members removed -/
mutual
def norm : TsTy → TsTy
  | .name n => .name n
  | .arr t => .arr (norm t)
  | .union ts =>
    let flat := (normList ts).toList.flatMap (fun t => match t with | .union us => us.toList | t => [t])
    match flat.eraseDups with
    | [t] => t
    | l => .union (TsTyList.ofList l)
  | .tuple ts => .tuple (normList ts)
  | .app f args => .app f (normList args)
def normList : TsTyList → TsTyList
  | .nil => .nil
  | .cons t ts => .cons (norm t) (normList ts)
end

end T
