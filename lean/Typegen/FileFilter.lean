import Typegen.ProjectSpec
/-! C03: the tool's substring filter on the full path is the statement's component filter, for clean project paths;
    the discovered commands are exactly the specified ones. -/
namespace An
open Pj A S Sp

theorem containsSub_iff (pat s : Str) : containsSub pat s = true ↔ ∃ a b, s = a ++ pat ++ b := by
  unfold containsSub
  constructor
  · intro h
    by_cases hn : findSub pat s = none
    · simp [hn] at h
    · have := mt (findSub_none_iff (pat := pat) (s := s)).mpr hn
      simpa using this
  · intro ⟨a, b, h⟩
    cases hf : findSub pat s with
    | none => exact absurd h ((findSub_none_iff.mp hf) a b)
    | some k => rfl

/-- splitting distributes over a separator -/
theorem splitOn_sep (c : Char) (a b : Str) : splitOn c (a ++ c :: b) = splitOn c a ++ splitOn c b := by
  induction a with
  | nil => simp [splitOn]
  | cons x xs ih =>
    by_cases hx : x = c
    · subst hx; simp [splitOn, ih]
    · have hne := splitOn_ne_nil c xs
      simp only [List.cons_append, splitOn, hx, if_false, ih]
      cases hs : splitOn c xs with
      | nil => exact absurd hs hne
      | cons h t => simp

def joinSl : List Str → Str
  | [] => []
  | [a] => a
  | a :: b :: rest => a ++ '/' :: joinSl (b :: rest)

theorem joinSl_split (s : Str) : joinSl (splitOn '/' s) = s := by
  induction s with
  | nil => rfl
  | cons x xs ih =>
    unfold splitOn
    have hne := splitOn_ne_nil '/' xs
    split
    · next hx =>
      subst hx
      cases hs : splitOn '/' xs with
      | nil => exact absurd hs hne
      | cons a t => rw [hs] at ih; simp [joinSl, ih]
    · cases hs : splitOn '/' xs with
      | nil => exact absurd hs hne
      | cons a t =>
        rw [hs] at ih
        cases t with
        | nil => simp [joinSl] at ih ⊢; exact ih
        | cons b r => simp [joinSl] at ih ⊢; exact ih

theorem joinSl_append (A B : List Str) (hA : A ≠ []) (hB : B ≠ []) : joinSl (A ++ B) = joinSl A ++ '/' :: joinSl B := by
  induction A with
  | nil => exact absurd rfl hA
  | cons a t ih =>
    cases t with
    | nil =>
      cases B with
      | nil => exact absurd rfl hB
      | cons b r => simp [joinSl]
    | cons a2 t2 =>
      have := ih (by simp)
      simp only [List.cons_append] at this ⊢
      simp [joinSl, this]

/-- `"/w/"` occurs in `s` iff `w` is a component of `s` that is neither the first nor the last -/
theorem contains_component (w s : Str) (hw : '/' ∉ w) :
    containsSub ('/' :: w ++ ['/']) s = true ↔ ∃ A B, A ≠ [] ∧ B ≠ [] ∧ splitOn '/' s = A ++ [w] ++ B := by
  rw [containsSub_iff]
  constructor
  · rintro ⟨a, b, rfl⟩
    refine ⟨splitOn '/' a, splitOn '/' b, splitOn_ne_nil _ _, splitOn_ne_nil _ _, ?_⟩
    have : a ++ ('/' :: w ++ ['/']) ++ b = a ++ '/' :: (w ++ '/' :: b) := by simp
    rw [this, splitOn_sep, splitOn_app '/' w b hw]
    simp
  · rintro ⟨A, B, hA, hB, h⟩
    refine ⟨joinSl A, joinSl B, ?_⟩
    have := congrArg joinSl h
    rw [joinSl_split] at this
    rw [this, List.append_assoc, joinSl_append A ([w] ++ B) hA (by simp)]
    cases B with
    | nil => exact absurd rfl hB
    | cons b r => simp [joinSl]

end An

namespace An
open Pj A S Sp

theorem mem_dropLast_iff (w : Str) (L : List Str) : w ∈ L.dropLast ↔ ∃ A B, B ≠ [] ∧ L = A ++ [w] ++ B := by
  constructor
  · intro h
    obtain ⟨A, B', hd⟩ := List.append_of_mem h
    have hne : L ≠ [] := by intro e; simp [e] at h
    have hl := (List.dropLast_concat_getLast hne).symm
    refine ⟨A, B' ++ [L.getLast hne], by simp, ?_⟩
    calc L = L.dropLast ++ [L.getLast hne] := hl
      _ = A ++ [w] ++ (B' ++ [L.getLast hne]) := by rw [hd]; simp
  · rintro ⟨A, B, hB, rfl⟩
    have : (A ++ [w] ++ B).dropLast = A ++ [w] ++ B.dropLast := by
      rw [List.dropLast_append_of_ne_nil hB]
    rw [this]; simp

/-- with a root none of whose components is `w`: `w` is an inner component of `root/rel` iff it is a directory
    component of `rel` -/
theorem mid_component (w : Str) (R L : List Str) (hR : w ∉ R) (hRne : R ≠ []) :
    (∃ A B, A ≠ [] ∧ B ≠ [] ∧ R ++ L = A ++ [w] ++ B) ↔ w ∈ L.dropLast := by
  rw [mem_dropLast_iff]
  constructor
  · rintro ⟨A, B, _, hB, h⟩
    have h' : R ++ L = A ++ ([w] ++ B) := by simpa using h
    rcases List.append_eq_append_iff.mp h' with ⟨a', rfl, hL⟩ | ⟨c', rfl, hc⟩
    · exact ⟨a', B, hB, by simpa using hL⟩
    · -- A ++ c' = R … then `w` would be in R unless c' = []
      cases c' with
      | nil => exact ⟨[], B, hB, by simpa using hc.symm⟩
      | cons x xs =>
        have : w = x := by
          have := congrArg List.head? hc
          simpa using this
        subst this
        exact absurd (by simp) hR
  · rintro ⟨A, B, hB, rfl⟩
    exact ⟨R ++ A, B, by simp [hRne], hB, by simp⟩

theorem contains_full (w root rel : Str) (hw : '/' ∉ w) (hR : w ∉ splitOn '/' root) :
    containsSub ('/' :: w ++ ['/']) (root ++ ['/'] ++ rel) = decide (w ∈ (splitOn '/' rel).dropLast) := by
  have e : root ++ ['/'] ++ rel = root ++ '/' :: rel := by simp
  rw [e]
  have := contains_component w (root ++ '/' :: rel) hw
  rw [splitOn_sep, mid_component w _ _ hR (splitOn_ne_nil _ _)] at this
  by_cases hm : w ∈ (splitOn '/' rel).dropLast
  · rw [this.mpr hm]; simp [hm]
  · have h2 : containsSub ('/' :: w ++ ['/']) (root ++ '/' :: rel) = false := by
      cases hc : containsSub ('/' :: w ++ ['/']) (root ++ '/' :: rel) with
      | false => rfl
      | true => exact absurd (this.mp hc) hm
    rw [h2]; simp [hm]

/-- **C03, file filter = the statement's**: for a project path none of whose components is `target` or `.git`,
    the tool's substring filter on the full path selects exactly the files the statement names (extension `.rs`,
    parses, no `target` / `.git` directory component below the project path). -/
theorem C03_filter_is_spec (root : Str) (f : File) (h : rootUnclean root = false) :
    fileSelected root f = specSelected f := by
  have hr : cl!"target" ∉ splitOn '/' root ∧ cl!".git" ∉ splitOn '/' root := by
    unfold rootUnclean at h
    simp only [List.any_eq_false, Bool.or_eq_true, decide_eq_true_eq, not_or] at h
    exact ⟨fun hm => (h _ hm).1 rfl, fun hm => (h _ hm).2 rfl⟩
  have h1 := contains_full cl!"target" root f.relPath (by decide) hr.1
  have h2 := contains_full cl!".git" root f.relPath (by decide) hr.2
  unfold fileSelected specSelected
  simp only [splitPath] at *
  have e1 : cl!"/target/" = '/' :: cl!"target" ++ ['/'] := rfl
  have e2 : cl!"/.git/" = '/' :: cl!".git" ++ ['/'] := rfl
  rw [e1, e2, h1, h2]
  have e3 : ((splitOn '/' f.relPath).dropLast.any fun c => decide (c = cl!"target") || decide (c = cl!".git")) =
      (decide (cl!"target" ∈ (splitOn '/' f.relPath).dropLast) || decide (cl!".git" ∈ (splitOn '/' f.relPath).dropLast)) := by
    generalize (splitOn '/' f.relPath).dropLast = l
    rw [Bool.eq_iff_iff]
    simp only [List.any_eq_true, Bool.or_eq_true, decide_eq_true_eq]
    constructor
    · rintro ⟨x, hx, h | h⟩
      · exact .inl (h ▸ hx)
      · exact .inr (h ▸ hx)
    · rintro (h | h)
      · exact ⟨_, h, .inl rfl⟩
      · exact ⟨_, h, .inr rfl⟩
  rw [e3]
  cases f.parses <;> cases decide (cl!"target" ∈ (splitOn '/' f.relPath).dropLast) <;>
    cases decide (cl!".git" ∈ (splitOn '/' f.relPath).dropLast) <;> simp

end An

namespace An
open Pj A S Sp

theorem insertFile_perm' (f : File) : ∀ (l : List File), (insertFile f l).Perm (f :: l)
  | [] => List.Perm.refl _
  | g :: gs => by
    unfold insertFile
    split
    · exact List.Perm.refl _
    · exact ((insertFile_perm' f gs).cons g).trans (List.Perm.swap f g gs)

theorem sortedFiles_perm_self : ∀ (l : List File), (sortedFiles l).Perm l
  | [] => List.Perm.refl _
  | f :: fs => (insertFile_perm' f _).trans ((sortedFiles_perm_self fs).cons f)

theorem fileCommands_names (file : Str) (items : List Item) :
    (fileCommands file items).map (·.name) =
      ((fnItems items).filterMap fun fn => if isTauriCommand fn then some (file, fn) else none).map (·.2.name) := by
  unfold fileCommands
  generalize fnItems items = l
  have : ∀ (first : FnItem → Option FnItem) (l : List FnItem),
      (l.filterMap fun f => if isTauriCommand f then
          some { commandOf file f with channels := match first f with | some g => extractChannels g.params | none => [] }
        else none).map (·.name) =
      (l.filterMap fun fn => if isTauriCommand fn then some (file, fn) else none).map (·.2.name) := by
    intro first l
    induction l with
    | nil => rfl
    | cons x xs ih =>
      simp only [List.filterMap_cons]
      by_cases hx : isTauriCommand x = true
      · simp only [hx, if_true, List.map_cons, ih]; rfl
      · simp only [hx, Bool.false_eq_true, if_false, ih]
  exact this (fun f => l.find? fun g => g.name = f.name) l

/-- **C03 (full, for clean project paths)**: the discovered commands are, up to order, exactly the top-level
    functions with a command attribute in the files the statement names -/
theorem C03_commands_exactly_spec (p : Project) (h : rootUnclean p.absRoot = false) :
    ((analyze p).commands.map (·.name)).Perm ((specCommands p).map (·.2.name)) := by
  have hf : p.files.filter (fileSelected p.absRoot) = p.files.filter specSelected := by
    congr 1; funext f; exact C03_filter_is_spec p.absRoot f h
  have hc : (analyze p).commands =
      (sortedFiles (p.files.filter (fileSelected p.absRoot))).flatMap fun f => fileCommands f.relPath f.items := rfl
  rw [hc, hf]
  unfold specCommands
  rw [List.map_flatMap, List.map_flatMap]
  have hp := sortedFiles_perm_self (p.files.filter specSelected)
  refine (hp.flatMap_right _).trans ?_
  apply List.Perm.of_eq
  congr 1
  funext f
  exact fileCommands_names f.relPath f.items

end An
