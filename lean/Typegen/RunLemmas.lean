import Typegen.Run
/-! Lemmas about the run model: what a sequence of writes does, and the preservation of `Inv` by
    every prefix of a plan. -/
namespace R

variable {Src Cfg Key Content : Type}

theorem nodup_map_inj {α β : Type} (f : α → β) : ∀ (l : List α), (l.map f).Nodup →
    ∀ a ∈ l, ∀ b ∈ l, f a = f b → a = b
  | [], _, a, ha, _, _, _ => by simp at ha
  | x :: xs, h, a, ha, b, hb, e => by
    rw [List.map_cons] at h
    obtain ⟨hx, hxs⟩ := List.nodup_cons.mp h
    rcases List.mem_cons.mp ha with rfl | ha' <;> rcases List.mem_cons.mp hb with rfl | hb'
    · rfl
    · exact absurd (List.mem_map.mpr ⟨b, hb', e.symm⟩) hx
    · exact absurd (List.mem_map.mpr ⟨a, ha', e⟩) hx
    · exact nodup_map_inj f xs hxs a ha' b hb' e

def writes (fs : List (Name × Content)) : List (Op Key Content) := fs.map fun p => Op.write p.1 p.2

theorem applyOps_append (o : Out Key Content) (a b : List (Op Key Content)) :
    applyOps o (a ++ b) = applyOps (applyOps o a) b := by
  simp [applyOps, List.foldl_append]

theorem applyOps_cons (o : Out Key Content) (a : Op Key Content) (b : List (Op Key Content)) :
    applyOps o (a :: b) = applyOps (applyOp o a) b := rfl

/-- writing files does not touch the cache record -/
theorem writes_cache (o : Out Key Content) (fs : List (Name × Content)) :
    (applyOps o (writes fs)).cache = o.cache := by
  induction fs generalizing o with
  | nil => rfl
  | cons p ps ih =>
    simp only [writes, List.map_cons, applyOps_cons] at ih ⊢
    rw [ih]; rfl

theorem take_writes (fs : List (Name × Content)) (k : Nat) :
    (writes fs : List (Op Key Content)).take k = writes (fs.take k) := by
  simp [writes, List.map_take]

/-- a name that is not written keeps its content -/
theorem writes_other (o : Out Key Content) (fs : List (Name × Content)) (x : Name)
    (hx : ∀ p ∈ fs, p.1 ≠ x) : (applyOps o (writes fs)).files x = o.files x := by
  induction fs generalizing o with
  | nil => rfl
  | cons p ps ih =>
    simp only [writes, List.map_cons, applyOps_cons] at ih ⊢
    rw [ih _ (fun q hq => hx q (List.mem_cons_of_mem _ hq))]
    have : x ≠ p.1 := fun e => hx p (by simp) e.symm
    simp [applyOp, this]

/-- after writing a list with distinct names every listed file has the listed content -/
theorem writes_all (o : Out Key Content) (fs : List (Name × Content)) (hd : NamesDistinct fs) :
    ∀ p ∈ fs, (applyOps o (writes fs)).files p.1 = some p.2 := by
  induction fs generalizing o with
  | nil => intro p hp; simp at hp
  | cons q qs ih =>
    intro p hp
    have hd' : q.1 ∉ qs.map (·.1) ∧ (qs.map (·.1)).Nodup := by
      unfold NamesDistinct at hd
      rw [List.map_cons] at hd
      exact List.nodup_cons.mp hd
    simp only [writes, List.map_cons, applyOps_cons]
    simp only [List.mem_cons] at hp
    rcases hp with rfl | hp
    · have := writes_other (applyOp o (.write p.1 p.2)) qs p.1 (by
        intro r hr e
        exact hd'.1 (List.mem_map.mpr ⟨r, hr, e⟩))
      simp only [writes] at this
      rw [this]; simp [applyOp]
    · exact ih _ hd'.2 p hp

/-- a partial sequence of writes leaves each listed file present-and-right or as it was -/
theorem writes_partial (o : Out Key Content) (fs : List (Name × Content)) (hd : NamesDistinct fs) (k : Nat) :
    ∀ p ∈ fs, (applyOps o (writes (fs.take k))).files p.1 = some p.2 ∨
              (applyOps o (writes (fs.take k))).files p.1 = o.files p.1 := by
  intro p hp
  by_cases hin : p ∈ fs.take k
  · left
    have hdk : NamesDistinct (fs.take k) := by
      unfold NamesDistinct at hd ⊢
      rw [List.map_take]
      exact List.Sublist.nodup (List.take_sublist _ _) hd
    exact writes_all o (fs.take k) hdk p hin
  · right
    apply writes_other
    intro q hq e
    -- q ∈ take k fs with the same name as p ∈ fs: names distinct ⇒ q = p, contradiction
    have hq' : q ∈ fs := List.mem_of_mem_take hq
    have : q = p := by
      unfold NamesDistinct at hd
      exact nodup_map_inj (·.1) fs hd q hq' p hp e
    exact hin (this ▸ hq)

variable [DecidableEq Key]

theorem plan_eq (S : Sys Src Cfg Key Content) (src : Src) (cfg : Cfg) :
    plan S src cfg = .removeCache :: (writes (S.gen src cfg) ++ [.writeCache (S.key src cfg)]) := rfl

theorem plan_length (S : Sys Src Cfg Key Content) (src : Src) (cfg : Cfg) :
    (plan S src cfg).length = (S.gen src cfg).length + 2 := by
  simp [plan]

/-- the complete plan: all files current, record = current key -/
theorem plan_full (S : Sys Src Cfg Key Content) (src : Src) (cfg : Cfg) (o : Out Key Content)
    (hd : NamesDistinct (S.gen src cfg)) :
    Current (applyOps o (plan S src cfg)) (S.gen src cfg) ∧
    (applyOps o (plan S src cfg)).cache = some (S.key src cfg) := by
  rw [plan_eq, applyOps_cons, applyOps_append]
  constructor
  · intro p hp
    have := writes_all (applyOp o Op.removeCache) (S.gen src cfg) hd p hp
    simpa [applyOps, applyOp] using this
  · simp [applyOps, applyOp]

/-- every proper prefix of the plan (at least the invalidation, not yet the record) leaves no cache record -/
theorem plan_prefix_cache (S : Sys Src Cfg Key Content) (src : Src) (cfg : Cfg) (o : Out Key Content) (k : Nat)
    (h1 : 1 ≤ k) (h2 : k ≤ (S.gen src cfg).length + 1) :
    (applyOps o ((plan S src cfg).take k)).cache = none := by
  rw [plan_eq]
  obtain ⟨j, rfl⟩ : ∃ j, k = j + 1 := ⟨k - 1, by omega⟩
  rw [List.take_succ_cons, applyOps_cons]
  have hj : j ≤ (writes (S.gen src cfg) : List (Op Key Content)).length := by simp [writes]; omega
  rw [List.take_append_of_le_length hj, take_writes, writes_cache]
  rfl

/-- **C17 (crash points)**: `Inv` holds after every prefix of a regenerating run -/
theorem inv_prefix (S : Sys Src Cfg Key Content) (src : Src) (cfg : Cfg) (o : Out Key Content)
    (keySound : ∀ s c s' c', S.key s c = S.key s' c' → S.gen s c = S.gen s' c')
    (hd : NamesDistinct (S.gen src cfg)) (hI : Inv S o) (k : Nat) :
    Inv S (crashed S src cfg k o) := by
  unfold crashed
  by_cases h0 : k = 0
  · subst h0; simpa [applyOps] using hI
  by_cases hk : k ≤ (S.gen src cfg).length + 1
  · intro s c h
    rw [plan_prefix_cache S src cfg o k (by omega) hk] at h
    cases h
  · have : (plan S src cfg).take k = plan S src cfg := by
      apply List.take_of_length_le
      rw [plan_length]; omega
    rw [this]
    obtain ⟨hc, hk⟩ := plan_full S src cfg o hd
    intro s c h
    rw [hk] at h
    simp only [Option.some.injEq] at h
    rw [keySound s c src cfg h.symm]
    intro p hp
    exact .inl (hc p hp)

end R
